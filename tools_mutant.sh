#!/bin/bash
# usage: tools_mutant.sh <check-id> <file> <old-text> <new-text>
# Applies a textual mutation to a scratch worktree of /repo's HEAD, runs that package's own tests and the check, reverts.
id=$1; file=$2; old=$3; new=$4
M=/tmp/mutrepo
head=$(git -C /repo rev-parse HEAD)
if [ ! -d $M ]; then git -C /repo worktree add -q --detach $M $head || exit 3; fi
git -C $M checkout -q --detach $head && git -C $M checkout -q -- . && git -C $M clean -fdq
cd $M || exit 1
python3 - "$file" "$old" "$new" <<'PY'
import sys
p,old,new=sys.argv[1],sys.argv[2],sys.argv[3]
s=open(p).read()
if old not in s:
    print("MUTANT: pattern not found"); sys.exit(3)
open(p,'w').write(s.replace(old,new,1))
PY
[ $? -eq 0 ] || exit 3
pkg=./$(dirname $file)
if go build ./... 2>/tmp/mut_build.txt; then
  echo "repo tests: $(GOFLAGS=-mod=mod GOPROXY=off GOSUMDB=off go test -count=1 $pkg 2>&1 | tail -1)"
  cd /verif && VERIF_REPO=$M ./check $id --no-evidence ${TIER:+--tier $TIER} 2>&1 | grep -E "sig=|^$id " | head -${LINES_MAX:-6}
else
  echo "MUTANT does not compile"; head -5 /tmp/mut_build.txt
fi
git -C $M checkout -q -- . && git -C $M clean -fdq
