module instr

go 1.22
