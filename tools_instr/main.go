// instr inserts a pause point (zzpause.At("<file>:<line>")) before every statement of every function body of a Go
// source file and swaps the "sync" import for the lock-counting shim, for the E4 pause-point explorer
// (DESIGN 9.13). The copy is injected with -overlay; /repo is not written.
//
// usage: instr -out OUT [-skip Recv.Func,Func,...] [-only Recv.Func,...] [-nosync] SRC
package main

import (
	"bytes"
	"flag"
	"fmt"
	"go/ast"
	"go/format"
	"go/parser"
	"go/token"
	"os"
	"path/filepath"
	"strconv"
	"strings"
)

const (
	pausePath = "github.com/IrineSistiana/mosproxy/internal/zzverif/pause"
	psyncPath = "github.com/IrineSistiana/mosproxy/internal/zzverif/psync"
)

var (
	fset  = token.NewFileSet()
	base  string
	count int
)

func mark(pos token.Pos) ast.Stmt {
	count++
	p := fset.Position(pos)
	return &ast.ExprStmt{X: &ast.CallExpr{
		Fun:  &ast.SelectorExpr{X: ast.NewIdent("zzpause"), Sel: ast.NewIdent("At")},
		Args: []ast.Expr{&ast.BasicLit{Kind: token.STRING, Value: strconv.Quote(fmt.Sprintf("%s:%d", base, p.Line))}},
	}}
}

func instrList(list []ast.Stmt) []ast.Stmt {
	out := make([]ast.Stmt, 0, 2*len(list))
	for _, s := range list {
		instrStmt(s)
		if sel, ok := s.(*ast.SelectStmt); ok && !*noSel {
			if own := ownSelect(sel); own != nil {
				if !*selOnly {
					out = append(out, mark(s.Pos()))
				}
				out = append(out, own)
				continue
			}
		}
		if pureLocal(s) || *selOnly {
			// the statement touches only locals of this goroutine: standing still before it is the same as
			// standing still after it, which the next pause point covers
			out = append(out, s)
			continue
		}
		out = append(out, mark(s.Pos()), s)
	}
	return out
}

// pureLocal: a declaration, assignment or increment made only of identifiers, literals, operators and the builtins
// len/cap/make/append/new - no call, no selector, no index, no dereference, no channel operation, no function literal.
// (An identifier may still be a package-level variable: those are rare here and a read of one is treated like a
// local read; what matters is that nothing another goroutine waits for happens in the statement.)
func pureLocal(s ast.Stmt) bool {
	switch s.(type) {
	case *ast.AssignStmt, *ast.DeclStmt, *ast.IncDecStmt, *ast.EmptyStmt:
	default:
		return false
	}
	pure := true
	ast.Inspect(s, func(n ast.Node) bool {
		switch x := n.(type) {
		case *ast.CallExpr:
			if id, ok := x.Fun.(*ast.Ident); ok {
				switch id.Name {
				case "len", "cap", "make", "append", "new", "bool", "int", "uint16", "uint32", "int64", "byte", "string":
					return true
				}
			}
			if _, ok := x.Fun.(*ast.ArrayType); ok {
				return true
			}
			pure = false
		case *ast.SelectorExpr, *ast.IndexExpr, *ast.StarExpr, *ast.FuncLit, *ast.SliceExpr:
			pure = false
		case *ast.UnaryExpr:
			if x.Op == token.ARROW || x.Op == token.AND {
				pure = false
			}
		}
		return pure
	})
	return pure
}

// instrExpr looks for function literals inside an expression.
func instrExpr(n ast.Node) {
	if n == nil {
		return
	}
	ast.Inspect(n, func(x ast.Node) bool {
		if fl, ok := x.(*ast.FuncLit); ok {
			fl.Body.List = instrList(fl.Body.List)
			return false
		}
		return true
	})
}

func instrStmt(s ast.Stmt) {
	switch s := s.(type) {
	case *ast.BlockStmt:
		s.List = instrList(s.List)
	case *ast.IfStmt:
		if s.Init != nil {
			instrExpr(s.Init)
		}
		instrExpr(s.Cond)
		s.Body.List = instrList(s.Body.List)
		if s.Else != nil {
			instrStmt(s.Else)
		}
	case *ast.ForStmt:
		if s.Init != nil {
			instrExpr(s.Init)
		}
		if s.Cond != nil {
			instrExpr(s.Cond)
		}
		if s.Post != nil {
			instrExpr(s.Post)
		}
		s.Body.List = instrList(s.Body.List)
	case *ast.RangeStmt:
		instrExpr(s.X)
		s.Body.List = instrList(s.Body.List)
	case *ast.SwitchStmt:
		if s.Init != nil {
			instrExpr(s.Init)
		}
		if s.Tag != nil {
			instrExpr(s.Tag)
		}
		for _, c := range s.Body.List {
			cc := c.(*ast.CaseClause)
			for _, e := range cc.List {
				instrExpr(e)
			}
			cc.Body = instrList(cc.Body)
		}
	case *ast.TypeSwitchStmt:
		for _, c := range s.Body.List {
			cc := c.(*ast.CaseClause)
			cc.Body = instrList(cc.Body)
		}
	case *ast.SelectStmt:
		for _, c := range s.Body.List {
			cc := c.(*ast.CommClause)
			cc.Body = instrList(cc.Body)
		}
	case *ast.LabeledStmt:
		instrStmt(s.Stmt)
	default:
		instrExpr(s)
	}
}

var (
	selOnly  = flag.Bool("selonly", false, "no pause points and no sync swap: only the selects become choice points")
	noSel    = flag.Bool("nosel", false, "leave select statements alone")
	selCount int
)

func sel(x, name string) ast.Expr { return &ast.SelectorExpr{X: ast.NewIdent(x), Sel: ast.NewIdent(name)} }

// ownSelect makes the outcome of a blocking receive-only select with several cases a decision of the explorer where
// the Go runtime would draw a random number: the channel operands are evaluated once (as select does), the run-time side
// is told which of them are ready, and if it names a case, that case is polled first; otherwise (or if the poll finds
// nothing) the original select runs. Every outcome is one the original statement can have.
//
//	{
//		zzc0 := <operand 0>; zzc1 := <operand 1>; ...
//		switch zzpause.Sel("<file>:<line>", zzpause.Rdy(zzc0), zzpause.Rdy(zzc1), ...) {
//		case 0: select { case <-zzc0: <body 0>; default: <the original, on zzc0, zzc1, ...> }
//		case 1: ...
//		default: <the original, on zzc0, zzc1, ...>
//		}
//	}
func ownSelect(s *ast.SelectStmt) ast.Stmt {
	if len(s.Body.List) < 2 {
		return nil
	}
	var recvs []*ast.UnaryExpr
	for _, c := range s.Body.List {
		cc := c.(*ast.CommClause)
		var u *ast.UnaryExpr
		switch m := cc.Comm.(type) {
		case *ast.ExprStmt:
			u, _ = m.X.(*ast.UnaryExpr)
		case *ast.AssignStmt:
			if len(m.Rhs) == 1 {
				u, _ = m.Rhs[0].(*ast.UnaryExpr)
			}
		}
		if u == nil || u.Op != token.ARROW {
			return nil // default or send
		}
		recvs = append(recvs, u)
	}
	labelled := false
	ast.Inspect(s, func(x ast.Node) bool {
		switch x.(type) {
		case *ast.LabeledStmt:
			labelled = true
		case *ast.FuncLit:
			return false
		}
		return true
	})
	if labelled {
		return nil
	}
	selCount++
	count++
	blk := &ast.BlockStmt{}
	args := []ast.Expr{&ast.BasicLit{Kind: token.STRING, Value: strconv.Quote(fmt.Sprintf("%s:%d", base, fset.Position(s.Pos()).Line))}}
	for i, u := range recvs {
		name := fmt.Sprintf("zzc%d", i)
		blk.List = append(blk.List, &ast.AssignStmt{Lhs: []ast.Expr{ast.NewIdent(name)}, Tok: token.DEFINE, Rhs: []ast.Expr{u.X}})
		u.X = ast.NewIdent(name)
		args = append(args, &ast.CallExpr{Fun: sel("zzpause", "Rdy"), Args: []ast.Expr{ast.NewIdent(name)}})
	}
	sw := &ast.SwitchStmt{Tag: &ast.CallExpr{Fun: sel("zzpause", "Sel"), Args: args}, Body: &ast.BlockStmt{}}
	for i, c := range s.Body.List {
		cc := c.(*ast.CommClause)
		poll := &ast.SelectStmt{Body: &ast.BlockStmt{List: []ast.Stmt{
			&ast.CommClause{Comm: cc.Comm, Body: cc.Body},
			&ast.CommClause{Body: []ast.Stmt{s}},
		}}}
		sw.Body.List = append(sw.Body.List, &ast.CaseClause{List: []ast.Expr{&ast.BasicLit{Kind: token.INT, Value: strconv.Itoa(i)}}, Body: []ast.Stmt{poll}})
	}
	// (the statement stays a terminating one if the original was: a switch with a default whose clauses all end in a select)
	sw.Body.List = append(sw.Body.List, &ast.CaseClause{Body: []ast.Stmt{s}})
	blk.List = append(blk.List, sw)
	return blk
}

func fname(fd *ast.FuncDecl) string {
	if fd.Recv == nil || len(fd.Recv.List) == 0 {
		return fd.Name.Name
	}
	t := fd.Recv.List[0].Type
	for {
		switch x := t.(type) {
		case *ast.StarExpr:
			t = x.X
			continue
		case *ast.IndexExpr:
			t = x.X
			continue
		case *ast.IndexListExpr:
			t = x.X
			continue
		}
		break
	}
	if id, ok := t.(*ast.Ident); ok {
		return id.Name + "." + fd.Name.Name
	}
	return fd.Name.Name
}

func main() {
	out := flag.String("out", "", "output file")
	skip := flag.String("skip", "", "functions that get no pause points")
	only := flag.String("only", "", "if set, only these functions get pause points")
	nosync := flag.Bool("nosync", false, "leave the sync import alone")
	swap := flag.String("swap", "", "further import swaps: old=zzverif-package,... (e.g. net=vnet)")
	flag.Parse()
	src := flag.Arg(0)
	base = filepath.Base(src)
	f, err := parser.ParseFile(fset, src, nil, parser.ParseComments)
	if err != nil {
		fmt.Fprintln(os.Stderr, err)
		os.Exit(2)
	}
	set := func(s string) map[string]bool {
		m := map[string]bool{}
		for _, x := range strings.Split(s, ",") {
			if x = strings.TrimSpace(x); x != "" {
				m[x] = true
			}
		}
		return m
	}
	sk, on := set(*skip), set(*only)
	for _, d := range f.Decls {
		fd, ok := d.(*ast.FuncDecl)
		if !ok || fd.Body == nil {
			if gd, ok := d.(*ast.GenDecl); ok && gd.Tok == token.VAR {
				// function literals in package-level variables
				if len(on) == 0 {
					instrExpr(gd)
				}
			}
			continue
		}
		n := fname(fd)
		if sk[n] || (len(on) > 0 && !on[n]) || n == "init" {
			continue
		}
		fd.Body.List = instrList(fd.Body.List)
	}
	// imports: add the pause package, swap sync
	var imp *ast.GenDecl
	for _, d := range f.Decls {
		if gd, ok := d.(*ast.GenDecl); ok && gd.Tok == token.IMPORT {
			if imp == nil {
				imp = gd
			}
			for _, s := range gd.Specs {
				is := s.(*ast.ImportSpec)
				if is.Path.Value == `"sync"` && !*nosync && !*selOnly {
					is.Path.Value = strconv.Quote(psyncPath)
					is.Name = ast.NewIdent("sync")
				}
				for _, sw := range strings.Split(*swap, ",") {
					if kv := strings.SplitN(strings.TrimSpace(sw), "=", 2); len(kv) == 2 && is.Path.Value == strconv.Quote(kv[0]) {
						is.Path.Value = strconv.Quote(strings.TrimSuffix(pausePath, "pause") + kv[1])
						is.Name = ast.NewIdent(filepath.Base(kv[0]))
					}
				}
			}
		}
	}
	if count > 0 {
		spec := &ast.ImportSpec{Name: ast.NewIdent("zzpause"), Path: &ast.BasicLit{Kind: token.STRING, Value: strconv.Quote(pausePath)}}
		if imp == nil {
			imp = &ast.GenDecl{Tok: token.IMPORT}
			f.Decls = append([]ast.Decl{imp}, f.Decls...)
		}
		imp.Specs = append(imp.Specs, spec)
		if len(imp.Specs) > 1 && !imp.Lparen.IsValid() {
			imp.Lparen = imp.Pos()
			imp.Rparen = imp.End()
		}
	}
	// comments are dropped from the copy: inserted statements have no position, and the printer would otherwise
	// move nearby comments (possibly a directive) into odd places. Build constraints are kept by re-adding them.
	var head bytes.Buffer
	for _, cg := range f.Comments {
		if cg.End() < f.Package {
			for _, c := range cg.List {
				if strings.HasPrefix(c.Text, "//go:build") || strings.HasPrefix(c.Text, "// +build") {
					head.WriteString(c.Text + "\n")
				}
			}
		}
	}
	f.Comments = nil
	f.Doc = nil
	var buf bytes.Buffer
	if head.Len() > 0 {
		buf.Write(head.Bytes())
		buf.WriteString("\n")
	}
	if err := format.Node(&buf, fset, f); err != nil {
		fmt.Fprintln(os.Stderr, err)
		os.Exit(2)
	}
	if err := os.WriteFile(*out, buf.Bytes(), 0o644); err != nil {
		fmt.Fprintln(os.Stderr, err)
		os.Exit(2)
	}
	fmt.Printf("%s: %d pause points, %d owned selects\n", base, count, selCount)
}
