#!/bin/bash
# run every check's quick tier on the current tree and print one summary line each (used before committing engine changes)
cd "$(dirname "$(readlink -f "$0")")"
for id in $(python3 -c "import verifspec; print(' '.join(sorted(verifspec.SPECS)))"); do
  out=$(./check $id ${1:+--tier $1} 2>&1); rc=$?
  echo "$id rc=$rc $(echo "$out" | grep -E "^$id (quick|thorough)" | tail -1 | cut -c1-160)"
  [ $rc -ne 0 ] && echo "$out" | grep -E "VIOLATION|HARNESS|sig=" | head -5
done
