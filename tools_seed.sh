#!/bin/bash
# usage: tools_seed.sh <patch.diff> <check-id> [more ids]  -- applies a seeded change to /repo, runs the checks (quick, no evidence), reverts
patch=$1; shift
cd /repo || exit 1
git apply --check "$patch" || { echo "patch does not apply"; exit 3; }
git apply "$patch"
for id in "$@"; do
  (cd /verif && ./check $id --no-evidence ${TIER:+--tier $TIER} 2>&1 | grep -E "sig=|^$id |HARNESS" | head -8)
done
cd /repo && git checkout -q -- . && git status --short | head -3
