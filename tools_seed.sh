#!/bin/bash
# usage: tools_seed.sh <patch.diff> <check-id> [more ids]
# Applies a seeded change to a scratch worktree of /repo's HEAD (never to /repo itself, so background runs are not
# disturbed), runs the checks against it (quick, no evidence) and removes the change again.
patch=$1; shift
M=${MUTREPO:-/tmp/mutrepo}
head=$(git -C /repo rev-parse HEAD)
if [ ! -d $M ]; then git -C /repo worktree add -q --detach $M $head || exit 3; fi
git -C $M checkout -q --detach $head && git -C $M checkout -q -- . && git -C $M clean -fdq
# (a patch made against an older HEAD is merged three-way: later fix commits may have touched neighbouring lines)
if git -C $M apply --check "$patch" 2>/dev/null; then git -C $M apply "$patch"
elif git -C $M apply -3 "$patch" >/dev/null 2>&1 && ! git -C $M diff --name-only --diff-filter=U | grep -q .; then git -C $M reset -q
else echo "patch does not apply"; git -C $M checkout -q -- . ; exit 3; fi
for id in "$@"; do
  (cd /verif && VERIF_REPO=$M ./check $id --no-evidence ${TIER:+--tier $TIER} 2>&1 | grep -E "sig=|^$id |HARNESS" | head -8)
done
git -C $M checkout -q -- . && git -C $M clean -fdq
