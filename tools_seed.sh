#!/bin/bash
# usage: tools_seed.sh <patch.diff> <check-id> [more ids]
# Applies a seeded change to a scratch worktree of /repo's HEAD (never to /repo itself, so background runs are not
# disturbed), runs the checks against it (quick, no evidence) and removes the change again.
patch=$1; shift
M=${MUTREPO:-/tmp/mutrepo}
head=$(git -C /repo rev-parse HEAD)
if [ ! -d $M ]; then git -C /repo worktree add -q --detach $M $head || exit 3; fi
git -C $M checkout -q --detach $head && git -C $M checkout -q -- . && git -C $M clean -fdq
git -C $M apply --check "$patch" || { echo "patch does not apply"; exit 3; }
git -C $M apply "$patch"
for id in "$@"; do
  (cd /verif && VERIF_REPO=$M ./check $id --no-evidence ${TIER:+--tier $TIER} 2>&1 | grep -E "sig=|^$id |HARNESS" | head -8)
done
git -C $M checkout -q -- . && git -C $M clean -fdq
