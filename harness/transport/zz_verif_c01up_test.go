package transport

// C01 (upstream side): no byte sequence arriving from an upstream as a reply
// makes the transport panic, hang past the exchange deadline or stop serving.
// Exhaustive enumeration of reply programs (<=PROGLEN items from a menu of
// valid, repeated, unsolicited and malformed replies and framing lies, delivered
// in one segment or one by one) against 1..2 exchanges in flight on the real
// pipeline-tcp, pipeline-udp and reuse-tcp transports; afterwards a healthy
// server and two more exchanges that must be answered.

import (
	"bytes"
	"fmt"
	"os"
	"strings"
	"testing"
	"time"

	"github.com/IrineSistiana/mosproxy/internal/zzverif/choice"
	"github.com/IrineSistiana/mosproxy/internal/zzverif/env"
	"github.com/IrineSistiana/mosproxy/internal/zzverif/refdns"
	"github.com/IrineSistiana/mosproxy/internal/zzverif/report"
)

type c01upItem struct {
	name      string
	tcpOnly   bool
	malformed bool                                                  // cannot be decoded as a DNS message / breaks the framing
	open      bool                                                  // leaves a frame incomplete: the server closes the connection afterwards
	raw       bool                                                  // bytes are put on the stream as they are (no length prefix added)
	answers   int                                                   // which in-flight query it validly answers (0/1), -1 none
	build     func(s *c14Server, ci int, qs []env.PeerQuery) []byte // nil: not applicable in this state
}

func c01upMenu() []c01upItem {
	valid := func(i int) func(s *c14Server, ci int, qs []env.PeerQuery) []byte {
		return func(s *c14Server, ci int, qs []env.PeerQuery) []byte {
			if i >= len(qs) || qs[i].Msg == nil {
				return nil
			}
			s.serial++
			s.sent[s.serial] = qs[i].Msg.Q[0].Name.String()
			return env.Answer(qs[i].Msg, s.serial, 60).Encode(false)
		}
	}
	mut := func(f func(b []byte, q env.PeerQuery) []byte) func(s *c14Server, ci int, qs []env.PeerQuery) []byte {
		return func(s *c14Server, ci int, qs []env.PeerQuery) []byte {
			if len(qs) == 0 || qs[0].Msg == nil {
				return nil
			}
			b := env.Answer(qs[0].Msg, 0xEE, 60).Encode(false)
			return f(b, qs[0])
		}
	}
	return []c01upItem{
		{name: "valid(q0)", answers: 0, build: valid(0)},
		{name: "valid(q1)", answers: 1, build: valid(1)},
		// a valid two-record reply, and (for the other exchange, same name length, so the offsets line up) the same kind of reply cut
		// right after its first record although the header announces two: what follows in a recycled read buffer is the tail of
		// the earlier datagram
		{name: "valid2(q0)", answers: 0, build: func(s *c14Server, ci int, qs []env.PeerQuery) []byte {
			if len(qs) == 0 || qs[0].Msg == nil {
				return nil
			}
			s.serial++
			s.sent[s.serial] = qs[0].Msg.Q[0].Name.String()
			m := env.Answer(qs[0].Msg, s.serial, 60)
			m.An = append(m.An, refdns.A(qs[0].Msg.Q[0].Name, 60, 9, 9, 9, 9))
			return m.Encode(true)
		}},
		{name: "two-announced-one-present(q1)", answers: -1, malformed: true, build: func(s *c14Server, ci int, qs []env.PeerQuery) []byte {
			if len(qs) < 2 || qs[1].Msg == nil {
				return nil
			}
			m := env.Answer(qs[1].Msg, 0xEB, 60)
			full := m.Encode(true)
			m.An = append(m.An, refdns.A(qs[1].Msg.Q[0].Name, 60, 8, 8, 8, 8))
			two := m.Encode(true)
			return two[:len(full)] // header says 2 answers, the datagram ends after the first
		}},
		{name: "unsolicited-id", answers: -1, build: func(s *c14Server, ci int, qs []env.PeerQuery) []byte {
			if len(qs) == 0 || qs[0].Msg == nil {
				return nil
			}
			s.sent[0xEC] = qs[0].Msg.Q[0].Name.String()
			b := env.Answer(qs[0].Msg, 0xEC, 60).Encode(false)
			b[0] ^= 0x55
			b[1] ^= 0xAA
			return b
		}},
		{name: "empty", answers: -1, malformed: true, build: mut(func(b []byte, q env.PeerQuery) []byte { return []byte{} })},
		{name: "one-byte", answers: -1, malformed: true, build: mut(func(b []byte, q env.PeerQuery) []byte { return b[:1] })},
		{name: "header-only-counts-lie", answers: -1, malformed: true, build: mut(func(b []byte, q env.PeerQuery) []byte { return b[:12] })},
		{name: "cut-3", answers: -1, malformed: true, build: mut(func(b []byte, q env.PeerQuery) []byte { return b[:len(b)-3] })},
		{name: "counts-ffff", answers: -1, malformed: true, build: mut(func(b []byte, q env.PeerQuery) []byte {
			b[6], b[7], b[8], b[9] = 0xFF, 0xFF, 0xFF, 0xFF
			return b
		})},
		{name: "pointer-loop", answers: -1, malformed: true, build: mut(func(b []byte, q env.PeerQuery) []byte {
			return append(append([]byte(nil), b[:12]...), 0xC0, 0x0C, 0, 1, 0, 1, 0xC0, 0x0C, 0, 1, 0, 1, 0, 0, 0, 1, 0, 4, 1, 2, 3, 4)
		})},
		{name: "rdlength-lie", answers: -1, malformed: true, build: mut(func(b []byte, q env.PeerQuery) []byte {
			b[len(b)-6], b[len(b)-5] = 0xFF, 0xF0
			return b
		})},
		{name: "label-63-run", answers: -1, malformed: true, build: mut(func(b []byte, q env.PeerQuery) []byte {
			return append(append([]byte(nil), b[:12]...), bytes.Repeat([]byte{63}, 300)...)
		})},
		// a complete message followed by extra octets inside the frame/datagram: the decoder ignores what follows the counted records, so this is a well-formed reply
		{name: "valid(q0)+trailing-octets", answers: -1, build: func(s *c14Server, ci int, qs []env.PeerQuery) []byte {
			if len(qs) == 0 || qs[0].Msg == nil {
				return nil
			}
			s.sent[0xED] = qs[0].Msg.Q[0].Name.String()
			return append(env.Answer(qs[0].Msg, 0xED, 60).Encode(false), 1, 2, 3)
		}},
		// framing lies (stream transports): raw bytes
		{name: "frame-len-0", tcpOnly: true, raw: true, malformed: true, answers: -1, build: mut(func(b []byte, q env.PeerQuery) []byte { return []byte{0, 0} })},
		{name: "frame-len-short", tcpOnly: true, raw: true, malformed: true, answers: -1, build: mut(func(b []byte, q env.PeerQuery) []byte {
			return append([]byte{0, byte(len(b) - 2)}, b...)
		})},
		{name: "frame-len-long", tcpOnly: true, raw: true, open: true, malformed: true, answers: -1, build: mut(func(b []byte, q env.PeerQuery) []byte {
			return append([]byte{0xFF, 0xFF}, b...)
		})},
		{name: "half-prefix", tcpOnly: true, raw: true, open: true, malformed: true, answers: -1, build: mut(func(b []byte, q env.PeerQuery) []byte { return []byte{0} })},
	}
}

var c01upAsC04 = os.Getenv("VERIF_PROP") == "C04" || os.Getenv("VERIF_PROP") == "C05"

// c01upProp: C04, or C05 (a caller must get the reply the server sent to its exchange - not one completed from another reply's bytes)
var c01upProp = func() string {
	if os.Getenv("VERIF_PROP") == "C05" {
		return "C05"
	}
	return "C04"
}()

func c01upScenario(c *choice.Ctx, rep *report.R, k c14Kind, proglen int) {
	// On the datagram transport the exploration also runs without the ownership hook: with it every recycled buffer is filled with a
	// pattern that never decodes, which would hide a decoder that reads past the end of a datagram into what an earlier, longer
	// datagram left in the same buffer (as it happens in production).
	var own *env.Own
	if k.tcp || c.Choose(2, "recycled-buffers-keep-their-content") == 0 {
		own = env.InstallOwn(0xA5, vRace)
		defer env.UninstallOwn()
	}
	network := "udp"
	if k.tcp {
		network = "tcp"
	}
	d := env.NewDialer(network)
	tr := k.mk(d)
	srv := &c14Server{d: d, tcp: k.tcp, healthy: false, handled: map[int]int{}, broken: map[int]bool{}, sent: map[byte]string{}}
	var trace []string
	fail := func(sig, msg string) {
		if c01upAsC04 {
			// as a part of C04: a returned message that the server never sent as such (pieces of two replies glued together)
			if sig == "undecodable-reply-accepted" {
				rep.Violate(c01upProp+":upstream-reply:"+k.name+":reply-made-of-two-datagrams", fmt.Sprintf("%s\n  %s: %s", msg, k.name, strings.Join(trace, " ")), map[string]any{"Choices": c.Choices(), "Kind": k.name})
			}
			return
		}
		rep.Violate("C01:upstream-reply:"+k.name+":"+sig, fmt.Sprintf("%s\n  %s: %s", msg, k.name, strings.Join(trace, " ")), map[string]any{"Choices": c.Choices(), "Kind": k.name})
	}
	note := func(f string, a ...any) { trace = append(trace, fmt.Sprintf(f, a...)) }
	const timeout = 2 * time.Second
	var all []*call
	finished := false
	defer func() {
		if !finished {
			abandon(tr, d, &all)
		}
	}()
	newc := func() *call { cl := newCall(len(all), 0); all = append(all, cl); return cl }
	basic := func(cl *call) {
		if cl.panicked != nil {
			fail("panic", fmt.Sprintf("exchange %d: %v", cl.idx, cl.panicked))
		}
		if cl.both != nil {
			fail("reply-with-error", fmt.Sprintf("exchange %d returned a message together with an error: %v", cl.idx, cl.both))
		}
		if cl.nilnil {
			fail("nil-nil", fmt.Sprintf("exchange %d returned (nil, nil)", cl.idx))
		}
		if cl.resp != nil {
			// (which exchange a well-formed reply belongs to is C05's subject, and only on multiplexing transports; here: nothing undecodable is ever returned)
			_, s, ok := env.AnswerKey(cl.resp)
			if _, sent := srv.sent[s]; !ok || !sent {
				fail("undecodable-reply-accepted", fmt.Sprintf("exchange %d returned a message that is not one of the well-formed replies the server sent: %x", cl.idx, cl.respRaw))
			}
		}
	}

	n := 1 + c.Choose(2, "n")
	var calls []*call
	for i := 0; i < n; i++ {
		cl := newc()
		calls = append(calls, cl)
		cl.start(tr, timeout)
	}
	wait()
	note("start x%d (conns=%d)", n, d.NumConns())

	// the reply program, applied to every connection that carries queries
	menu := c01upMenu()
	var usable []int
	for i, it := range menu {
		if it.tcpOnly && !k.tcp {
			continue
		}
		usable = append(usable, i)
	}
	plen := 1 + c.Choose(proglen, "program-length")
	type step struct {
		item   int
		copies int
	}
	var prog []step
	for i := 0; i < plen; i++ {
		it := usable[c.Choose(len(usable), fmt.Sprintf("item%d", i))]
		copies := 1
		if !menu[it].malformed {
			copies = 1 + c.Choose(3, fmt.Sprintf("copies%d", i)) // a reply may be repeated up to 3 times
		}
		prog = append(prog, step{it, copies})
	}
	oneSegment := c.Choose(2, "one-segment") == 0
	expectOK := map[string]bool{} // question names that got a valid reply no malformed item can have prevented
	anyMalformed, leftOpen := false, false
	for _, st := range prog {
		anyMalformed = anyMalformed || menu[st.item].malformed
		leftOpen = leftOpen || menu[st.item].open
	}
	var spoken []int
	for ci := 0; ci < d.NumConns(); ci++ {
		impl := d.ImplEnd(ci)
		qs := env.QueriesOn(ci, impl, k.tcp)
		if len(qs) == 0 || impl.IsClosed() {
			continue
		}
		srv.handled[ci] = len(qs)
		spoken = append(spoken, ci)
		var seg []byte
		var names []string
		for _, st := range prog {
			it := menu[st.item]
			b := it.build(srv, ci, qs)
			if b == nil {
				names = append(names, it.name+"(n/a)")
				continue
			}
			if it.answers >= 0 && !anyMalformed {
				expectOK[qs[it.answers].Msg.Q[0].Name.String()] = true
			}
			for cp := 0; cp < st.copies; cp++ {
				out := b
				if k.tcp && !it.raw {
					out = refdns.Frame(b)
				}
				if k.tcp && oneSegment {
					seg = append(seg, out...)
				} else {
					impl.Inject(append([]byte(nil), out...))
					if !oneSegment {
						wait()
					}
				}
			}
			names = append(names, fmt.Sprintf("%sx%d", it.name, st.copies))
		}
		if len(seg) > 0 {
			impl.Inject(seg)
		}
		note("c%d<-[%s]%v", ci, strings.Join(names, " "), map[bool]string{true: "one-segment", false: "separately"}[oneSegment])
	}
	wait()
	for _, cl := range calls {
		basic(cl)
		if expectOK[cl.name.String()] && (!cl.done || cl.resp == nil) {
			fail("valid-reply-not-delivered", fmt.Sprintf("exchange %d got a valid reply (and nothing malformed was sent) but did not succeed: %s", cl.idx, cl))
		}
	}
	// the server is healthy from now on (it keeps answering on every connection that is still open; a connection on which
	// it left a frame incomplete it closes): later valid exchanges must be answered; whatever is still waiting ends by its deadline
	if leftOpen {
		for _, ci := range spoken {
			d.ImplEnd(ci).PeerFIN()
		}
		wait()
		note("fin")
	}
	srv.healthy = true
	for round := 0; round < 2; round++ {
		later := newc()
		later.start(tr, timeout)
		wait()
		srv.pump()
		basic(later)
		if !later.done || later.resp == nil {
			fail("stopped-serving", fmt.Sprintf("exchange %d against a healthy server after the reply program was not answered: %s", later.idx, later))
			break
		}
		note("later%d=%s", round, later)
	}
	for _, cl := range calls {
		sleepUntil(cl.deadline)
	}
	wait()
	for _, cl := range calls {
		basic(cl)
		if !cl.done {
			fail("hang", fmt.Sprintf("exchange %d still running at its deadline", cl.idx))
		}
	}
	// and once more after every connection has idled out
	hsleep(61 * time.Second)
	wait()
	last := newc()
	last.start(tr, timeout)
	wait()
	srv.pump()
	basic(last)
	if !last.done || last.resp == nil {
		fail("stopped-serving-after-idle", fmt.Sprintf("exchange %d after idling was not answered: %s", last.idx, last))
	}
	tr.Close()
	hsleep(7 * time.Second)
	wait()
	if own != nil {
		for _, v := range own.Audit() {
			fail("ownership", v)
		}
	}
	var st []string
	for _, cl := range all {
		st = append(st, cl.String())
	}
	finished = true
	rep.Eval(k.name + ":" + strings.Join(trace, ",") + "=>" + strings.Join(st, ","))
	rep.State(fmt.Sprintf("%s|%v|%d", k.name, st, d.NumConns()))
}

func TestVerifC01Upstream(t *testing.T) {
	rep := report.New(map[bool]string{false: "C01 malformed upstream replies", true: c01upProp + " replies made of what the server sent"}[c01upAsC04])
	defer rep.Write()
	proglen := report.ParamInt("PROGLEN", 2)
	var names []string
	for _, it := range c01upMenu() {
		names = append(names, it.name)
	}
	rep.Rule = fmt.Sprintf("E3 enumeration on the real pipeline-tcp, pipeline-udp and reuse-tcp transports in a synctest bubble: 1..2 exchanges in flight; every reply program of 1..%d items from {%s} "+
		"(well-formed items repeated 1..3 times), delivered in one segment or one at a time; then a healthy server; oracle: no panic, no (nil,nil), a returned message is a valid reply the server sent for that "+
		"question, a valid reply with nothing malformed around it is delivered, two later exchanges and one after idling are answered, every exchange ends by its deadline (virtual clock), ownership audit",
		proglen, strings.Join(names, ","))
	bubble(t, func() {
		for _, k := range c14Kinds() {
			k := k
			if rp := report.ReplayFile(); rp != nil {
				var x struct{ Kind string }
				rp.Decode(&x)
				if x.Kind != k.name {
					continue
				}
			}
			st := runExplore(t, rep, 0, func(c *choice.Ctx) { c01upScenario(c, rep, k, proglen) })
			rep.Count("executions_"+k.name, st.Executions)
		}
	})
	rep.Sample(map[string]any{"kind": "pipeline-tcp", "program": "valid(q0)x3 in one segment", "expect": "q0 succeeds; two later exchanges on the same connection are answered"})
}
