package transport

// C05: multiplexed replies reach exactly the exchange that asked.
// Real PipelineTransport over a scripted dialer/peer in a synctest bubble; all
// orders of {start, cancel, reply (any order, duplicated), unsolicited reply,
// server close, time advance} up to a depth bound, from several id-counter
// start states.

import (
	"bytes"
	"fmt"
	"os"
	"strings"
	"testing"
	"time"

	"github.com/IrineSistiana/mosproxy/internal/zzverif/choice"
	"github.com/IrineSistiana/mosproxy/internal/zzverif/env"
	"github.com/IrineSistiana/mosproxy/internal/zzverif/refdns"
	"github.com/IrineSistiana/mosproxy/internal/zzverif/report"
)

type c05Reply struct {
	serial byte
	conn   int
	wireID uint16
	qname  string
	owner  string // if set: the exchange whose wire id this (unsolicited but id-matching) reply targets
	count  int    // times delivered
	wire   []byte
}

var c05AsC01 = os.Getenv("VERIF_PROP") == "C01"

func c05Scenario(c *choice.Ctx, rep *report.R, tcp bool, startQid int, nCalls, depth int, oversize int) {
	own := env.InstallOwn(0xA5, vRace)
	defer env.UninstallOwn()
	pauseBegin(c)
	defer pauseEnd()
	network := "udp"
	if tcp {
		network = "tcp"
	}
	d := env.NewDialer(network)
	tr := NewPipelineTransport(PipelineOpts{DialContext: d.Dial, IsTCP: tcp, IdleTimeout: 10 * time.Second, MaxConcurrentQuery: 64})
	calls := make([]*call, nCalls)
	for i := range calls {
		calls[i] = newCall(i, 0)
	}
	const timeout = 2 * time.Second
	var replies []*c05Reply
	finished := false
	defer func() {
		if !finished {
			abandon(tr, d, &calls)
		}
	}()
	var serial byte
	seenFrames := map[int]int{} // conn -> frames already turned into reply candidates
	unsolicited, finned := false, map[int]bool{}
	garbaged := false
	stalled, early := map[int]bool{}, map[int]bool{}
	var trace []string
	forwarded := false

	fail := func(sig, msg string) {
		if c05AsC01 {
			// run as a part of C01: whatever the server sends and whenever, the transport neither panics nor returns (nil, nil) or an undecodable message
			if sig != "panic" && sig != "nil-nil" && sig != "bad-message" {
				return
			}
			rep.Violate("C01:pipeline:"+sig, fmt.Sprintf("%s\n  tcp=%v startQid=%d events: %s%s", msg, tcp, startQid, strings.Join(trace, " "), pauseNote()),
				map[string]any{"Choices": c.Choices(), "Scenario": fmt.Sprintf("tcp=%v,qid=%d,over=%d", tcp, startQid, oversize)})
			return
		}
		rep.Violate("C05:"+sig, fmt.Sprintf("%s\n  tcp=%v startQid=%d events: %s%s", msg, tcp, startQid, strings.Join(trace, " "), pauseNote()),
			map[string]any{"Choices": c.Choices(), "Scenario": fmt.Sprintf("tcp=%v,qid=%d,over=%d", tcp, startQid, oversize)})
	}

	check := func() {
		// wire ids on one connection are pairwise distinct for its whole life
		for ci := 0; ci < d.NumConns(); ci++ {
			qs := env.QueriesOn(ci, d.ImplEnd(ci), tcp)
			ids := map[uint16]int{}
			for _, q := range qs {
				ids[q.WireID]++
				if ids[q.WireID] > 1 {
					fail("wire-id-reused", fmt.Sprintf("wire id %d used twice on connection %d", q.WireID, ci))
				}
				if t := own.Tainted(q.Wire); t != "" {
					fail("tainted-query", "query bytes on the wire contain "+t)
				}
			}
		}
		used := map[byte]int{}
		for _, cl := range calls {
			if !cl.done {
				continue
			}
			if cl.panicked != nil {
				fail("panic", fmt.Sprintf("exchange %d: %v", cl.idx, cl.panicked))
				continue
			}
			if cl.nilnil {
				fail("nil-nil", fmt.Sprintf("exchange %d returned (nil, nil)", cl.idx))
			}
			if cl.respRaw != nil && cl.resp == nil {
				fail("bad-message", fmt.Sprintf("exchange %d returned an undecodable message", cl.idx))
			}
			if cl.resp == nil {
				continue
			}
			if cl.resp.ID != cl.id {
				fail("id-not-restored", fmt.Sprintf("exchange %d (caller id %#x) got a message with id %#x", cl.idx, cl.id, cl.resp.ID))
			}
			_, s, ok := env.AnswerKey(cl.resp)
			var r *c05Reply
			for _, x := range replies {
				if ok && x.serial == s {
					r = x
				}
			}
			if r == nil || r.count == 0 {
				fail("reply-never-sent", fmt.Sprintf("exchange %d returned a message the server never sent: %s", cl.idx, cl.resp.Canon()))
				continue
			}
			if r.owner != "" {
				// a reply sent before the query was written, carrying the id that exchange was assigned: legitimate for its owner only
				if r.owner != cl.name.String() {
					fail("wrong-exchange", fmt.Sprintf("exchange %d (question %s) was given the early reply the server aimed at wire id %d of %s", cl.idx, cl.name, r.wireID, r.owner))
				}
			} else if r.qname != cl.name.String() {
				fail("wrong-exchange", fmt.Sprintf("exchange %d (question %s) was given the reply the server sent for %s (conn %d wire id %d)", cl.idx, cl.name, r.qname, r.conn, r.wireID))
			}
			used[s]++
			if used[s] > 1 {
				fail("reply-used-twice", fmt.Sprintf("reply serial %d satisfied two exchanges", s))
			}
			if t := own.Tainted(cl.respRaw); t != "" {
				fail("tainted-reply", "returned message contains "+t)
			}
		}
	}

	for step := 0; step < depth; step++ {
		// refresh reply candidates from what the server has received
		for ci := 0; ci < d.NumConns(); ci++ {
			qs := env.QueriesOn(ci, d.ImplEnd(ci), tcp)
			for _, q := range qs[seenFrames[ci]:] {
				if q.Msg == nil || len(q.Msg.Q) == 0 {
					fail("garbled-query", fmt.Sprintf("server received an undecodable query on conn %d: %x", ci, q.Wire))
					continue
				}
				serial++
				m := env.Answer(q.Msg, serial, 60)
				replies = append(replies, &c05Reply{serial: serial, conn: ci, wireID: q.WireID, qname: q.Msg.Q[0].Name.String(), wire: m.Encode(false)})
			}
			seenFrames[ci] = len(qs)
		}
		// fast-forward of the id counter right after the first connection exists
		if startQid > 0 && !forwarded {
			if pcs := poolConns(tr.pool); len(pcs) > 0 {
				for _, pc := range pcs {
					pc.m.Lock()
					if pc.nextQid < startQid {
						pc.nextQid = startQid
					}
					pc.m.Unlock()
				}
				forwarded = true
			}
		}
		var menu []event
		for _, cl := range calls {
			cl := cl
			if !cl.started {
				menu = append(menu, event{name: fmt.Sprintf("start%d", cl.idx), do: func() { cl.start(tr, timeout) }})
				break // exchanges are symmetric: start them in index order
			}
		}
		for _, r := range replies {
			r := r
			if finned[r.conn] || r.count >= 2 {
				continue
			}
			deliver := func() {
				r.count++
				b := r.wire
				if tcp {
					b = refdns.Frame(b)
				}
				d.ImplEnd(r.conn).Inject(b)
			}
			if r.count == 0 {
				menu = append(menu, event{name: fmt.Sprintf("reply%d(c%d,id%d)", r.serial, r.conn, r.wireID), do: deliver})
				// the reply and the end of the connection reach the transport in the same instant
				menu = append(menu, event{name: fmt.Sprintf("reply%d+fin(c%d)", r.serial, r.conn), fault: true, do: func() {
					deliver()
					finned[r.conn] = true
					d.ImplEnd(r.conn).PeerFIN()
				}})
			} else {
				menu = append(menu, event{name: fmt.Sprintf("dup%d", r.serial), fault: true, do: deliver})
			}
		}
		for _, cl := range calls {
			cl := cl
			if cl.inflight() && !cl.canceled {
				menu = append(menu, event{name: fmt.Sprintf("cancel%d", cl.idx), fault: true, do: func() { cl.canceled = true; cl.cancel() }})
			}
		}
		if !unsolicited && d.NumConns() > 0 && !finned[0] {
			menu = append(menu, event{name: "unsolicited", fault: true, do: func() {
				unsolicited = true
				// a reply for a wire id that was never issued on this connection (far above the counter)
				q := refdns.Query(uint16(startQid+300), refdns.N("unsolicited", "test"), 1, 1)
				serial++
				m := env.Answer(q, serial, 60)
				replies = append(replies, &c05Reply{serial: serial, conn: 0, wireID: q.ID, qname: "unsolicited.test", count: 2, wire: m.Encode(false)})
				b := m.Encode(false)
				if tcp {
					b = refdns.Frame(b)
				}
				d.ImplEnd(0).Inject(b)
			}})
		}
		for ci := 0; ci < d.NumConns(); ci++ {
			ci := ci
			impl := d.ImplEnd(ci)
			if !finned[ci] && !impl.IsClosed() {
				menu = append(menu, event{name: fmt.Sprintf("fin(c%d)", ci), fault: true, do: func() { finned[ci] = true; impl.PeerFIN() }})
				if !garbaged {
					// an undecodable frame / datagram (a stream connection cannot be resynchronised and must be given up; a datagram is dropped)
					menu = append(menu, event{name: fmt.Sprintf("garbage(c%d)", ci), fault: true, do: func() {
						garbaged = true
						b := []byte{0xde, 0xad, 0xbe}
						if tcp {
							b = refdns.Frame(b)
							finned[ci] = true // nothing sent after it can be trusted to be read
						}
						impl.Inject(b)
					}})
				}
				qs := env.QueriesOn(ci, impl, tcp)
				if !stalled[ci] && len(qs) > 0 {
					menu = append(menu, event{name: fmt.Sprintf("stall-writes(c%d)", ci), fault: true, do: func() { stalled[ci] = true; impl.Stall() }})
				}
				if impl.StalledWrites() > 0 {
					menu = append(menu, event{name: fmt.Sprintf("commit(c%d)", ci), do: func() { impl.Commit() }})
				}
				// exactly one exchange is blocked in its write: the server answers the id it is about to use, then hangs up
				// (not in pause mode: with a goroutine that stood still between being given its wire id and writing its frame, "the id the
				// stalled writer is about to use" cannot be inferred from the frames seen)
				if impl.StalledWrites() == 1 && len(qs) > 0 && !early[ci] && !pauseMode {
					var owner *call
					for _, cl := range calls {
						if cl.inflight() {
							seen := false
							for cj := 0; cj < d.NumConns(); cj++ {
								for _, q := range env.QueriesOn(cj, d.ImplEnd(cj), tcp) {
									if q.Msg != nil && len(q.Msg.Q) > 0 && q.Msg.Q[0].Name.Equal(cl.name) {
										seen = true
									}
								}
							}
							if !seen {
								if owner != nil {
									owner = nil
									break
								}
								owner = cl
							}
						}
					}
					if owner != nil {
						nextID := qs[len(qs)-1].WireID + 1
						menu = append(menu, event{name: fmt.Sprintf("early-reply+fin(c%d,id%d)", ci, nextID), fault: true, do: func() {
							early[ci] = true
							q := refdns.Query(nextID, refdns.N("early", "test"), 1, 1)
							serial++
							m := env.Answer(q, serial, 60)
							replies = append(replies, &c05Reply{serial: serial, conn: ci, wireID: nextID, qname: "early.test", owner: owner.name.String(), count: 2, wire: m.Encode(false)})
							b := m.Encode(false)
							if tcp {
								b = refdns.Frame(b)
							}
							impl.Inject(b)
							finned[ci] = true
							impl.PeerFIN()
						}})
					}
				}
			}
		}
		anyInflight := false
		for _, cl := range calls {
			if cl.inflight() {
				anyInflight = true
			}
		}
		if anyInflight {
			menu = append(menu, event{name: "advance2s", do: func() { hsleep(timeout) }})
		}
		ev := pick(c, menu)
		if ev == nil {
			break
		}
		trace = append(trace, ev.name)
		ev.do()
		wait()
		check()
		// (deadlines are C14's subject; with a stalled write the pipelined transport overruns them, see known findings)
	}
	selOff()
	// wind down: cancel everything, close, drain
	for ci := 0; ci < d.NumConns(); ci++ {
		d.ImplEnd(ci).Commit()
	}
	for _, cl := range calls {
		if cl.started {
			cl.cancel()
		}
	}
	tr.Close()
	wait()
	if resume() { // a goroutine held at a pause point goes on only now, after everything was cancelled and closed
		wait()
	}
	check()
	for _, v := range own.Audit() {
		fail("ownership", v)
	}
	st := make([]string, len(calls))
	for i, cl := range calls {
		st[i] = cl.String()
	}
	finished = true
	rep.Eval(strings.Join(trace, ",") + "=>" + strings.Join(st, ","))
	rep.State(fmt.Sprintf("%v|%d|%v", st, d.NumConns(), len(replies)))
}

// c05BitProbe: the reply table must be keyed by the whole 16-bit wire id. Two exchanges are in flight (the first since `gap`
// ids ago, so that ids far apart are live at once); for each of them and for every bit position the server sends a
// well-formed reply whose id differs from the exchange's wire id in exactly that bit (an unsolicited reply, or a late reply to
// an exchange that was abandoned long ago): it must not complete anybody. Then the real replies arrive and each exchange
// returns its own. Start ids cover 0, a byte boundary, a power of two inside the id space and the end of it.
func c05BitProbe(c *choice.Ctx, rep *report.R, tcp bool) {
	own := env.InstallOwn(0xA5, vRace)
	defer env.UninstallOwn()
	network := "udp"
	if tcp {
		network = "tcp"
	}
	startQid := []int{0, 255, 4096, 65530}[c.Choose(4, "start-id")]
	gap := []int{0, 255, 256, 1024}[c.Choose(4, "gap")] // ids handed out (and answered) between the first and the second exchange
	desc := fmt.Sprintf("tcp=%v first wire id=%d, %d exchanges in between", tcp, startQid, gap)
	fail := func(sig, msg string) {
		rep.Violate("C05:id-bits:"+sig, msg+"\n  "+desc, map[string]any{"Choices": c.Choices(), "Scenario": "bits"})
	}
	d := env.NewDialer(network)
	tr := NewPipelineTransport(PipelineOpts{DialContext: d.Dial, IsTCP: tcp, IdleTimeout: time.Minute, MaxConcurrentQuery: 64})
	var all []*call
	finished := false
	defer func() {
		if !finished {
			abandon(tr, d, &all)
		}
	}()
	newc := func() *call { cl := newCall(len(all), 0); all = append(all, cl); return cl }
	inject := func(b []byte) {
		if tcp {
			b = refdns.Frame(b)
		}
		d.ImplEnd(0).Inject(b)
	}
	// open the connection with one answered exchange, then move its id counter
	warm := newc()
	warm.start(tr, 2*time.Second)
	wait()
	if d.NumConns() != 1 {
		fail("setup", "no connection")
		return
	}
	qs := env.QueriesOn(0, d.ImplEnd(0), tcp)
	inject(env.Answer(qs[0].Msg, 200, 60).Encode(false))
	wait()
	for _, pc := range poolConns(tr.pool) {
		pc.m.Lock()
		pc.nextQid = startQid
		pc.m.Unlock()
	}
	first := newc()
	first.start(tr, 30*time.Second)
	wait()
	handled := len(env.QueriesOn(0, d.ImplEnd(0), tcp))
	for i := 0; i < gap; i++ {
		cl := newc()
		cl.start(tr, 2*time.Second)
		wait()
		qs := env.QueriesOn(0, d.ImplEnd(0), tcp)
		if len(qs) != handled+1 {
			break // id space exhausted / new connection: the probe below still runs on what is in flight
		}
		handled = len(qs)
		inject(env.Answer(qs[handled-1].Msg, 201, 60).Encode(false))
		wait()
		if !cl.done || cl.resp == nil {
			fail("setup-exchange-failed", fmt.Sprintf("exchange %d of the gap was not answered: %s", i, cl))
			return
		}
	}
	second := newc()
	second.start(tr, 30*time.Second)
	wait()
	// the two probes' queries on the wire
	var fq, sq *env.PeerQuery
	for ci := 0; ci < d.NumConns(); ci++ {
		for _, q := range env.QueriesOn(ci, d.ImplEnd(ci), tcp) {
			q := q
			if q.Msg != nil && q.Msg.Q[0].Name.Equal(first.name) {
				fq = &q
			}
			if q.Msg != nil && q.Msg.Q[0].Name.Equal(second.name) {
				sq = &q
			}
		}
	}
	if fq == nil || sq == nil || fq.Conn != 0 || sq.Conn != 0 {
		// the second exchange went to another connection (id space of the first one used up): nothing to probe across
		finished = true
		tr.Close()
		hsleep(7 * time.Second)
		wait()
		rep.Eval(desc + "=>separate-connections")
		return
	}
	for _, target := range []*env.PeerQuery{fq, sq} {
		for bit := 0; bit < 16; bit++ {
			m := env.Answer(target.Msg, byte(100+bit), 60)
			m.ID = target.WireID ^ (1 << bit)
			if m.ID == fq.WireID || m.ID == sq.WireID {
				continue // that id is the other live exchange's
			}
			inject(m.Encode(false))
			wait()
			for _, cl := range []*call{first, second} {
				if cl.done {
					fail("reply-with-foreign-id-delivered", fmt.Sprintf("a reply with wire id %d completed the exchange whose wire id is %d/%d (ids differ in bit %d): %s", m.ID, fq.WireID, sq.WireID, bit, cl))
					return
				}
			}
		}
	}
	inject(env.Answer(sq.Msg, 2, 60).Encode(false))
	inject(env.Answer(fq.Msg, 1, 60).Encode(false))
	wait()
	for i, cl := range []*call{first, second} {
		_, ser, ok := byte(0), byte(0), false
		if cl.resp != nil {
			_, ser, ok = env.AnswerKey(cl.resp)
		}
		if !cl.done || cl.resp == nil || !ok || int(ser) != i+1 {
			fail("own-reply-not-delivered", fmt.Sprintf("exchange %d did not return the reply sent for its wire id: %s", i, cl))
		}
	}
	finished = true
	tr.Close()
	hsleep(7 * time.Second)
	wait()
	for _, v := range own.Audit() {
		fail("ownership", v)
	}
	rep.Eval(desc)
	rep.State("bits|" + desc)
}

// c05Siblings: a long run over two connections of one transport (MaxConcurrentQuery 1, always one exchange in flight, so that the
// exchanges alternate between two live connections): more than 65536 exchanges in total, fewer than 65536 on either
// connection. A wire id never shows up twice on the same connection.
func c05Siblings(rep *report.R, tcp bool, total int) {
	network := "udp"
	if tcp {
		network = "tcp"
	}
	desc := fmt.Sprintf("tcp=%v %d exchanges alternating over two connections", tcp, total)
	fail := func(sig, msg string) {
		rep.Violate("C05:siblings:"+sig, msg+"\n  "+desc, map[string]any{"Choices": []int{}, "Scenario": "siblings"})
	}
	d := env.NewDialer(network)
	tr := NewPipelineTransport(PipelineOpts{DialContext: d.Dial, IsTCP: tcp, IdleTimeout: time.Hour, MaxConcurrentQuery: 1})
	var all []*call
	defer abandon(tr, d, &all)
	seen := map[int]map[uint16]bool{}
	decodeNewest := func(ci int) *refdns.Msg {
		w := d.ImplEnd(ci).LastWrite()
		if tcp {
			if len(w) < 2 {
				return nil
			}
			w = w[2:]
		}
		m, err := refdns.Decode(w)
		if err != nil {
			return nil
		}
		return m
	}
	answer := func(ci int, m *refdns.Msg) {
		b := env.Answer(m, 1, 60).Encode(false)
		if tcp {
			b = refdns.Frame(b)
		}
		d.ImplEnd(ci).Inject(b)
	}
	noteID := func(ci int) bool {
		w := d.ImplEnd(ci).LastWrite()
		if tcp && len(w) >= 2 {
			w = w[2:]
		}
		if len(w) < 2 {
			return true
		}
		id := uint16(w[0])<<8 | uint16(w[1])
		if seen[ci] == nil {
			seen[ci] = map[uint16]bool{}
		}
		if seen[ci][id] {
			fail("wire-id-reused", fmt.Sprintf("wire id %d appears a second time on connection %d after %d exchanges on the transport (%d ids used on this connection so far)", id, ci, len(seen[0])+len(seen[1])+len(seen[2]), len(seen[ci])))
			return false
		}
		seen[ci][id] = true
		return true
	}
	var prev *call
	var prevMsg *refdns.Msg
	prevConn := -1
	for i := 0; i < total; i++ {
		cl := newCall(i, 0)
		cl.name = refdns.N(fmt.Sprintf("s%d", i), "test")
		cl.wire = refdns.Query(cl.id, cl.name, refdns.TypeA, 1).Encode(false)
		all = append(all, cl)
		cl.start(tr, 30*time.Second)
		wait()
		// which connection carries it: the one whose newest write is this query
		conn := -1
		for ci := d.NumConns() - 1; ci >= 0; ci-- {
			if w := d.ImplEnd(ci).LastWrite(); w != nil && bytes.Contains(w, []byte(fmt.Sprintf("\x02s%d\x04test", i))) || bytes.Contains(d.ImplEnd(ci).LastWrite(), []byte(fmt.Sprintf("s%d\x04test", i))) {
				conn = ci
				break
			}
		}
		if conn >= 0 && !noteID(conn) {
			return
		}
		var msg *refdns.Msg
		if conn >= 0 {
			msg = decodeNewest(conn)
		}
		if prev != nil {
			if prevMsg == nil {
				fail("setup", fmt.Sprintf("exchange %d cannot be answered", i-1))
				return
			}
			answer(prevConn, prevMsg)
			wait()
			if !prev.done || prev.resp == nil {
				fail("exchange-failed", fmt.Sprintf("exchange %d against a healthy server failed: %s", i-1, prev))
				return
			}
		}
		prev, prevConn, prevMsg = cl, conn, msg
		if conn < 0 {
			fail("setup", fmt.Sprintf("query %d is on no connection", i))
			return
		}
		if len(all) > 8 {
			all = all[len(all)-4:] // finished exchanges need no teardown
		}
		if i%1024 == 0 {
			for ci := 0; ci < d.NumConns(); ci++ {
				d.ImplEnd(ci).TakeWritten() // keep the recorded writes short (LastWrite of an idle connection is then empty, which is fine)
			}
			report.Progress()
		}
	}
	rep.Eval(desc)
	rep.Count("siblings_connections", int64(d.NumConns()))
}

func TestVerifC05(t *testing.T) {
	rep := report.New("C05 pipeline demultiplexing")
	defer rep.Write()
	depth := report.ParamInt("DEPTH", 7)
	bound := report.ParamInt("FAULTS", 2)
	nCalls := report.ParamInt("CALLS", 3)
	rep.Rule = fmt.Sprintf("E3: real PipelineTransport (TCP and UDP framing) over scripted dialer/peer in a synctest bubble; %d exchanges; events {start (in index order), reply to any received frame in any order, duplicate reply, "+
		"cancel, unsolicited reply, server FIN, reply and FIN in the same instant, stalled write + commit, early reply for the id of a write still in progress + FIN, advance 2s (= every deadline)}; all event orders to depth %d with <=%d fault events (cancel/dup/unsolicited/FIN); id counter start states {0, 65533, 65534, 65535}; on UDP also with one exchange whose query exceeds the datagram size (EMSGSIZE on write) among 3-4 exchanges; "+
		"oracle after every event: returned message was sent by the server for that exchange's own frame, caller id restored, no reply used twice, wire ids distinct per connection, no (nil,nil), ownership audit; "+
		"plus id-bit probes: two exchanges in flight whose wire ids are {0,255,256,1024} apart from start ids {0,255,4096,65530}; for each and every bit position a well-formed reply whose id differs in exactly that bit must complete nobody, then each gets its own reply; plus a run of 66136 exchanges alternating over two live connections of one transport (MaxConcurrentQuery 1): no wire id twice on one connection; "+
		"distinct = distinct (event sequence => outcomes); states = distinct outcome vectors", nCalls, depth, bound)
	type cfg struct {
		tcp      bool
		qid      int
		oversize int // index of the exchange whose query exceeds the datagram size, -1: none
		calls    int
	}
	cfgs := []cfg{{true, 0, -1, nCalls}, {false, 0, -1, nCalls}, {true, 65534, -1, nCalls}, {true, 65535, -1, nCalls}, {false, 65533, -1, nCalls}, {true, 65533, -1, nCalls},
		{false, 0, 1, nCalls + 1}, {false, 0, 0, nCalls}}
	if pauseMode {
		// the pause-point exploration multiplies every path by the statements it passes: fewer start states. 65535: the connection's
		// last id - two callers that both pick the connection before either has registered its query meet at the end of the id space
		cfgs = []cfg{{true, 0, -1, nCalls}, {false, 0, -1, nCalls}, {true, 65535, -1, nCalls}}
	}
	if rp := report.ReplayFile(); rp != nil {
		var x struct{ Scenario string }
		rp.Decode(&x)
		if x.Scenario == "siblings" {
			bubble(t, func() { hmu.Lock(); c05Siblings(rep, true, 65536+600); hmu.Unlock() })
			return
		}
		if x.Scenario == "bits" {
			for _, tcp := range []bool{true, false} {
				tcp := tcp
				runExplore(t, rep, -1, func(c *choice.Ctx) { c05BitProbe(c, rep, tcp) })
			}
			return
		}
		for _, cf := range cfgs {
			if fmt.Sprintf("tcp=%v,qid=%d,over=%d", cf.tcp, cf.qid, cf.oversize) == x.Scenario {
				runExplore(t, rep, bound, func(c *choice.Ctx) { c05Scenario(c, rep, cf.tcp, cf.qid, cf.calls, depth, cf.oversize) })
			}
		}
		return
	}
	bubble(t, func() {
		for _, cf := range cfgs {
			cf := cf
			st := runExplore(t, rep, bound, func(c *choice.Ctx) { c05Scenario(c, rep, cf.tcp, cf.qid, cf.calls, depth, cf.oversize) })
			rep.Count(fmt.Sprintf("exec_tcp=%v_qid=%d_over=%d", cf.tcp, cf.qid, cf.oversize), st.Executions)
		}
		if pauseMode {
			return
		}
		for _, tcp := range []bool{true, false} {
			tcp := tcp
			st := runExplore(t, rep, -1, func(c *choice.Ctx) { c05BitProbe(c, rep, tcp) })
			rep.Count(fmt.Sprintf("exec_id_bits_tcp=%v", tcp), st.Executions)
		}
		if sh, _ := report.Shard(); sh == 0 {
			hmu.Lock()
			c05Siblings(rep, true, 65536+600)
			if report.Thorough() {
				c05Siblings(rep, false, 2*65536+600)
			}
			hmu.Unlock()
		}
	})
	rep.Sample(map[string]any{"events": "start0,start1,reply2(c0,id1),cancel0,reply1(c0,id0),start2,dup1", "outcomes": "err(context canceled),ok(serial 2),inflight"})
}
