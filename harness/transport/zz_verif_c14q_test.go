package transport

// C14 for DoQ and DoH: fault enumeration on the real QuicTransport over a fake
// quic connection and on the real DoHTransport over a scripted RoundTripper.

import (
	"bytes"
	"context"
	"fmt"
	"io"
	"net"
	"net/http"
	"strings"
	"sync"
	"testing"
	"time"

	"github.com/IrineSistiana/mosproxy/internal/zzverif/choice"
	"github.com/IrineSistiana/mosproxy/internal/zzverif/env"
	"github.com/IrineSistiana/mosproxy/internal/zzverif/refdns"
	"github.com/IrineSistiana/mosproxy/internal/zzverif/report"
	"github.com/quic-go/quic-go"
)

func c14QuicScenario(c *choice.Ctx, rep *report.R, depth int) {
	own := env.InstallOwn(0xA5, vRace)
	defer env.UninstallOwn()
	pauseBegin(c)
	defer pauseEnd()
	d := env.NewDialer("udp")
	var cmu sync.Mutex
	var conns []*env.FakeQuicConn
	stallNext := false
	tr := NewQuicTransport(QuicTransportOpts{DialContext: func(ctx context.Context) (quic.Connection, error) {
		nc, err := d.Dial(ctx)
		if err != nil {
			return nil, err
		}
		fc := env.NewFakeQuicConn(nc.LocalAddr(), nc.RemoteAddr())
		cmu.Lock()
		conns = append(conns, fc)
		fc.StallNext = stallNext
		stallNext = false
		cmu.Unlock()
		return fc, nil
	}})
	var calls []*call
	finished, closing := false, false
	defer func() {
		if !finished {
			cmu.Lock()
			for _, fc := range conns {
				fc.Die()
			}
			cmu.Unlock()
			abandon(tr, d, &calls)
		}
	}()
	var trace []string
	fail := func(sig, msg string) {
		rep.Violate("C14:quic:"+sig, msg+"\n  quic: "+strings.Join(trace, " ")+pauseNote(), map[string]any{"Choices": c.Choices(), "Kind": "quic"})
	}
	const timeout = 2 * time.Second
	type skey struct{ c, s int }
	answered := map[skey]bool{}
	serial := byte(0)
	sent := map[byte]string{}
	connsAtStart := map[int]int{}  // exchange -> number of connections that existed when it started
	envFaulted := false            // a dial fault or a stalled stream was scripted in this execution
	killedByEnv := map[int]bool{}  // connections the environment killed
	stragglers := map[skey]bool{}  // streams of killed connections that have not been told yet
	reflected := map[string]bool{} // questions whose query the server sent back instead of a response
	otherFault := false            // a fault other than the death of a whole connection happened in this execution
	getConns := func() []*env.FakeQuicConn {
		cmu.Lock()
		defer cmu.Unlock()
		return append([]*env.FakeQuicConn(nil), conns...)
	}
	check := func() {
		for _, cl := range calls {
			if cl.panicked != nil {
				fail("panic", fmt.Sprintf("exchange %d: %v", cl.idx, cl.panicked))
			}
			if cl.nilnil {
				fail("nil-nil", fmt.Sprintf("exchange %d returned (nil, nil)", cl.idx))
			}
			if cl.inflight() && !time.Now().Before(cl.deadline) && !paused() {
				fail("missed-deadline", fmt.Sprintf("exchange %d still running at its deadline", cl.idx))
			}
			if cl.done && cl.doneAt.After(cl.deadline) {
				fail("late-return", fmt.Sprintf("exchange %d returned %v after its deadline", cl.idx, cl.doneAt.Sub(cl.deadline)))
			}
			if cl.done && cl.resp == nil && !cl.canceled && !otherFault && !envFaulted && cl.doneAt.Before(cl.deadline) && !closing {
				// The only faults so far are deaths of whole connections. An exchange may report that if it happened to a
				// connection that was new to it; it must survive the death of a connection it took over, and it has nothing to
				// do with the death of a connection it never used.
				excused := false
				for ci, fc := range getConns() {
					if !killedByEnv[ci] || !(connsAtStart[cl.idx] <= ci) {
						continue
					}
					if pz.used {
						excused = true // held between getting the connection and writing to it, the exchange may have met the dead connection without its query ever being on it
					}
					for si := 0; si < fc.NumStreams(); si++ {
						st, _ := fc.Stream(si)
						if fs, _ := env.SplitFrames(st.E.Written()); len(fs) == 1 {
							if q, err := refdns.Decode(fs[0]); err == nil && len(q.Q) == 1 && cl.name.Equal(q.Q[0].Name) {
								excused = true
							}
						}
					}
				}
				if !excused {
					fail("collateral-failure", fmt.Sprintf("the only faults were deaths of whole connections, none of them a connection that was new to exchange %d and carried its query; new connections are healthy, yet the exchange failed: %s", cl.idx, cl))
				}
			}
			if cl.resp != nil && reflected[cl.name.String()] && len(cl.resp.An) == 0 && !cl.resp.Has(refdns.BitQR) {
				continue // its own query, reflected by the server and handed through
			}
			if cl.resp != nil {
				_, s, ok := env.AnswerKey(cl.resp)
				if !ok || sent[s] != cl.name.String() {
					fail("wrong-reply", fmt.Sprintf("exchange %d got a reply that is not the server's reply to its query", cl.idx))
				}
				if cl.resp.ID != cl.id {
					fail("id-not-restored", fmt.Sprintf("exchange %d: id %#x", cl.idx, cl.resp.ID))
				}
			}
		}
		for ci, fc := range getConns() {
			for si := 0; si < fc.NumStreams(); si++ {
				st, _ := fc.Stream(si)
				w := st.E.Written()
				if t := own.Tainted(w); t != "" {
					fail("tainted-wire", fmt.Sprintf("stream %d of connection %d carries %s: %x", si, ci, t, w))
				}
				if fs, _ := env.SplitFrames(w); len(fs) == 1 {
					if m, err := refdns.Decode(fs[0]); err == nil && m.ID != 0 {
						fail("doq-id-not-zero", fmt.Sprintf("DoQ query sent with id %#x", m.ID))
					}
				}
			}
		}
	}
	for step := 0; step < depth; step++ {
		var menu []event
		if len(calls) < 3 {
			menu = append(menu, event{name: fmt.Sprintf("start%d", len(calls)), do: func() {
				cl := newCall(len(calls), 0)
				calls = append(calls, cl)
				connsAtStart[cl.idx] = len(getConns())
				if d.Pending() > 0 || d.Hanging() > 0 || paused() {
					// a dial is in progress (or a goroutine stands still, possibly the dialling one between getting its connection
					// and publishing it): whatever connection it yields is new to this exchange
					connsAtStart[cl.idx] = -1
				}
				cl.start(tr, timeout)
			}})
		}
		if len(getConns()) == 0 || true {
			menu = append(menu, event{name: "next-dial-refused", fault: true, do: func() { envFaulted = true; d.Script(env.DialRefuse) }})
			menu = append(menu, event{name: "next-dial-hangs", fault: true, do: func() { envFaulted = true; d.Script(env.DialHang) }})
		}
		if !stallNext {
			menu = append(menu, event{name: "stall-next-stream", fault: true, do: func() {
				envFaulted = true
				cmu.Lock()
				stallNext = true
				for _, fc := range conns {
					fc.StallNext = true
				}
				cmu.Unlock()
			}})
		}
		for ci, fc := range getConns() {
			ci, fc := ci, fc
			if fc.IsClosed() {
				for si := 0; si < fc.NumStreams(); si++ {
					si, k := si, skey{ci, si}
					if stragglers[k] {
						menu = append(menu, event{name: fmt.Sprintf("straggler-learns(c%d.s%d)", ci, si), do: func() { delete(stragglers, k); fc.KillStream(si) }})
					}
				}
				continue
			}
			menu = append(menu, event{name: fmt.Sprintf("conn-dies(c%d)", ci), fault: true, do: func() {
				killedByEnv[ci] = true
				// exchanges whose query is on this connection, which for them was a connection taken over from an earlier exchange
				var victims []*call
				for si := 0; si < fc.NumStreams(); si++ {
					st, _ := fc.Stream(si)
					if answered[skey{ci, si}] {
						continue
					}
					if fs, _ := env.SplitFrames(st.E.Written()); len(fs) == 1 {
						if q, err := refdns.Decode(fs[0]); err == nil && len(q.Q) == 1 {
							for _, cl := range calls {
								if cl.inflight() && !cl.canceled && cl.name.Equal(q.Q[0].Name) && connsAtStart[cl.idx] > ci {
									victims = append(victims, cl)
								}
							}
						}
					}
				}
				fc.Die()
				if envFaulted || len(victims) == 0 || paused() {
					return // (a goroutine held at a pause point may be the victim, or the one whose dial the victim waits for)
				}
				wait()
				if paused() {
					return
				}
				// the server is healthy for new connections: the retry's query is answered
				for j, fc2 := range getConns()[ci+1:] {
					for si := 0; si < fc2.NumStreams(); si++ {
						st, _ := fc2.Stream(si)
						if fs, _ := env.SplitFrames(st.E.Written()); len(fs) == 1 && !answered[skey{ci + 1 + j, si}] {
							if q, err := refdns.Decode(fs[0]); err == nil && len(q.Q) == 1 && !st.E.IsClosed() {
								for _, cl := range victims {
									if cl.name.Equal(q.Q[0].Name) && cl.inflight() {
										answered[skey{ci + 1 + j, si}] = true
										serial++
										sent[serial] = q.Q[0].Name.String()
										st.E.Inject(refdns.Frame(env.Answer(q, serial, 60).Encode(false)))
										st.E.Peer().CloseWrite()
									}
								}
							}
						}
					}
				}
				wait()
				if paused() {
					return
				}
				for _, cl := range victims {
					if !cl.done || cl.resp == nil {
						fail("reused-connection-failure-not-survived", fmt.Sprintf("exchange %d was on connection %d, taken over from an earlier exchange, when it died; new connections are healthy, yet the exchange did not succeed: %s", cl.idx, ci, cl))
					}
				}
			}})
			for si := 0; si < fc.NumStreams(); si++ {
				si := si
				st, _ := fc.Stream(si)
				if answered[skey{ci, si}] || st.E.IsClosed() || fc.NumStreams() < 2 {
					continue
				}
				// the connection dies, and the exchange on stream si learns of it later than everybody else
				menu = append(menu, event{name: fmt.Sprintf("conn-dies-straggler(c%d.s%d)", ci, si), fault: true, do: func() {
					killedByEnv[ci] = true
					stragglers[skey{ci, si}] = true
					fc.DieExcept(si)
				}})
			}
			for si := 0; si < fc.NumStreams(); si++ {
				si := si
				st, _ := fc.Stream(si)
				k := skey{ci, si}
				if st.E.StalledWrites() > 0 {
					menu = append(menu, event{name: fmt.Sprintf("commit(c%d.s%d)", ci, si), do: func() { st.E.Commit() }})
				}
				fs, _ := env.SplitFrames(st.E.Written())
				if len(fs) == 1 && !answered[k] {
					q, err := refdns.Decode(fs[0])
					if err != nil {
						continue
					}
					mk := func() []byte {
						serial++
						sent[serial] = q.Q[0].Name.String()
						return refdns.Frame(env.Answer(q, serial, 60).Encode(false))
					}
					menu = append(menu, event{name: fmt.Sprintf("reply(c%d.s%d)", ci, si), do: func() { answered[k] = true; st.E.Inject(mk()); st.E.Peer().CloseWrite() }})
					menu = append(menu, event{name: fmt.Sprintf("half-reply+fin(c%d.s%d)", ci, si), fault: true, do: func() {
						answered[k] = true
						b := mk()
						st.E.Inject(b[:len(b)/2])
						st.E.Peer().CloseWrite()
					}})
					menu = append(menu, event{name: fmt.Sprintf("garbage(c%d.s%d)", ci, si), fault: true, do: func() {
						answered[k] = true
						st.E.Inject(refdns.Frame([]byte{1, 2, 3}))
						st.E.Peer().CloseWrite()
					}})
					// a decodable message that is not a response: the query itself comes back (QR clear). Whether the transport hands it
					// to the caller or reports an error is its business; it must do one of the two
					menu = append(menu, event{name: fmt.Sprintf("query-reflected(c%d.s%d)", ci, si), fault: true, do: func() {
						answered[k] = true
						reflected[q.Q[0].Name.String()] = true
						st.E.Inject(refdns.Frame(q.Encode(false)))
						st.E.Peer().CloseWrite()
					}})
					menu = append(menu, event{name: fmt.Sprintf("stream-reset(c%d.s%d)", ci, si), fault: true, do: func() { answered[k] = true; st.E.Abort() }})
				}
			}
		}
		for _, cl := range calls {
			cl := cl
			if cl.inflight() && !cl.canceled {
				menu = append(menu, event{name: fmt.Sprintf("cancel%d", cl.idx), fault: true, do: func() { cl.canceled = true; cl.cancel() }})
			}
		}
		if len(calls) > 0 {
			menu = append(menu, event{name: "advance2s", do: func() { hsleep(2 * time.Second) }})
		}
		ev := pick(c, menu)
		if ev == nil {
			break
		}
		trace = append(trace, ev.name)
		if ev.fault && !strings.HasPrefix(ev.name, "conn-dies") {
			otherFault = true
		}
		ev.do()
		wait()
		check()
	}
	// a healthy server afterwards: a fresh exchange must succeed on a (possibly new) connection
	selOff()
	pauseOff()
	if resume() {
		wait()
		check()
	}
	d.ClearScript()
	cmu.Lock()
	stallNext = false
	for _, fc := range conns {
		fc.StallNext = false
		for si := 0; si < fc.NumStreams(); si++ {
			st, _ := fc.Stream(si)
			st.E.Commit()
		}
	}
	cmu.Unlock()
	hsleep(7 * time.Second)
	wait()
	last := newCall(len(calls), 0)
	calls = append(calls, last)
	last.start(tr, timeout)
	wait()
	for ci, fc := range getConns() {
		if fc.IsClosed() {
			continue
		}
		for si := 0; si < fc.NumStreams(); si++ {
			st, _ := fc.Stream(si)
			if fs, _ := env.SplitFrames(st.E.Written()); len(fs) == 1 && !answered[skey{ci, si}] {
				if q, err := refdns.Decode(fs[0]); err == nil && q.Q[0].Name.Equal(last.name) {
					serial++
					sent[serial] = q.Q[0].Name.String()
					st.E.Inject(refdns.Frame(env.Answer(q, serial, 60).Encode(false)))
					st.E.Peer().CloseWrite()
				}
			}
		}
	}
	wait()
	check()
	if !last.done || last.resp == nil {
		fail("wedged-after-fault", fmt.Sprintf("an exchange against a healthy server after the faults did not succeed: %s", last))
	}
	closing = true
	for _, cl := range calls {
		cl.cancel()
	}
	tr.Close()
	hsleep(7 * time.Second)
	wait()
	check()
	for _, v := range own.Audit() {
		fail("ownership", v)
	}
	finished = true
	var st []string
	for _, cl := range calls {
		st = append(st, cl.String())
	}
	rep.Eval("quic:" + strings.Join(trace, ",") + "=>" + strings.Join(st, ","))
	rep.State(fmt.Sprintf("quic|%v|%d", st, len(getConns())))
}

// ---- DoH

type c14RT struct {
	mu      sync.Mutex
	pending []*c14Req
}

type c14Req struct {
	req *http.Request
	ch  chan func() (*http.Response, error)
	at  time.Time
}

func (r *c14RT) RoundTrip(req *http.Request) (*http.Response, error) {
	p := &c14Req{req: req, ch: make(chan func() (*http.Response, error), 1), at: time.Now()}
	r.mu.Lock()
	r.pending = append(r.pending, p)
	r.mu.Unlock()
	select {
	case f := <-p.ch:
		return f()
	case <-req.Context().Done():
		return nil, req.Context().Err()
	}
}

func (r *c14RT) reqs() []*c14Req {
	r.mu.Lock()
	defer r.mu.Unlock()
	return append([]*c14Req(nil), r.pending...)
}

type errBody struct{ n int }

func (e *errBody) Read(p []byte) (int, error) {
	if e.n == 0 {
		e.n++
		return copy(p, []byte{0, 1, 2}), nil
	}
	return 0, io.ErrUnexpectedEOF
}
func (e *errBody) Close() error { return nil }

var c14DoHOutcomes = []string{"ok", "error", "status500", "garbage-body", "body-read-error", "empty-body", "hang", "huge-body"}

func c14DoHScenario(c *choice.Ctx, rep *report.R) {
	own := env.InstallOwn(0xA5, vRace)
	defer env.UninstallOwn()
	rt := &c14RT{}
	tr, err := NewDoHTransport(DoHTransportOpts{EndPointUrl: "https://dns.example/dns-query", RoundTripper: rt})
	if err != nil {
		panic(err)
	}
	n := 1 + c.Choose(2, "n")
	// a query of 5000 octets (EDNS0 padding): far beyond what fits a short URL - however the transport chooses to send it (a long
	// GET, or a POST whose body the HTTP stack may read after the response has come back), the bytes on the wire are the query
	bigQ := c.Deviate(2, "query-of-5000-octets") == 1
	if bigQ {
		n = 1
	}
	var calls []*call
	var outcomes []string
	fail := func(sig, msg string) {
		rep.Violate("C14:doh:"+sig, msg+fmt.Sprintf("\n  doh outcomes=%v big-query=%v", outcomes, bigQ), map[string]any{"Choices": c.Choices(), "Kind": "doh"})
	}
	for i := 0; i < n; i++ {
		outcomes = append(outcomes, c14DoHOutcomes[c.Deviate(len(c14DoHOutcomes), fmt.Sprintf("outcome%d", i))])
	}
	cancelFirst := c.Deviate(2, "cancel-first") == 1
	const timeout = 2 * time.Second
	for i := 0; i < n; i++ {
		cl := newCall(i, 0)
		if bigQ {
			qm := refdns.Query(cl.id, cl.name, refdns.TypeA, 1)
			qm.Ar = []refdns.RR{refdns.OPT(1232, 0, refdns.Option(12, make([]byte, 5000-len(cl.wire)-15)))}
			cl.wire = qm.Encode(false)
		}
		calls = append(calls, cl)
		cl.start(tr, timeout)
	}
	t0 := time.Now()
	wait()
	rs := rt.reqs()
	var lateBodies []io.Reader
	if len(rs) != n {
		fail("request-count", fmt.Sprintf("%d HTTP requests for %d exchanges", len(rs), n))
	}
	if cancelFirst {
		calls[0].cancel()
		wait()
	}
	for _, r := range rs {
		q := r.req.URL.Query().Get("dns")
		wire, _ := b64(q)
		if r.req.Method == "POST" && r.req.Body != nil && n == 1 {
			// the body is read later, as an HTTP stack may do: after the response was delivered and the exchange has returned
			lateBodies = append(lateBodies, r.req.Body)
			wire = append([]byte{0, 0}, calls[0].wire[2:]...)
		}
		qm, derr := refdns.Decode(wire)
		if derr != nil {
			fail("bad-request", "dns parameter does not decode")
			continue
		}
		if qm.ID != 0 {
			fail("doh-id-not-zero", fmt.Sprintf("DoH query sent with id %#x", qm.ID))
		}
		// requests reach the RoundTripper in goroutine order: match them to their exchange by question
		i := -1
		for j, cl := range calls {
			if len(qm.Q) == 1 && qm.Q[0].Name.Equal(cl.name) {
				i = j
			}
		}
		if i < 0 {
			fail("bad-request", "request for an unknown question")
			continue
		}
		if r.req.Header.Get("Accept") != "application/dns-message" || (r.req.Method != "GET" && !(r.req.Method == "POST" && r.req.Header.Get("Content-Type") == "application/dns-message")) {
			fail("bad-request", "method/accept header")
		}
		ans := env.Answer(qm, byte(i+1), 60).Encode(false)
		resp := func(code int, body io.ReadCloser) func() (*http.Response, error) {
			return func() (*http.Response, error) {
				return &http.Response{StatusCode: code, Body: body, Header: http.Header{}}, nil
			}
		}
		switch outcomes[i] {
		case "ok":
			r.ch <- resp(200, io.NopCloser(bytes.NewReader(ans)))
		case "error":
			r.ch <- func() (*http.Response, error) { return nil, &net.OpError{Op: "read", Err: io.ErrUnexpectedEOF} }
		case "status500":
			r.ch <- resp(500, io.NopCloser(strings.NewReader("internal error")))
		case "garbage-body":
			r.ch <- resp(200, io.NopCloser(bytes.NewReader([]byte{0xFF, 0xC0, 0x0C, 1})))
		case "body-read-error":
			r.ch <- resp(200, &errBody{})
		case "empty-body":
			r.ch <- resp(200, io.NopCloser(bytes.NewReader(nil)))
		case "huge-body":
			r.ch <- resp(200, io.NopCloser(bytes.NewReader(append(ans, make([]byte, 70000)...))))
		case "hang":
		}
	}
	wait()
	for i, cl := range calls {
		if i >= len(outcomes) {
			break
		}
		if cl.panicked != nil {
			fail("panic", fmt.Sprintf("exchange %d: %v", i, cl.panicked))
		}
		if cl.nilnil {
			fail("nil-nil:"+outcomes[i], fmt.Sprintf("exchange %d returned (nil, nil)", i))
		}
		switch {
		case cancelFirst && i == 0:
		case outcomes[i] == "ok" || outcomes[i] == "huge-body":
			if outcomes[i] == "ok" && (cl.resp == nil || cl.resp.ID != cl.id || !cl.doneAt.Equal(t0)) {
				fail("good-reply-not-returned", fmt.Sprintf("exchange %d: %s", i, cl))
			}
		case outcomes[i] == "hang":
			if cl.done {
				fail("returned-without-reply", fmt.Sprintf("exchange %d returned although the server is silent: %s", i, cl))
			}
		default:
			if !cl.done || cl.resp != nil {
				fail("fault-not-reported:"+outcomes[i], fmt.Sprintf("exchange %d: %s", i, cl))
			} else if !cl.doneAt.Equal(t0) {
				fail("fault-reported-late:"+outcomes[i], fmt.Sprintf("exchange %d returned after %v", i, cl.doneAt.Sub(t0)))
			}
		}
	}
	for _, lb := range lateBodies {
		b, _ := io.ReadAll(lb)
		want := append([]byte{0, 0}, calls[0].wire[2:]...)
		if t := own.Tainted(b); t != "" {
			fail("tainted-wire", fmt.Sprintf("the request body, read after the response had been delivered, carries %s", t))
		} else if !bytes.Equal(b, want) {
			fail("request-body-changed", fmt.Sprintf("the request body, read after the response had been delivered, is not the query (%d octets, want %d)", len(b), len(want)))
		}
	}
	hsleep(timeout)
	wait()
	for i, cl := range calls {
		if !cl.done {
			fail("missed-deadline", fmt.Sprintf("exchange %d still running at its deadline (outcome %s)", i, outcomes[i]))
		}
		if cl.done && cl.doneAt.After(cl.deadline) {
			fail("late-return", fmt.Sprintf("exchange %d", i))
		}
	}
	hsleep(7 * time.Second)
	wait()
	tr.Close()
	for _, v := range own.Audit() {
		fail("ownership", v)
	}
	rep.Eval(fmt.Sprintf("doh:%v:%v", outcomes, cancelFirst))
	rep.State(fmt.Sprintf("doh|%v", outcomes))
}

func TestVerifC14Q(t *testing.T) {
	rep := report.New("C14 DoQ / DoH fault enumeration")
	defer rep.Write()
	depth := report.ParamInt("DEPTH", 5)
	bound := report.ParamInt("FAULTS", 2)
	rep.Rule = fmt.Sprintf("E3: (quic) real QuicTransport over a fake quic connection: all sequences of length <=%d over {start exchange (<=3), next dial refused/hangs, stall the next stream's write + commit, per stream reply / half reply+FIN / garbage / reset, connection dies, cancel, advance 2s} with <=%d faults, then a healthy server; "+
		"(doh) real DoHTransport over a scripted RoundTripper: 1..2 concurrent exchanges x outcome %v x cancel of the first; oracle: return by deadline, no (nil,nil), faults reported at once, good replies returned with the caller's id, query id 0 on the wire, wire bytes free of released memory, transport usable afterwards", depth, bound, c14DoHOutcomes)
	bubble(t, func() {
		if rp := report.ReplayFile(); rp != nil {
			var x struct{ Kind string }
			rp.Decode(&x)
			if x.Kind == "doh" {
				runExplore(t, rep, bound, func(c *choice.Ctx) { c14DoHScenario(c, rep) })
			} else {
				runExplore(t, rep, bound, func(c *choice.Ctx) { c14QuicScenario(c, rep, depth) })
			}
			return
		}
		st := runExplore(t, rep, bound, func(c *choice.Ctx) { c14QuicScenario(c, rep, depth) })
		rep.Count("executions_quic", st.Executions)
		st = runExplore(t, rep, bound, func(c *choice.Ctx) { c14DoHScenario(c, rep) })
		rep.Count("executions_doh", st.Executions)
	})
	rep.Sample(map[string]any{"kind": "quic", "events": "stall-next-stream start0 advance2s commit(c0.s0)", "oracle": "no released memory reaches the wire"})
}
