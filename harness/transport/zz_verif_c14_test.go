package transport

// C14: exchanges end by their deadline and survive stale connections.
// Exhaustive enumeration of fault placements (<=2 per execution) on the real
// transports: dial faults, faults after the write / mid reply / while idle in
// the pool, then a healthy server.

import (
	"fmt"
	"io"
	"runtime"
	"strings"
	"testing"
	"time"

	"github.com/IrineSistiana/mosproxy/internal/zzverif/choice"
	"github.com/IrineSistiana/mosproxy/internal/zzverif/env"
	"github.com/IrineSistiana/mosproxy/internal/zzverif/refdns"
	"github.com/IrineSistiana/mosproxy/internal/zzverif/report"
)

type c14Transport interface {
	exchanger
	io.Closer
}

type c14Kind struct {
	name     string
	tcp      bool // length-prefixed framing
	pipeline bool
	mk       func(d *env.Dialer) c14Transport
}

func c14Kinds() []c14Kind {
	return []c14Kind{
		{"pipeline-tcp", true, true, func(d *env.Dialer) c14Transport {
			return NewPipelineTransport(PipelineOpts{DialContext: d.Dial, IsTCP: true, IdleTimeout: 10 * time.Second, MaxConcurrentQuery: 64})
		}},
		{"pipeline-udp", false, true, func(d *env.Dialer) c14Transport {
			return NewPipelineTransport(PipelineOpts{DialContext: d.Dial, IsTCP: false, IdleTimeout: time.Minute, MaxConcurrentQuery: 4096})
		}},
		{"reuse-tcp", true, false, func(d *env.Dialer) c14Transport {
			return NewReuseConnTransport(ReuseConnOpts{DialContext: d.Dial, IdleTimeout: 10 * time.Second})
		}},
	}
}

// auto-responder: answers every complete query frame on a connection at once (a healthy server)
type c14Server struct {
	d       *env.Dialer
	tcp     bool
	healthy bool
	handled map[int]int
	broken  map[int]bool // connections the faulty server mistreated: it never talks on them again
	serial  byte
	sent    map[byte]string // serial -> question name
}

func (s *c14Server) pump() {
	if !s.healthy {
		return
	}
	for progress := true; progress; {
		progress = false
		for ci := 0; ci < s.d.NumConns(); ci++ {
			impl := s.d.ImplEnd(ci)
			qs := env.QueriesOn(ci, impl, s.tcp)
			for _, q := range qs[s.handled[ci]:] {
				s.handled[ci]++
				progress = true
				if q.Msg == nil || impl.IsClosed() || s.broken[ci] {
					continue
				}
				s.reply(ci, q, true)
			}
		}
		wait()
	}
}

func (s *c14Server) reply(ci int, q env.PeerQuery, whole bool) []byte {
	s.serial++
	s.sent[s.serial] = q.Msg.Q[0].Name.String()
	b := env.Answer(q.Msg, s.serial, 60).Encode(false)
	if s.tcp {
		b = refdns.Frame(b)
	}
	if whole {
		s.d.ImplEnd(ci).Inject(b)
	}
	return b
}

var c14Faults = []string{"none", "silent", "half-prefix", "half-body", "garbage", "fin", "abort", "slow-reply", "stall-write"}

func c14Scenario(c *choice.Ctx, rep *report.R, k c14Kind) {
	own := env.InstallOwn(0xA5, vRace)
	defer env.UninstallOwn()
	network := "udp"
	if k.tcp {
		network = "tcp"
	}
	d := env.NewDialer(network)
	tr := k.mk(d)
	srv := &c14Server{d: d, tcp: k.tcp, healthy: true, handled: map[int]int{}, broken: map[int]bool{}, sent: map[byte]string{}}
	var trace []string
	fail := func(sig, msg string) {
		rep.Violate("C14:"+k.name+":"+sig, fmt.Sprintf("%s\n  %s: %s", msg, k.name, strings.Join(trace, " ")), map[string]any{"Choices": c.Choices(), "Kind": k.name})
	}
	note := func(f string, a ...any) { trace = append(trace, fmt.Sprintf(f, a...)) }
	const timeout = 2 * time.Second
	ncall := 0
	newc := func() *call { cl := newCall(ncall, 0); ncall++; return cl }
	var all []*call
	finished := false
	defer func() {
		if !finished {
			abandon(tr, d, &all)
		}
	}()
	basic := func(cl *call) {
		if cl.panicked != nil {
			fail("panic", fmt.Sprintf("exchange %d: %v", cl.idx, cl.panicked))
		}
		if cl.both != nil {
			fail("reply-with-error", fmt.Sprintf("exchange %d returned a message together with an error (the caller treats it as failed): %v", cl.idx, cl.both))
		}
		if cl.nilnil {
			fail("nil-nil", fmt.Sprintf("exchange %d returned (nil, nil)", cl.idx))
		}
		if cl.inflight() && !time.Now().Before(cl.deadline) {
			fail("missed-deadline", fmt.Sprintf("exchange %d still running at its deadline", cl.idx))
		}
		if cl.done && cl.doneAt.After(cl.deadline) {
			fail("late-return", fmt.Sprintf("exchange %d returned %v after its deadline", cl.idx, cl.doneAt.Sub(cl.deadline)))
		}
		if cl.resp != nil {
			_, s, ok := env.AnswerKey(cl.resp)
			if !ok || srv.sent[s] != cl.name.String() {
				fail("wrong-reply", fmt.Sprintf("exchange %d got a reply that is not the server's reply to its query", cl.idx))
			}
		}
	}

	// ---- phase 1: warm the pool with w exchanges started together and answered
	w := c.Choose(3, "warm") // 0,1,2 pooled exchanges
	for i := 0; i < w; i++ {
		cl := newc()
		all = append(all, cl)
		cl.start(tr, timeout)
	}
	wait()
	srv.pump()
	for _, cl := range all {
		if !cl.done || cl.resp == nil {
			fail("healthy-exchange-failed", fmt.Sprintf("warm-up exchange %d against a healthy server: %s", cl.idx, cl))
		}
		basic(cl)
	}
	note("warm=%d(conns=%d)", w, d.NumConns())
	pooled := d.NumConns()
	// non-initial state: the pooled pipelined connection is at the end of its id space
	if pt, ok := tr.(*PipelineTransport); ok && w > 0 && c.Choose(2, "id-counter-near-end") == 1 {
		for _, pc := range poolConns(pt.pool) {
			pc.m.Lock()
			pc.nextQid = 65535
			pc.m.Unlock()
		}
		note("ids-left=1")
	}

	// ---- phase 2: faults on pooled (idle) connections; each non-default answer is one fault
	// 0: none; 1: 5 s; 2: 9.5 s (just short of the 10 s idle timeout of the tcp kinds: the idle deadline falls into the next
	// exchange); 3: 10 s, and closing a socket takes a moment, so the idle timer is still inside its close when the exchanges start
	idleWait := c.Choose(4, "idle-wait")
	slowClose := false
	switch idleWait {
	case 1:
		hsleep(5 * time.Second)
		wait()
		note("idle5s")
	case 2:
		hsleep(9500 * time.Millisecond)
		wait()
		note("idle9.5s")
	case 3:
		for ci := 0; ci < pooled; ci++ {
			d.ImplEnd(ci).StallClose()
		}
		slowClose = pooled > 0
		hsleep(10 * time.Second)
		wait() // whoever closes the idle connections is now parked inside the socket close (a channel wait: the bubble is quiescent)
		note("idle10s(slow socket close)")
	}
	releaseCloses := func() {
		if !slowClose {
			return
		}
		slowClose = false
		// goroutines may be blocked on a mutex held across the parked close: quiescence cannot be awaited before the release
		for i := 0; i < 2000; i++ {
			hmu.Unlock()
			runtime.Gosched()
			hmu.Lock()
		}
		for ci := 0; ci < pooled; ci++ {
			d.ImplEnd(ci).ReleaseClose()
		}
	}
	for ci := 0; ci < pooled; ci++ {
		switch c.Deviate(4, fmt.Sprintf("idle-fault(c%d)", ci)) {
		case 1:
			d.ImplEnd(ci).PeerFIN()
			note("fin-idle(c%d)", ci)
		case 2:
			d.ImplEnd(ci).Abort()
			note("abort-idle(c%d)", ci)
		case 3:
			d.ImplEnd(ci).Inject([]byte{0, 3, 1, 2, 3})
			d.ImplEnd(ci).PeerFIN()
			note("garbage+fin-idle(c%d)", ci)
		}
	}
	wait()
	staleFaults := c.Deviations()

	// ---- phase 3: n exchanges started together; the next dial and the first new connection may be faulty
	n := 1 + c.Choose(2, "n")
	dialFault := c.Deviate(3, "dial-fault")
	switch dialFault {
	case 1:
		d.Script(env.DialRefuse)
		note("next-dial-refused")
	case 2:
		d.Script(env.DialHang)
		note("next-dial-hangs")
	}
	nFaults := len(c14Faults)
	if !k.tcp {
		nFaults-- // a datagram socket has no flow control: "stall-write" is not a server behaviour there
	}
	connFault := c.Deviate(nFaults, "conn-fault")
	fname := c14Faults[connFault]
	srv.healthy = connFault == 0
	connsBefore := d.NumConns()
	dialsBefore := d.NumDials()
	if fname == "stall-write" {
		d.OnConn = func(impl, peer *env.End) { impl.Stall(); d.OnConn = nil }
		for ci := 0; ci < connsBefore; ci++ {
			if !d.ImplEnd(ci).IsClosed() {
				d.ImplEnd(ci).Stall()
			}
		}
	}
	var calls []*call
	for i := 0; i < n; i++ {
		cl := newc()
		calls = append(calls, cl)
		all = append(all, cl)
		cl.start(tr, timeout)
	}
	t0 := time.Now()
	note("start x%d fault=%s", n, fname)
	releaseCloses()
	wait()
	if fname == "slow-reply" {
		// a healthy but slow server: every reply takes 0.8 s
		hsleep(800 * time.Millisecond)
		wait()
		srv.healthy = true
	}
	srv.pump()
	// apply the connection fault to every frame the faulty server has received so far, then become healthy
	var faultAt time.Time
	dialsAtFault := d.NumDials()
	killed := map[int]bool{}
	victims := map[int][]string{} // conn -> names of the queries it carried when the fault hit
	if connFault != 0 && fname != "slow-reply" {
		for ci := 0; ci < d.NumConns(); ci++ {
			impl := d.ImplEnd(ci)
			qs := env.QueriesOn(ci, impl, k.tcp)
			if len(qs) <= srv.handled[ci] || impl.IsClosed() {
				continue
			}
			q := qs[srv.handled[ci]]
			if q.Msg == nil {
				continue
			}
			srv.broken[ci] = true
			victims[ci] = append(victims[ci], q.Msg.Q[0].Name.String())
			for _, q2 := range qs[srv.handled[ci]:] {
				if q2.Msg != nil {
					victims[ci] = append(victims[ci], q2.Msg.Q[0].Name.String())
				}
			}
			switch fname {
			case "silent", "stall-write":
			case "half-prefix":
				b := srv.reply(ci, q, false)
				impl.Inject(b[:1])
			case "half-body":
				b := srv.reply(ci, q, false)
				impl.Inject(b[:len(b)-3])
			case "garbage":
				g := []byte{0xFF, 0xFF, 0xC0, 0x0C, 1, 2, 3}
				if k.tcp {
					g = refdns.Frame(g)
				}
				impl.Inject(g)
				killed[ci] = k.tcp // a TCP stream with garbage is aborted by the transport; a UDP socket just drops the datagram
			case "fin":
				impl.PeerFIN()
				killed[ci] = true
			case "abort":
				impl.Abort()
				killed[ci] = true
			}
			srv.handled[ci] = len(qs)
		}
		d.OnConn = nil
		faultAt = time.Now()
		dialsAtFault = d.NumDials()
		srv.healthy = true
		wait()
		srv.pump()
	}
	for _, cl := range calls {
		basic(cl)
	}
	totalFaults := c.Deviations()
	// (b)/(c): with a healthy server reachable (no dial/conn fault in phase 3) every exchange succeeds at once, whatever happened to pooled connections
	if dialFault == 0 && fname == "slow-reply" {
		// nothing is wrong with this server, it is only slow (well inside the exchange deadline): if the connection's own idle deadline
		// fires meanwhile the exchange is retried, and the retry is answered 0.8 s later as well
		hsleep(900 * time.Millisecond)
		wait()
		srv.pump()
		for _, cl := range calls {
			if !cl.done || cl.resp == nil {
				fail("slow-healthy-server-not-survived", fmt.Sprintf("exchange %d against a healthy server that answers every query after 0.8 s did not succeed within %v: %s [%s]", cl.idx, time.Since(t0), cl, strings.ReplaceAll(fmt.Sprint(cl.err), "\n", " | ")))
			}
		}
	}
	if dialFault == 0 && connFault == 0 {
		for _, cl := range calls {
			if !cl.done || cl.resp == nil {
				fail("stale-connection-not-survived", fmt.Sprintf("exchange %d did not succeed although only pooled connections failed (%d stale) and new connections are healthy: %s", cl.idx, staleFaults, cl))
			} else if !cl.doneAt.Equal(t0) {
				fail("slow-recovery", fmt.Sprintf("exchange %d needed %v to recover from stale pooled connections", cl.idx, cl.doneAt.Sub(t0)))
			}
		}
		if got := d.NumDials() - dialsBefore; got > 7*n {
			fail("too-many-dials", fmt.Sprintf("%d dials for %d exchanges", got, n))
		}
	}
	// (b') a connection reused from the pool dies under the exchange (FIN, reset, an undecodable frame) while new connections are
	// healthy: the exchange is retried on another connection and succeeds
	if dialFault == 0 {
		for ci, dead := range killed {
			if !dead || ci >= connsBefore {
				continue
			}
			for _, cl := range calls {
				mine := false
				for _, v := range victims[ci] {
					mine = mine || v == cl.name.String()
				}
				if mine && (!cl.done || cl.resp == nil) {
					fail("reused-connection-failure-not-survived", fmt.Sprintf("exchange %d was on pooled connection %d when it died (%s); new connections are healthy, yet the exchange did not succeed: %s", cl.idx, ci, fname, cl))
				}
			}
		}
	}
	// (c) promptness: when the connection carrying an exchange dies, the exchange returns (or is retried and succeeds) in the same instant
	for ci, dead := range killed {
		if !dead {
			continue
		}
		for _, cl := range calls {
			mine := false
			for _, v := range victims[ci] {
				mine = mine || v == cl.name.String()
			}
			if !mine {
				continue
			}
			if cl.inflight() && (d.NumDials() > dialsAtFault || d.Hanging() > 0) {
				continue // it was retried at once (and the retry is now subject to the scripted dial fault, possibly by joining a dial already in progress)
			}
			if cl.inflight() {
				fail("waiter-not-released", fmt.Sprintf("exchange %d still waiting after its connection died (%s)", cl.idx, fname))
			} else if cl.done && cl.doneAt.After(faultAt) {
				fail("waiter-released-late", fmt.Sprintf("exchange %d returned %v after its connection died", cl.idx, cl.doneAt.Sub(faultAt)))
			}
		}
	}
	// (d) a failure on a freshly dialled connection is not retried forever
	if got := d.NumDials() - dialsBefore; got > 7*n {
		fail("unbounded-redial", fmt.Sprintf("%d dials for %d exchanges (fault %s)", got, n, fname))
	}
	// run out the clock: everything must have returned by its deadline
	for _, cl := range calls {
		sleepUntil(cl.deadline)
	}
	for _, cl := range calls {
		if cl.inflight() {
			fail("missed-deadline:"+fname, fmt.Sprintf("exchange %d still running at its deadline (fault %s)", cl.idx, fname))
		}
	}
	if fname == "stall-write" {
		for ci := 0; ci < d.NumConns(); ci++ {
			d.ImplEnd(ci).Commit()
		}
	}
	wait()
	srv.pump()
	for _, cl := range calls {
		basic(cl)
		if !cl.done {
			fail("missed-deadline", fmt.Sprintf("exchange %d not finished at its deadline (fault %s)", cl.idx, fname))
		}
	}
	// afterwards (once every mistreated connection has idled out) a fresh exchange against the healthy
	// server must work again: the transport is not wedged
	d.OnConn = nil
	d.ClearScript()
	hsleep(61 * time.Second)
	wait()
	last := newc()
	all = append(all, last)
	last.start(tr, timeout)
	wait()
	srv.pump()
	basic(last)
	if !last.done || last.resp == nil {
		fail("wedged-after-fault", fmt.Sprintf("an exchange against a healthy server after the faults did not succeed: %s", last))
	}
	tr.Close()
	hsleep(7 * time.Second)
	wait()
	for ci := 0; ci < d.NumConns(); ci++ {
		if t := own.Tainted(d.ImplEnd(ci).Written()); t != "" {
			fail("tainted-wire", fmt.Sprintf("connection %d carries %s", ci, t))
		}
	}
	for _, v := range own.Audit() {
		fail("ownership", v)
	}
	var st []string
	for _, cl := range all {
		st = append(st, cl.String())
	}
	finished = true
	rep.Eval(k.name + ":" + strings.Join(trace, ",") + "=>" + strings.Join(st, ","))
	rep.State(fmt.Sprintf("%s|%v|%d|%d", k.name, st, d.NumConns(), totalFaults))
}

func TestVerifC14(t *testing.T) {
	rep := report.New("C14 deadlines and stale connections")
	defer rep.Write()
	bound := report.ParamInt("FAULTS", 2)
	rep.Rule = fmt.Sprintf("E3 fault enumeration on the real pipeline-tcp, pipeline-udp and reuse-tcp transports in a synctest bubble: warm 0..2 pooled exchanges; pooled pipelined connection with its id counter at 0 or at 65535 (one id left); idle wait {none, 5 s, 9.5 s (idle deadline falls into the next exchange), 10 s with the idle timer's socket close taking a moment}; per pooled connection {ok, FIN, abort, garbage+FIN} while idle; "+
		"then 1..2 concurrent exchanges with next dial {ok, refused, hangs} and first-connection fault {%s}; <=%d faults per execution, all combinations; afterwards a healthy server; "+
		"oracle: return by deadline (exact virtual clock), success in zero virtual time when only pooled connections are stale, waiters released in the instant their connection dies, <=7 dials per exchange, no (nil,nil), "+
		"transport still usable afterwards, ownership audit", strings.Join(c14Faults, ","), bound)
	bubble(t, func() {
		for _, k := range c14Kinds() {
			k := k
			if rp := report.ReplayFile(); rp != nil {
				var x struct{ Kind string }
				rp.Decode(&x)
				if x.Kind != k.name {
					continue
				}
			}
			st := runExplore(t, rep, bound, func(c *choice.Ctx) { c14Scenario(c, rep, k) })
			rep.Count("executions_"+k.name, st.Executions)
		}
	})
	rep.Sample(map[string]any{"kind": "reuse-tcp", "history": "warm=2(conns=2) idle5s fin-idle(c0) abort-idle(c1) start x1 fault=none", "expect": "exchange succeeds at once on a third connection"})
}
