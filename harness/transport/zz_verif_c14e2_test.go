package transport

// C14 (lock level): an exchange that takes a pipelined connection from the pool
// while the connection is being torn down must fail (or be retried) promptly,
// never wait out its deadline. The real pipeline_conn.go (sync -> vsync) under
// the E2 scheduler: exchanges following the pool's protocol (Status -> Reserve
// -> exchange) interleaved with closeWithErr at every lock operation. The
// connection accepts writes throughout (a socket whose Close has not completed
// yet, or a UDP socket), so nothing but the connection's own teardown signal can
// release a waiter.

import (
	"context"
	"errors"
	"fmt"
	"strings"
	"testing"
	"time"

	"github.com/IrineSistiana/mosproxy/internal/dnsmsg"
	"github.com/IrineSistiana/mosproxy/internal/zzverif/choice"
	"github.com/IrineSistiana/mosproxy/internal/zzverif/report"
	"github.com/IrineSistiana/mosproxy/internal/zzverif/sched"
)

// An exchange with nobody to answer it blocks in a select on raw channels, which the cooperative scheduler cannot see; its
// context deadline (real time) bounds that. The verdict never depends on how long anything took: it is the error an exchange
// returns when it was started after the teardown had completed (see c14E2Scenario); a suspected violation is re-run with a 25x
// longer deadline before it is reported.
func c14E2Scenario(c *choice.Ctx, rep *report.R, variant int, wait time.Duration, record bool) (suspect string) {
	nc := &c05NopConn{}
	t := &PipelineTransport{opts: PipelineOpts{IsTCP: variant%2 == 0}, logger: nonNilLogger(nil)}
	cctx, cancel := context.WithCancelCause(context.Background())
	pc := &pipelineConn{c: nc, t: t, ctx: cctx, cancelCause: cancel, queue: make(map[uint32]chan *dnsmsg.Msg)}
	q := []byte{0x12, 0x34, 1, 0, 0, 1, 0, 0, 0, 0, 0, 0, 1, 'a', 0, 0, 1, 0, 1}
	closeErr := errors.New("scripted teardown")
	closerDone := false
	type res struct {
		used, afterClose bool
		err              error
		got              bool
	}
	results := make([]res, 2)
	worker := func(i int) func() {
		return func() {
			// what connpool does before handing the connection out
			if st := pc.Status(); st.Closed || !st.Available {
				return
			}
			pc.Reserve()
			results[i].used = true
			results[i].afterClose = closerDone
			ctx, cancel := context.WithTimeout(context.Background(), wait)
			m, err := pc.exchange(ctx, q)
			cancel()
			results[i].err, results[i].got = err, m != nil
		}
	}
	names := []string{"x1", "x2", "teardown"}
	bodies := []func(){worker(0), worker(1), func() {
		if variant >= 2 {
			pc.Close()
		} else {
			pc.closeWithErr(closeErr)
		}
		closerDone = true
	}}
	s := sched.Run(c, names, bodies)
	fail := func(sig, msg string) {
		if !record {
			return
		}
		rep.Violate("C14:pipeline-e2:"+sig, fmt.Sprintf("%s\n  variant=%d schedule: %s", msg, variant, strings.Join(s.Trace, " ")), map[string]any{"Choices": c.Choices(), "Variant": variant})
	}
	if s.Deadlock {
		fail("deadlock", "no thread can proceed")
	}
	for _, p := range s.Panics() {
		fail("panic", p)
	}
	var obs []string
	for i, r := range results {
		switch {
		case !r.used:
			obs = append(obs, "not-handed-out")
		case r.got:
			fail("reply-from-nowhere", fmt.Sprintf("exchange x%d returned a message although the server never replied", i+1))
		case r.err == nil:
			fail("nil-nil", fmt.Sprintf("exchange x%d returned (nil, nil)", i+1))
		case r.afterClose && errors.Is(r.err, context.DeadlineExceeded):
			suspect = fmt.Sprintf("exchange x%d was handed the connection, the connection's teardown completed, and the exchange then waited until its own deadline (%v) instead of failing at once: %v", i+1, wait, r.err)
			obs = append(obs, "waited-out-deadline")
		case errors.Is(r.err, context.DeadlineExceeded):
			obs = append(obs, "deadline(no teardown before it started)")
		default:
			obs = append(obs, "failed-promptly")
		}
	}
	if nc.closed > 1 {
		fail("closed-twice", fmt.Sprintf("the connection was closed %d times", nc.closed))
	}
	if record {
		rep.Eval(fmt.Sprintf("%d|%s", variant, strings.Join(s.Trace, " ")))
		rep.State(fmt.Sprintf("%d|%v", variant, obs))
		rep.AddTransitions(int64(s.Steps))
	}
	return suspect
}

func TestVerifC14E2(t *testing.T) {
	rep := report.New("C14 pipelined connection teardown under the controlled scheduler")
	defer rep.Write()
	bound := report.ParamInt("PREEMPTIONS", 2)
	rep.Rule = fmt.Sprintf("E2: real pipeline_conn.go (sync->vsync); two exchanges run the pool protocol Status/Reserve/exchange against a connection that accepts every write and never replies, a third thread tears the connection down "+
		"(closeWithErr / Close; TCP and UDP framing); all interleavings at lock operations with <=%d preemptions; oracle: an exchange that starts after the teardown completed returns the teardown error at once, never its own context deadline "+
		"(suspects are re-run with a 75x longer deadline before being reported); no (nil,nil), no message from nowhere, at most one close, no deadlock", bound)
	sh, n := report.Shard()
	for variant := 0; variant < 4; variant++ {
		variant := variant
		run := func(c *choice.Ctx) bool {
			if sus := c14E2Scenario(c, rep, variant, 4*time.Millisecond, true); sus != "" {
				confirmed := ""
				choice.Replay(c.Choices(), false, func(c2 *choice.Ctx) bool {
					confirmed = c14E2Scenario(c2, rep, variant, 300*time.Millisecond, false)
					return true
				})
				if confirmed != "" {
					rep.Violate("C14:pipeline-e2:waiter-not-released", confirmed+fmt.Sprintf("\n  variant=%d", variant), map[string]any{"Choices": c.Choices(), "Variant": variant})
				} else {
					rep.Count("suspects_not_confirmed", 1)
				}
			}
			return rep.NViolations() < 10
		}
		if rp := report.ReplayFile(); rp != nil {
			var x struct {
				Choices []int
				Variant int
			}
			rp.Decode(&x)
			if x.Variant == variant {
				choice.Replay(x.Choices, true, run)
			}
			continue
		}
		st := choice.Explore(choice.Options{Bound: bound, Shard: sh, NShards: n, ShardDepth: 3, Deadline: report.Deadline()}, run)
		if st.Capped {
			rep.Cap(st.CapReason)
		}
		rep.Count(fmt.Sprintf("executions_variant%d", variant), st.Executions)
	}
	rep.Sample(map[string]any{"schedule": "x1:Status x1:Reserve teardown:(whole) x1:exchange", "oracle": "x1 returns the teardown error immediately"})
}
