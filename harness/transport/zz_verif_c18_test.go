package transport

// C18 (transports): shutdown is orderly. Close is inserted at every position of
// an exchange life-cycle (before/after the dial completes, mid-exchange, while
// idle, twice) on the real transports.

import (
	"context"
	"fmt"
	"net/http"
	"reflect"
	"runtime"
	"strings"
	"sync"
	"syscall"
	"testing"
	"time"

	"github.com/IrineSistiana/mosproxy/internal/zzverif/choice"
	"github.com/IrineSistiana/mosproxy/internal/zzverif/env"
	"github.com/IrineSistiana/mosproxy/internal/zzverif/refdns"
	"github.com/IrineSistiana/mosproxy/internal/zzverif/report"
	"github.com/quic-go/quic-go"
)

// scripted RoundTripper for the DoH transport
type c18RT struct {
	mu      sync.Mutex
	pending []chan *http.Response
	reqs    []*http.Request
	closed  int
}

func (r *c18RT) RoundTrip(req *http.Request) (*http.Response, error) {
	r.mu.Lock()
	if r.closed > 0 { // like a closed quic transport / http client
		r.mu.Unlock()
		return nil, fmt.Errorf("scripted round tripper is closed")
	}
	ch := make(chan *http.Response, 1)
	r.pending = append(r.pending, ch)
	r.reqs = append(r.reqs, req)
	r.mu.Unlock()
	select {
	case resp := <-ch:
		if resp == nil {
			return nil, fmt.Errorf("scripted round trip failure")
		}
		return resp, nil
	case <-req.Context().Done():
		return nil, req.Context().Err()
	}
}
func (r *c18RT) nClosed() int { r.mu.Lock(); defer r.mu.Unlock(); return r.closed }

func (r *c18RT) Close() error {
	r.mu.Lock()
	defer r.mu.Unlock()
	r.closed++
	for _, ch := range r.pending { // in-flight requests fail
		select {
		case ch <- nil:
		default:
		}
	}
	return nil
}

type c18Kind struct {
	name string
	mk   func(d *env.Dialer) (c14Transport, func() []string) // second: extra leak audit
	tcp  bool
}

func c18Kinds() []c18Kind {
	var ks []c18Kind
	for _, k := range c14Kinds() {
		k := k
		ks = append(ks, c18Kind{k.name, func(d *env.Dialer) (c14Transport, func() []string) { return k.mk(d), nil }, k.tcp})
	}
	ks = append(ks, c18Kind{"doh", func(d *env.Dialer) (c14Transport, func() []string) {
		rt := &c18RT{}
		t, err := NewDoHTransport(DoHTransportOpts{EndPointUrl: "https://dns.example/dns-query", RoundTripper: rt, Closer: rt})
		if err != nil {
			panic(err)
		}
		return t, func() []string {
			if rt.nClosed() == 0 {
				return []string{"the transport's closer (quic transport / connection pool of the http client) was never closed"}
			}
			return nil
		}
	}, true})
	ks = append(ks, c18Kind{"quic", func(d *env.Dialer) (c14Transport, func() []string) {
		var cmu sync.Mutex
		var conns []*env.FakeQuicConn
		qopts := QuicTransportOpts{DialContext: func(ctx context.Context) (quic.Connection, error) {
			// reuse the scripted dialer's outcome script; the produced net.Conn is discarded
			c, err := d.Dial(ctx)
			if err != nil {
				return nil, err
			}
			fc := env.NewFakeQuicConn(c.LocalAddr(), c.RemoteAddr())
			cmu.Lock()
			conns = append(conns, fc)
			c18QuicConns = append([]*env.FakeQuicConn(nil), conns...)
			cmu.Unlock()
			return fc, nil
		}}
		// (should the options ever grow an idle time-out, the scenarios that let long silences pass run with it switched on)
		if f := reflect.ValueOf(&qopts).Elem().FieldByName("IdleTimeout"); f.IsValid() && f.CanSet() && f.Type() == reflect.TypeOf(time.Duration(0)) {
			f.SetInt(int64(30 * time.Second))
		}
		t := NewQuicTransport(qopts)
		return t, func() []string {
			var bad []string
			cmu.Lock()
			defer cmu.Unlock()
			for i, c := range conns {
				if !c.IsClosed() {
					bad = append(bad, fmt.Sprintf("quic connection %d still open", i))
				}
			}
			return bad
		}
	}, true})
	return ks
}

func c18Scenario(c *choice.Ctx, rep *report.R, k c18Kind, depth int) {
	own := env.InstallOwn(0xA5, vRace)
	defer env.UninstallOwn()
	pauseBegin(c)
	defer pauseEnd()
	network := "udp"
	if k.tcp {
		network = "tcp"
	}
	d := env.NewDialer(network)
	tr, extraAudit := k.mk(d)
	var trace []string
	fail := func(sig, msg string) {
		rep.Violate("C18:"+k.name+":"+sig, msg+"\n  "+k.name+": "+strings.Join(trace, " ")+pauseNote(), map[string]any{"Choices": c.Choices(), "Kind": k.name})
	}
	const timeout = 2 * time.Second
	var calls []*call
	finished := false
	defer func() {
		if !finished {
			abandon(tr, d, &calls)
		}
	}()
	exhausted := false
	closes, closeReturned := 0, 0
	afterClose := map[int]bool{}
	handled := map[int]int{}
	doClose := func() {
		closes++
		go func() {
			defer func() {
				if r := recover(); r != nil {
					publish(func() { fail("close-panic", fmt.Sprint(r)) })
				}
			}()
			err := tr.Close()
			publish(func() {
				if err != nil {
					fail("close-error", err.Error())
				}
				closeReturned++
			})
		}()
	}
	for step := 0; step < depth; step++ {
		var menu []event
		if len(calls) < 3 {
			menu = append(menu, event{name: fmt.Sprintf("start%d", len(calls)), do: func() {
				cl := newCall(len(calls), 0)
				calls = append(calls, cl)
				afterClose[cl.idx] = closes > 0 && closeReturned == closes
				cl.start(tr, timeout)
			}})
		}
		if true && closes == 0 {
			menu = append(menu, event{name: "next-dial-late", fault: true, do: func() { d.Script(env.DialLate) }})
			menu = append(menu, event{name: "next-dial-late-ignoring-ctx", fault: true, do: func() { d.Script(env.DialLateForce) }})
		}
		if d.Pending() > 0 {
			menu = append(menu, event{name: "dial-completes", do: func() { d.Release(true) }})
		}
		// answer the oldest unanswered query on a stream kind connection
		for ci := 0; ci < d.NumConns() && k.name != "quic" && k.name != "doh"; ci++ {
			ci := ci
			impl := d.ImplEnd(ci)
			qs := env.QueriesOn(ci, impl, k.tcp)
			if len(qs) > handled[ci] && !impl.IsClosed() && qs[handled[ci]].Msg != nil {
				q := qs[handled[ci]]
				menu = append(menu, event{name: fmt.Sprintf("reply(c%d)", ci), do: func() {
					handled[ci]++
					b := env.Answer(q.Msg, byte(10*ci+handled[ci]), 60).Encode(false)
					if k.tcp {
						b = refdns.Frame(b)
					}
					impl.Inject(b)
				}})
			}
		}
		if closes < 2 {
			menu = append(menu, event{name: "close", fault: closes == 1, do: doClose})
		}
		// Close is slow in the middle (closing a socket takes a moment) and a pending dial completes meanwhile
		if closes == 0 && d.Pending() > 0 {
			for ci := 0; ci < d.NumConns(); ci++ {
				impl := d.ImplEnd(ci)
				if impl.IsClosed() {
					continue
				}
				menu = append(menu, event{name: fmt.Sprintf("close-with-slow-socket-close(c%d)+dial-completes", ci), fault: true, do: func() {
					impl.StallClose()
					before := closeReturned
					doClose()
					// let Close run until it is parked inside the socket close (holding whatever it holds); other goroutines
					// may meanwhile block on the transport's mutex, so quiescence cannot be awaited here
					for i := 0; i < 100000 && impl.ClosesParked() == 0 && closeReturned == before; i++ {
						hmu.Unlock()
						runtime.Gosched()
						hmu.Lock()
					}
					d.Release(true)
					go func() {
						// real time, not virtual: goroutines blocked on a mutex keep the bubble from idling
						ts := syscall.NsecToTimespec(int64(3 * time.Millisecond))
						syscall.Nanosleep(&ts, nil)
						impl.ReleaseClose()
					}()
				}})
				break
			}
		}
		// the idle timeout of the pooled connections fires and closing a socket takes a moment: Close arrives while whoever closes
		// the idle connection is still inside the socket close
		if closes == 0 && (k.name == "reuse-tcp" || k.name == "pipeline-tcp") && len(d.OpenImplConns()) > 0 {
			menu = append(menu, event{name: "idle-timeout-in-slow-socket-close+close", fault: true, do: func() {
				var stalled []*env.End
				for ci := 0; ci < d.NumConns(); ci++ {
					if impl := d.ImplEnd(ci); !impl.IsClosed() {
						impl.StallClose()
						stalled = append(stalled, impl)
					}
				}
				hsleep(10*time.Second + time.Millisecond) // both kinds run with a 10 s idle timeout
				wait()
				before := closeReturned
				doClose()
				for i := 0; i < 100000 && closeReturned == before; i++ {
					parked := 0
					for _, impl := range stalled {
						parked += impl.ClosesParked()
					}
					if parked > 0 && i > 2000 {
						break
					}
					hmu.Unlock()
					runtime.Gosched()
					hmu.Lock()
				}
				go func() {
					// real time, not virtual: goroutines blocked on a mutex keep the bubble from idling
					ts := syscall.NsecToTimespec(int64(3 * time.Millisecond))
					syscall.Nanosleep(&ts, nil)
					for _, impl := range stalled {
						impl.ReleaseClose()
					}
				}()
			}})
		}
		// non-initial state for the pipelined kinds: the live connection has used up its id space
		if pt, ok := tr.(*PipelineTransport); ok && !exhausted && closes == 0 {
			if pcs := poolConns(pt.pool); len(pcs) > 0 {
				menu = append(menu, event{name: "conn-ids-exhausted", fault: true, do: func() {
					exhausted = true
					for _, pc := range pcs {
						pc.m.Lock()
						pc.nextQid = 65536
						pc.m.Unlock()
					}
				}})
				// ... or has exactly one id left: the next exchange on it is handed the last one, and is in flight on a connection that
				// takes no further queries
				menu = append(menu, event{name: "conn-one-id-left", fault: true, do: func() {
					exhausted = true
					for _, pc := range pcs {
						pc.m.Lock()
						if pc.nextQid < 65535 {
							pc.nextQid = 65535
						}
						pc.m.Unlock()
					}
				}})
			}
		}
		menu = append(menu, event{name: "advance2s", do: func() { hsleep(2 * time.Second) }})
		ev := pick(c, menu)
		if ev == nil {
			break
		}
		trace = append(trace, ev.name)
		ev.do()
		wait()
		if paused() {
			// a goroutine stands still between two statements: "Close has returned", "everything is closed", "fails at once" are
			// judged once it has been resumed (next resume event, or the end of the run)
			continue
		}
		if closeReturned != closes {
			fail("close-blocks", fmt.Sprintf("Close did not return (%d of %d calls returned)", closeReturned, closes))
		}
		for _, cl := range calls {
			if cl.panicked != nil {
				fail("panic", fmt.Sprintf("exchange %d: %v", cl.idx, cl.panicked))
			}
			if cl.nilnil {
				fail("nil-nil", fmt.Sprintf("exchange %d returned (nil,nil)", cl.idx))
			}
			if cl.inflight() && !time.Now().Before(cl.deadline) {
				fail("hangs-after-close", fmt.Sprintf("exchange %d still running at its deadline", cl.idx))
			}
			if afterClose[cl.idx] {
				// started after Close had returned: must fail at once
				if !cl.done || cl.resp != nil || !cl.doneAt.Equal(cl.startAt) {
					fail("exchange-after-close", fmt.Sprintf("exchange %d started after Close: %s (returned after %v)", cl.idx, cl, cl.doneAt.Sub(cl.startAt)))
				}
			}
		}
		if closes > 0 {
			// every connection ever produced - including one whose dial completed after Close - is closed, without advancing the clock
			if open := d.OpenImplConns(); len(open) > 0 && k.name != "quic" {
				fail("connection-left-open", fmt.Sprintf("connections %v are still open after Close", open))
			}
			if extraAudit != nil {
				for _, b := range extraAudit() {
					fail("resource-left-open", b)
				}
			}
		}
	}
	selOff()
	if closes == 0 {
		doClose()
		wait()
	}
	if resume() { // a goroutine held at a pause point goes on only now, after Close
		wait()
	}
	for d.Pending() > 0 { // dials still in progress complete now, after Close
		d.Release(true)
		wait()
	}
	for _, cl := range calls {
		cl.cancel()
	}
	hsleep(7 * time.Second)
	wait()
	for _, cl := range calls {
		if !cl.done {
			fail("exchange-never-returned", fmt.Sprintf("exchange %d", cl.idx))
		}
	}
	if open := d.OpenImplConns(); len(open) > 0 && k.name != "quic" {
		fail("connection-left-open", fmt.Sprintf("connections %v are still open after Close", open))
	}
	if extraAudit != nil {
		for _, b := range extraAudit() {
			fail("resource-left-open", b)
		}
	}
	for _, v := range own.Audit() {
		fail("ownership", v)
	}
	var st []string
	for _, cl := range calls {
		st = append(st, cl.String())
	}
	finished = true
	rep.Eval(k.name + ":" + strings.Join(trace, ",") + "=>" + strings.Join(st, ","))
	rep.State(fmt.Sprintf("%s|%v|%d", k.name, st, d.NumConns()))
}

// c18Burst: more exchanges at once than any of the explored sequences has - 24 in flight together on the stream kinds (the
// one-at-a-time transport then holds 24 connections) - all answered, a second round on the now idle connections, then Close: every
// connection the transport ever made is closed when Close has returned, none is left to an idle timer.
func c18Burst(rep *report.R) {
	for _, k := range c18Kinds() {
		if k.name == "quic" || k.name == "doh" {
			continue
		}
		own := env.InstallOwn(0xA5, vRace)
		network := "udp"
		if k.tcp {
			network = "tcp"
		}
		d := env.NewDialer(network)
		tr, _ := k.mk(d)
		desc := "24 concurrent exchanges on " + k.name + ", all answered, 24 more (answered with replies of 5 KiB on the stream kinds), Close"
		rep.Eval("burst: " + desc)
		fail := func(sig, msg string) {
			rep.Violate("C18:"+k.name+":burst:"+sig, msg+"\n  "+desc, map[string]any{"Choices": []int{}, "Kind": k.name, "Burst": true})
		}
		var calls []*call
		handled := map[int]int{}
		big := false
		answerAll := func() {
			for round := 0; round < 3; round++ {
				for ci := 0; ci < d.NumConns(); ci++ {
					impl := d.ImplEnd(ci)
					qs := env.QueriesOn(ci, impl, k.tcp)
					for handled[ci] < len(qs) && !impl.IsClosed() && qs[handled[ci]].Msg != nil {
						am := env.Answer(qs[handled[ci]].Msg, byte(1+handled[ci]%200), 60)
						if k.tcp && big {
							// a reply well beyond the few KiB a transport may read in one piece
							am.Ar = append(am.Ar, refdns.Unknown(refdns.N("pad", "test"), 65280, 1, make([]byte, 5000)))
						}
						b := am.Encode(false)
						handled[ci]++
						if k.tcp {
							b = refdns.Frame(b)
						}
						impl.Inject(b)
					}
				}
				wait()
			}
		}
		for round := 0; round < 2; round++ {
			for i := 0; i < 24; i++ {
				cl := newCall(len(calls), 0)
				calls = append(calls, cl)
				cl.start(tr.(exchanger), 5*time.Second)
			}
			wait()
			big = round == 1
			answerAll()
		}
		for _, cl := range calls {
			if !cl.done || cl.resp == nil {
				fail("exchange-failed", fmt.Sprintf("exchange %d against a healthy server: %s", cl.idx, cl))
				break
			}
		}
		tr.Close()
		wait()
		if open := d.OpenImplConns(); len(open) > 0 {
			fail("connection-left-open", fmt.Sprintf("%d of %d connections are still open after Close: %v", len(open), d.NumConns(), open))
		}
		for _, cl := range calls {
			cl.cancel()
		}
		hsleep(40 * time.Second)
		wait()
		for _, v := range own.Audit() {
			fail("ownership", v)
		}
		env.UninstallOwn()
	}
}

// c18QuicConns: the connections the quic kind's transport has dialled so far (for c18QuicIdle).
var c18QuicConns []*env.FakeQuicConn

// c18QuicIdle: a DoQ transport used at long intervals - three exchanges, more than half a minute of silence after each - and then
// closed: every exchange is answered, and every connection the transport dialled over its life is closed when Close has returned
// (whether it keeps one connection alive throughout or retires idle ones is its business).
func c18QuicIdle(rep *report.R) {
	for _, k := range c18Kinds() {
		if k.name != "quic" {
			continue
		}
		own := env.InstallOwn(0xA5, vRace)
		c18QuicConns = nil
		d := env.NewDialer("udp")
		tr, audit := k.mk(d)
		desc := "quic transport: 3 exchanges, 35 s of silence after each, Close"
		rep.Eval("idle-periods: " + desc)
		fail := func(sig, msg string) {
			rep.Violate("C18:quic:idle-periods:"+sig, msg+"\n  "+desc, map[string]any{"Choices": []int{}, "Kind": "quic", "Idle": true})
		}
		answered := map[*env.FakeStream]bool{}
		var calls []*call
		for round := 0; round < 3; round++ {
			cl := newCall(round, 0)
			calls = append(calls, cl)
			cl.start(tr.(exchanger), 5*time.Second)
			wait()
			for _, fc := range c18QuicConns {
				for si := 0; si < fc.NumStreams(); si++ {
					st, _ := fc.Stream(si)
					if answered[st] || st.E.IsClosed() {
						continue
					}
					if fs, _ := env.SplitFrames(st.E.Written()); len(fs) == 1 {
						if q, err := refdns.Decode(fs[0]); err == nil {
							answered[st] = true
							st.E.Inject(refdns.Frame(env.Answer(q, byte(round+1), 60).Encode(false)))
							st.E.Peer().CloseWrite()
						}
					}
				}
			}
			wait()
			if !cl.done || cl.resp == nil {
				fail("exchange-failed", fmt.Sprintf("exchange %d against a healthy server after %d idle periods: %s", round, round, cl))
			}
			hsleep(35 * time.Second)
			wait()
		}
		tr.Close()
		wait()
		if audit != nil {
			for _, b := range audit() {
				fail("connection-left-open", b+" after Close")
			}
		}
		for _, cl := range calls {
			cl.cancel()
		}
		hsleep(40 * time.Second)
		wait()
		for _, v := range own.Audit() {
			fail("ownership", v)
		}
		env.UninstallOwn()
	}
}

func TestVerifC18(t *testing.T) {
	rep := report.New("C18 transport shutdown")
	defer rep.Write()
	depth := report.ParamInt("DEPTH", 5)
	bound := report.ParamInt("FAULTS", 2)
	rep.Rule = fmt.Sprintf("E3: real pipeline-tcp, pipeline-udp, reuse-tcp, DoH (scripted RoundTripper + closer) and DoQ (fake quic connection) transports; all sequences of length <=%d over {start exchange (<=3), make the next dial complete late (dial function honouring / ignoring its context), late dial completes, server replies, Close, second Close, Close that is slow inside a socket close while a dial completes, the idle timeout firing with a slow socket close followed by Close, connection id space exhausted (pipelined), advance 2s} with <=%d deviations; "+
		"oracle after every event: Close returned (it runs in its own goroutine so a blocked Close is observed, not a harness deadlock), no panic, Close idempotent, exchanges started after Close fail in the same instant, exchanges in flight return by their deadline, "+
		"every connection the dialer ever produced (including dials completing after Close) is closed without advancing the clock, the transport's closer was called", depth, bound)
	bubble(t, func() {
		for _, k := range c18Kinds() {
			k := k
			if rp := report.ReplayFile(); rp != nil {
				var x struct{ Kind string }
				rp.Decode(&x)
				if x.Kind != k.name {
					continue
				}
			}
			st := runExplore(t, rep, bound, func(c *choice.Ctx) { c18Scenario(c, rep, k, depth) })
			rep.Count("executions_"+k.name, st.Executions)
		}
		if sh, _ := report.Shard(); sh == 0 && report.ReplayFile() == nil && !pauseMode {
			hmu.Lock()
			c18Burst(rep)
			c18QuicIdle(rep)
			hmu.Unlock()
		}
	})
	rep.Sample(map[string]any{"kind": "reuse-tcp", "events": "next-dial-late start0 close dial-completes", "expect": "the connection completing after Close is closed at once; exchange 0 fails"})
}
