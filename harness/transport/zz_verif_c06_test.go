package transport

// C06: one-at-a-time connections are reused only when clean.
// Real ReuseConnTransport over the scripted dialer; all orders of {start,
// cancel, reply whole / in two segments, abort mid reply, stalled write +
// commit, FIN while idle, advance to the idle time-out / the 6 s I/O deadline}.

import (
	"fmt"
	"strings"
	"testing"
	"time"

	"github.com/IrineSistiana/mosproxy/internal/zzverif/choice"
	"github.com/IrineSistiana/mosproxy/internal/zzverif/env"
	"github.com/IrineSistiana/mosproxy/internal/zzverif/refdns"
	"github.com/IrineSistiana/mosproxy/internal/zzverif/report"
)

type c06Conn struct {
	replied   int  // frames fully answered
	half      bool // first half of the reply to frame #replied delivered
	dead      bool // FIN/abort injected by the harness
	deadAfter int  // number of frames seen when it died
	stalled   bool
	pending   []byte // second half
	serials   []byte
}

func c06Scenario(c *choice.Ctx, rep *report.R, prop string, nCalls, depth int) {
	// Also without the ownership hook: with it every recycled buffer is filled with a pattern that never decodes, which hides a
	// reader that takes a partly received reply for a whole one (what is left in the buffer from the previous, equally long
	// reply then makes it decode, as in production).
	var own *env.Own
	if c.Choose(2, "recycled-buffers-keep-their-content") == 0 {
		own = env.InstallOwn(0xA5, vRace)
		defer env.UninstallOwn()
	}
	defer env.UninstallOwn()
	pauseBegin(c)
	defer pauseEnd()
	d := env.NewDialer("tcp")
	tr := NewReuseConnTransport(ReuseConnOpts{DialContext: d.Dial, IdleTimeout: 10 * time.Second})
	calls := make([]*call, nCalls)
	for i := range calls {
		calls[i] = newCall(i, 0)
	}
	const timeout = 2 * time.Second
	conns := map[int]*c06Conn{}
	finished := false
	defer func() {
		if !finished {
			abandon(tr, d, &calls)
		}
	}()
	serialOwner := map[byte]string{}
	var serial byte
	var trace []string
	stallNext := false
	lateScripted := false
	armedOnce := false
	cancelOnSetup := false
	d.OnConn = func(impl, peer *env.End) {
		if stallNext {
			impl.Stall()
			stallNext = false
		}
		if cancelOnSetup {
			cancelOnSetup = false
			// the caller that is waiting for this connection gives up while the transport is still setting it up
			impl.OnAddr = func() {
				// runs on the transport's dial goroutine: harness state is touched under hmu
				publish(func() {
					for i := len(calls) - 1; i >= 0; i-- {
						if calls[i].started && !calls[i].done && !calls[i].canceled {
							calls[i].canceled = true
							calls[i].cancel()
							return
						}
					}
				})
			}
		}
	}
	fail := func(sig, msg string) {
		rep.Violate(prop+":"+sig, fmt.Sprintf("%s\n  events: %s%s", msg, strings.Join(trace, " "), pauseNote()), map[string]any{"Choices": c.Choices()})
	}
	cs := func(ci int) *c06Conn {
		if conns[ci] == nil {
			conns[ci] = &c06Conn{}
		}
		return conns[ci]
	}
	check := func() {
		for ci := 0; ci < d.NumConns(); ci++ {
			st := cs(ci)
			qs := env.QueriesOn(ci, d.ImplEnd(ci), true)
			if t := own.Tainted(d.ImplEnd(ci).Written()); t != "" {
				fail("tainted-wire", fmt.Sprintf("bytes written on connection %d contain %s: %x", ci, t, d.ImplEnd(ci).Written()))
			}
			if _, rest := env.SplitFrames(d.ImplEnd(ci).Written()); rest != 0 && d.ImplEnd(ci).StalledWrites() == 0 && !paused() {
				fail("partial-frame", fmt.Sprintf("connection %d carries an incomplete or garbled frame: %x", ci, d.ImplEnd(ci).Written()))
			}
			if len(qs) > st.replied+1 {
				fail("second-query-before-reply-consumed", fmt.Sprintf("connection %d carries query #%d although only %d replies were completely delivered", ci, len(qs), st.replied))
			}
			if st.dead && len(qs) > st.deadAfter {
				fail("query-on-dead-connection", fmt.Sprintf("connection %d was closed/aborted by the server after %d queries but then carried another one", ci, st.deadAfter))
			}
			for _, q := range qs {
				if t := own.Tainted(q.Wire); t != "" {
					fail("tainted-query", fmt.Sprintf("query frame on connection %d contains %s: %x", ci, t, q.Wire))
				} else if q.Msg == nil {
					fail("garbled-query", fmt.Sprintf("undecodable query frame on connection %d: %x", ci, q.Wire))
				}
			}
		}
		used := map[byte]int{}
		for _, cl := range calls {
			if !cl.done {
				continue
			}
			if cl.panicked != nil {
				fail("panic", fmt.Sprintf("exchange %d: %v", cl.idx, cl.panicked))
				continue
			}
			if cl.both != nil {
				fail("reply-with-error", fmt.Sprintf("exchange %d returned a message together with an error: %v", cl.idx, cl.both))
			}
			if cl.nilnil {
				fail("nil-nil", fmt.Sprintf("exchange %d returned (nil, nil)", cl.idx))
			}
			if cl.doneAt.After(cl.deadline) {
				fail("late-return", fmt.Sprintf("exchange %d returned %v after its deadline", cl.idx, cl.doneAt.Sub(cl.deadline)))
			}
			if cl.resp == nil {
				continue
			}
			_, s, ok := env.AnswerKey(cl.resp)
			if !ok || serialOwner[s] == "" {
				fail("reply-never-sent", fmt.Sprintf("exchange %d returned a message the server never sent", cl.idx))
				continue
			}
			if serialOwner[s] != cl.name.String() || len(cl.resp.Q) != 1 || !cl.resp.Q[0].Name.Equal(cl.name) {
				fail("wrong-reply", fmt.Sprintf("exchange %d (question %s) was given the reply to %s", cl.idx, cl.name, serialOwner[s]))
			}
			if cl.resp.ID != cl.id {
				fail("wrong-id", fmt.Sprintf("exchange %d (id %#x) got id %#x", cl.idx, cl.id, cl.resp.ID))
			}
			used[s]++
			if used[s] > 1 {
				fail("reply-used-twice", fmt.Sprintf("reply serial %d satisfied two exchanges", s))
			}
		}
	}

	for step := 0; step < depth; step++ {
		var menu []event
		for _, cl := range calls {
			cl := cl
			if !cl.started {
				menu = append(menu, event{name: fmt.Sprintf("start%d", cl.idx), do: func() { cl.start(tr, timeout) }})
				if cl.idx > 0 {
					// the caller's deadline has already passed when it calls (a request that spent its time elsewhere): whatever the
					// transport finds - an idle connection, a dial in progress - the exchange returns at once
					menu = append(menu, event{name: fmt.Sprintf("start%d-with-expired-deadline", cl.idx), fault: true, do: func() { cl.start(tr, 0) }})
				}
				break
			}
		}
		for ci := 0; ci < d.NumConns(); ci++ {
			ci := ci
			st := cs(ci)
			impl := d.ImplEnd(ci)
			qs := env.QueriesOn(ci, impl, true)
			if st.dead {
				continue
			}
			if st.half {
				menu = append(menu, event{name: fmt.Sprintf("rest(c%d)", ci), do: func() { impl.Inject(st.pending); st.half = false; st.replied++ }})
				menu = append(menu, event{name: fmt.Sprintf("abort-mid-reply(c%d)", ci), fault: true, do: func() { st.dead, st.deadAfter = true, len(qs); impl.Abort() }})
			} else if len(qs) > st.replied && qs[st.replied].Msg != nil {
				q := qs[st.replied]
				mk := func() []byte {
					serial++
					serialOwner[serial] = q.Msg.Q[0].Name.String()
					return refdns.Frame(env.Answer(q.Msg, serial, 60).Encode(false))
				}
				menu = append(menu, event{name: fmt.Sprintf("reply(c%d)", ci), do: func() { impl.Inject(mk()); st.replied++ }})
				menu = append(menu, event{name: fmt.Sprintf("half-reply(c%d)", ci), fault: true, do: func() {
					b := mk()
					cut := 1 + (len(b)-1)/2
					if step%2 == 0 {
						cut = 1 // inside the length prefix
					}
					impl.Inject(b[:cut])
					st.pending, st.half = b[cut:], true
				}})
				menu = append(menu, event{name: fmt.Sprintf("fin-instead-of-reply(c%d)", ci), fault: true, do: func() { st.dead, st.deadAfter = true, len(qs); impl.PeerFIN() }})
			} else if len(qs) == st.replied && !impl.IsClosed() {
				// idle (or being dialled/written): the server may close it, or stall the next write
				// the transport cannot notice a FIN on an idle connection before it tries to use it:
				// exactly one more (probing) query is legitimate, none after that exchange failed
				menu = append(menu, event{name: fmt.Sprintf("fin-idle(c%d)", ci), fault: true, do: func() { st.dead, st.deadAfter = true, len(qs)+1; impl.PeerFIN() }})
				if !st.stalled {
					menu = append(menu, event{name: fmt.Sprintf("stall(c%d)", ci), fault: true, do: func() { st.stalled = true; impl.Stall() }})
				}
			}
			if impl.StalledWrites() > 0 {
				menu = append(menu, event{name: fmt.Sprintf("commit(c%d)", ci), do: func() { impl.Commit() }})
			}
		}
		if !stallNext {
			menu = append(menu, event{name: "stall-next-conn", fault: true, do: func() { stallNext = true }})
		}
		if !armedOnce {
			menu = append(menu, event{name: "cancel-during-next-conn-setup", fault: true, do: func() { armedOnce = true; cancelOnSetup = true }})
		}
		if !lateScripted {
			menu = append(menu, event{name: "next-dial-late", fault: true, do: func() { lateScripted = true; d.Script(env.DialLate) }})
		}
		if d.Pending() > 0 {
			menu = append(menu, event{name: "dial-completes", do: func() { d.Release(true) }})
			// the caller gives up in the very instant its dial completes
			for _, cl := range calls {
				cl := cl
				if cl.inflight() && !cl.canceled {
					menu = append(menu, event{name: fmt.Sprintf("dial-completes+cancel%d", cl.idx), fault: true, do: func() {
						cl.canceled = true
						d.Release(true)
						cl.cancel()
					}})
				}
			}
		}
		for _, cl := range calls {
			cl := cl
			if cl.inflight() && !cl.canceled {
				menu = append(menu, event{name: fmt.Sprintf("cancel%d", cl.idx), fault: true, do: func() { cl.canceled = true; cl.cancel() }})
			}
		}
		started := false
		for _, cl := range calls {
			started = started || cl.started
		}
		if started {
			menu = append(menu, event{name: "advance2s", do: func() { hsleep(2 * time.Second) }})
			menu = append(menu, event{name: "advance6s", do: func() { hsleep(6 * time.Second) }})
			menu = append(menu, event{name: "advance10s", do: func() { hsleep(10 * time.Second) }})
		}
		ev := pick(c, menu)
		if ev == nil {
			break
		}
		trace = append(trace, ev.name)
		ev.do()
		wait()
		check()
		if (strings.HasPrefix(ev.name, "advance") || strings.HasSuffix(ev.name, "-with-expired-deadline") || strings.HasPrefix(ev.name, "resume(")) && !paused() {
			for _, cl := range calls {
				if cl.inflight() && !time.Now().Before(cl.deadline) {
					fail("missed-deadline", fmt.Sprintf("exchange %d still running at its deadline", cl.idx))
				}
			}
		}
	}
	selOff()
	for _, cl := range calls {
		if cl.started {
			cl.cancel()
		}
	}
	for ci := 0; ci < d.NumConns(); ci++ {
		d.ImplEnd(ci).Commit()
	}
	tr.Close()
	wait()
	hsleep(7 * time.Second) // let abandoned workers hit their I/O deadline
	wait()
	check()
	for _, v := range own.Audit() {
		fail("ownership", v)
	}
	st := make([]string, len(calls))
	for i, cl := range calls {
		st[i] = cl.String()
	}
	finished = true
	rep.Eval(strings.Join(trace, ",") + "=>" + strings.Join(st, ","))
	rep.State(fmt.Sprintf("%v|%d", st, d.NumConns()))
}

func TestVerifC06(t *testing.T) {
	rep := report.New("C06 reuse transport")
	defer rep.Write()
	depth := report.ParamInt("DEPTH", 7)
	bound := report.ParamInt("FAULTS", 2)
	nCalls := report.ParamInt("CALLS", 3)
	rep.Rule = fmt.Sprintf("E3: real ReuseConnTransport over scripted dialer/peer in a synctest bubble; %d exchanges started in index order; events {reply whole, reply in two segments (cut inside the prefix or mid body) + rest, abort mid-reply, "+
		"FIN instead of reply, FIN while idle, stall the next write (existing or next connection) + commit, late dial + completion (also simultaneous with the caller's cancellation), caller cancelled while its new connection is being set up, cancel, advance 2s/6s/10s (caller deadline, I/O deadline, idle time-out)}; all orders to depth %d with <=%d faults; "+
		"oracle after every event: per connection #queries <= #completely delivered replies + 1, no query after the server closed/aborted, returned message is the reply to the caller's own query (name, id, serial), no reply used twice, "+
		"wire bytes free of poison/uninit patterns, return by deadline, ownership audit", nCalls, depth, bound)
	st := runExplore(t, rep, bound, func(c *choice.Ctx) { c06Scenario(c, rep, "C06", nCalls, depth) })
	rep.Count("executions", st.Executions)
	rep.Sample(map[string]any{"events": "start0,reply(c0),start1,cancel1,start2,half-reply(c0),rest(c0)", "oracle": "start2 must not reuse c0 before rest(c0)"})
}
