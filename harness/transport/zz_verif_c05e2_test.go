package transport

// C05 (lock level): the pipelined connection's id table under the E2 scheduler
// (sync -> vsync in pipeline_conn.go by import rewriting). Threads follow the
// connection pool's protocol (Status -> Reserve -> addQueueC -> deleteQueueC)
// from start states near the end of the id space.

import (
	"context"
	"fmt"
	"net"
	"strings"
	"syscall"
	"testing"
	"time"

	"github.com/IrineSistiana/mosproxy/internal/dnsmsg"
	"github.com/IrineSistiana/mosproxy/internal/zzverif/choice"
	"github.com/IrineSistiana/mosproxy/internal/zzverif/report"
	"github.com/IrineSistiana/mosproxy/internal/zzverif/sched"
)

type c05NopConn struct{ closed int }

func (c *c05NopConn) Read(b []byte) (int, error) { return 0, net.ErrClosed }
func (c *c05NopConn) Write(b []byte) (int, error) {
	if len(b) > 65507 {
		return 0, &net.OpError{Op: "write", Net: "udp", Err: syscall.EMSGSIZE}
	}
	return len(b), nil
}
func (c *c05NopConn) Close() error                       { c.closed++; return nil }
func (c *c05NopConn) LocalAddr() net.Addr                { return &net.TCPAddr{} }
func (c *c05NopConn) RemoteAddr() net.Addr               { return &net.TCPAddr{} }
func (c *c05NopConn) SetDeadline(t time.Time) error      { return nil }
func (c *c05NopConn) SetReadDeadline(t time.Time) error  { return nil }
func (c *c05NopConn) SetWriteDeadline(t time.Time) error { return nil }

func c05E2Scenario(c *choice.Ctx, rep *report.R, startQid int, variant int) {
	nc := &c05NopConn{}
	t := &PipelineTransport{opts: PipelineOpts{IsTCP: variant != 3}, logger: nonNilLogger(nil)}
	ctx, cancel := context.WithCancelCause(context.Background())
	pc := &pipelineConn{c: nc, t: t, ctx: ctx, cancelCause: cancel, queue: make(map[uint32]chan *dnsmsg.Msg)}
	// an exchange that has been waiting since the beginning of the connection's life holds id 0
	first := make(chan *dnsmsg.Msg, 1)
	id0, err := pc.addQueueC(first)
	if err != nil || id0 != 0 {
		panic("setup")
	}
	pc.nextQid = startQid
	type got struct {
		id   uint16
		err  error
		ch   chan *dnsmsg.Msg
		live bool
	}
	var ids []*got
	holders := map[uint16]int{0: 1}
	collision := ""
	worker := func(n int, big bool) func() {
		return func() {
			for i := 0; i < n; i++ {
				// what connpool does before handing the connection out
				if st := pc.Status(); st.Closed || !st.Available {
					continue
				}
				pc.Reserve()
				ch := make(chan *dnsmsg.Msg, 1)
				id, err := pc.addQueueC(ch)
				g := &got{id: id, err: err, ch: ch}
				ids = append(ids, g)
				if err != nil {
					continue
				}
				if big && i == 0 {
					// this exchange's query does not fit a datagram: the write fails, the exchange ends
					werr := pc.write(make([]byte, 65520), id)
					if werr == nil {
						collision = "an oversize datagram was written"
					}
					pc.deleteQueueC(id)
					g.err = werr
					continue
				}
				holders[id]++
				if holders[id] > 1 {
					collision = fmt.Sprintf("wire id %d is held by %d exchanges at once", id, holders[id])
				}
				// the slot must be ours: a reply for this id must reach our channel
				if q := pc.getQueueC(id); q != (chan<- *dnsmsg.Msg)(ch) {
					collision = fmt.Sprintf("the table entry of id %d does not belong to the exchange that was assigned it", id)
				}
				sched.Point("exchange in flight")
				holders[id]--
				pc.deleteQueueC(id)
			}
		}
	}
	names := []string{"x1", "x2", "x3"}
	bodies := []func(){worker(1, variant == 3), worker(1, false), worker(2, false)}
	if variant == 1 {
		names = append(names, "closer")
		bodies = append(bodies, func() { pc.closeWithErr(nil) })
	}
	if variant == 2 {
		names = append(names, "first-returns")
		bodies = append(bodies, func() { holders[0]--; pc.deleteQueueC(0) })
	}
	s := sched.Run(c, names, bodies)
	fail := func(sig, msg string) {
		rep.Violate("C05:idtable:"+sig, fmt.Sprintf("%s\n  nextQid=%d variant=%d schedule: %s", msg, startQid, variant, strings.Join(s.Trace, " ")), map[string]any{"Choices": c.Choices(), "Qid": startQid, "Variant": variant})
	}
	if s.Deadlock {
		fail("deadlock", "no thread can proceed")
	}
	for _, p := range s.Panics() {
		fail("panic", p)
	}
	if collision != "" {
		fail("wire-id-reused", collision)
	}
	seen := map[uint16]bool{0: true}
	var obs []string
	for _, g := range ids {
		if g.err != nil {
			obs = append(obs, "eol")
			continue
		}
		obs = append(obs, fmt.Sprint(g.id))
		if seen[g.id] {
			fail("wire-id-reused", fmt.Sprintf("wire id %d was handed out twice during the connection's life", g.id))
		}
		seen[g.id] = true
	}
	if nc.closed > 1 {
		fail("closed-twice", fmt.Sprintf("the connection was closed %d times", nc.closed))
	}
	if pc.nextQid > 65535 && len(pc.queue) == 0 && nc.closed == 0 {
		fail("exhausted-connection-not-closed", "all ids are used up and nothing is in flight, but the connection is still open")
	}
	rep.Eval(fmt.Sprintf("%d|%d|%s", startQid, variant, strings.Join(s.Trace, " ")))
	rep.State(fmt.Sprintf("%d|%d|%v|%d", startQid, variant, obs, nc.closed))
	rep.AddTransitions(int64(s.Steps))
}

func TestVerifC05E2(t *testing.T) {
	rep := report.New("C05 id table under the controlled scheduler")
	defer rep.Write()
	bound := report.ParamInt("PREEMPTIONS", 3)
	rep.Rule = fmt.Sprintf("E2: real pipeline_conn.go (sync->vsync) id table; an exchange holds id 0 since the start of the connection; three workers run the pool protocol Status/Reserve/addQueueC/(in flight)/deleteQueueC 1+1+2 times; "+
		"start states nextQid in {1, 65533, 65534, 65535, 65536} x variants {plain, concurrent closeWithErr, the id-0 exchange returns concurrently, UDP framing with one worker whose query exceeds the datagram size (write fails with EMSGSIZE)}; all interleavings with <=%d preemptions; "+
		"oracle: no wire id held by two exchanges or handed out twice, the table slot of an id belongs to its exchange, at most one close, an exhausted idle connection is closed, no deadlock", bound)
	sh, n := report.Shard()
	for _, q := range []int{1, 65533, 65534, 65535, 65536} {
		for variant := 0; variant < 4; variant++ {
			q, variant := q, variant
			if rp := report.ReplayFile(); rp != nil {
				var x struct {
					Choices      []int
					Qid, Variant int
				}
				rp.Decode(&x)
				if x.Qid == q && x.Variant == variant {
					choice.Replay(x.Choices, true, func(c *choice.Ctx) bool { c05E2Scenario(c, rep, q, variant); return true })
				}
				continue
			}
			st := choice.Explore(choice.Options{Bound: bound, Shard: sh, NShards: n, ShardDepth: 4, Deadline: report.Deadline()}, func(c *choice.Ctx) bool {
				c05E2Scenario(c, rep, q, variant)
				return rep.NViolations() < 20
			})
			if st.Capped {
				rep.Cap(st.CapReason)
			}
		}
	}
	rep.Sample(map[string]any{"start": "nextQid=65535, id 0 still in flight", "threads": "3 x (Status, Reserve, addQueueC, deleteQueueC)", "oracle": "exactly one worker gets id 65535, the others get EoL; id 0 is never handed out again"})
}
