package domainmatcher

// C11: exhaustive enumeration of entry sequences (every order, with
// repetition) x query names against a declarative set-based reference.

import (
	"bytes"
	"fmt"
	"os"
	"regexp"
	"sort"
	"strings"
	"sync"
	"testing"

	"github.com/IrineSistiana/mosproxy/internal/zzverif/report"
)

// c11P: the property reported for. The matcher decides the domain condition of C10's rules, so the label-length sweep and a
// shorter enumeration also run as a part of C10.
var c11P = func() string {
	if os.Getenv("VERIF_PROP") == "C10" {
		return "C10:domain-condition"
	}
	return "C11"
}()

type c11Ref struct {
	kind   int // 0 domain, 1 full, 2 regexp
	labels [][]byte
	re     *regexp.Regexp
}

func c11Lower(b []byte) []byte {
	o := make([]byte, len(b))
	for i, c := range b {
		if 'A' <= c && c <= 'Z' {
			c += 'a' - 'A'
		}
		o[i] = c
	}
	return o
}

// parse an entry line the way the property defines it (no escaping in entries).
func c11ParseEntry(line []byte) c11Ref {
	typ, exp := "", line
	if i := bytes.IndexByte(line, ':'); i >= 0 {
		typ, exp = string(line[:i]), line[i+1:]
	}
	if typ == "regexp" {
		return c11Ref{kind: 2, re: regexp.MustCompile(string(exp))}
	}
	k := 0
	if typ == "full" {
		k = 1
	}
	e := c11Lower(exp)
	if len(e) > 0 && e[len(e)-1] == '.' {
		e = e[:len(e)-1]
	}
	var labels [][]byte
	if len(e) > 0 {
		labels = bytes.Split(e, []byte{'.'})
	}
	return c11Ref{kind: k, labels: labels}
}

func c11Text(labels [][]byte) []byte {
	var b []byte
	for i, l := range labels {
		if i > 0 {
			b = append(b, '.')
		}
		for _, c := range l {
			switch {
			case 'a' <= c && c <= 'z', 'A' <= c && c <= 'Z', '0' <= c && c <= '9', c == '-':
				b = append(b, c)
			case c == '.':
				b = append(b, '\\', '.')
			case c == '\\':
				b = append(b, '\\', '\\')
			default:
				b = append(b, fmt.Sprintf("\\%03d", c)...)
			}
		}
	}
	return b
}

func c11RefMatch(es []c11Ref, name [][]byte) bool {
	for _, e := range es {
		switch e.kind {
		case 0:
			if len(e.labels) <= len(name) {
				ok := true
				off := len(name) - len(e.labels)
				for i, l := range e.labels {
					if !bytes.Equal(l, name[off+i]) {
						ok = false
						break
					}
				}
				if ok {
					return true
				}
			}
		case 1:
			if len(e.labels) == len(name) {
				ok := true
				for i, l := range e.labels {
					if !bytes.Equal(l, name[i]) {
						ok = false
						break
					}
				}
				if ok {
					return true
				}
			}
		case 2:
			if e.re.Match(c11Text(name)) {
				return true
			}
		}
	}
	return false
}

func c11Wire(labels [][]byte) []byte {
	var b []byte
	for _, l := range labels {
		b = append(b, byte(len(l)))
		b = append(b, l...)
	}
	return b
}

func c11L(ss ...string) [][]byte {
	var o [][]byte
	for _, s := range ss {
		o = append(o, []byte(s))
	}
	return o
}

var (
	c11L25 = strings.Repeat("k", 25)
	c11L63 = strings.Repeat("m", 63)
)

func c11Entries() []string {
	return []string{
		"com", "a.com", "x.a.com", "full:a.com", "full:com", "domain:b.com", "COM", "A.Com",
		".", "domain:", c11L25 + ".com", c11L63 + ".com", `regexp:^a\.`, `regexp:^\\095x\.`, `regexp:^1\.`,
		"b.com.", "full:.", "y." + c11L25 + ".com", "a\x00.com", "full:", "x.b.com",
		"\xc3\x89.com", "full:\xff\xfe.com", "\xe2\x84\xaa.com", // non-ASCII octets: only ASCII letters are case-folded
		// regexp entries whose syntax must stay confined to the entry: a flag group, a pattern that only matches if case folding
		// leaks into it, an unterminated \Q...
		`regexp:(?i)^ZZ\.`, `regexp:^C\.`, `regexp:^b\Q.com`,
		// two expressions whose text differs only in letter case and that mean different things
		`regexp:^\D\D\.net$`, `regexp:^\d\d\.net$`,
	}
}

func c11Names() [][][]byte {
	return [][][]byte{
		c11L("com"), c11L("a", "com"), c11L("x", "a", "com"), c11L("y", "x", "a", "com"), c11L("b", "com"),
		c11L("z", "b", "com"), c11L("x", "b", "com"), c11L("c", "com"), c11L("org"), c11L("a", "org"), nil,
		c11L(c11L25, "com"), c11L("x", c11L25, "com"), c11L("y", c11L25, "com"), c11L(c11L63, "com"), c11L("z", c11L63, "com"),
		c11L("a\x00", "com"), c11L("_x", "com"), c11L("\x01", "com"), c11L("1", "com"), c11L("a.b", "com"), c11L("a\\", "com"),
		c11L("a\x00\x00", "com"), c11L("com\x00"), c11L("a", "com", "a"), c11L("xa", "com"), c11L("zz", "net"), c11L("11", "net"), c11L("c", "net"), c11L("b", "com|^1\\", "net"),
		c11L("\xc3\x89", "com"), c11L("\xc3\xa9", "com"), c11L("\xff\xfe", "com"), c11L("\xe2\x84\xaa", "com"), c11L("k", "com"), c11L("\xef\xbf\xbd\xef\xbf\xbd", "com"),
		c11L(strings.Repeat("p", 63), strings.Repeat("q", 63), strings.Repeat("r", 63), strings.Repeat("s", 57), "com"),
		c11L(strings.Repeat("p", 63), strings.Repeat("q", 63), strings.Repeat("r", 63), strings.Repeat("s", 57), "org"),
	}
}

// render the sequence as 1-2 "files" with comments and blank lines; variant selects the layout.
func c11Files(seq []string, variant int) [][]byte {
	split := len(seq)
	if variant > 0 {
		split = (variant - 1) % (len(seq) + 1)
	}
	var f1, f2 bytes.Buffer
	for i, e := range seq {
		w := &f1
		if i >= split {
			w = &f2
		}
		switch (i + variant) % 3 {
		case 0:
			w.WriteString(e + "\n")
		case 1:
			w.WriteString("# comment line\n\n  " + e + "  # trailing comment\n")
		case 2:
			w.WriteString("\t" + e + "\t\n   \n")
		}
	}
	if variant == 0 {
		return [][]byte{f1.Bytes()}
	}
	return [][]byte{f1.Bytes(), f2.Bytes()}
}

func c11Load(files [][]byte) (m *MixMatcher, err error) {
	defer func() {
		if r := recover(); r != nil {
			err = fmt.Errorf("PANIC: %v", r)
		}
	}()
	m = NewMixMatcher()
	for _, f := range files {
		if e := LoadMixMatcherFromReader(m, bytes.NewReader(f)); e != nil {
			return nil, e
		}
	}
	return m, nil
}

func c11Match(m *MixMatcher, wire []byte) (ok bool, err error) {
	defer func() {
		if r := recover(); r != nil {
			err = fmt.Errorf("PANIC: %v", r)
		}
	}()
	return m.Match(wire), nil
}

// c11Octets: every octet value as the first octet of a label. As a plain / full entry (raw octets; A-Z fold to a-z, nothing else does),
// and as a regexp entry written against the documented text form of that octet (letters, digits and '-' as they are, everything
// else as \DDD), queried with the same octet, its lower-case form, and two neighbours (b^1, b^0x20).
func c11Octets(rep *report.R, lo, hi int) {
	for v := lo; v <= hi; v++ {
		if !report.Owns(v) && lo != hi {
			continue
		}
		b := byte(v)
		lab := []byte{b, 'x'}
		var names [][][]byte
		for _, o := range []byte{b, c11Lower([]byte{b})[0], b ^ 1, b ^ 0x20} {
			names = append(names, [][]byte{{o, 'x'}, []byte("test")}, [][]byte{[]byte("w"), {o, 'x'}, []byte("test")})
		}
		var sets [][]string
		re := "regexp:^" + regexp.QuoteMeta(string(c11Text([][]byte{lab}))) + `\.test$`
		sets = append(sets, []string{re})
		if !bytes.ContainsAny([]byte{b}, "#\n\r \t\v\f.:") { // (white space around an entry is trimmed: \v and \f count as white space too)
			raw := string(lab) + ".test"
			sets = append(sets, []string{raw}, []string{"full:" + raw}, []string{"domain:w." + raw, re})
		}
		for vi, lines := range sets {
			var rs []c11Ref
			for _, ln := range lines {
				rs = append(rs, c11ParseEntry([]byte(ln)))
			}
			c11Check(rep, fmt.Sprintf("octet=%#02x:entries#%d", b, vi), true, [][]byte{[]byte(strings.Join(lines, "\n") + "\n")}, rs, names, map[string]any{"Family": "octet", "N": v})
		}
	}
}

func TestVerifC11(t *testing.T) {
	rep := report.New(c11P + " domain matcher vs set reference")
	defer rep.Write()
	entries := c11Entries()
	names := c11Names()
	wires := make([][]byte, len(names))
	for i, n := range names {
		wires[i] = c11Wire(n)
	}
	refs := make([]c11Ref, len(entries))
	for i, e := range entries {
		refs[i] = c11ParseEntry([]byte(e))
	}
	maxLen := report.ParamInt("MAXLEN", 3)
	variants := report.ParamInt("VARIANTS", 2)
	if rp := report.ReplayFile(); rp != nil {
		var x struct {
			Seq     []int
			Variant int
			Family  string
			N       int
		}
		rp.Decode(&x)
		switch x.Family {
		case "label-length":
			c11LabelLengths(rep, x.N, x.N)
		case "line-length":
			c11LineLengths(rep, x.N, x.N)
		case "fan-out":
			c11FanOut(rep, 40)
		case "depth":
			c11Depths(rep, x.N, x.N)
		case "octet":
			c11Octets(rep, x.N, x.N)
		default:
			c11Run(rep, entries, refs, names, wires, x.Seq, x.Variant)
		}
		return
	}
	rep.Rule = fmt.Sprintf("all entry sequences (with repetition) of length 0..%d over a %d-entry alphabet x %d file layouts x %d query names; "+
		"distinct = distinct (entry set, name, verdict) triples; every case is non-trivial by construction (entries are parents/children/duplicates/case variants of each other and of the names); "+
		"plus a label-length sweep (every label length 1..63 x 4 octet styles as entry label / parent / child / tld / full:, queried with the same label, a sibling differing in the last octet, one octet shorter and longer, children) "+
		"an octet sweep (every octet value 0..255 as the first octet of a label: raw in a plain / full: entry, and in a regexp entry written against its text form; queried with the octet, its lower-case form and two neighbours) "+
		"a depth sweep (query names of every depth 1..124 one-octet labels plus tld, and one deeper - under the entries zz / the name itself / its parent / full: the name / a sibling of the same depth / k leading labels cut off) "+
		"a fan-out sweep (a node with 1..40 children, one of them with a deeper entry, its own entry loaded first / in the middle / last / not at all) "+
		"and a line-length sweep (every line length 0..%d in 6 file templates: long comment after an entry, long comment line, leading / trailing blanks, long regexp entry, long last line without newline; "+
		"the comment text is made of dotted labels so that any piece of it read as an entry matches one of the 130 queried names)",
		maxLen, len(entries), variants, len(names), report.ParamInt("MAXLINE", 9000))
	idx := 0
	var rec func(seq []int)
	rec = func(seq []int) {
		if report.Owns(idx) {
			for v := 0; v < variants; v++ {
				vv := v
				if v > 0 {
					vv = 1 + (idx+v)%(len(seq)+1)
				}
				c11Run(rep, entries, refs, names, wires, seq, vv)
			}
		}
		idx++
		if len(seq) == maxLen {
			return
		}
		for i := range entries {
			rec(append(seq[:len(seq):len(seq)], i))
		}
	}
	rec(nil)
	c11LabelLengths(rep, 1, 63)
	c11FanOut(rep, 40)
	c11Depths(rep, 1, 124)
	c11Octets(rep, 0, 255)
	if c11P == "C11" {
		c11LineLengths(rep, 0, report.ParamInt("MAXLINE", 9000))
	}
	rep.Sample(map[string]any{"entries": []string{"com", "a.com"}, "names": "com, a.com, b.com, ...", "oracle": "Match == set-based reference"})
}

func c11Run(rep *report.R, entries []string, refs []c11Ref, names [][][]byte, wires [][]byte, seq []int, variant int) {
	strs := make([]string, len(seq))
	rs := make([]c11Ref, len(seq))
	set := append([]int(nil), seq...)
	sort.Ints(set)
	for i, s := range seq {
		strs[i] = entries[s]
		rs[i] = refs[s]
	}
	m, err := c11Load(c11Files(strs, variant))
	replay := map[string]any{"Seq": seq, "Variant": variant}
	if err != nil {
		kind := "load-error"
		if strings.HasPrefix(err.Error(), "PANIC") {
			kind = "load-panic"
		}
		// minimal culprit: the first entry that fails alone
		culprit := ""
		for _, s := range strs {
			if _, e := c11Load([][]byte{[]byte(s + "\n")}); e != nil {
				culprit = s
				break
			}
		}
		rep.Eval(fmt.Sprintf("%v|loaderr", set))
		rep.Violate(fmt.Sprintf(c11P+":%s:entry=%q", kind, culprit), fmt.Sprintf("loading entries %q (layout %d): %v", strs, variant, err), replay)
		return
	}
	for ni, w := range wires {
		got, err := c11Match(m, w)
		want := c11RefMatch(rs, names[ni])
		rep.Eval(fmt.Sprintf("%v|%d|%v", set, ni, want))
		if err != nil {
			rep.Violate(fmt.Sprintf(c11P+":match-panic:name=%q", c11Text(names[ni])), fmt.Sprintf("entries %q name %q: %v", strs, c11Text(names[ni]), err), replay)
			continue
		}
		if got != want {
			// shrink to a minimal failing subsequence (keeps order) so the signature names the cause
			min := append([]int(nil), seq...)
			for changed := true; changed; {
				changed = false
				for i := range min {
					cand := append(append([]int(nil), min[:i]...), min[i+1:]...)
					cs := make([]string, len(cand))
					cr := make([]c11Ref, len(cand))
					for j, s := range cand {
						cs[j], cr[j] = entries[s], refs[s]
					}
					mm, e := c11Load(c11Files(cs, 0))
					if e != nil {
						continue
					}
					g, e2 := c11Match(mm, w)
					if e2 == nil && g != c11RefMatch(cr, names[ni]) {
						min, changed = cand, true
						break
					}
				}
			}
			ms := make([]string, len(min))
			for j, s := range min {
				ms[j] = entries[s]
			}
			rep.Violate(fmt.Sprintf(c11P+":mismatch:entries=%q:got=%v", ms, got),
				fmt.Sprintf("entries (in load order) %q, query name %q: Match=%v, reference=%v; minimal failing entry list %q", strs, c11Text(names[ni]), got, want, ms), replay)
		}
	}
}

// c11Check loads the given files and compares the verdict on every name with the reference.
func c11Check(rep *report.R, what string, perName bool, files [][]byte, rs []c11Ref, names [][][]byte, replay map[string]any) {
	m, err := c11Load(files)
	if err != nil {
		kind := "load-error"
		if strings.HasPrefix(err.Error(), "PANIC") {
			kind = "load-panic"
		}
		rep.Eval(what + "|loaderr")
		rep.Violate(c11P+":"+kind+":"+what, fmt.Sprintf("%s: loading failed: %v", what, err), replay)
		return
	}
	if !perName {
		rep.Eval(what) // one evaluation = this file x all names
	}
	for _, n := range names {
		got, err := c11Match(m, c11Wire(n))
		want := c11RefMatch(rs, n)
		if perName {
			rep.Eval(fmt.Sprintf("%s|%s|%v", what, c11Text(n), want))
		}
		if err != nil {
			rep.Violate(c11P+":match-panic:"+what, fmt.Sprintf("%s name %q: %v", what, c11Text(n), err), replay)
		} else if got != want {
			rep.Violate(fmt.Sprintf(c11P+":mismatch:%s:got=%v", what, got), fmt.Sprintf("%s, query name %q: Match=%v, reference=%v", what, c11Text(n), got, want), replay)
		}
	}
}

// c11LabelLengths: every label length lo..hi in four octet styles, as the label of an entry in several positions.
func c11LabelLengths(rep *report.R, lo, hi int) {
	styles := []struct {
		name string
		mk   func(n int) (entry, lower []byte)
	}{
		{"letters", func(n int) ([]byte, []byte) { b := bytes.Repeat([]byte{'k'}, n); return b, b }},
		{"upper-case-entry", func(n int) ([]byte, []byte) {
			return bytes.Repeat([]byte{'K'}, n), bytes.Repeat([]byte{'k'}, n)
		}},
		{"with-nul", func(n int) ([]byte, []byte) {
			b := bytes.Repeat([]byte{'k'}, n)
			b[n/2] = 0
			return b, b
		}},
		{"digits-hyphen", func(n int) ([]byte, []byte) {
			b := bytes.Repeat([]byte{'7'}, n)
			b[n-1] = '-'
			return b, b
		}},
	}
	idx := 0
	for n := lo; n <= hi; n++ {
		for si, st := range styles {
			idx++
			if !report.Owns(idx) && lo != hi {
				continue
			}
			e, l := st.mk(n)
			sib := append([]byte(nil), l...)
			sib[n-1] ^= 1
			var names [][][]byte
			names = append(names, [][]byte{l, []byte("com")}, [][]byte{[]byte("z"), l, []byte("com")}, [][]byte{[]byte("x"), l, []byte("com")},
				[][]byte{sib, []byte("com")}, [][]byte{l}, [][]byte{[]byte("z"), l}, [][]byte{[]byte("com")}, [][]byte{l, l, []byte("com")})
			if n > 1 {
				names = append(names, [][]byte{l[:n-1], []byte("com")})
			}
			if n < 63 {
				names = append(names, [][]byte{append(append([]byte(nil), l...), 'k'), []byte("com")})
			}
			es := string(e)
			for vi, lines := range [][]string{
				{es + ".com"}, {"x." + es + ".com"}, {"full:" + es + ".com"}, {es}, {es + ".com", "z." + es + ".com"}, {"z." + es + ".com", es + ".com"}, {"full:" + es, "x." + es + "." + es + ".com"},
			} {
				var rs []c11Ref
				for _, ln := range lines {
					rs = append(rs, c11ParseEntry([]byte(ln)))
				}
				c11Check(rep, fmt.Sprintf("label-length=%d:%s:entries#%d", n, st.name, vi), true, [][]byte{[]byte(strings.Join(lines, "\n") + "\n")}, rs, names,
					map[string]any{"Family": "label-length", "N": n, "Style": si})
			}
		}
	}
}

// c11LineLengths: every padding length lo..hi in six file templates. The padding inside comments is "z.z.z....org", so a piece of
// it wrongly read as an entry is either rejected by the loader or matches one of the queried names z.org, z.z.org, ...
func c11LineLengths(rep *report.R, lo, hi int) {
	names := [][][]byte{c11L("a", "com"), c11L("b", "com"), c11L("com"), c11L("org"), c11L("c", "com"), c11L("x", "a", "com")}
	for k := 1; k <= 125; k++ {
		var n [][]byte
		for i := 0; i < k; i++ {
			n = append(n, []byte("z"))
		}
		names = append(names, append(n, []byte("org")))
	}
	ab := []c11Ref{c11ParseEntry([]byte("a.com")), c11ParseEntry([]byte("b.com"))}
	zpad := func(n int) string { // n octets of "z.z.z." ending in "org" when long enough
		b := []byte(strings.Repeat("z.", n/2+1))[:n]
		if n >= 4 {
			copy(b[n-4:], ".org")
		}
		return string(b)
	}
	for n := lo; n <= hi; n++ {
		if !report.Owns(n) && lo != hi {
			continue
		}
		rp := map[string]any{"Family": "line-length", "N": n}
		sp := strings.Repeat(" ", n)
		c11Check(rep, fmt.Sprintf("line-length:comment-after-entry:pad=%d", n), false, [][]byte{[]byte("a.com #" + zpad(n) + "\nb.com\n")}, ab, names, rp)
		c11Check(rep, fmt.Sprintf("line-length:comment-line:pad=%d", n), false, [][]byte{[]byte("#" + zpad(n) + "\na.com\nb.com\n")}, ab, names, rp)
		c11Check(rep, fmt.Sprintf("line-length:leading-blanks:pad=%d", n), false, [][]byte{[]byte(sp + "a.com\nb.com\n")}, ab, names, rp)
		c11Check(rep, fmt.Sprintf("line-length:trailing-blanks:pad=%d", n), false, [][]byte{[]byte("a.com" + sp + "# c\nb.com\n")}, ab, names, rp)
		c11Check(rep, fmt.Sprintf("line-length:last-line-no-newline:pad=%d", n), false, [][]byte{[]byte("a.com\nb.com #" + zpad(n))}, ab, names, rp)
		re := "regexp:^(" + strings.Repeat("q|", n/2) + "a)\\.com$"
		c11Check(rep, fmt.Sprintf("line-length:long-regexp:pad=%d", n), false, [][]byte{[]byte(re + "\nb.com\n")},
			[]c11Ref{c11ParseEntry([]byte(re)), c11ParseEntry([]byte("b.com"))}, names, rp)
	}
}

// TestVerifC11Concurrent: Match is called concurrently by every listener goroutine. The verdict must not depend on what other
// calls are doing; this is the free-running pass of the same bodies (plain build: verdicts compared; -race build: the detector
// decides whether two calls share unsynchronized state).
func TestVerifC11Concurrent(t *testing.T) {
	rep := report.New("C11 concurrent Match calls")
	defer rep.Write()
	entries := []string{`regexp:^a\.`, `regexp:\.org$`, `regexp:^\\095x\.`, "full:b.com", "c.com", c11L25 + ".com", "a\x00.net"}
	names := append(c11Names(), c11L("a", "net"), c11L("zzz", "org"), c11L("a", "b", "c", "d", "e", "f", "org"), c11L("_x", "net"), c11L("a\x00", "net"), c11L("q", "c", "com"))
	var rs []c11Ref
	for _, e := range entries {
		rs = append(rs, c11ParseEntry([]byte(e)))
	}
	m, err := c11Load([][]byte{[]byte(strings.Join(entries, "\n") + "\n")})
	if err != nil {
		rep.Violate(c11P+":concurrent:load-error", err.Error(), nil)
		return
	}
	want := make([]bool, len(names))
	wires := make([][]byte, len(names))
	for i, n := range names {
		want[i] = c11RefMatch(rs, n)
		wires[i] = c11Wire(n)
	}
	const G = 4
	rounds := report.ParamInt("ROUNDS", 200)
	rep.Rule = fmt.Sprintf("free-running pass: %d goroutines x %d rounds x %d names call Match on one matcher holding regexp:, full: and domain entries, each starting at a different name; every verdict is compared with the "+
		"set reference; in the -race build the Go race detector decides whether concurrent calls share unsynchronized state (a data race in Match is a violation)", G, rounds, len(names))
	var wg sync.WaitGroup
	var mu sync.Mutex
	bad := map[string]bool{}
	for g := 0; g < G; g++ {
		wg.Add(1)
		go func(g int) {
			defer wg.Done()
			for r := 0; r < rounds; r++ {
				for k := range names {
					i := (k*(g+1) + g*7 + r) % len(names)
					got, err := c11Match(m, wires[i])
					if err != nil || got != want[i] {
						mu.Lock()
						bad[fmt.Sprintf("name %q: Match=%v err=%v, reference=%v", c11Text(names[i]), got, err, want[i])] = true
						mu.Unlock()
					}
				}
			}
		}(g)
	}
	wg.Wait()
	for i := range names {
		rep.Eval(fmt.Sprintf("concurrent|%d|%v", i, want[i]))
	}
	for b := range bad {
		rep.Violate(c11P+":concurrent:verdict-depends-on-other-calls", "with other Match calls running concurrently: "+b, nil)
		break
	}
}

// c11FanOut: a zone node with 1..max children, one of which (c0) also has a deeper entry; the entry for c0 itself is loaded first,
// in the middle or last. Whatever the representation of a node's children does when it grows, the verdicts stay those of the set.
func c11FanOut(rep *report.R, max int) {
	idx := 0
	for n := 1; n <= max; n++ {
		for _, pos := range []string{"first", "middle", "last", "absent"} {
			idx++
			if !report.Owns(idx) {
				continue
			}
			var lines []string
			lines = append(lines, "x.c0.zone")
			for i := 1; i < n; i++ {
				lines = append(lines, fmt.Sprintf("c%d.zone", i))
			}
			switch pos {
			case "first":
				lines = append([]string{"c0.zone"}, lines...)
			case "middle":
				k := len(lines) / 2
				lines = append(lines[:k:k], append([]string{"c0.zone"}, lines[k:]...)...)
			case "last":
				lines = append(lines, "c0.zone")
			}
			var rs []c11Ref
			for _, ln := range lines {
				rs = append(rs, c11ParseEntry([]byte(ln)))
			}
			names := [][][]byte{c11L("c0", "zone"), c11L("y", "c0", "zone"), c11L("x", "c0", "zone"), c11L("a", "x", "c0", "zone"), c11L("zone"), c11L("cx", "zone"),
				c11L("c1", "zone"), c11L("q", "c1", "zone"), c11L(fmt.Sprintf("c%d", n-1), "zone"), c11L("q", fmt.Sprintf("c%d", n-1), "zone"), c11L(fmt.Sprintf("c%d", n), "zone")}
			c11Check(rep, fmt.Sprintf("fan-out=%d:c0.zone-loaded-%s", n, pos), true, [][]byte{[]byte(strings.Join(lines, "\n") + "\n")}, rs, names, map[string]any{"Family": "fan-out", "N": n})
		}
	}
}

// c11Depths: names of every depth lo..hi (one-octet labels d(i) ... d1 under "zz"; a name of 255 octets has at most 127 labels),
// as query names and as entries: the tld entry, the name itself, its parent, full: the name, a sibling of the same depth, and
// entries that are the name with its first k labels cut off. Matching walks the labels right to left whatever their number.
func c11Depths(rep *report.R, lo, hi int) {
	lab := func(i int) string { return string(rune('a' + i%26)) }
	mk := func(d int, first string) [][]byte {
		var ls []string
		for i := d; i >= 1; i-- {
			l := lab(i)
			if i == d && first != "" {
				l = first
			}
			ls = append(ls, l)
		}
		ls = append(ls, "zz")
		return c11L(ls...)
	}
	text := func(n [][]byte) string { return string(c11Text(n)) }
	for d := lo; d <= hi; d++ {
		if !report.Owns(d) {
			continue
		}
		name := mk(d, "")
		sib := mk(d, "0")
		child := append(c11L("k"), name...)
		names := [][][]byte{name, sib, child, name[1:], c11L("zz"), c11L("y")}
		if d > 40 {
			names = append(names, name[d-33:], name[d-32:], name[d-31:]) // its last 34 / 33 / 32 labels
		}
		sets := map[string][]string{
			"tld":       {"zz"},
			"itself":    {text(name)},
			"parent":    {text(name[1:])},
			"full":      {"full:" + text(name)},
			"sibling":   {text(sib)},
			"cut-8":     {text(name[min(8, d):])},
			"unrelated": {"y", "full:" + text(sib)},
		}
		for what, lines := range sets {
			var rs []c11Ref
			for _, ln := range lines {
				rs = append(rs, c11ParseEntry([]byte(ln)))
			}
			c11Check(rep, fmt.Sprintf("depth=%d:%s", d, what), true, [][]byte{[]byte(strings.Join(lines, "\n") + "\n")}, rs, names, map[string]any{"Family": "depth", "N": d})
		}
	}
}
