package domainmatcher

// C11: exhaustive enumeration of entry sequences (every order, with
// repetition) x query names against a declarative set-based reference.

import (
	"bytes"
	"fmt"
	"regexp"
	"sort"
	"strings"
	"testing"

	"github.com/IrineSistiana/mosproxy/internal/zzverif/report"
)

type c11Ref struct {
	kind   int // 0 domain, 1 full, 2 regexp
	labels [][]byte
	re     *regexp.Regexp
}

func c11Lower(b []byte) []byte {
	o := make([]byte, len(b))
	for i, c := range b {
		if 'A' <= c && c <= 'Z' {
			c += 'a' - 'A'
		}
		o[i] = c
	}
	return o
}

// parse an entry line the way the property defines it (no escaping in entries).
func c11ParseEntry(line []byte) c11Ref {
	typ, exp := "", line
	if i := bytes.IndexByte(line, ':'); i >= 0 {
		typ, exp = string(line[:i]), line[i+1:]
	}
	if typ == "regexp" {
		return c11Ref{kind: 2, re: regexp.MustCompile(string(exp))}
	}
	k := 0
	if typ == "full" {
		k = 1
	}
	e := c11Lower(exp)
	if len(e) > 0 && e[len(e)-1] == '.' {
		e = e[:len(e)-1]
	}
	var labels [][]byte
	if len(e) > 0 {
		labels = bytes.Split(e, []byte{'.'})
	}
	return c11Ref{kind: k, labels: labels}
}

func c11Text(labels [][]byte) []byte {
	var b []byte
	for i, l := range labels {
		if i > 0 {
			b = append(b, '.')
		}
		for _, c := range l {
			switch {
			case 'a' <= c && c <= 'z', 'A' <= c && c <= 'Z', '0' <= c && c <= '9', c == '-':
				b = append(b, c)
			case c == '.':
				b = append(b, '\\', '.')
			case c == '\\':
				b = append(b, '\\', '\\')
			default:
				b = append(b, fmt.Sprintf("\\%03d", c)...)
			}
		}
	}
	return b
}

func c11RefMatch(es []c11Ref, name [][]byte) bool {
	for _, e := range es {
		switch e.kind {
		case 0:
			if len(e.labels) <= len(name) {
				ok := true
				off := len(name) - len(e.labels)
				for i, l := range e.labels {
					if !bytes.Equal(l, name[off+i]) {
						ok = false
						break
					}
				}
				if ok {
					return true
				}
			}
		case 1:
			if len(e.labels) == len(name) {
				ok := true
				for i, l := range e.labels {
					if !bytes.Equal(l, name[i]) {
						ok = false
						break
					}
				}
				if ok {
					return true
				}
			}
		case 2:
			if e.re.Match(c11Text(name)) {
				return true
			}
		}
	}
	return false
}

func c11Wire(labels [][]byte) []byte {
	var b []byte
	for _, l := range labels {
		b = append(b, byte(len(l)))
		b = append(b, l...)
	}
	return b
}

func c11L(ss ...string) [][]byte {
	var o [][]byte
	for _, s := range ss {
		o = append(o, []byte(s))
	}
	return o
}

var (
	c11L25 = strings.Repeat("k", 25)
	c11L63 = strings.Repeat("m", 63)
)

func c11Entries() []string {
	return []string{
		"com", "a.com", "x.a.com", "full:a.com", "full:com", "domain:b.com", "COM", "A.Com",
		".", "domain:", c11L25 + ".com", c11L63 + ".com", `regexp:^a\.`, `regexp:^\\095x\.`, `regexp:^1\.`,
		"b.com.", "full:.", "y." + c11L25 + ".com", "a\x00.com", "full:", "x.b.com",
		"\xc3\x89.com", "full:\xff\xfe.com", "\xe2\x84\xaa.com", // non-ASCII octets: only ASCII letters are case-folded
	}
}

func c11Names() [][][]byte {
	return [][][]byte{
		c11L("com"), c11L("a", "com"), c11L("x", "a", "com"), c11L("y", "x", "a", "com"), c11L("b", "com"),
		c11L("z", "b", "com"), c11L("x", "b", "com"), c11L("c", "com"), c11L("org"), c11L("a", "org"), nil,
		c11L(c11L25, "com"), c11L("x", c11L25, "com"), c11L("y", c11L25, "com"), c11L(c11L63, "com"), c11L("z", c11L63, "com"),
		c11L("a\x00", "com"), c11L("_x", "com"), c11L("\x01", "com"), c11L("1", "com"), c11L("a.b", "com"), c11L("a\\", "com"),
		c11L("a\x00\x00", "com"), c11L("com\x00"), c11L("a", "com", "a"), c11L("xa", "com"),
		c11L("\xc3\x89", "com"), c11L("\xc3\xa9", "com"), c11L("\xff\xfe", "com"), c11L("\xe2\x84\xaa", "com"), c11L("k", "com"), c11L("\xef\xbf\xbd\xef\xbf\xbd", "com"),
		c11L(strings.Repeat("p", 63), strings.Repeat("q", 63), strings.Repeat("r", 63), strings.Repeat("s", 57), "com"),
		c11L(strings.Repeat("p", 63), strings.Repeat("q", 63), strings.Repeat("r", 63), strings.Repeat("s", 57), "org"),
	}
}

// render the sequence as 1-2 "files" with comments and blank lines; variant selects the layout.
func c11Files(seq []string, variant int) [][]byte {
	split := len(seq)
	if variant > 0 {
		split = (variant - 1) % (len(seq) + 1)
	}
	var f1, f2 bytes.Buffer
	for i, e := range seq {
		w := &f1
		if i >= split {
			w = &f2
		}
		switch (i + variant) % 3 {
		case 0:
			w.WriteString(e + "\n")
		case 1:
			w.WriteString("# comment line\n\n  " + e + "  # trailing comment\n")
		case 2:
			w.WriteString("\t" + e + "\t\n   \n")
		}
	}
	if variant == 0 {
		return [][]byte{f1.Bytes()}
	}
	return [][]byte{f1.Bytes(), f2.Bytes()}
}

func c11Load(files [][]byte) (m *MixMatcher, err error) {
	defer func() {
		if r := recover(); r != nil {
			err = fmt.Errorf("PANIC: %v", r)
		}
	}()
	m = NewMixMatcher()
	for _, f := range files {
		if e := LoadMixMatcherFromReader(m, bytes.NewReader(f)); e != nil {
			return nil, e
		}
	}
	return m, nil
}

func c11Match(m *MixMatcher, wire []byte) (ok bool, err error) {
	defer func() {
		if r := recover(); r != nil {
			err = fmt.Errorf("PANIC: %v", r)
		}
	}()
	return m.Match(wire), nil
}

func TestVerifC11(t *testing.T) {
	rep := report.New("C11 domain matcher vs set reference")
	defer rep.Write()
	entries := c11Entries()
	names := c11Names()
	wires := make([][]byte, len(names))
	for i, n := range names {
		wires[i] = c11Wire(n)
	}
	refs := make([]c11Ref, len(entries))
	for i, e := range entries {
		refs[i] = c11ParseEntry([]byte(e))
	}
	maxLen := report.ParamInt("MAXLEN", 3)
	variants := report.ParamInt("VARIANTS", 2)
	if rp := report.ReplayFile(); rp != nil {
		var x struct {
			Seq     []int
			Variant int
		}
		rp.Decode(&x)
		c11Run(rep, entries, refs, names, wires, x.Seq, x.Variant)
		return
	}
	rep.Rule = fmt.Sprintf("all entry sequences (with repetition) of length 0..%d over a %d-entry alphabet x %d file layouts x %d query names; "+
		"distinct = distinct (entry set, name, verdict) triples; every case is non-trivial by construction (entries are parents/children/duplicates/case variants of each other and of the names)",
		maxLen, len(entries), variants, len(names))
	idx := 0
	var rec func(seq []int)
	rec = func(seq []int) {
		if report.Owns(idx) {
			for v := 0; v < variants; v++ {
				vv := v
				if v > 0 {
					vv = 1 + (idx+v)%(len(seq)+1)
				}
				c11Run(rep, entries, refs, names, wires, seq, vv)
			}
		}
		idx++
		if len(seq) == maxLen {
			return
		}
		for i := range entries {
			rec(append(seq[:len(seq):len(seq)], i))
		}
	}
	rec(nil)
	rep.Sample(map[string]any{"entries": []string{"com", "a.com"}, "names": "com, a.com, b.com, ...", "oracle": "Match == set-based reference"})
}

func c11Run(rep *report.R, entries []string, refs []c11Ref, names [][][]byte, wires [][]byte, seq []int, variant int) {
	strs := make([]string, len(seq))
	rs := make([]c11Ref, len(seq))
	set := append([]int(nil), seq...)
	sort.Ints(set)
	for i, s := range seq {
		strs[i] = entries[s]
		rs[i] = refs[s]
	}
	m, err := c11Load(c11Files(strs, variant))
	replay := map[string]any{"Seq": seq, "Variant": variant}
	if err != nil {
		kind := "load-error"
		if strings.HasPrefix(err.Error(), "PANIC") {
			kind = "load-panic"
		}
		// minimal culprit: the first entry that fails alone
		culprit := ""
		for _, s := range strs {
			if _, e := c11Load([][]byte{[]byte(s + "\n")}); e != nil {
				culprit = s
				break
			}
		}
		rep.Eval(fmt.Sprintf("%v|loaderr", set))
		rep.Violate(fmt.Sprintf("C11:%s:entry=%q", kind, culprit), fmt.Sprintf("loading entries %q (layout %d): %v", strs, variant, err), replay)
		return
	}
	for ni, w := range wires {
		got, err := c11Match(m, w)
		want := c11RefMatch(rs, names[ni])
		rep.Eval(fmt.Sprintf("%v|%d|%v", set, ni, want))
		if err != nil {
			rep.Violate(fmt.Sprintf("C11:match-panic:name=%q", c11Text(names[ni])), fmt.Sprintf("entries %q name %q: %v", strs, c11Text(names[ni]), err), replay)
			continue
		}
		if got != want {
			// shrink to a minimal failing subsequence (keeps order) so the signature names the cause
			min := append([]int(nil), seq...)
			for changed := true; changed; {
				changed = false
				for i := range min {
					cand := append(append([]int(nil), min[:i]...), min[i+1:]...)
					cs := make([]string, len(cand))
					cr := make([]c11Ref, len(cand))
					for j, s := range cand {
						cs[j], cr[j] = entries[s], refs[s]
					}
					mm, e := c11Load(c11Files(cs, 0))
					if e != nil {
						continue
					}
					g, e2 := c11Match(mm, w)
					if e2 == nil && g != c11RefMatch(cr, names[ni]) {
						min, changed = cand, true
						break
					}
				}
			}
			ms := make([]string, len(min))
			for j, s := range min {
				ms[j] = entries[s]
			}
			rep.Violate(fmt.Sprintf("C11:mismatch:entries=%q:got=%v", ms, got),
				fmt.Sprintf("entries (in load order) %q, query name %q: Match=%v, reference=%v; minimal failing entry list %q", strs, c11Text(names[ni]), got, want, ms), replay)
		}
	}
}
