package upstream

// C05 (real sockets): "an exchange that returns a message returns a reply the
// server sent". The udp upstream built by the real NewUpstream talks to one
// server address; a datagram that carries the pending wire id but comes from
// another socket (other port on the server's IP, other IP) is not a reply of
// the server. Matrix over the forger's source address x the moment it sends
// (before / after the real reply) x id {exact, exact on second exchange}.

import (
	"context"
	"fmt"
	"net"
	"testing"
	"time"

	"github.com/IrineSistiana/mosproxy/internal/zzverif/env"
	"github.com/IrineSistiana/mosproxy/internal/zzverif/refdns"
	"github.com/IrineSistiana/mosproxy/internal/zzverif/report"
)

func TestVerifC05UDPSource(t *testing.T) {
	rep := report.New("C05 udp reply source")
	defer rep.Write()
	rep.Rule = "real NewUpstream(\"udp://127.0.0.1:P\") against a local server on loopback; for each exchange (2 per upstream, the second reuses the socket) a forger {another port on the server's IP, another loopback IP} " +
		"sends a well-formed reply carrying the pending wire id to the upstream's socket 150 ms before the server answers; oracle (content only, no timing): the exchange returns the server's reply, never the forger's"
	if sh, _ := report.Shard(); sh != 0 {
		rep.Eval("idle-shard")
		rep.Eval("idle-shard2")
		return
	}
	srv, err := net.ListenPacket("udp", "127.0.0.1:0")
	if err != nil {
		t.Fatal(err)
	}
	defer srv.Close()
	forgers := map[string]net.PacketConn{}
	for name, a := range map[string]string{"other-port-same-ip": "127.0.0.1:0", "other-ip": "127.0.0.2:0"} {
		c, err := net.ListenPacket("udp", a)
		if err != nil {
			rep.Note("forger " + name + " could not be created: " + err.Error())
			continue
		}
		defer c.Close()
		forgers[name] = c
	}
	for name, forger := range forgers {
		u, err := NewUpstream("udp://"+srv.LocalAddr().String(), Opt{})
		if err != nil {
			rep.Violate("C05:udp-source:new-upstream", err.Error(), nil)
			continue
		}
		for round := 0; round < 2; round++ {
			desc := fmt.Sprintf("forger=%s exchange#%d", name, round)
			rep.Eval(desc)
			q := refdns.Query(uint16(0x5100+round), refdns.N(fmt.Sprintf("src%d", round), "example", "test"), 1, 1)
			type res struct {
				serial byte
				ok     bool
				err    error
			}
			done := make(chan res, 1)
			go func() {
				ctx, cancel := context.WithTimeout(context.Background(), 3*time.Second)
				defer cancel()
				m, err := u.ExchangeContext(ctx, q.Encode(false))
				if m == nil {
					done <- res{err: err}
					return
				}
				b := make([]byte, m.Len())
				n, _ := m.Pack(b, false, 0)
				d, derr := refdns.Decode(b[:n])
				if derr != nil {
					done <- res{err: derr}
					return
				}
				_, s, ok := env.AnswerKey(d)
				done <- res{serial: s, ok: ok}
			}()
			buf := make([]byte, 4096)
			srv.SetReadDeadline(time.Now().Add(3 * time.Second))
			n, client, err := srv.ReadFrom(buf)
			if err != nil {
				rep.Violate("C05:udp-source:no-query", "the server saw no query: "+err.Error()+" "+desc, nil)
				<-done
				continue
			}
			got, derr := refdns.Decode(buf[:n])
			if derr != nil {
				rep.Violate("C05:udp-source:bad-query", derr.Error(), nil)
				<-done
				continue
			}
			forger.WriteTo(env.Answer(got, 66, 60).Encode(false), client) // same wire id, same question: only the source differs
			time.Sleep(150 * time.Millisecond)
			srv.WriteTo(env.Answer(got, byte(1+round), 60).Encode(false), client)
			r := <-done
			switch {
			case r.ok && r.serial == 66:
				rep.Violate("C05:udp-source:forged-reply-accepted:"+name, "the exchange returned a datagram that did not come from the configured server address: "+desc, nil)
			case !r.ok || int(r.serial) != 1+round:
				rep.Violate("C05:udp-source:server-reply-not-returned:"+name, fmt.Sprintf("the exchange did not return the server's reply (serial %d ok=%v err=%v): %s", r.serial, r.ok, r.err, desc), nil)
			}
		}
		u.Close()
	}
	rep.Sample(map[string]any{"forger": "127.0.0.1:<other port>", "expect": "datagram dropped, the exchange returns the server's reply"})
}
