package upstream

// Constructed upstreams under E3 + E4 (DESIGN 9.13): what the real NewUpstream builds for udp://, tcp:// and
// tcp+pipeline:// (the dial closures end in the scripted dialer through the vnet import swap of upstream.go), driven
// by an event menu, with every statement boundary of upstream.go and of the transport files a possible pause point.
// Oracles are safety predicates that hold under any scheduling (C16: a truncated UDP message is never returned, a TCP
// query is byte-identical to the caller's and only follows a TC reply; C05/C06: a returned message is the server's
// reply to this caller's question with the caller's id; C18: after Close everything is closed and later exchanges fail;
// C14/C01: no panic, no (nil, nil), no message together with an error; C20: ownership audit).

import (
	"bytes"
	"context"
	"fmt"
	"net"
	"os"
	"strings"
	"testing"
	"time"

	"github.com/IrineSistiana/mosproxy/internal/zzverif/choice"
	"github.com/IrineSistiana/mosproxy/internal/zzverif/env"
	"github.com/IrineSistiana/mosproxy/internal/zzverif/refdns"
	"github.com/IrineSistiana/mosproxy/internal/zzverif/report"
	"github.com/IrineSistiana/mosproxy/internal/zzverif/vnet"
)

type c16pReply struct {
	serial byte
	name   string
	tcp    bool
	tc     bool
}

var c16pProp = func() string {
	if p := os.Getenv("VERIF_PROP"); p != "" {
		return p
	}
	return "C16"
}()

// which signatures belong to which property when the exploration runs as a part of it
var c16pSigs = map[string]string{
	"truncated-udp-returned": "C16", "tcp-query-differs": "C16", "tcp-without-tc": "C16", "tc-not-retried": "C16",
	"wrong-reply": "C05 C06 C16 C04", "id-not-restored": "C05 C06 C16", "reply-never-sent": "C05 C06 C16 C04", "reply-used-twice": "C05 C06",
	"second-query-before-reply": "C06",
	"connection-left-open":      "C18", "close-blocks": "C18", "exchange-after-close": "C18", "exchange-never-returned": "C18 C14", "close-panic": "C18",
	"panic": "C01 C14 C16 C18 C05 C06 C20", "nil-nil": "C01 C14 C16", "reply-with-error": "C14 C16",
	"ownership": "C20 C16", "tainted-wire": "C20 C06 C05", "dial-target": "C17 C16", "missed-deadline": "C14 C16",
}

func c16pScenario(c *choice.Ctx, rep *report.R, kind string, depth int) {
	own := env.InstallOwn(0xA5, vRace)
	defer env.UninstallOwn()
	pauseBegin(c)
	defer pauseEnd()
	ud, td := env.NewDialer("udp"), env.NewDialer("tcp")
	var trace []string
	fail := func(sig, msg string) {
		if !strings.Contains(c16pSigs[sig], c16pProp) {
			return
		}
		rep.Violate(c16pProp+":constructed:"+kind+":"+sig, fmt.Sprintf("%s\n  NewUpstream(%q): %s%s", msg, kind+"://192.0.2.53", strings.Join(trace, " "), pauseNote()),
			map[string]any{"Choices": c.Choices(), "Kind": kind})
	}
	var dialTargets []string
	vnet.DialHook = func(ctx context.Context, network, address string) (net.Conn, error) {
		publish(func() { dialTargets = append(dialTargets, network+" "+address) })
		if network == "udp" {
			return ud.Dial(ctx)
		}
		return td.Dial(ctx)
	}
	defer func() { vnet.DialHook = nil }()
	u, err := NewUpstream(kind+"://192.0.2.53", Opt{})
	if err != nil {
		rep.Violate(c16pProp+":constructed:"+kind+":new-upstream", err.Error(), nil)
		return
	}
	const timeout = 2 * time.Second
	type pcall struct {
		*vCall
		idx        int
		name       refdns.Name
		id         uint16
		canceled   bool
		afterClose bool
		startAt    time.Time
	}
	var calls []*pcall
	closes, closeReturned := 0, 0
	doClose := func() {
		closes++
		go func() {
			defer func() {
				if r := recover(); r != nil {
					publish(func() { fail("close-panic", fmt.Sprint(r)) })
				}
			}()
			u.Close()
			publish(func() { closeReturned++ })
		}()
	}
	finished := false
	defer func() {
		if finished {
			return
		}
		// given up half-way (another worker's subtree): nothing may stay blocked in the bubble
		pauseEnd()
		for _, cl := range calls {
			cl.cancel()
		}
		for _, d := range []*env.Dialer{ud, td} {
			for d.Pending() > 0 {
				d.Release(false)
			}
		}
		go u.Close()
		wait()
		for _, d := range []*env.Dialer{ud, td} {
			for d.Pending() > 0 {
				d.Release(false)
				wait()
			}
			for i := 0; i < d.NumConns(); i++ {
				d.ImplEnd(i).Abort()
				d.Conn(i).Abort()
			}
		}
		hsleep(70 * time.Second)
		wait()
	}()
	replies := map[byte]*c16pReply{}
	var serial byte
	tcDelivered := map[string]int{} // question name -> TC replies delivered over UDP
	handledU, handledT := map[int]int{}, map[int]int{}
	lateScripted := false
	check := func(final bool) {
		// what the TCP side has seen
		for ci := 0; ci < td.NumConns(); ci++ {
			impl := td.ImplEnd(ci)
			if t := own.Tainted(impl.Written()); t != "" {
				fail("tainted-wire", fmt.Sprintf("bytes written on tcp connection %d contain %s", ci, t))
			}
			qs := env.QueriesOn(ci, impl, true)
			if kind != "tcp+pipeline" && len(qs) > handledT[ci]+1 {
				fail("second-query-before-reply", fmt.Sprintf("tcp connection %d carries query #%d although only %d replies were delivered", ci, len(qs), handledT[ci]))
			}
			for _, q := range qs {
				if q.Msg == nil || len(q.Msg.Q) == 0 {
					continue
				}
				n := q.Msg.Q[0].Name.String()
				if kind == "udp" {
					if tcDelivered[n] == 0 {
						fail("tcp-without-tc", fmt.Sprintf("a TCP query for %s was sent although no truncated UDP reply for it was delivered", n))
					}
					for _, cl := range calls {
						if cl.name.String() == n && !bytes.Equal(q.Wire, cl.wire) {
							fail("tcp-query-differs", fmt.Sprintf("the TCP query %x differs from the caller's query %x", q.Wire, cl.wire))
						}
					}
				}
			}
		}
		used := map[byte]int{}
		for _, cl := range calls {
			if !cl.done && !paused() && !time.Now().Before(cl.deadline) {
				fail("missed-deadline", fmt.Sprintf("exchange %d is still running at its deadline (%v after it started)", cl.idx, time.Since(cl.startAt)))
			}
			if !cl.done {
				continue
			}
			if cl.panicked != nil {
				fail("panic", fmt.Sprintf("exchange %d: %v", cl.idx, cl.panicked))
				continue
			}
			if cl.nilnil {
				fail("nil-nil", fmt.Sprintf("exchange %d returned (nil, nil)", cl.idx))
			}
			if cl.resp != nil && cl.err != nil {
				fail("reply-with-error", fmt.Sprintf("exchange %d returned a message together with an error: %v", cl.idx, cl.err))
			}
			if cl.afterClose && (cl.resp != nil || !cl.doneAt.Equal(cl.startAt)) {
				fail("exchange-after-close", fmt.Sprintf("exchange %d started after Close had returned: %s after %v", cl.idx, cl.vCall, cl.doneAt.Sub(cl.startAt)))
			}
			if cl.resp == nil {
				continue
			}
			_, s, ok := env.AnswerKey(cl.resp)
			r := replies[s]
			if !ok || r == nil {
				fail("reply-never-sent", fmt.Sprintf("exchange %d returned a message the server never sent: %s", cl.idx, cl.vCall))
				continue
			}
			if r.name != cl.name.String() || len(cl.resp.Q) != 1 || !cl.resp.Q[0].Name.Equal(cl.name) {
				fail("wrong-reply", fmt.Sprintf("exchange %d (question %s) was given the server's reply to %s", cl.idx, cl.name, r.name))
			}
			if cl.resp.ID != cl.id {
				fail("id-not-restored", fmt.Sprintf("exchange %d (id %#x) got id %#x", cl.idx, cl.id, cl.resp.ID))
			}
			if r.tc && !r.tcp {
				fail("truncated-udp-returned", fmt.Sprintf("exchange %d was given the truncated UDP message", cl.idx))
			}
			used[s]++
			if used[s] > 1 {
				fail("reply-used-twice", fmt.Sprintf("reply %d satisfied two exchanges", s))
			}
		}
		if closes > 0 && closeReturned == closes && !paused() || final {
			if closeReturned != closes {
				fail("close-blocks", fmt.Sprintf("Close did not return (%d of %d)", closeReturned, closes))
			}
			for _, d := range []*env.Dialer{ud, td} {
				if open := d.OpenImplConns(); len(open) > 0 {
					fail("connection-left-open", fmt.Sprintf("%s connections %v are still open after Close", d.Network, open))
				}
			}
		}
	}
	for step := 0; step < depth; step++ {
		var menu []event
		if len(calls) < 2 {
			menu = append(menu, event{name: fmt.Sprintf("start%d", len(calls)), do: func() {
				i := len(calls)
				name := refdns.N(fmt.Sprintf("q%d", i), "test")
				id := uint16(0x2000 + i)
				wire := refdns.Query(id, name, 1, 1).Encode(false)
				cl := &pcall{idx: i, name: name, id: id, startAt: time.Now(), afterClose: closes > 0 && closeReturned == closes}
				cl.vCall = vStart(u, wire, timeout)
				calls = append(calls, cl)
			}})
		}
		for ci := 0; ci < ud.NumConns(); ci++ {
			ci := ci
			impl := ud.ImplEnd(ci)
			qs := env.QueriesOn(ci, impl, false)
			if len(qs) > handledU[ci] && !impl.IsClosed() && qs[handledU[ci]].Msg != nil && len(qs[handledU[ci]].Msg.Q) > 0 {
				q := qs[handledU[ci]]
				for _, tc := range []bool{true, false} {
					tc := tc
					nm := "udp-reply"
					if tc {
						nm = "udp-tc-reply"
					}
					menu = append(menu, event{name: fmt.Sprintf("%s(c%d)", nm, ci), do: func() {
						handledU[ci]++
						serial++
						m := env.Answer(q.Msg, serial, 60)
						n := q.Msg.Q[0].Name.String()
						if tc {
							m.Bits |= refdns.BitTC
							tcDelivered[n]++
						}
						replies[serial] = &c16pReply{serial: serial, name: n, tc: tc}
						impl.Inject(m.Encode(false))
					}})
				}
			}
		}
		for ci := 0; ci < td.NumConns(); ci++ {
			ci := ci
			impl := td.ImplEnd(ci)
			qs := env.QueriesOn(ci, impl, true)
			if len(qs) > handledT[ci] && !impl.IsClosed() && qs[handledT[ci]].Msg != nil && len(qs[handledT[ci]].Msg.Q) > 0 {
				q := qs[handledT[ci]]
				menu = append(menu, event{name: fmt.Sprintf("tcp-reply(c%d)", ci), do: func() {
					handledT[ci]++
					serial++
					m := env.Answer(q.Msg, serial, 60)
					replies[serial] = &c16pReply{serial: serial, name: q.Msg.Q[0].Name.String(), tcp: true}
					impl.Inject(refdns.Frame(m.Encode(false)))
				}})
			} else if len(qs) == handledT[ci] && !impl.IsClosed() {
				menu = append(menu, event{name: fmt.Sprintf("tcp-fin-idle(c%d)", ci), fault: true, do: func() { impl.PeerFIN() }})
			}
		}
		for _, cl := range calls {
			cl := cl
			if !cl.done && !cl.canceled {
				menu = append(menu, event{name: fmt.Sprintf("cancel%d", cl.idx), fault: true, do: func() { cl.canceled = true; cl.cancel() }})
			}
		}
		if !lateScripted && closes == 0 {
			menu = append(menu, event{name: "next-tcp-dial-late", fault: true, do: func() { lateScripted = true; td.Script(env.DialLateForce) }})
		}
		if td.Pending() > 0 {
			menu = append(menu, event{name: "tcp-dial-completes", do: func() { td.Release(true) }})
		}
		if closes < 1 {
			menu = append(menu, event{name: "close", do: doClose})
		}
		if len(calls) > 0 {
			menu = append(menu, event{name: "advance2s", do: func() { hsleep(2 * time.Second) }})
		}
		ev := pick(c, menu)
		if ev == nil {
			break
		}
		trace = append(trace, ev.name)
		ev.do()
		wait()
		check(false)
	}
	selOff()
	if closes == 0 {
		doClose()
		wait()
	}
	if resume() { // a goroutine held at a pause point goes on only now, after Close
		wait()
	}
	for td.Pending() > 0 {
		td.Release(true)
		wait()
	}
	for _, cl := range calls {
		cl.cancel()
	}
	hsleep(7 * time.Second)
	wait()
	for td.Pending() > 0 {
		td.Release(true)
		wait()
	}
	for _, cl := range calls {
		if !cl.done {
			fail("exchange-never-returned", fmt.Sprintf("exchange %d", cl.idx))
		}
	}
	check(true)
	for _, v := range own.Audit() {
		fail("ownership", v)
	}
	// the real constructor's wiring: every dial goes to the url's host, port 53
	for _, t := range dialTargets {
		port := "53"
		if strings.HasPrefix(kind, "tls") {
			port = "853"
		}
		if t != "udp 192.0.2.53:"+port && t != "tcp 192.0.2.53:"+port || (kind != "udp" && strings.HasPrefix(t, "udp")) {
			fail("dial-target", "dialled "+t)
		}
	}
	var st []string
	for _, cl := range calls {
		st = append(st, cl.vCall.String())
	}
	finished = true
	rep.Eval(kind + ":" + strings.Join(trace, ",") + "=>" + strings.Join(st, ","))
	rep.State(fmt.Sprintf("%s|%v|%d|%d", kind, st, ud.NumConns(), td.NumConns()))
}

func TestVerifC16P(t *testing.T) {
	rep := report.New(c16pProp + " constructed upstreams (E3 + E4)")
	defer rep.Write()
	depth := report.ParamInt("DEPTH", 5)
	bound := report.ParamInt("FAULTS", 1)
	kinds := []string{"udp", "tcp", "tcp+pipeline", "tls", "tls+pipeline"} // (tls: the scripted peer never answers the hello - every exchange ends by its deadline or by Close)
	rep.Rule = fmt.Sprintf("E3+E4: the objects the real NewUpstream builds for %v (dial closures end in the scripted dialer by an import swap of upstream.go), <=2 exchanges; all sequences of length <=%d over {start, UDP reply with / without TC, TCP reply, server FIN on the idle TCP connection, cancel, next TCP connect completes late (also after its context ended), Close, advance 2s} with <=%d fault events; "+
		"with PAUSE=1 additionally every statement boundary reached in upstream.go and the transport files is a choice point 'this goroutine stands still here until resumed' (one per execution); "+
		"oracle (scheduling-independent): a truncated UDP message is never returned, a TCP query follows a delivered TC reply and equals the caller's bytes, a returned message is the server's reply to this caller's question with the caller's id, no reply used twice, one query at a time per TCP connection (non-pipelined kinds), "+
		"no panic / (nil,nil) / message with error, every exchange has returned when its deadline has passed (nobody held), after Close (once it returned and nobody is held) every connection ever dialled is closed and later exchanges fail at once, all exchanges return, ownership audit, dial targets", kinds, depth, bound)
	bubble(t, func() {
		for _, k := range kinds {
			k := k
			if rp := report.ReplayFile(); rp != nil {
				var x struct{ Kind string }
				rp.Decode(&x)
				if x.Kind != k {
					continue
				}
			}
			st := runExplore(t, rep, bound, func(c *choice.Ctx) { c16pScenario(c, rep, k, depth) })
			rep.Count("executions_"+k, st.Executions)
		}
	})
	rep.Sample(map[string]any{"kind": "udp", "events": "start0,udp-tc-reply(c0),[exchange goroutine held before the fallback],close,resume", "oracle": "the TCP connection dialled after Close is closed; the exchange fails"})
}
