package upstream

// C17 (a): peers are dialled exactly as configured. Full matrix of scheme x
// host form x port x dial_addr; the dial is intercepted in the socket Control
// callback (records network+address, then aborts the dial), so no packet
// leaves. quic/h3 send their first packet to a local UDP socket instead.

import (
	"context"
	"errors"
	"fmt"
	"net"
	"os"
	"strings"
	"sync"
	"syscall"
	"testing"
	"time"

	"github.com/IrineSistiana/mosproxy/internal/dnsmsg"
	"github.com/IrineSistiana/mosproxy/internal/zzverif/refdns"
	"github.com/IrineSistiana/mosproxy/internal/zzverif/report"
)

type c17Host struct {
	text string   // as written in the URL
	ips  []string // what must be dialled (any of)
}

var errIntercepted = errors.New("verif: dial intercepted")

func c17Hosts() []c17Host {
	return []c17Host{
		{"1.2.3.4", []string{"1.2.3.4"}},
		{"[::1]", []string{"::1"}},
		{"[2001:db8::53]", []string{"2001:db8::53"}},
		{"[2001:db8:0:0:0:0:1:5]", []string{"2001:db8::1:5"}},
		{"[fe80::1%25lo]", []string{"fe80::1%lo"}},
		{"localhost", []string{"127.0.0.1", "::1"}},
	}
}

type c17Dial struct {
	text string
	ips  []string
	port string // "" = default port of the scheme
	unix bool
}

func c17DialAddrs() []c17Dial {
	return []c17Dial{
		{text: ""},
		{"9.9.9.9", []string{"9.9.9.9"}, "", false},
		{"9.9.9.9:99", []string{"9.9.9.9"}, "99", false},
		{"::2", []string{"::2"}, "", false},
		{"[::2]:99", []string{"::2"}, "99", false},
		{"localhost", []string{"127.0.0.1", "::1"}, "", false},
		{"localhost:99", []string{"127.0.0.1", "::1"}, "99", false},
		{"@verif-abstract", nil, "", true},
	}
}

var c17Schemes = []struct {
	name, defPort, net string
	stream             bool
}{
	{"", "53", "udp", false}, {"udp", "53", "udp", false}, {"tcp", "53", "tcp", true}, {"tcp+pipeline", "53", "tcp", true},
	{"tls", "853", "tcp", true}, {"tls+pipeline", "853", "tcp", true}, {"https", "443", "tcp", true}, {"http", "80", "tcp", true},
}

type c17Rec struct {
	mu   sync.Mutex
	seen []string
}

func (r *c17Rec) control(network, address string, c syscall.RawConn) error {
	r.mu.Lock()
	r.seen = append(r.seen, network+"|"+address)
	r.mu.Unlock()
	return errIntercepted
}

func TestVerifC17Addr(t *testing.T) {
	rep := report.New("C17 dial targets")
	defer rep.Write()
	rep.Rule = "E1 full matrix: scheme {none,udp,tcp,tcp+pipeline,tls,tls+pipeline,https,http} x URL host {IPv4, [::1], [2001:db8::53], [2001:db8:0:0:0:0:1:5], [fe80::1%25lo], localhost} x port {absent, 5353} x dial_addr {absent, v4, v4:port, bare v6, [v6]:port, name, name:port, @abstract}; " +
		"NewUpstream + one exchange with the dial intercepted in the socket Control callback; for udp:// both legs (UDP, and the TCP fallback leg); oracle: every dialled (network family, host, port) equals the reference (RFC 3986 host/port split, default port table, dial_addr override with default port added, '@' = abstract unix socket on stream schemes)"
	q := refdns.Query(1, refdns.N("example", "test"), 1, 1).Encode(false)
	n := 0
	prop := os.Getenv("VERIF_PROP")
	if prop == "" {
		prop = "C17"
	}
	only := report.Param("SCHEMES", "")
	for _, sc := range c17Schemes {
		if only != "" && !strings.Contains(","+only+",", ","+sc.name+",") {
			continue
		}
		for _, h := range c17Hosts() {
			for _, port := range []string{"", "5353"} {
				for _, da := range c17DialAddrs() {
					n++
					if !report.Owns(n) {
						continue
					}
					if da.unix && !sc.stream {
						continue // '@' dial_addr is documented for stream based upstreams only
					}
					addr := h.text
					if port != "" {
						addr += ":" + port
					}
					if sc.name != "" {
						addr = sc.name + "://" + addr
					}
					if strings.HasPrefix(sc.name, "http") {
						addr += "/dns-query"
					}
					desc := fmt.Sprintf("addr=%q dial_addr=%q", addr, da.text)
					rec := &c17Rec{}
					var u Upstream
					var err error
					func() {
						defer func() {
							if r := recover(); r != nil {
								err = fmt.Errorf("PANIC: %v", r)
							}
						}()
						u, err = NewUpstream(addr, Opt{DialAddr: da.text, Control: rec.control, DialTimeout: time.Second})
					}()
					rep.Eval(desc)
					if err != nil {
						rep.Violate(prop+":addr:rejected", fmt.Sprintf("NewUpstream failed for a supported address form: %v (%s)", err, desc), nil)
						continue
					}
					var _ *dnsmsg.Msg
					ctx, cancel := context.WithTimeout(context.Background(), 3*time.Second)
					m, _ := u.ExchangeContext(ctx, q)
					if m != nil {
						rep.Violate(prop+":addr:not-intercepted", "an exchange succeeded although every dial is intercepted: "+desc, nil)
					}
					if f, ok := u.(*udpWithFallback); ok {
						f.t.ExchangeContext(ctx, q) // the TCP leg, as taken after a truncated reply
					}
					cancel()
					u.Close()
					wantIPs, wantPort := h.ips, port
					if wantPort == "" {
						wantPort = sc.defPort
					}
					if da.text != "" {
						wantIPs, wantPort = da.ips, da.port
						if wantPort == "" {
							wantPort = sc.defPort
						}
					}
					rec.mu.Lock()
					seen := append([]string(nil), rec.seen...)
					rec.mu.Unlock()
					if len(seen) == 0 {
						rep.Violate(prop+":addr:no-dial", "no dial was attempted: "+desc, nil)
						continue
					}
					nets := map[string]bool{}
					for _, s := range seen {
						network, address, _ := strings.Cut(s, "|")
						ok := false
						if da.unix {
							ok = network == "unix" && address == da.text
						} else {
							host, p, e := net.SplitHostPort(address)
							if e == nil && p == wantPort && strings.HasPrefix(network, sc.net[:3]) || (e == nil && p == wantPort && sc.net == "udp" && strings.HasPrefix(network, "tcp")) {
								for _, ip := range wantIPs {
									if host == ip {
										ok = true
									}
								}
							}
							nets[network[:3]] = true
						}
						if !ok {
							rep.Violate(fmt.Sprintf("%s:addr:wrong-target:%s:host=%s:dial=%s", prop, sc.name, h.text, da.text),
								fmt.Sprintf("dialled %s, expected %s host in %v port %s (%s)", s, sc.net, wantIPs, wantPort, desc), nil)
						}
					}
					if sc.net == "udp" && !da.unix && (!nets["udp"] || !nets["tcp"]) {
						rep.Violate(prop+":addr:udp-legs", fmt.Sprintf("udp upstream must dial the same server over UDP and (fallback) TCP; saw %v (%s)", seen, desc), nil)
					}
				}
			}
		}
	}
	rep.Sample(map[string]any{"addr": "tls://[2001:db8::53]", "dial_addr": "", "expect": "tcp6 [2001:db8::53]:853"})
}
