package upstream

// C16 (real sockets): the udp upstream exactly as NewUpstream builds it - buffer
// sizes, option wiring and all - against a local server on one UDP+TCP port.
// Matrix over the size of the UDP reply (around 512, 1232, 2048, 4096) x TC x
// query with / without an EDNS0 size of 4096.

import (
	"context"
	"fmt"
	"io"
	"net"
	"sync"
	"testing"
	"time"

	"github.com/IrineSistiana/mosproxy/internal/zzverif/env"
	"github.com/IrineSistiana/mosproxy/internal/zzverif/refdns"
	"github.com/IrineSistiana/mosproxy/internal/zzverif/report"
)

func TestVerifC16Real(t *testing.T) {
	rep := report.New("C16 udp upstream as built by NewUpstream")
	defer rep.Write()
	sizes := []int{100, 512, 513, 1232, 1233, 2048, 2049, 3000, 4095, 4096}
	rep.Rule = fmt.Sprintf("real NewUpstream(\"udp://127.0.0.1:P\") against a local server answering on UDP and TCP; UDP reply sizes %v octets (padded with TXT records) x {no TC, TC} x query {plain, OPT size 4096}; "+
		"oracle (content only): without TC the caller gets the UDP reply with all its records, with TC the caller gets the TCP reply and the TCP query equals the caller's query", sizes)
	if sh, _ := report.Shard(); sh != 0 {
		rep.Eval("idle-shard")
		rep.Eval("idle-shard2")
		return
	}
	ul, err := net.ListenPacket("udp", "127.0.0.1:0")
	if err != nil {
		t.Fatal(err)
	}
	defer ul.Close()
	tl, err := net.Listen("tcp", ul.LocalAddr().String())
	if err != nil {
		t.Fatal(err)
	}
	defer tl.Close()
	var mu sync.Mutex
	size, tc := 100, false
	var tcpQueries [][]byte
	build := func(q *refdns.Msg, serial byte, n int, tc bool) []byte {
		m := env.Answer(q, serial, 60)
		if tc {
			m.Bits |= refdns.BitTC
		}
		for len(m.Encode(false)) < n {
			rest := n - len(m.Encode(false))
			own := 0
			for _, l := range q.Q[0].Name {
				own += 1 + len(l)
			}
			own++
			txt := rest - own - 10 - 1
			if txt < 1 {
				break
			}
			if txt > 255 {
				txt = 200
			}
			m.An = append(m.An, refdns.TXT(q.Q[0].Name, 60, txt, 'p'))
		}
		return m.Encode(false)
	}
	go func() {
		b := make([]byte, 65535)
		for {
			n, a, err := ul.ReadFrom(b)
			if err != nil {
				return
			}
			q, err := refdns.Decode(b[:n])
			if err != nil {
				continue
			}
			mu.Lock()
			sz, t := size, tc
			mu.Unlock()
			ul.WriteTo(build(q, 1, sz, t), a)
		}
	}()
	go func() {
		for {
			c, err := tl.Accept()
			if err != nil {
				return
			}
			go func() {
				defer c.Close()
				for {
					hdr := make([]byte, 2)
					if _, err := io.ReadFull(c, hdr); err != nil {
						return
					}
					b := make([]byte, int(hdr[0])<<8|int(hdr[1]))
					if _, err := io.ReadFull(c, b); err != nil {
						return
					}
					mu.Lock()
					tcpQueries = append(tcpQueries, append([]byte(nil), b...))
					mu.Unlock()
					if q, err := refdns.Decode(b); err == nil {
						c.Write(refdns.Frame(env.Answer(q, 2, 60).Encode(false)))
					}
				}
			}()
		}
	}()
	u, err := NewUpstream("udp://"+ul.LocalAddr().String(), Opt{})
	if err != nil {
		t.Fatal(err)
	}
	defer u.Close()
	id := uint16(0x1600)
	for _, withOpt := range []bool{false, true} {
		for _, t := range []bool{false, true} {
			for _, sz := range sizes {
				mu.Lock()
				size, tc = sz, t
				tcpQueries = nil
				mu.Unlock()
				id++
				q := refdns.Query(id, refdns.N("real", "example", "test"), 1, 1)
				if withOpt {
					q.Ar = []refdns.RR{refdns.OPT(4096, 0, nil)}
				}
				wire := q.Encode(false)
				desc := fmt.Sprintf("udp reply of %d octets tc=%v query-opt=%v", sz, t, withOpt)
				rep.Eval(desc)
				ctx, cancel := context.WithTimeout(context.Background(), 3*time.Second)
				m, xerr := u.ExchangeContext(ctx, wire)
				cancel()
				if m == nil {
					rep.Violate(fmt.Sprintf("C16:real:no-result:tc=%v", t), fmt.Sprintf("the exchange failed (%v) although the server answered on UDP%s: %s", xerr, map[bool]string{true: " and on TCP", false: ""}[t], desc), nil)
					continue
				}
				b := make([]byte, m.Len())
				n, _ := m.Pack(b, false, 0)
				d, derr := refdns.Decode(b[:n])
				if derr != nil {
					rep.Violate("C16:real:undecodable-result", desc, nil)
					continue
				}
				_, serial, _ := env.AnswerKey(d)
				mu.Lock()
				nq := len(tcpQueries)
				var tq []byte
				if nq > 0 {
					tq = tcpQueries[0]
				}
				mu.Unlock()
				if !t {
					want, _ := refdns.Decode(build(q, 1, sz, false))
					if serial != 1 || len(d.An) != len(want.An) || nq != 0 {
						rep.Violate("C16:real:udp-reply-altered", fmt.Sprintf("got serial %d with %d answer records (server sent %d) and %d TCP queries: %s", serial, len(d.An), len(want.An), nq, desc), nil)
					}
				} else {
					if serial != 2 || nq != 1 || string(tq) != string(wire) {
						rep.Violate("C16:real:tcp-outcome-not-returned", fmt.Sprintf("got serial %d, %d TCP queries (identical to the caller's: %v): %s", serial, nq, string(tq) == string(wire), desc), nil)
					}
				}
			}
		}
	}
	rep.Sample(map[string]any{"case": "udp reply of 3000 octets tc=false", "expect": "returned with all its records"})
}
