package upstream

// C17 (a, quic/h3): the destination of QUIC based upstreams. The first packet of
// the handshake is caught by plain UDP sockets on loopback (no QUIC server is
// needed to see where the client sends to).

import (
	"context"
	"crypto/tls"
	"fmt"
	"net"
	"os"
	"sync"
	"testing"
	"time"

	"github.com/IrineSistiana/mosproxy/internal/zzverif/refdns"
	"github.com/IrineSistiana/mosproxy/internal/zzverif/report"
)

type c17Sink struct {
	addr string
	c    net.PacketConn
	mu   sync.Mutex
	n    int
}

func c17Listen(addr string) *c17Sink {
	c, err := net.ListenPacket("udp", addr)
	if err != nil {
		return nil
	}
	s := &c17Sink{addr: c.LocalAddr().String(), c: c}
	go func() {
		b := make([]byte, 2048)
		for {
			n, _, err := c.ReadFrom(b)
			if err != nil {
				return
			}
			if n > 0 {
				s.mu.Lock()
				s.n++
				s.mu.Unlock()
			}
		}
	}()
	return s
}

func (s *c17Sink) hits() int { s.mu.Lock(); defer s.mu.Unlock(); return s.n }

func TestVerifC17Quic(t *testing.T) {
	rep := report.New("C17 quic/h3 dial targets")
	defer rep.Write()
	prop := os.Getenv("VERIF_PROP")
	if prop == "" {
		prop = "C17"
	}
	rep.Rule = "real NewUpstream for quic:// and h3:// with hosts {127.0.0.1, [::1], localhost} x port {absent => 853/443, explicit} x dial_addr {absent, 127.0.0.1, 127.0.0.1:port, [::1]:port}; UDP sinks on the expected address and on the plausible wrong ones (default port vs explicit port, URL host vs dial_addr); one exchange with a short deadline; " +
		"oracle: the first handshake packet arrives at the expected sink and at no other; distinct = distinct (scheme, host, port, dial_addr)"
	if sh, _ := report.Shard(); sh != 0 {
		rep.Eval("idle-shard")
		rep.Eval("idle-shard2")
		return
	}
	q := refdns.Query(1, refdns.N("example", "test"), 1, 1).Encode(false)
	type tc struct {
		scheme, host, port, dial string
		want                     []string // acceptable destinations
	}
	free := func() string {
		c, _ := net.ListenPacket("udp", "127.0.0.1:0")
		p := c.LocalAddr().(*net.UDPAddr).Port
		c.Close()
		return fmt.Sprint(p)
	}
	var cases []tc
	for _, sc := range []struct{ name, def string }{{"quic", "853"}, {"h3", "443"}} {
		p1, p2 := free(), free()
		cases = append(cases,
			tc{sc.name, "127.0.0.1", "", "", []string{"127.0.0.1:" + sc.def}},
			tc{sc.name, "[::1]", "", "", []string{"[::1]:" + sc.def}},
			tc{sc.name, "127.0.0.1", p1, "", []string{"127.0.0.1:" + p1}},
			tc{sc.name, "[::1]", p1, "", []string{"[::1]:" + p1}},
			tc{sc.name, "localhost", p1, "", []string{"127.0.0.1:" + p1, "[::1]:" + p1}},
			tc{sc.name, "name.invalid", "", "127.0.0.1", []string{"127.0.0.1:" + sc.def}},
			tc{sc.name, "name.invalid", p1, "127.0.0.1", []string{"127.0.0.1:" + sc.def}},
			tc{sc.name, "name.invalid", p1, "127.0.0.1:" + p2, []string{"127.0.0.1:" + p2}},
			tc{sc.name, "127.0.0.1", p1, "[::1]:" + p2, []string{"[::1]:" + p2}},
		)
	}
	for _, c := range cases {
		addr := c.scheme + "://" + c.host
		if c.port != "" {
			addr += ":" + c.port
		}
		if c.scheme == "h3" {
			addr += "/dns-query"
		}
		desc := fmt.Sprintf("addr=%q dial_addr=%q", addr, c.dial)
		rep.Eval(desc)
		// sinks: the expected ones plus the same hosts on the other candidate ports
		cand := map[string]bool{}
		ports := map[string]bool{"853": true, "443": true}
		if c.port != "" {
			ports[c.port] = true
		}
		for _, w := range c.want {
			cand[w] = true
			_, p, _ := net.SplitHostPort(w)
			ports[p] = true
		}
		for p := range ports {
			cand["127.0.0.1:"+p] = true
			cand["[::1]:"+p] = true
		}
		var sinks []*c17Sink
		missing := false
		for a := range cand {
			s := c17Listen(a)
			if s == nil {
				for _, w := range c.want {
					if w == a {
						missing = true
					}
				}
				continue
			}
			sinks = append(sinks, s)
		}
		if missing {
			rep.Note("cannot bind an expected destination for " + desc + "; case skipped")
			for _, s := range sinks {
				s.c.Close()
			}
			continue
		}
		u, err := NewUpstream(addr, Opt{DialAddr: c.dial, TLSConfig: &tls.Config{InsecureSkipVerify: true}})
		if err != nil {
			rep.Violate(prop+":quic-addr:rejected", fmt.Sprintf("NewUpstream failed: %v (%s)", err, desc), nil)
			for _, s := range sinks {
				s.c.Close()
			}
			continue
		}
		ctx, cancel := context.WithTimeout(context.Background(), 700*time.Millisecond)
		u.ExchangeContext(ctx, q)
		cancel()
		u.Close()
		time.Sleep(50 * time.Millisecond)
		gotWanted, gotWrong := 0, ""
		for _, s := range sinks {
			h := s.hits()
			isWant := false
			for _, w := range c.want {
				if s.addr == w || (w[0] == '[' && s.addr == w) {
					isWant = true
				}
			}
			if isWant {
				gotWanted += h
			} else if h > 0 {
				gotWrong = s.addr
			}
			s.c.Close()
		}
		if gotWrong != "" {
			rep.Violate(fmt.Sprintf("%s:quic-addr:wrong-target:%s:host=%s:port=%v:dial=%s", prop, c.scheme, c.host, c.port != "", c.dial), fmt.Sprintf("handshake packets were sent to %s, expected %v (%s)", gotWrong, c.want, desc), nil)
		} else if gotWanted == 0 {
			rep.Violate(fmt.Sprintf("%s:quic-addr:no-packet:%s:host=%s:port=%v:dial=%s", prop, c.scheme, c.host, c.port != "", c.dial), fmt.Sprintf("no handshake packet reached %v (%s)", c.want, desc), nil)
		}
	}
	rep.Sample(map[string]any{"addr": "quic://name.invalid:5353", "dial_addr": "127.0.0.1", "expect": "first packet to 127.0.0.1:853 (default port added to dial_addr), nothing to :5353"})
}
