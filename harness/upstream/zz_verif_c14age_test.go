package upstream

// C14 (real sockets): connections that stay in use. Every upstream kind built by
// the real NewUpstream against a healthy local server, one query per second for
// 8 seconds (longer than the dial timeout, the TLS handshake timeout and the
// idle timeouts involved): every exchange succeeds.

import (
	"context"
	"crypto/tls"
	"fmt"
	"io"
	"net"
	"sync"
	"testing"
	"time"

	"github.com/IrineSistiana/mosproxy/internal/testutils"
	"github.com/IrineSistiana/mosproxy/internal/zzverif/env"
	"github.com/IrineSistiana/mosproxy/internal/zzverif/refdns"
	"github.com/IrineSistiana/mosproxy/internal/zzverif/report"
)

func TestVerifC14Age(t *testing.T) {
	rep := report.New("C14 connections that stay in use")
	defer rep.Write()
	kinds := []string{"udp", "tcp", "tcp+pipeline", "tls", "tls+pipeline"}
	rep.Rule = fmt.Sprintf("real NewUpstream for %v against a healthy local server; one exchange per second for 8 s on each (the kinds run side by side), each with a 3 s deadline; oracle (content only): every exchange returns the server's reply", kinds)
	if sh, _ := report.Shard(); sh != 0 {
		rep.Eval("idle-shard")
		rep.Eval("idle-shard2")
		return
	}
	cert, err := testutils.GenerateCertificate("localhost")
	if err != nil {
		t.Fatal(err)
	}
	tl, err := net.Listen("tcp", "127.0.0.1:0")
	if err != nil {
		t.Fatal(err)
	}
	defer tl.Close()
	ul, err := net.ListenPacket("udp", tl.Addr().String())
	if err != nil {
		t.Fatal(err)
	}
	defer ul.Close()
	go func() {
		b := make([]byte, 4096)
		for {
			n, a, err := ul.ReadFrom(b)
			if err != nil {
				return
			}
			if q, err := refdns.Decode(b[:n]); err == nil {
				ul.WriteTo(env.Answer(q, 1, 60).Encode(false), a)
			}
		}
	}()
	serve := func(l net.Listener) {
		for {
			c, err := l.Accept()
			if err != nil {
				return
			}
			go func() {
				defer c.Close()
				for {
					hdr := make([]byte, 2)
					if _, err := io.ReadFull(c, hdr); err != nil {
						return
					}
					b := make([]byte, int(hdr[0])<<8|int(hdr[1]))
					if _, err := io.ReadFull(c, b); err != nil {
						return
					}
					if q, err := refdns.Decode(b); err == nil {
						c.Write(refdns.Frame(env.Answer(q, 1, 60).Encode(false)))
					}
				}
			}()
		}
	}
	go serve(tl)
	tlsL, err := tls.Listen("tcp", "127.0.0.1:0", &tls.Config{Certificates: []tls.Certificate{cert}})
	if err != nil {
		t.Fatal(err)
	}
	defer tlsL.Close()
	go serve(tlsL)
	var wg sync.WaitGroup
	var mu sync.Mutex
	for _, kind := range kinds {
		kind := kind
		addr := kind + "://" + tl.Addr().String()
		if kind == "tls" || kind == "tls+pipeline" {
			addr = kind + "://" + tlsL.Addr().String()
		}
		u, err := NewUpstream(addr, Opt{TLSConfig: &tls.Config{InsecureSkipVerify: true}})
		if err != nil {
			rep.Violate("C14:age:new-upstream:"+kind, err.Error(), nil)
			continue
		}
		wg.Add(1)
		go func() {
			defer wg.Done()
			defer u.Close()
			for i := 0; i < 9; i++ {
				t0 := time.Now()
				q := refdns.Query(uint16(0x1400+i), refdns.N(fmt.Sprintf("age%d", i), "test"), 1, 1)
				ctx, cancel := context.WithTimeout(context.Background(), 3*time.Second)
				m, xerr := u.ExchangeContext(ctx, q.Encode(false))
				cancel()
				mu.Lock()
				rep.Eval(fmt.Sprintf("%s exchange %d", kind, i))
				if m == nil {
					rep.Violate("C14:age:healthy-exchange-failed:"+kind, fmt.Sprintf("exchange %d, %d s after the upstream was created, failed against a healthy server: %v", i, i, xerr), nil)
				}
				mu.Unlock()
				if m == nil {
					return
				}
				if d := time.Second - time.Since(t0); d > 0 {
					time.Sleep(d)
				}
			}
		}()
	}
	wg.Wait()
	rep.Sample(map[string]any{"kind": "tls+pipeline", "expect": "the exchange at 6 s succeeds on the connection dialled at 0 s"})
}
