package upstream

// C06 (real sockets, option wiring): "without pipelining" is decided by what
// NewUpstream builds for an address. tcp:// and tls:// (no '+pipeline') against
// servers that hold every reply until told: three concurrent callers. No
// connection may carry a second query while it owes the reply to the first; the
// '+pipeline' variants are run as a control that the server-side observation
// works (they do put several queries on one connection).

import (
	"context"
	"crypto/tls"
	"fmt"
	"io"
	"net"
	"sync"
	"testing"
	"time"

	"github.com/IrineSistiana/mosproxy/internal/testutils"
	"github.com/IrineSistiana/mosproxy/internal/zzverif/env"
	"github.com/IrineSistiana/mosproxy/internal/zzverif/refdns"
	"github.com/IrineSistiana/mosproxy/internal/zzverif/report"
)

type c06kServer struct {
	mu          sync.Mutex
	owed        map[net.Conn][]*refdns.Msg // queries received and not answered yet, per connection
	maxOwed     int
	conns       int
	totalQ      int
	releaseOnce chan struct{}
}

func (s *c06kServer) serve(l net.Listener) {
	for {
		c, err := l.Accept()
		if err != nil {
			return
		}
		s.mu.Lock()
		s.conns++
		s.mu.Unlock()
		go func() {
			defer c.Close()
			var wmu sync.Mutex
			for {
				hdr := make([]byte, 2)
				if _, err := io.ReadFull(c, hdr); err != nil {
					return
				}
				b := make([]byte, int(hdr[0])<<8|int(hdr[1]))
				if _, err := io.ReadFull(c, b); err != nil {
					return
				}
				q, err := refdns.Decode(b)
				if err != nil {
					return
				}
				s.mu.Lock()
				s.owed[c] = append(s.owed[c], q)
				s.totalQ++
				if len(s.owed[c]) > s.maxOwed {
					s.maxOwed = len(s.owed[c])
				}
				rel := s.releaseOnce
				s.mu.Unlock()
				go func() {
					<-rel
					s.mu.Lock()
					for i, x := range s.owed[c] {
						if x == q {
							s.owed[c] = append(s.owed[c][:i], s.owed[c][i+1:]...)
							break
						}
					}
					s.mu.Unlock()
					wmu.Lock()
					c.Write(refdns.Frame(env.Answer(q, 1, 60).Encode(false)))
					wmu.Unlock()
				}()
			}
		}()
	}
}

func TestVerifC06Kinds(t *testing.T) {
	rep := report.New("C06 one outstanding query per connection, as built by NewUpstream")
	defer rep.Write()
	rep.Rule = "real NewUpstream for tcp:// and tls:// (and, as a control of the observation, tcp+pipeline:// and tls+pipeline://) against local servers that hold every reply; 3 concurrent callers, replies released once all 3 queries have arrived (or 3 s passed), then 3 more sequential exchanges; " +
		"oracle (content only): on tcp:// and tls:// no connection ever owes more than one reply; every caller gets the reply to its own question with its own id"
	if sh, _ := report.Shard(); sh != 0 {
		rep.Eval("idle-shard")
		rep.Eval("idle-shard2")
		return
	}
	cert, err := testutils.GenerateCertificate("localhost")
	if err != nil {
		t.Fatal(err)
	}
	for _, kind := range []string{"tcp", "tls", "tcp+pipeline", "tls+pipeline"} {
		var l net.Listener
		if kind[:3] == "tls" {
			l, err = tls.Listen("tcp", "127.0.0.1:0", &tls.Config{Certificates: []tls.Certificate{cert}})
		} else {
			l, err = net.Listen("tcp", "127.0.0.1:0")
		}
		if err != nil {
			t.Fatal(err)
		}
		s := &c06kServer{owed: map[net.Conn][]*refdns.Msg{}, releaseOnce: make(chan struct{})}
		go s.serve(l)
		u, err := NewUpstream(kind+"://"+l.Addr().String(), Opt{TLSConfig: &tls.Config{InsecureSkipVerify: true}})
		if err != nil {
			rep.Violate("C06:kinds:new-upstream:"+kind, err.Error(), nil)
			l.Close()
			continue
		}
		rep.Eval(kind + ": 3 concurrent callers against a server holding its replies")
		type res struct {
			id   uint16
			name string
			err  error
			ok   bool
		}
		ask := func(i int) res {
			id := uint16(0x0600 + i)
			name := refdns.N(fmt.Sprintf("k%d", i), "example", "test")
			ctx, cancel := context.WithTimeout(context.Background(), 8*time.Second)
			defer cancel()
			m, err := u.ExchangeContext(ctx, refdns.Query(id, name, 1, 1).Encode(false))
			if m == nil {
				return res{id: id, err: err}
			}
			b := make([]byte, m.Len())
			n, _ := m.Pack(b, false, 0)
			d, derr := refdns.Decode(b[:n])
			return res{id: id, name: name.String(), err: derr, ok: derr == nil && d.ID == id && len(d.Q) == 1 && d.Q[0].Name.String() == name.String()}
		}
		out := make([]res, 6)
		var wg sync.WaitGroup
		for i := 0; i < 3; i++ {
			wg.Add(1)
			go func(i int) { defer wg.Done(); out[i] = ask(i) }(i)
		}
		for w := 0; w < 300; w++ {
			s.mu.Lock()
			n := s.totalQ
			s.mu.Unlock()
			if n >= 3 {
				break
			}
			time.Sleep(10 * time.Millisecond)
		}
		time.Sleep(100 * time.Millisecond)
		close(s.releaseOnce)
		wg.Wait()
		for i := 3; i < 6; i++ {
			out[i] = ask(i)
		}
		s.mu.Lock()
		maxOwed, conns := s.maxOwed, s.conns
		s.mu.Unlock()
		pipelined := len(kind) > 4
		if !pipelined && maxOwed > 1 {
			rep.Violate("C06:kinds:several-outstanding-queries-on-one-connection:"+kind, fmt.Sprintf("%s:// upstream (no pipelining): a connection carried %d queries at once (3 concurrent callers, %d connections opened)", kind, maxOwed, conns), nil)
		}
		if pipelined && maxOwed < 2 {
			rep.Note(fmt.Sprintf("%s: the pipelined control put at most %d query on a connection at a time", kind, maxOwed))
		}
		for i, r := range out {
			if !r.ok {
				rep.Violate("C06:kinds:exchange-failed:"+kind, fmt.Sprintf("%s: exchange %d against a healthy (slow) server: ok=%v err=%v", kind, i, r.ok, r.err), nil)
				break
			}
		}
		u.Close()
		l.Close()
	}
	rep.Sample(map[string]any{"upstream": "tls://127.0.0.1:P", "callers": 3, "expect": "3 connections, one query each"})
}
