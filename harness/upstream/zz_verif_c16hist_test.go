package upstream

// C16 (real sockets, long histories): the property quantifies over all queries,
// not only over the first few an upstream object sees. Two histories on the udp
// upstream exactly as NewUpstream builds it:
//
//  straggler: one query whose (truncated) UDP reply is held back by the server
//  while N later queries on the same upstream are answered normally, N running
//  past the number of queries one socket may carry at a time and past the 16-bit
//  id space; then the held reply is released - the straggler's caller must get
//  the TCP outcome for its own query.
//
//  dial-failures: K truncated replies while the server's TCP side refuses
//  connections (every caller must get an error, never the truncated message),
//  then the TCP side comes back - the next truncated reply must again lead to
//  the TCP outcome.

import (
	"context"
	"errors"
	"fmt"
	"io"
	"net"
	"sync"
	"testing"
	"time"

	"github.com/IrineSistiana/mosproxy/internal/zzverif/env"
	"github.com/IrineSistiana/mosproxy/internal/zzverif/refdns"
	"github.com/IrineSistiana/mosproxy/internal/zzverif/report"
)

type c16hServer struct {
	mu         sync.Mutex
	ul         net.PacketConn
	tl         net.Listener
	addr       string
	tcAll      bool
	held       []byte
	heldAddr   net.Addr
	heldSeen   chan struct{}
	tcpQueries [][]byte
	conns      []net.Conn
}

func (s *c16hServer) closeTCPConns() {
	s.mu.Lock()
	for _, c := range s.conns {
		c.Close()
	}
	s.conns = nil
	s.mu.Unlock()
}

func (s *c16hServer) serveTCP(l net.Listener) {
	for {
		c, err := l.Accept()
		if err != nil {
			return
		}
		s.mu.Lock()
		s.conns = append(s.conns, c)
		s.mu.Unlock()
		go func() {
			defer c.Close()
			for {
				hdr := make([]byte, 2)
				if _, err := io.ReadFull(c, hdr); err != nil {
					return
				}
				b := make([]byte, int(hdr[0])<<8|int(hdr[1]))
				if _, err := io.ReadFull(c, b); err != nil {
					return
				}
				s.mu.Lock()
				s.tcpQueries = append(s.tcpQueries, append([]byte(nil), b...))
				s.mu.Unlock()
				if q, err := refdns.Decode(b); err == nil {
					c.Write(refdns.Frame(env.Answer(q, 2, 60).Encode(false)))
				}
			}
		}()
	}
}

func (s *c16hServer) serveUDP() {
	b := make([]byte, 65535)
	for {
		n, a, err := s.ul.ReadFrom(b)
		if err != nil {
			return
		}
		q, err := refdns.Decode(b[:n])
		if err != nil || len(q.Q) != 1 {
			continue
		}
		m := env.Answer(q, 1, 60)
		s.mu.Lock()
		tc := s.tcAll
		s.mu.Unlock()
		if len(q.Q[0].Name) > 0 && string(q.Q[0].Name[0]) == "straggler" {
			m.Bits |= refdns.BitTC
			s.mu.Lock()
			s.held, s.heldAddr = m.Encode(false), a
			s.mu.Unlock()
			close(s.heldSeen)
			continue
		}
		if tc {
			m.Bits |= refdns.BitTC
		}
		s.ul.WriteTo(m.Encode(false), a)
	}
}

func c16hResult(u Upstream, wire []byte, d time.Duration) (serial byte, name string, err error) {
	ctx, cancel := context.WithTimeout(context.Background(), d)
	defer cancel()
	m, xerr := u.ExchangeContext(ctx, wire)
	if m == nil {
		if xerr == nil {
			xerr = fmt.Errorf("(nil, nil)")
		}
		return 0, "", xerr
	}
	b := make([]byte, m.Len())
	n, _ := m.Pack(b, false, 0)
	dm, derr := refdns.Decode(b[:n])
	if derr != nil {
		return 0, "", fmt.Errorf("undecodable result: %v", derr)
	}
	_, serial, _ = env.AnswerKey(dm)
	if dm.Bits&refdns.BitTC != 0 {
		serial |= 0x80
	}
	if len(dm.Q) == 1 {
		name = fmt.Sprint(dm.Q[0].Name)
	}
	return serial, name, nil
}

func TestVerifC16History(t *testing.T) {
	rep := report.New("C16 udp upstream over long histories")
	defer rep.Write()
	nLater := report.ParamInt("LATER", 9000)
	nFail := report.ParamInt("DIALFAILS", 300)
	rep.Rule = fmt.Sprintf("real NewUpstream(\"udp://127.0.0.1:P\") against a local server on one UDP+TCP port. straggler: the truncated UDP reply to one query is held back while %d later queries are answered on UDP "+
		"(checked one by one: UDP reply returned, no TCP query), then released: its caller must get the TCP reply to its own query. dial-failures: %d truncated replies while the TCP port refuses connections "+
		"(each caller gets an error, never the truncated message), then the TCP side is back: the next truncated reply leads to the TCP outcome. Content-only oracles; generous real-time deadlines only bound a hang", nLater, nFail)
	if sh, _ := report.Shard(); sh != 0 {
		rep.Eval("idle-shard")
		rep.Eval("idle-shard2")
		return
	}
	ul, err := net.ListenPacket("udp", "127.0.0.1:0")
	if err != nil {
		t.Fatal(err)
	}
	defer ul.Close()
	tl, err := net.Listen("tcp", ul.LocalAddr().String())
	if err != nil {
		t.Fatal(err)
	}
	s := &c16hServer{ul: ul, tl: tl, addr: ul.LocalAddr().String(), heldSeen: make(chan struct{})}
	go s.serveUDP()
	go s.serveTCP(tl)
	u, err := NewUpstream("udp://"+s.addr, Opt{})
	if err != nil {
		t.Fatal(err)
	}
	defer u.Close()

	// --- straggler ---
	sq := refdns.Query(0x1616, refdns.N("straggler", "example", "test"), 1, 1).Encode(false)
	type sres struct {
		serial byte
		name   string
		err    error
	}
	sdone := make(chan sres, 1)
	go func() {
		ser, name, err := c16hResult(u, sq, 120*time.Second)
		sdone <- sres{ser, name, err}
	}()
	select {
	case <-s.heldSeen:
	case <-time.After(20 * time.Second):
		rep.Violate("C16:history:straggler-never-sent", "the upstream never sent the query on UDP", nil)
		return
	}
	bad := 0
	for i := 0; i < nLater && bad < 3; i++ {
		name := refdns.N(fmt.Sprintf("later%d", i), "example", "test")
		q := refdns.Query(uint16(i), name, 1, 1).Encode(false)
		ser, got, err := c16hResult(u, q, 10*time.Second)
		if i%1000 == 0 {
			rep.Eval(fmt.Sprintf("later query %d behind a pending straggler", i))
		}
		s.mu.Lock()
		ntcp := len(s.tcpQueries)
		s.mu.Unlock()
		if err != nil || ser != 1 || got != fmt.Sprint(name) || ntcp != 0 {
			bad++
			rep.Violate("C16:history:later-query", fmt.Sprintf("query %d after the straggler (UDP reply without TC): result serial=%d name=%s err=%v, TCP queries so far %d; expected the UDP reply for its own name and no TCP attempt", i, ser, got, err, ntcp), nil)
		}
	}
	rep.AddTransitions(int64(nLater))
	s.mu.Lock()
	held, ha := s.held, s.heldAddr
	s.mu.Unlock()
	ul.WriteTo(held, ha)
	rep.Eval("held truncated reply released")
	select {
	case r := <-sdone:
		s.mu.Lock()
		ntcp := len(s.tcpQueries)
		var tq []byte
		if ntcp > 0 {
			tq = s.tcpQueries[0]
		}
		s.mu.Unlock()
		if r.err != nil || r.serial != 2 || ntcp != 1 || string(tq) != string(sq) {
			rep.Violate("C16:history:straggler-outcome", fmt.Sprintf("the straggler's truncated UDP reply arrived after %d later queries: its caller got serial=%d name=%s err=%v, the server saw %d TCP queries (first identical to the straggler's query: %v); "+
				"expected the TCP reply (serial 2) to exactly that query", nLater, r.serial, r.name, r.err, ntcp, string(tq) == string(sq)), nil)
		}
	case <-time.After(60 * time.Second):
		rep.Violate("C16:history:straggler-outcome", fmt.Sprintf("the straggler's truncated UDP reply arrived after %d later queries and its caller was still waiting 60 s later", nLater), nil)
	}

	// --- dial failures, then recovery ---
	tl.Close()
	s.closeTCPConns()
	time.Sleep(50 * time.Millisecond)
	s.mu.Lock()
	s.tcAll = true
	s.tcpQueries = nil
	s.mu.Unlock()
	bad = 0
	for i := 0; i < nFail && bad < 3; i++ {
		q := refdns.Query(uint16(i), refdns.N(fmt.Sprintf("fail%d", i), "example", "test"), 1, 1).Encode(false)
		ser, _, err := c16hResult(u, q, 10*time.Second)
		if i%100 == 0 {
			rep.Eval(fmt.Sprintf("truncated reply %d while TCP refuses connections", i))
		}
		if errors.Is(err, context.DeadlineExceeded) {
			// refused dials fail at once; a caller that waits out its own 10 s is not a violation by itself, but there is no
			// point in repeating it a few hundred times: go on to the recovery step, which decides.
			rep.Count("dial_failure_loop_cut_short_at", int64(i))
			break
		}
		if err == nil {
			bad++
			rep.Violate("C16:history:result-without-tcp", fmt.Sprintf("truncated UDP reply %d while the TCP port refuses connections: the caller got a message (serial=%d, 0x80 = TC set) instead of the TCP leg's error", i, ser), nil)
		}
	}
	rep.AddTransitions(int64(nFail))
	var tl2 net.Listener
	for i := 0; i < 50; i++ {
		if tl2, err = net.Listen("tcp", s.addr); err == nil {
			break
		}
		time.Sleep(100 * time.Millisecond)
	}
	if tl2 == nil {
		rep.Cap("could not listen on the TCP port again: " + err.Error())
		return
	}
	defer tl2.Close()
	go s.serveTCP(tl2)
	rq := refdns.Query(0x1617, refdns.N("recovered", "example", "test"), 1, 1).Encode(false)
	rep.Eval("truncated reply after the TCP side is back")
	ser, _, xerr := c16hResult(u, rq, 20*time.Second)
	s.mu.Lock()
	ntcp := len(s.tcpQueries)
	s.mu.Unlock()
	if xerr != nil || ser != 2 || ntcp != 1 {
		rep.Violate("C16:history:no-tcp-after-dial-failures", fmt.Sprintf("after %d TCP dials had failed the TCP side came back; the next truncated UDP reply gave serial=%d err=%v with %d TCP queries seen by the server; expected the TCP reply", nFail, ser, xerr, ntcp), nil)
	}
	rep.Sample(map[string]any{"history": fmt.Sprintf("straggler, %d later queries, release; %d failed dials, recovery", nLater, nFail), "expect": "TCP outcome for the straggler and after recovery"})
}
