package upstream

// C18 (sockets): after Close an upstream leaves none of its sockets open.
// Every upstream kind built by the real NewUpstream performs one exchange
// against a local server on loopback; the set of socket inodes of the process
// must return to its baseline after Close. Real sockets, generous settle time.

import (
	"context"
	"crypto/tls"
	"crypto/x509"
	"fmt"
	"io"
	"log"
	"net"
	"net/http"
	"os"
	"runtime/debug"
	"sort"
	"strings"
	"sync/atomic"
	"syscall"
	"testing"
	"time"

	"github.com/IrineSistiana/mosproxy/internal/testutils"
	"github.com/IrineSistiana/mosproxy/internal/zzverif/env"
	"github.com/IrineSistiana/mosproxy/internal/zzverif/refdns"
	"github.com/IrineSistiana/mosproxy/internal/zzverif/report"
	"github.com/quic-go/quic-go"
	"github.com/quic-go/quic-go/http3"
)

func c18Sockets() map[string]bool {
	out := map[string]bool{}
	ents, _ := os.ReadDir("/proc/self/fd")
	for _, e := range ents {
		if l, err := os.Readlink("/proc/self/fd/" + e.Name()); err == nil && strings.HasPrefix(l, "socket:") {
			out[l] = true
		}
	}
	return out
}

func c18Describe(inode string) string {
	id := strings.TrimSuffix(strings.TrimPrefix(inode, "socket:["), "]")
	for _, f := range []string{"tcp", "tcp6", "udp", "udp6"} {
		b, _ := os.ReadFile("/proc/self/net/" + f)
		for _, l := range strings.Split(string(b), "\n") {
			fs := strings.Fields(l)
			if len(fs) > 9 && fs[9] == id {
				return fmt.Sprintf("%s local=%s remote=%s state=%s", f, fs[1], fs[2], fs[3])
			}
		}
	}
	return inode
}

func c18Reply(wire []byte) []byte {
	m, err := refdns.Decode(wire)
	if err != nil {
		return nil
	}
	return env.Answer(m, 1, 60).Encode(false)
}

func TestVerifC18Sockets(t *testing.T) {
	rep := report.New("C18 sockets after Close")
	defer rep.Write()
	kinds := []string{"udp", "udp-truncated(tcp fallback)", "tcp", "tcp+pipeline", "tls", "tls+pipeline", "https", "h3", "quic"}
	rep.Rule = fmt.Sprintf("real NewUpstream for every kind %v against local servers on loopback: baseline socket set, one exchange - successful against a healthy server (so that connections exist and idle in the pool), failing during the TLS handshake against a server whose certificate is not trusted or that does not speak TLS, given up by the caller after 1 s against a server that takes the query and never answers, or still dialling (connect held in the socket control hook until Close has returned; TLS hello never answered; dial timeout raised to 60 s) - then Close (twice), then up to 8 s of settling; "+
		"oracle: the process's socket inode set equals the baseline (no upstream socket, pooled keep-alive connection, half-dialled connection or quic UDP socket survives Close; the garbage collector is off during the audit so that finalizers cannot hide a connection nobody closed); Close returns and is idempotent; distinct = distinct upstream kinds", kinds)
	if sh, _ := report.Shard(); sh != 0 {
		rep.Eval("idle-shard")
		rep.Eval("idle-shard2")
		return
	}
	cert, err := testutils.GenerateCertificate("localhost")
	if err != nil {
		t.Fatal(err)
	}
	truncateUDP := false
	var silent atomic.Bool // the servers read queries and never answer
	// DNS over UDP + TCP on the same port
	tl, err := net.Listen("tcp", "127.0.0.1:0")
	if err != nil {
		t.Fatal(err)
	}
	defer tl.Close()
	port := tl.Addr().(*net.TCPAddr).Port
	ul, err := net.ListenPacket("udp", fmt.Sprintf("127.0.0.1:%d", port))
	if err != nil {
		t.Fatal(err)
	}
	defer ul.Close()
	go func() {
		b := make([]byte, 4096)
		for {
			n, a, err := ul.ReadFrom(b)
			if err != nil {
				return
			}
			if silent.Load() {
				continue
			}
			r := c18Reply(b[:n])
			if truncateUDP && len(r) > 3 {
				r[2] |= 0x02
			}
			ul.WriteTo(r, a)
		}
	}()
	serveStream := func(l net.Listener) {
		for {
			c, err := l.Accept()
			if err != nil {
				return
			}
			go func() {
				defer c.Close()
				for {
					hdr := make([]byte, 2)
					if _, err := io.ReadFull(c, hdr); err != nil {
						return
					}
					b := make([]byte, int(hdr[0])<<8|int(hdr[1]))
					if _, err := io.ReadFull(c, b); err != nil {
						return
					}
					if silent.Load() {
						continue
					}
					c.Write(refdns.Frame(c18Reply(b)))
				}
			}()
		}
	}
	go serveStream(tl)
	tlsL, err := tls.Listen("tcp", "127.0.0.1:0", &tls.Config{Certificates: []tls.Certificate{cert}})
	if err != nil {
		t.Fatal(err)
	}
	defer tlsL.Close()
	go serveStream(tlsL)
	dohHandler := http.HandlerFunc(func(w http.ResponseWriter, r *http.Request) {
		q := r.URL.Query().Get("dns")
		b, _ := b64dec(q)
		if silent.Load() {
			select {
			case <-r.Context().Done():
			case <-time.After(60 * time.Second):
			}
			return
		}
		w.Header().Set("Content-Type", "application/dns-message")
		w.Write(c18Reply(b))
	})
	httpsL, err := tls.Listen("tcp", "127.0.0.1:0", &tls.Config{Certificates: []tls.Certificate{cert}, NextProtos: []string{"h2", "http/1.1"}})
	if err != nil {
		t.Fatal(err)
	}
	hs := &http.Server{Handler: dohHandler, ErrorLog: log.New(io.Discard, "", 0)}
	go hs.Serve(httpsL)
	defer hs.Close()
	h3c, err := net.ListenPacket("udp", "127.0.0.1:0")
	h3ok := err == nil
	var h3s *http3.Server
	if h3ok {
		h3s = &http3.Server{Handler: dohHandler, TLSConfig: http3.ConfigureTLSConfig(&tls.Config{Certificates: []tls.Certificate{cert}})}
		go h3s.Serve(h3c)
		defer h3s.Close()
	}
	doqL, err := quic.ListenAddr("127.0.0.1:0", &tls.Config{Certificates: []tls.Certificate{cert}, NextProtos: []string{"doq"}}, &quic.Config{})
	doqOK := err == nil
	if doqOK {
		defer doqL.Close()
		go func() {
			for {
				c, err := doqL.Accept(context.Background())
				if err != nil {
					return
				}
				go func() {
					for {
						st, err := c.AcceptStream(context.Background())
						if err != nil {
							return
						}
						go func() {
							b, _ := io.ReadAll(st)
							fs, _ := env.SplitFrames(b)
							if silent.Load() {
								select {
								case <-c.Context().Done():
								case <-time.After(60 * time.Second):
								}
								return
							}
							if len(fs) == 1 {
								st.Write(refdns.Frame(c18Reply(fs[0])))
							}
							st.Close()
						}()
					}
				}()
			}
		}()
	}
	time.Sleep(200 * time.Millisecond)
	insecure := &tls.Config{InsecureSkipVerify: true}
	query := refdns.Query(0x1818, refdns.N("close", "example", "test"), 1, 1).Encode(false)
	type variant struct{ kind, peer string }
	var variants []variant
	for _, k := range kinds {
		variants = append(variants, variant{k, "healthy"})
	}
	// a peer that cannot be authenticated / does not speak TLS: the dial fails during the handshake, after the socket was opened
	for _, k := range []string{"tls", "tls+pipeline", "https", "quic", "h3"} {
		variants = append(variants, variant{k, "untrusted-certificate"})
	}
	for _, k := range []string{"tls", "tls+pipeline", "https"} {
		variants = append(variants, variant{k, "not-a-tls-server"})
	}
	// a peer that takes the query and never answers: the caller gives up after 1 s, the exchange is still "in flight" inside
	// the transport (waiting for the reply, or - DoH - running on its own 6 s budget) when Close is called
	for _, k := range kinds {
		if k != "udp-truncated(tcp fallback)" {
			variants = append(variants, variant{k, "silent"})
		}
	}
	// Close while the dial is still in progress. "dial-held": the connect is held in the socket control hook until Close has
	// returned, then completes against a healthy server. "handshake-stalled": the server accepts the TCP connection and never
	// answers the TLS hello. The dial timeout is raised to 60 s: only Close can end these dials within the audit.
	for _, k := range []string{"tcp", "tcp+pipeline", "tls", "tls+pipeline", "https"} {
		variants = append(variants, variant{k, "dial-held"})
	}
	for _, k := range []string{"tls", "tls+pipeline", "https"} {
		variants = append(variants, variant{k, "handshake-stalled"})
	}
	// "dial-held-silent": like dial-held, against a server that takes the query and never answers - a connection that is wrongly kept
	// after the close then stays busy (not idle) for seconds. The audit of these variants allows 3 s instead of 8 s: a connection whose
	// dial completes after the close is closed at once.
	for _, k := range []string{"tcp", "tcp+pipeline", "https"} {
		variants = append(variants, variant{k, "dial-held-silent"})
	}
	for _, vr := range variants {
		kind := vr.kind
		silent.Store(vr.peer == "silent" || vr.peer == "dial-held-silent")
		heldSilent := vr.peer == "dial-held-silent"
		if heldSilent {
			vr.peer = "dial-held"
		}
		var addr string
		truncateUDP = false
		switch kind {
		case "udp":
			addr = fmt.Sprintf("udp://127.0.0.1:%d", port)
		case "udp-truncated(tcp fallback)":
			addr = fmt.Sprintf("udp://127.0.0.1:%d", port)
			truncateUDP = true
		case "tcp", "tcp+pipeline":
			addr = fmt.Sprintf("%s://127.0.0.1:%d", kind, port)
		case "tls", "tls+pipeline":
			addr = fmt.Sprintf("%s://%s", kind, tlsL.Addr())
		case "https":
			addr = fmt.Sprintf("https://%s/dns-query", httpsL.Addr())
		case "h3":
			if !h3ok {
				continue
			}
			addr = fmt.Sprintf("h3://%s/dns-query", h3c.LocalAddr())
		case "quic":
			if !doqOK {
				continue
			}
			addr = "quic://" + doqL.Addr().String()
		}
		tlsCfg := insecure
		switch vr.peer {
		case "untrusted-certificate":
			tlsCfg = &tls.Config{RootCAs: x509.NewCertPool(), ServerName: "localhost"} // trusts nobody
		case "not-a-tls-server", "handshake-stalled":
			switch kind {
			case "https":
				addr = fmt.Sprintf("https://127.0.0.1:%d/dns-query", port)
			default:
				addr = fmt.Sprintf("%s://127.0.0.1:%d", kind, port)
			}
		}
		label := kind
		if vr.peer != "healthy" {
			label = kind + ":" + vr.peer
		}
		rep.Eval(label)
		// an unreferenced net.Conn is closed by its finalizer at the next garbage collection: keep the collector out of the
		// audit window, a connection nobody closes must be seen as what it is
		gcOld := debug.SetGCPercent(-1)
		func() {
			defer debug.SetGCPercent(gcOld)
			kind := label
			// let previous iterations' server-side sockets go away, then take the baseline
			var base map[string]bool
			for i := 0; i < 20; i++ {
				base = c18Sockets()
				time.Sleep(100 * time.Millisecond)
				if len(c18Sockets()) == len(base) {
					break
				}
			}
			opt := Opt{TLSConfig: tlsCfg}
			entered, release := make(chan struct{}, 16), make(chan struct{})
			duringDial := vr.peer == "dial-held" || vr.peer == "handshake-stalled"
			if duringDial {
				opt.DialTimeout = 60 * time.Second
			}
			if vr.peer == "dial-held" {
				opt.Control = func(network, address string, c syscall.RawConn) error {
					entered <- struct{}{}
					<-release
					return nil
				}
			}
			u, err := NewUpstream(addr, opt)
			if err != nil {
				rep.Violate("C18:sockets:new-upstream:"+kind, err.Error(), nil)
				return
			}
			if duringDial {
				xdone := make(chan struct{})
				go func() {
					defer close(xdone)
					ctx, cancel := context.WithTimeout(context.Background(), 30*time.Second)
					defer cancel()
					if m, _ := u.ExchangeContext(ctx, query); m != nil && vr.peer == "handshake-stalled" {
						rep.Violate("C18:sockets:exchange-succeeded-with-bad-peer:"+kind, "the exchange succeeded although the TLS handshake never completed", nil)
					}
				}()
				if vr.peer == "dial-held" {
					select {
					case <-entered:
					case <-time.After(10 * time.Second):
						rep.Note(kind + ": the dial never reached the socket control hook")
					}
				} else {
					time.Sleep(500 * time.Millisecond) // the TLS hello is out, the server says nothing
				}
				cdone := make(chan struct{})
				go func() { defer close(cdone); u.Close(); u.Close() }()
				select {
				case <-cdone:
				case <-time.After(20 * time.Second):
					rep.Violate("C18:sockets:close-blocks:"+kind, "Close did not return within 20 s while a dial was in progress", nil)
				}
				close(release) // the held connect now completes - after Close
				if heldSilent {
					// the connection must be closed as soon as it exists, not when the request that asked for it gives up seconds later
					var extra []string
					for i := 0; i < 30; i++ {
						time.Sleep(100 * time.Millisecond)
						extra = extra[:0]
						for s := range c18Sockets() {
							if !base[s] {
								extra = append(extra, c18Describe(s))
							}
						}
						if len(extra) == 0 && i >= 5 {
							break
						}
					}
					if len(extra) > 0 {
						sort.Strings(extra)
						rep.Violate("C18:sockets:left-open:"+kind+":dial-completes-after-close", fmt.Sprintf("3 s after a connect that was in progress during Close completed (the server takes the query and never answers) %d socket(s) of the %s upstream are open: %v", len(extra), kind, extra), nil)
					}
				}
				select {
				case <-xdone:
				case <-time.After(15 * time.Second):
					rep.Violate("C18:sockets:exchange-hangs-after-close:"+kind, "15 s after Close returned the exchange whose dial was in progress is still running (its own deadline is 30 s): Close does not fail it", nil)
				}
			}
			xd := 5 * time.Second
			if vr.peer == "silent" {
				xd = time.Second
			}
			ctx, cancel := context.WithTimeout(context.Background(), xd)
			var m any
			var xerr error
			if !duringDial {
				if mm, e := u.ExchangeContext(ctx, query); mm != nil {
					m, xerr = mm, e
				} else {
					xerr = e
				}
			}
			cancel()
			if m != nil && vr.peer == "silent" {
				rep.Violate("C18:sockets:reply-from-silent-peer:"+kind, "the exchange returned a message although the server never answered", nil)
			}
			if duringDial {
				m = nil
			}
			if m == nil && vr.peer == "healthy" {
				rep.Note(fmt.Sprintf("%s: exchange against the local server failed (%v); socket audit still performed", kind, xerr))
			}
			if m != nil && vr.peer != "healthy" && vr.peer != "silent" && !duringDial {
				rep.Violate("C18:sockets:exchange-succeeded-with-bad-peer:"+kind, "the exchange succeeded although the peer cannot be authenticated", nil)
			}
			done := make(chan any, 1)
			go func() {
				defer func() { done <- recover() }()
				u.Close()
				u.Close()
			}()
			select {
			case p := <-done:
				if p != nil {
					rep.Violate("C18:sockets:close-panic:"+kind, fmt.Sprint(p), nil)
				}
			case <-time.After(20 * time.Second):
				rep.Violate("C18:sockets:close-blocks:"+kind, "Close did not return within 20 s", nil)
				return
			}
			var extra []string
			settle := 80
			if heldSilent {
				settle = 30
			}
			for i := 0; i < settle; i++ {
				extra = extra[:0]
				for s := range c18Sockets() {
					if !base[s] {
						extra = append(extra, c18Describe(s))
					}
				}
				if len(extra) == 0 {
					break
				}
				time.Sleep(100 * time.Millisecond)
			}
			if len(extra) > 0 {
				sort.Strings(extra)
				what := "8 s after Close"
				if heldSilent {
					what = "3 s after a connect that was in progress during Close completed (the server takes the query and never answers)"
					kind += ":dial-completes-after-close"
				}
				rep.Violate("C18:sockets:left-open:"+kind, fmt.Sprintf("%d socket(s) of the %s upstream are still open %s: %v", len(extra), kind, what, extra), nil)
			}
		}()
	}
	rep.Sample(map[string]any{"kind": "https", "expect": "after Close no keep-alive connection to the DoH server remains"})
}
