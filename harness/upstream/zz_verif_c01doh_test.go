package upstream

// C01 (DoH upstream replies, real net/http on loopback): whatever an HTTPS
// upstream puts into its reply - body bytes and HTTP framing - the exchange
// ends with a reply or an error, the process survives and a following ordinary
// exchange is answered. Full matrix body x framing x status x protocol.

import (
	"bytes"
	"compress/gzip"
	"context"
	"crypto/tls"
	"encoding/base64"
	"fmt"
	"io"
	"log"
	"net/http"
	"strings"
	"sync"
	"testing"
	"time"

	"github.com/IrineSistiana/mosproxy/internal/testutils"
	"github.com/IrineSistiana/mosproxy/internal/zzverif/env"
	"github.com/IrineSistiana/mosproxy/internal/zzverif/refdns"
	"github.com/IrineSistiana/mosproxy/internal/zzverif/report"
)

func TestVerifC01DoH(t *testing.T) {
	rep := report.New("C01 DoH upstream replies")
	defer rep.Write()
	bodies := []string{"valid", "empty", "garbage", "cut", "header-only", "70000-zeros", "valid+trailing", "pointer-loop", "valid-9000-octets", "valid-20000-octets"}
	framings := []string{"content-length", "no-length(chunked / h2 data frames)", "gzip", "content-length-too-big", "declared-70000", "declared-2^62(http/1.1)", "declared-2^31(http/1.1)"}
	statuses := []int{200, 500, 204}
	protos := []string{"h2", "http/1.1"}
	rep.Rule = fmt.Sprintf("real NewUpstream(\"https://...\") against a local net/http TLS server; full matrix protocol %v x status %v x body %v x framing %v; after every case an ordinary exchange (valid body, Content-Length); "+
		"oracle: the exchange returns, a returned message is the server's well-formed reply, the process does not crash, the ordinary exchange afterwards succeeds", protos, statuses, bodies, framings)
	if sh, _ := report.Shard(); sh != 0 {
		rep.Eval("idle-shard")
		rep.Eval("idle-shard2")
		return
	}
	cert, err := testutils.GenerateCertificate("localhost")
	if err != nil {
		t.Fatal(err)
	}
	var mu sync.Mutex
	body, framing, status := "valid", "content-length", 200
	handler := http.HandlerFunc(func(w http.ResponseWriter, r *http.Request) {
		mu.Lock()
		bd, fr, st := body, framing, status
		mu.Unlock()
		q, _ := base64.RawURLEncoding.DecodeString(r.URL.Query().Get("dns"))
		var b []byte
		good := []byte(nil)
		if m, err := refdns.Decode(q); err == nil {
			good = env.Answer(m, 7, 60).Encode(false)
		}
		switch bd {
		case "valid":
			b = good
		case "empty":
		case "garbage":
			b = []byte{1, 2, 3}
		case "cut":
			if len(good) > 5 {
				b = good[:len(good)-5]
			}
		case "header-only":
			if len(good) > 12 {
				b = good[:12]
			}
		case "70000-zeros":
			b = make([]byte, 70000)
		case "valid+trailing":
			b = append(append([]byte(nil), good...), 9, 9, 9)
		case "pointer-loop":
			b = []byte{0, 1, 0x81, 0x80, 0, 1, 0, 0, 0, 0, 0, 0, 0xC0, 0x0C, 0, 1, 0, 1}
		case "valid-9000-octets", "valid-20000-octets":
			// a large but honest reply (buffers grow while it is read; what is left of them must not reach the next exchange)
			if m, err := refdns.Decode(q); err == nil {
				r := env.Answer(m, 7, 60)
				n := 40
				if bd == "valid-20000-octets" {
					n = 90
				}
				for i := 0; i < n; i++ {
					r.Ar = append(r.Ar, refdns.TXT(m.Q[0].Name, 60, 220, byte('a'+i%26)))
				}
				b = r.Encode(false)
			}
		}
		w.Header().Set("Content-Type", "application/dns-message")
		switch fr {
		case "content-length":
			w.Header().Set("Content-Length", fmt.Sprint(len(b)))
			w.WriteHeader(st)
			w.Write(b)
		case "no-length(chunked / h2 data frames)":
			w.WriteHeader(st)
			if f, ok := w.(http.Flusher); ok {
				f.Flush()
			}
			if len(b) > 0 {
				w.Write(b[:len(b)/2])
				if f, ok := w.(http.Flusher); ok {
					f.Flush()
				}
				w.Write(b[len(b)/2:])
			}
		case "gzip":
			var zb bytes.Buffer
			zw := gzip.NewWriter(&zb)
			zw.Write(b)
			zw.Close()
			w.Header().Set("Content-Encoding", "gzip")
			w.Header().Set("Content-Length", fmt.Sprint(zb.Len()))
			w.WriteHeader(st)
			w.Write(zb.Bytes())
		case "content-length-too-big":
			w.Header().Set("Content-Length", fmt.Sprint(len(b)+10)) // the server then cuts the connection short
			w.WriteHeader(st)
			w.Write(b)
		case "declared-2^62(http/1.1)", "declared-2^31(http/1.1)":
			// a length no honest server declares: written on the raw connection (net/http would not send it), then the body, then the
			// connection is closed
			hj, ok := w.(http.Hijacker)
			if !ok {
				w.WriteHeader(500)
				return
			}
			conn, bw, err := hj.Hijack()
			if err != nil {
				return
			}
			cl := "4611686018427387904"
			if fr == "declared-2^31(http/1.1)" {
				cl = "2147483648"
			}
			fmt.Fprintf(bw, "HTTP/1.1 %d X\r\nContent-Type: application/dns-message\r\nContent-Length: %s\r\n\r\n", st, cl)
			bw.Write(b)
			bw.Flush()
			conn.Close()
		case "declared-70000":
			w.Header().Set("Content-Length", "70000")
			w.WriteHeader(st)
			w.Write(append(append([]byte(nil), b...), make([]byte, 70000)...)[:70000])
		}
	})
	query := refdns.Query(0x0d0d, refdns.N("doh", "example", "test"), 1, 1).Encode(false)
	insecure := &tls.Config{InsecureSkipVerify: true}
	for _, proto := range protos {
		l, err := tls.Listen("tcp", "127.0.0.1:0", &tls.Config{Certificates: []tls.Certificate{cert}, NextProtos: []string{proto}})
		if err != nil {
			t.Fatal(err)
		}
		hs := &http.Server{Handler: handler, ErrorLog: log.New(io.Discard, "", 0)}
		go hs.Serve(l)
		u, err := NewUpstream(fmt.Sprintf("https://%s/dns-query", l.Addr()), Opt{TLSConfig: insecure})
		if err != nil {
			t.Fatal(err)
		}
		gotMsg := false
		exchange := func() (serial byte, ok bool, err error) {
			ctx, cancel := context.WithTimeout(context.Background(), 10*time.Second)
			defer cancel()
			m, err := u.ExchangeContext(ctx, query)
			gotMsg = m != nil
			if m == nil {
				return 0, false, err
			}
			b := make([]byte, m.Len())
			n, _ := m.Pack(b, false, 0)
			d, derr := refdns.Decode(b[:n])
			if derr != nil {
				return 0, false, fmt.Errorf("returned message does not re-decode: %v", derr)
			}
			_, s, k := env.AnswerKey(d)
			return s, k, err
		}
		for _, st := range statuses {
			for _, bd := range bodies {
				for _, fr := range framings {
					if st == 204 && (bd != "empty" || fr != "content-length") {
						continue // a 204 has no body
					}
					if strings.HasSuffix(fr, "(http/1.1)") && proto != "http/1.1" {
						continue // needs the raw connection
					}
					mu.Lock()
					body, framing, status = bd, fr, st
					mu.Unlock()
					desc := fmt.Sprintf("proto=%s status=%d body=%s framing=%s", proto, st, bd, fr)
					rep.Eval(desc)
					s, ok, xerr := exchange()
					// a complete well-formed message followed by more octets (trailing bytes, zero padding up to the declared length) decodes
					wellFormed := (bd == "valid" || bd == "valid+trailing" || strings.HasPrefix(bd, "valid-")) && fr != "content-length-too-big" && !strings.HasSuffix(fr, "(http/1.1)")
					if ok && (s != 7 || !wellFormed || st != 200) {
						rep.Violate("C01:doh-reply:accepted-bad-reply", fmt.Sprintf("the exchange returned a message (serial %d) for %s", s, desc), nil)
					}
					if !gotMsg && xerr == nil {
						rep.Violate("C01:doh-reply:nil-nil", "the exchange returned neither a message nor an error: "+desc, nil)
					}
					mu.Lock()
					body, framing, status = "valid", "content-length", 200
					mu.Unlock()
					good := false
					// (after a reply that broke the HTTP framing the first exchange may still meet the connection the server has cut; after an
					// honest reply nothing is wrong with the connection: the very next exchange must succeed)
					tries := 3
					if wellFormed && st == 200 && ok {
						tries = 1
					}
					for try := 0; try < tries && !good; try++ {
						s2, ok2, _ := exchange()
						good = ok2 && s2 == 7
					}
					if !good {
						rep.Violate("C01:doh-reply:stopped-serving", "after "+desc+" an ordinary exchange with the same upstream fails"+fmt.Sprintf(" (%d attempt(s))", tries), nil)
					}
				}
			}
		}
		u.Close()
		hs.Close()
	}
	rep.Sample(map[string]any{"case": "proto=h2 status=200 body=valid framing=no-length", "expect": "the reply is returned (Content-Length unknown = -1 to the client)"})
}
