package upstream

import (
	"context"
	"encoding/base64"
	"fmt"
	"os"
	"runtime/debug"
	"strings"
	"sync"
	"testing"
	"testing/synctest"
	"time"

	"github.com/IrineSistiana/mosproxy/internal/dnsmsg"
	"github.com/IrineSistiana/mosproxy/internal/zzverif/choice"
	"github.com/IrineSistiana/mosproxy/internal/zzverif/env"
	"github.com/IrineSistiana/mosproxy/internal/zzverif/refdns"
	"github.com/IrineSistiana/mosproxy/internal/zzverif/report"
	"github.com/rs/zerolog"
)

func init() {
	debug.SetMaxStack(32 << 20) // a runaway recursion in the implementation fails fast instead of growing to 1 GB
	zerolog.SetGlobalLevel(zerolog.Disabled)
}

var vRace = os.Getenv("VERIF_RACE") == "1"

type vCall struct {
	wire     []byte
	ctx      context.Context
	cancel   context.CancelFunc
	deadline time.Time
	done     bool
	doneAt   time.Time
	resp     *refdns.Msg
	err      error
	nilnil   bool
	panicked any
}

func vStart(u Upstream, wire []byte, timeout time.Duration) *vCall {
	c := &vCall{wire: wire, deadline: time.Now().Add(timeout)}
	c.ctx, c.cancel = context.WithDeadline(context.Background(), c.deadline)
	q := append([]byte(nil), wire...)
	go func() {
		var (
			res      *refdns.Msg
			nilnil   bool
			panicked any
			xerr     error
		)
		defer func() {
			if r := recover(); r != nil {
				panicked = r
			}
			publish(func() {
				c.err, c.nilnil, c.resp, c.panicked = xerr, nilnil, res, panicked
				c.done, c.doneAt = true, time.Now()
			})
		}()
		m, err := u.ExchangeContext(c.ctx, q)
		xerr = err
		nilnil = m == nil && err == nil
		if m != nil {
			// the message now belongs to this caller: the free list must not hold it as well
			var probes []*dnsmsg.Msg
			for i := 0; i < 4; i++ {
				if p := dnsmsg.NewMsg(); p == m {
					env.OwnNote("ExchangeContext returned a message that is at the same time in the free list of released messages (NewMsg handed the very same object to a second owner)")
				} else {
					probes = append(probes, p)
				}
			}
			for _, p := range probes {
				dnsmsg.ReleaseMsg(p)
			}
			b := make([]byte, m.Len())
			if n, perr := m.Pack(b, false, 0); perr == nil {
				res, _ = refdns.Decode(b[:n])
			}
			dnsmsg.ReleaseMsg(m)
		}
	}()
	return c
}

func (c *vCall) String() string {
	switch {
	case !c.done:
		return "inflight"
	case c.err != nil:
		e := c.err.Error()
		if i := strings.IndexByte(e, '\n'); i > 0 {
			e = e[:i]
		}
		return "err(" + e + ")"
	case c.resp != nil:
		return fmt.Sprintf("ok(%s)", c.resp.Canon())
	}
	return "done?"
}

var inBubble bool

// bubble runs f inside the worker's synctest bubble (created on first use, never nested).
func bubble(t *testing.T, f func()) {
	if inBubble {
		f()
		return
	}
	synctest.Test(t, func(t *testing.T) {
		inBubble = true
		defer func() { inBubble = false }()
		f()
	})
}

func runExplore(t *testing.T, rep *report.R, bound int, scenario func(c *choice.Ctx)) choice.Stats {
	sh, n := report.Shard()
	opt := choice.Options{Bound: bound, Shard: sh, NShards: n, ShardDepth: report.ParamInt("SHARDDEPTH", 2), Deadline: report.Deadline()}
	if rp := report.ReplayFile(); rp != nil {
		var x struct{ Choices []int }
		rp.Decode(&x)
		c := choice.Replay(x.Choices, true, func(c *choice.Ctx) bool {
			bubble(t, func() { hmu.Lock(); defer hmu.Unlock(); scenario(c) })
			return true
		})
		rep.Note("replayed: " + strings.Join(c.Trace(), " "))
		return choice.Stats{Executions: 1}
	}
	var st choice.Stats
	// One bubble per worker process: objects recycled through global pools (channels, timers) may then
	// legitimately travel from one execution to the next, as they do between requests in a real process.
	bubble(t, func() {
		st = choice.Explore(opt, func(c *choice.Ctx) bool {
			report.SetCurrent(c)
			hmu.Lock()
			defer hmu.Unlock()
			scenario(c)
			wait()
			report.FlushCurrent()
			return rep.NViolations() < 50
		})
	})
	rep.AddTransitions(st.ChoicePoints)
	if st.Capped {
		rep.Cap(st.CapReason)
	}
	rep.Count("replay_divergences_rerun", st.Divergences)
	rep.Count("divergent_executions_accepted", st.DivergentAccepted)
	return st
}

var _ = env.Poison

func b64dec(s string) ([]byte, error) { return base64.RawURLEncoding.DecodeString(s) }

// hmu orders the harness goroutine and the goroutines it observes for the race detector: the harness holds it
// whenever it runs and releases it only while it waits for quiescence or lets virtual time pass; goroutines
// that publish results for the harness take it while doing so.
var hmu sync.Mutex

func wait() {
	hmu.Unlock()
	synctest.Wait()
	hmu.Lock()
	report.Progress()
}

func hsleep(d time.Duration) {
	hmu.Unlock()
	time.Sleep(d)
	hmu.Lock()
}

// publish runs f (which stores results read by the harness) under hmu.
func publish(f func()) {
	hmu.Lock()
	f()
	hmu.Unlock()
}
