package upstream

import (
	"context"
	"encoding/base64"
	"fmt"
	"os"
	"runtime/debug"
	"strings"
	"sync"
	"testing"
	"testing/synctest"
	"time"

	"github.com/IrineSistiana/mosproxy/internal/dnsmsg"
	"github.com/IrineSistiana/mosproxy/internal/zzverif/choice"
	"github.com/IrineSistiana/mosproxy/internal/zzverif/env"
	"github.com/IrineSistiana/mosproxy/internal/zzverif/pause"
	"github.com/IrineSistiana/mosproxy/internal/zzverif/refdns"
	"github.com/IrineSistiana/mosproxy/internal/zzverif/report"
	"github.com/rs/zerolog"
)

func init() {
	debug.SetMaxStack(32 << 20) // a runaway recursion in the implementation fails fast instead of growing to 1 GB
	zerolog.SetGlobalLevel(zerolog.Disabled)
}

var vRace = os.Getenv("VERIF_RACE") == "1"

type vCall struct {
	wire     []byte
	ctx      context.Context
	cancel   context.CancelFunc
	deadline time.Time
	done     bool
	doneAt   time.Time
	resp     *refdns.Msg
	err      error
	nilnil   bool
	panicked any
}

func vStart(u Upstream, wire []byte, timeout time.Duration) *vCall {
	c := &vCall{wire: wire, deadline: time.Now().Add(timeout)}
	c.ctx, c.cancel = context.WithDeadline(context.Background(), c.deadline)
	q := append([]byte(nil), wire...)
	go func() {
		var (
			res      *refdns.Msg
			nilnil   bool
			panicked any
			xerr     error
		)
		defer func() {
			if r := recover(); r != nil {
				panicked = r
			}
			publish(func() {
				c.err, c.nilnil, c.resp, c.panicked = xerr, nilnil, res, panicked
				c.done, c.doneAt = true, time.Now()
			})
		}()
		m, err := u.ExchangeContext(c.ctx, q)
		xerr = err
		nilnil = m == nil && err == nil
		if m != nil {
			// the message now belongs to this caller: the free list must not hold it as well
			var probes []*dnsmsg.Msg
			for i := 0; i < 4; i++ {
				if p := dnsmsg.NewMsg(); p == m {
					env.OwnNote("ExchangeContext returned a message that is at the same time in the free list of released messages (NewMsg handed the very same object to a second owner)")
				} else {
					probes = append(probes, p)
				}
			}
			for _, p := range probes {
				dnsmsg.ReleaseMsg(p)
			}
			b := make([]byte, m.Len())
			if n, perr := m.Pack(b, false, 0); perr == nil {
				res, _ = refdns.Decode(b[:n])
			}
			dnsmsg.ReleaseMsg(m)
		}
	}()
	return c
}

func (c *vCall) String() string {
	switch {
	case !c.done:
		return "inflight"
	case c.err != nil:
		e := c.err.Error()
		if i := strings.IndexByte(e, '\n'); i > 0 {
			e = e[:i]
		}
		return "err(" + e + ")"
	case c.resp != nil:
		return fmt.Sprintf("ok(%s)", c.resp.Canon())
	}
	return "done?"
}

var inBubble bool

// bubble runs f inside the worker's synctest bubble (created on first use, never nested).
func bubble(t *testing.T, f func()) {
	if inBubble {
		f()
		return
	}
	synctest.Test(t, func(t *testing.T) {
		inBubble = true
		defer func() { inBubble = false }()
		f()
	})
}

func runExplore(t *testing.T, rep *report.R, bound int, scenario func(c *choice.Ctx)) choice.Stats {
	sh, n := report.Shard()
	opt := choice.Options{Bound: bound, Shard: sh, NShards: n, ShardDepth: report.ParamInt("SHARDDEPTH", 2), Deadline: report.Deadline()}
	if rp := report.ReplayFile(); rp != nil {
		var x struct{ Choices []int }
		rp.Decode(&x)
		c := choice.Replay(x.Choices, true, func(c *choice.Ctx) bool {
			bubble(t, func() { hmu.Lock(); defer hmu.Unlock(); scenario(c) })
			return true
		})
		rep.Note("replayed: " + strings.Join(c.Trace(), " "))
		return choice.Stats{Executions: 1}
	}
	var st choice.Stats
	// One bubble per worker process: objects recycled through global pools (channels, timers) may then
	// legitimately travel from one execution to the next, as they do between requests in a real process.
	bubble(t, func() {
		st = choice.Explore(opt, func(c *choice.Ctx) bool {
			report.SetCurrent(c)
			hmu.Lock()
			defer hmu.Unlock()
			scenario(c)
			wait()
			report.FlushCurrent()
			return rep.NViolations() < 50
		})
	})
	rep.AddTransitions(st.ChoicePoints)
	if n := pause.SelSeen.Swap(0); n > 0 {
		rep.Count("selects_with_several_ready_cases", n) // each was a choice point (owned selects, DESIGN 9.17)
	}
	if st.Capped {
		rep.Cap(st.CapReason)
	}
	rep.Count("replay_divergences_rerun", st.Divergences)
	rep.Count("divergent_executions_accepted", st.DivergentAccepted)
	if pauseMode {
		rep.Count("executions_with_a_goroutine_held_at_a_pause_point", pz.n)
		rep.Note("E4: every statement boundary of the instrumented implementation files that an explored execution reaches (first PAUSEHITS hits per point) was a choice point 'this goroutine stands still here until resumed'; at most one such preemption per execution, never inside a critical section, never across virtual time")
	}
	return st
}

var _ = env.Poison

func b64dec(s string) ([]byte, error) { return base64.RawURLEncoding.DecodeString(s) }

// hmu orders the harness goroutine and the goroutines it observes for the race detector: the harness holds it
// whenever it runs and releases it only while it waits for quiescence or lets virtual time pass; goroutines
// that publish results for the harness take it while doing so.
var hmu sync.Mutex

func wait() {
	hmu.Unlock()
	synctest.Wait()
	hmu.Lock()
	report.Progress()
	if pz.abort {
		pz.abort = false
		pz.c = nil
		choice.AbortUnowned()
	}
}

func hsleep(d time.Duration) {
	if resume() {
		wait() // virtual time never passes while a goroutine is held at a pause point: a preemption is short
	}
	pz.sleepUntil = time.Now().Add(d)
	hmu.Unlock()
	time.Sleep(d)
	hmu.Lock()
	pz.sleepUntil = time.Time{}
}

// publish runs f (which stores results read by the harness) under hmu.
func publish(f func()) {
	hmu.Lock()
	f()
	hmu.Unlock()
}

// event is one entry of the environment menu; pick chooses the next one (faults cost one deviation each).
type event struct {
	name  string
	fault bool
	do    func()
}

func pick(c *choice.Ctx, menu []event) *event {
	pz.step++
	if len(menu) == 0 {
		return nil
	}
	if pz.ch != nil {
		// a goroutine stands still at a pause point: letting it go on is the default, every other event happens "during" the preemption
		menu = append([]event{{name: "resume(" + pz.at + ")", do: func() { resume() }}}, menu...)
	}
	var normal, faults []int
	for i := range menu {
		if menu[i].fault {
			faults = append(faults, i)
		} else {
			normal = append(normal, i)
		}
	}
	defer report.FlushCurrent()
	var sb strings.Builder
	for i := range menu {
		sb.WriteString(menu[i].name)
		sb.WriteByte(';')
	}
	lbl := sb.String()
	f := 0
	if len(faults) > 0 {
		f = c.Deviate(len(faults)+1, "fault:"+lbl)
		if f == 0 && len(normal) == 0 {
			return nil
		}
	}
	if f > 0 {
		return &menu[faults[f-1]]
	}
	return &menu[normal[c.Choose(len(normal), "event:"+lbl)]]
}

// ---- E4: pause points (DESIGN 9.13); see harness/transport/zz_verif_common_test.go for the commentary.
var pz struct {
	selOn, selUsed bool   // owned selects: a non-default outcome may still be chosen / was chosen
	selAt          string // "<file>:<line> case k" of that outcome
	c              *choice.Ctx
	ch             chan struct{}
	at             string
	used           bool
	hits           map[string]int
	cap            int
	n              int64

	window, windows, step int

	abort bool // an unowned-subtree signal was caught on an implementation goroutine

	sleepUntil time.Time
}

var pauseMode = report.ParamInt("PAUSE", 0) > 0

func pauseBegin(c *choice.Ctx) {
	if !pauseMode {
		// no pause points in this build; where the implementation files carry owned selects (tools_instr -selonly) those are
		// choice points all the same
		if report.ParamInt("SELECTS", 1) > 0 {
			pz.c, pz.ch, pz.at, pz.used, pz.abort = c, nil, "", false, false
			pz.selOn, pz.selUsed, pz.selAt = true, false, ""
			pause.SelHook = selHook
		}
		return
	}
	pz.c, pz.ch, pz.at, pz.used, pz.abort = c, nil, "", false, false
	pz.selOn, pz.selUsed, pz.selAt = report.ParamInt("SELECTS", 1) > 0, false, ""
	pause.SelHook = selHook
	// The pause space is partitioned by the harness step during whose reaction the goroutine is stopped: the window is the
	// first choice of the execution, which spreads the subtrees over the worker processes (pause choice points are binary
	// with a heavy default branch; as leading choices they would leave all the work to one shard).
	pz.windows = report.ParamInt("PAUSEWINDOWS", 7)
	pz.window, pz.step = c.Choose(pz.windows, "pause-window"), 0
	pz.hits = map[string]int{}
	pz.cap = report.ParamInt("PAUSEHITS", 1)
	pause.Hook = pauseHook
	pause.Enable(true)
}

func pauseHook(id string) {
	var ch chan struct{}
	publish(func() {
		if pz.c == nil || pz.used || pz.abort {
			return
		}
		if st := min(pz.step, pz.windows-1); st != pz.window {
			return
		}
		defer func() {
			// the choice point may be the one at which the search core finds that this subtree is another worker's: the
			// signal is raised again on the harness goroutine (in wait), where Explore recovers it
			if r := recover(); r != nil {
				if !choice.IsUnowned(r) {
					panic(r)
				}
				pz.abort = true
			}
		}()
		if !pz.sleepUntil.IsZero() && time.Now().Before(pz.sleepUntil) {
			return
		}
		pz.hits[id]++
		if pz.hits[id] > pz.cap {
			return
		}
		if pz.c.Choose(2, "pause@"+id) == 1 {
			pz.used = true
			pause.Enable(false)
			ch = make(chan struct{})
			pz.ch, pz.at = ch, id
			pz.n++
		}
	})
	if ch != nil {
		<-ch
	}
}

func paused() bool { return pz.ch != nil }

func pauseNote() string {
	n := ""
	if pz.used {
		n = " [one goroutine stood still before " + pz.at + " until resumed]"
	}
	if pz.selUsed {
		n += " [the select at " + pz.selAt + " was taken although an earlier case was ready too]"
	}
	return n
}

// selHook runs on an implementation goroutine that is about to execute a blocking select of which several cases are ready
// (tools_instr, ownSelect): the first ready case in source order is the default, any other one is a deviation, at most one
// per execution. (The Go runtime picks at random; every outcome offered here is one it can produce.)
func selHook(id string, ready []int) (k int) {
	k = ready[0]
	if !hmu.TryLock() {
		return // implementation code called on the harness goroutine itself: the default outcome, no choice point
	}
	defer hmu.Unlock()
	func() {
		if pz.c == nil || !pz.selOn || pz.selUsed || pz.abort {
			return
		}
		defer func() {
			if r := recover(); r != nil {
				if !choice.IsUnowned(r) {
					panic(r)
				}
				pz.abort = true
			}
		}()
		if j := pz.c.Choose(len(ready), "select@"+id); j > 0 {
			k = ready[j]
			pz.selUsed, pz.selAt = true, fmt.Sprintf("%s case %d", id, k)
		}
	}()
	return
}

// selOff: from here on (wind-down of a scenario) selects take their default outcome.
func selOff() { pz.selOn = false }

// pauseOff: no goroutine is stopped from here on (a scenario's closing part that judges progress).
func pauseOff() { pause.Enable(false) }

func resume() bool {
	if pz.ch != nil {
		close(pz.ch)
		pz.ch = nil
		return true
	}
	return false
}

func pauseEnd() {
	pause.Enable(false)
	pause.SelHook = nil
	pz.c = nil
	resume()
}
