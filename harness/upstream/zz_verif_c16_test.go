package upstream

// C16: a truncated UDP reply is retried over TCP. Full product of UDP reply
// kinds x TCP leg behaviours x query shapes on the real udpWithFallback.

import (
	"bytes"
	"fmt"
	"os"
	"testing"
	"time"

	"github.com/IrineSistiana/mosproxy/internal/upstream/transport"
	"github.com/IrineSistiana/mosproxy/internal/zzverif/choice"
	"github.com/IrineSistiana/mosproxy/internal/zzverif/env"
	"github.com/IrineSistiana/mosproxy/internal/zzverif/refdns"
	"github.com/IrineSistiana/mosproxy/internal/zzverif/report"
)

var (
	c16UDP = []string{"answer", "tc-empty", "tc-with-records", "silent", "nxdomain", "tc-servfail", "answer-3000-octets", "tc-3000-octets"}
	c16TCP = []string{"answers", "dial-refused", "abort-after-write", "silent", "answers-tc-again", "garbage", "silent-then-late-reply", "connect-completes-after-the-deadline"}
	c16Q   = []string{"A", "TXT", "A+OPT", "AAAA-mixedcase"}
	// between the first and the second exchange: the server closes / resets the idle TCP connection, or the pooled UDP socket breaks
	c16Between = []string{"nothing", "tcp-idle-fin", "tcp-idle-abort", "udp-socket-dead"}
)

// c16Prop: the property this harness reports for (the same exploration is a part of C05 and C06, see fail()).
var c16Prop = func() string {
	if p := os.Getenv("VERIF_PROP"); p == "C05" || p == "C06" || p == "C14" || p == "C01" {
		return p
	}
	return "C16"
}()

var c16Shared = map[string]bool{"reply-with-error": true, "panic": true, "nil-nil": true, "id-not-restored": true, "reply-not-sent-by-server": true, "ownership": true}

func c16Scenario(c *choice.Ctx, rep *report.R) {
	own := env.InstallOwn(0xA5, vRace)
	defer env.UninstallOwn()
	ud, td := env.NewDialer("udp"), env.NewDialer("tcp")
	u := &udpWithFallback{
		u: transport.NewPipelineTransport(transport.PipelineOpts{DialContext: ud.Dial, IdleTimeout: time.Minute, IsTCP: false, MaxConcurrentQuery: 4096}),
		t: transport.NewReuseConnTransport(transport.ReuseConnOpts{DialContext: td.Dial}),
	}
	defer u.Close()
	qi := c.Choose(len(c16Q), "query")
	ui := c.Choose(len(c16UDP), "udp")
	ti := c.Choose(len(c16TCP), "tcp")
	second := c.Choose(2, "second-exchange") // run the same thing twice: the second exchange reuses pooled connections
	between := "nothing"
	if second == 1 {
		between = c16Between[c.Choose(len(c16Between), "between-exchanges")]
	}
	desc := fmt.Sprintf("query=%s udp=%s tcp=%s second=%d between=%s", c16Q[qi], c16UDP[ui], c16TCP[ti], second, between)
	fail := func(sig, msg string) {
		if c16Prop != "C16" {
			// run as a part of C05 / C06: only what those properties state about the fallback path (a returned message is a reply
			// the server sent to this exchange, caller's id restored); as a part of C14: the exchange returns by its deadline
			if !(c16Shared[sig] && c16Prop != "C14" && c16Prop != "C01") && !(c16Prop == "C14" && (sig == "missed-deadline" || sig == "panic" || sig == "nil-nil")) &&
				!(c16Prop == "C01" && (sig == "panic" || sig == "nil-nil" || sig == "missed-deadline")) {
				// (C01: whatever the server sends on either leg, the exchange ends with a message or an error - a (nil, nil) makes the router dereference nil)
				return
			}
			sig = "udp-fallback:" + sig
		}
		rep.Violate(c16Prop+":"+sig, msg+"\n  "+desc, map[string]any{"Choices": c.Choices()})
	}
	var q *refdns.Msg
	switch c16Q[qi] {
	case "A":
		q = refdns.Query(0xABCD, refdns.N("example", "test"), 1, 1)
	case "TXT":
		q = refdns.Query(0x0001, refdns.N("txt", "example", "test"), 16, 1)
	case "A+OPT":
		q = refdns.Query(0xFFFF, refdns.N("example", "test"), 1, 1)
		q.Ar = []refdns.RR{refdns.OPT(1200, 0, refdns.Option(8, []byte{0, 1, 24, 0, 192, 0, 2}))}
	default:
		q = refdns.Query(0x7777, refdns.N("MiXed", "Example", "TEST"), 28, 1)
	}
	wire := q.Encode(false)
	if ti == 1 {
		td.Script(env.DialRefuse, env.DialRefuse)
	}
	if c16TCP[ti] == "connect-completes-after-the-deadline" {
		td.Script(env.DialLate) // the first TCP connect is still in progress when the caller's deadline passes; it completes afterwards
	}
	obs := ""
	for round := 0; round <= second; round++ {
		udpFrames := func() (n int, ci int, last *env.PeerQuery) {
			for i := 0; i < ud.NumConns(); i++ {
				qs := env.QueriesOn(i, ud.ImplEnd(i), false)
				n += len(qs)
				if len(qs) > 0 && !ud.ImplEnd(i).IsClosed() {
					ci, last = i, &qs[len(qs)-1]
				}
			}
			return
		}
		if round == 1 {
			// what happened to the pooled connections between the two exchanges
			switch between {
			case "tcp-idle-fin":
				for i := 0; i < td.NumConns(); i++ {
					td.ImplEnd(i).PeerFIN()
				}
			case "tcp-idle-abort":
				for i := 0; i < td.NumConns(); i++ {
					td.ImplEnd(i).Abort()
				}
			case "udp-socket-dead":
				// writes on the pooled UDP socket now fail (ICMP error / route gone); reads too
				for i := 0; i < ud.NumConns(); i++ {
					ud.ImplEnd(i).AbortWrites()
				}
			}
			if between == "tcp-idle-fin" || between == "tcp-idle-abort" {
				wait()
			}
		}
		udpFramesBefore, _, _ := udpFrames()
		tcpDialsBefore := td.NumDials()
		tcpFrames := func() (n int, last []byte) {
			for ci := 0; ci < td.NumConns(); ci++ {
				qs := env.QueriesOn(ci, td.ImplEnd(ci), true)
				n += len(qs)
				if len(qs) > 0 {
					last = qs[len(qs)-1].Wire
				}
			}
			return
		}
		tcpBefore, _ := tcpFrames()
		cl := vStart(u, wire, 2*time.Second)
		wait()
		// UDP leg
		var udpReply *refdns.Msg
		if ud.NumConns() == 0 {
			fail("no-udp-attempt", "no UDP connection was opened")
			return
		}
		nUDP, udpConn, lastUDP := udpFrames()
		if nUDP != udpFramesBefore+1 || lastUDP == nil || lastUDP.Msg == nil {
			fail("udp-query-count", fmt.Sprintf("expected exactly one new UDP query (on a live socket), saw %d", nUDP-udpFramesBefore))
			return
		}
		uq := *lastUDP
		if uq.Msg.Canon() != (&refdns.Msg{ID: uq.WireID, Bits: q.Bits, Q: q.Q, Ar: q.Ar}).Canon() {
			fail("udp-query-altered", "the UDP query differs from the caller's query in more than the id")
		}
		switch c16UDP[ui] {
		case "answer":
			udpReply = env.Answer(uq.Msg, byte(10+round), 60)
		case "tc-empty":
			udpReply = env.RCodeReply(uq.Msg, 0)
			udpReply.Bits |= refdns.BitTC
		case "tc-with-records":
			udpReply = env.Answer(uq.Msg, byte(20+round), 60)
			udpReply.Bits |= refdns.BitTC
		case "nxdomain":
			udpReply = env.RCodeReply(uq.Msg, 3)
		case "tc-servfail":
			udpReply = env.RCodeReply(uq.Msg, 2)
			udpReply.Bits |= refdns.BitTC
		case "answer-3000-octets", "tc-3000-octets":
			// a datagram larger than 2048 octets (the server may send up to what the query advertised, or ignore it)
			udpReply = env.Answer(uq.Msg, byte(30+round), 60)
			for i := 0; i < 11; i++ {
				udpReply.An = append(udpReply.An, refdns.TXT(uq.Msg.Q[0].Name, 60, 250, byte('a'+i)))
			}
			if c16UDP[ui] == "tc-3000-octets" {
				udpReply.Bits |= refdns.BitTC
			}
		}
		if udpReply != nil {
			ud.ImplEnd(udpConn).Inject(udpReply.Encode(false))
			wait()
		}
		tc := udpReply != nil && udpReply.Has(refdns.BitTC)
		// TCP leg
		var tcpReply *refdns.Msg
		nTCP, lastTCP := tcpFrames()
		lateConnect := c16TCP[ti] == "connect-completes-after-the-deadline"
		if tc && lateConnect && round == 0 {
			// the TCP connect is still in progress: no query yet, the exchange ends with an error at its deadline
			if td.Pending() != 1 {
				fail("no-tcp-retry", fmt.Sprintf("UDP reply had TC set but %d TCP connects are in progress", td.Pending()))
			}
		} else if tc {
			if c16TCP[ti] != "dial-refused" {
				staleRetry := round == 1 && (between == "tcp-idle-fin" || between == "tcp-idle-abort") // the first attempt may go to the dead pooled connection and is then repeated
				if nTCP < tcpBefore+1 || (nTCP != tcpBefore+1 && !staleRetry) || nTCP > tcpBefore+7 {
					fail("no-tcp-retry", fmt.Sprintf("UDP reply had TC set but %d TCP queries were sent", nTCP-tcpBefore))
				} else {
					if !bytes.Equal(lastTCP, wire) {
						fail("tcp-query-differs", fmt.Sprintf("TCP query %x differs from the caller's query %x", lastTCP, wire))
					}
					tq, _ := refdns.Decode(lastTCP)
					ci := td.NumConns() - 1
					for i := 0; i < td.NumConns(); i++ { // the connection that carries the newest frame
						if qs := env.QueriesOn(i, td.ImplEnd(i), true); len(qs) > 0 && bytes.Equal(qs[len(qs)-1].Wire, lastTCP) && !td.ImplEnd(i).IsClosed() {
							ci = i
						}
					}
					switch c16TCP[ti] {
					case "silent-then-late-reply":
						if round == 1 { // the second exchange is answered properly
							tcpReply = env.Answer(tq, byte(70+round), 60)
							td.ImplEnd(ci).Inject(refdns.Frame(tcpReply.Encode(false)))
						}
					case "answers", "connect-completes-after-the-deadline":
						tcpReply = env.Answer(tq, byte(50+round), 60)
						td.ImplEnd(ci).Inject(refdns.Frame(tcpReply.Encode(false)))
					case "answers-tc-again":
						tcpReply = env.Answer(tq, byte(60+round), 60)
						tcpReply.Bits |= refdns.BitTC
						td.ImplEnd(ci).Inject(refdns.Frame(tcpReply.Encode(false)))
					case "abort-after-write":
						td.ImplEnd(ci).Abort()
					case "garbage":
						td.ImplEnd(ci).Inject(refdns.Frame([]byte{1, 2, 3}))
					}
					wait()
				}
			} else if td.NumDials() == tcpDialsBefore {
				fail("no-tcp-retry", "UDP reply had TC set but TCP was not even dialled")
			}
		} else {
			if td.NumDials() != tcpDialsBefore || nTCP != tcpBefore {
				fail("tcp-without-tc", "a TCP attempt was made although the UDP reply had no TC flag")
			}
		}
		// run to the deadline
		hsleep(time.Until(cl.deadline))
		wait()
		if !cl.done {
			fail("missed-deadline", "exchange did not return by its deadline")
			return
		}
		if tc && lateConnect && round == 0 {
			// the connect completes now, just after the exchange it was started for gave up (and well inside the dial timeout)
			for td.Pending() > 0 {
				td.Release(true)
			}
			wait()
		}
		if cl.panicked != nil {
			fail("panic", fmt.Sprint(cl.panicked))
		}
		if cl.resp != nil && cl.err != nil {
			fail("reply-with-error", fmt.Sprintf("the exchange returned a message together with an error, which the caller treats as a failure: %v", cl.err))
		}
		if cl.nilnil {
			fail("nil-nil", "returned (nil, nil)")
		}
		if cl.resp != nil && cl.resp.ID != q.ID {
			fail("id-not-restored", fmt.Sprintf("returned id %#x, caller id %#x", cl.resp.ID, q.ID))
		}
		if cl.resp != nil {
			sent := false
			for _, r := range []*refdns.Msg{udpReply, tcpReply} {
				if r != nil {
					x := *r
					x.ID = q.ID
					sent = sent || x.Canon() == cl.resp.Canon()
				}
			}
			if !sent {
				fail("reply-not-sent-by-server", fmt.Sprintf("the caller got a message that is neither the server's UDP nor its TCP reply to this exchange: %s", cl))
			}
		}
		switch {
		case tc:
			// outcome of the TCP exchange, never the truncated UDP message
			if cl.resp != nil && udpReply != nil {
				ur := *udpReply
				ur.ID = q.ID
				if cl.resp.Canon() == ur.Canon() && (tcpReply == nil || cl.resp.Canon() != func() string { x := *tcpReply; x.ID = q.ID; return x.Canon() }()) {
					fail("truncated-udp-returned", "caller received the truncated UDP message")
				}
			}
			if tcpReply != nil {
				tr := *tcpReply
				tr.ID = q.ID
				if cl.resp == nil || cl.resp.Canon() != tr.Canon() {
					fail("tcp-outcome-not-returned", fmt.Sprintf("TCP leg answered but caller got %s", cl))
				}
			} else if cl.resp != nil {
				fail("reply-from-nowhere", fmt.Sprintf("TCP leg failed but caller got a message: %s", cl))
			}
		case udpReply != nil:
			ur := *udpReply
			ur.ID = q.ID
			if cl.resp == nil || cl.resp.Canon() != ur.Canon() {
				fail("udp-reply-altered", fmt.Sprintf("UDP reply without TC must be returned as received; got %s", cl))
			}
		default:
			if cl.resp != nil {
				fail("reply-from-nowhere", "silent server but caller got a message")
			}
		}
		obs += cl.String() + ";"
		hsleep(7 * time.Second)
		wait()
		if tc && c16TCP[ti] == "silent-then-late-reply" && round == 0 {
			// the reply to the timed-out TCP query arrives now, long after everybody gave up
			for i := 0; i < td.NumConns(); i++ {
				if qs := env.QueriesOn(i, td.ImplEnd(i), true); len(qs) > 0 && qs[len(qs)-1].Msg != nil && !td.ImplEnd(i).IsClosed() {
					late := env.Answer(qs[len(qs)-1].Msg, 99, 60)
					td.ImplEnd(i).Inject(refdns.Frame(late.Encode(false)))
				}
			}
			wait()
		}
	}
	u.Close()
	hsleep(7 * time.Second)
	wait()
	for _, v := range own.Audit() {
		fail("ownership", v)
	}
	rep.Eval(desc + "=>" + obs)
	rep.State(desc)
}

func TestVerifC16(t *testing.T) {
	rep := report.New(c16Prop + " UDP truncation fallback")
	defer rep.Write()
	rep.Rule = fmt.Sprintf("E3: the object NewUpstream builds for udp:// (udpWithFallback{PipelineTransport(udp), ReuseConnTransport(tcp)}) over scripted dialers; full product query %v x UDP reply %v x TCP leg %v x {one exchange, two exchanges (second reuses pooled connections) with %v in between}; "+
		"oracle: TC => exactly one TCP query byte-identical to the caller's, caller gets the TCP outcome and never the truncated UDP message; no TC => UDP message returned as received (id restored) and zero TCP dials/queries; return by deadline", c16Q, c16UDP, c16TCP, c16Between)
	st := runExplore(t, rep, -1, func(c *choice.Ctx) { c16Scenario(c, rep) })
	rep.Count("executions", st.Executions)
	rep.Sample(map[string]any{"query": "A+OPT", "udp": "tc-with-records", "tcp": "abort-after-write", "expect": "error, not the truncated UDP message"})
}
