package upstream

// C14 (real sockets): a server that refuses. Nothing listens on the port the
// upstream points to: TCP connects are reset, UDP queries come back as ICMP port
// unreachable (the kernel reports it on the connected socket as ECONNREFUSED).
// The exchange must end with an error promptly - the refusal is known within a
// round trip - instead of waiting out its deadline.
//
// The bound used for "promptly" is half of an 8 s deadline; on loopback the
// refusal arrives within a millisecond, so this is a bound for "never", not a
// latency measurement.

import (
	"context"
	"crypto/tls"
	"fmt"
	"net"
	"testing"
	"time"

	"github.com/IrineSistiana/mosproxy/internal/zzverif/refdns"
	"github.com/IrineSistiana/mosproxy/internal/zzverif/report"
)

func TestVerifC14Refused(t *testing.T) {
	rep := report.New("C14 refusing server on real sockets")
	defer rep.Write()
	kinds := []string{"udp", "tcp", "tcp+pipeline", "tls", "tls+pipeline"}
	rep.Rule = fmt.Sprintf("real NewUpstream for %v pointing at a loopback port nobody listens on (TCP: connection refused; UDP: ICMP port unreachable = ECONNREFUSED on the socket); one exchange at a time with an 8 s deadline, three in a row per kind; "+
		"oracle: each returns an error (never a message) and does so within 4 s, i.e. because of the refusal and not because its deadline ran out", kinds)
	if sh, _ := report.Shard(); sh != 0 {
		rep.Eval("idle-shard")
		rep.Eval("idle-shard2")
		return
	}
	// a port that was free a moment ago, on both protocols
	l, err := net.Listen("tcp", "127.0.0.1:0")
	if err != nil {
		t.Fatal(err)
	}
	addr := l.Addr().String()
	pc, err := net.ListenPacket("udp", addr)
	l.Close()
	if err == nil {
		pc.Close()
	}
	for _, k := range kinds {
		u, err := NewUpstream(k+"://"+addr, Opt{TLSConfig: &tls.Config{InsecureSkipVerify: true}})
		if err != nil {
			rep.Violate("C14:real-refused:new-upstream:"+k, err.Error(), nil)
			continue
		}
		for i := 0; i < 3; i++ {
			rep.Eval(fmt.Sprintf("%s exchange %d against a refusing port", k, i))
			ctx, cancel := context.WithTimeout(context.Background(), 8*time.Second)
			t0 := time.Now()
			m, xerr := u.ExchangeContext(ctx, refdns.Query(uint16(0x1400+i), refdns.N("refused", "example", "test"), 1, 1).Encode(false))
			took := time.Since(t0)
			cancel()
			switch {
			case m != nil:
				rep.Violate("C14:real-refused:message-from-nowhere:"+k, "an exchange against a port nobody listens on returned a message", nil)
			case xerr == nil:
				rep.Violate("C14:real-refused:nil-nil:"+k, "returned (nil, nil)", nil)
			case took > 4*time.Second:
				rep.Violate("C14:real-refused:waited-out-deadline:"+k, fmt.Sprintf("%s upstream, server refuses (nothing listens on the port): exchange %d returned after %v with %q - it waited for its 8 s deadline instead of failing on the refusal", k, i, took.Round(time.Millisecond), xerr), nil)
			}
			if took > 4*time.Second {
				break
			}
		}
		u.Close()
	}
	rep.Sample(map[string]any{"upstream": "udp://127.0.0.1:<closed port>", "expect": "error within milliseconds (connection refused)"})
}
