package upstream

// C06 (real sockets): the TCP fallback of a udp:// upstream exactly as NewUpstream
// builds it. The server truncates every UDP reply and holds TCP replies; a caller
// gives up, the next query follows. A connection that still owes a reply must not
// receive another query, and every exchange that returns a message gets the reply
// to its own query.

import (
	"context"
	"fmt"
	"io"
	"net"
	"sync"
	"testing"
	"time"

	"github.com/IrineSistiana/mosproxy/internal/zzverif/env"
	"github.com/IrineSistiana/mosproxy/internal/zzverif/refdns"
	"github.com/IrineSistiana/mosproxy/internal/zzverif/report"
)

func TestVerifC06Real(t *testing.T) {
	rep := report.New("C06 tcp fallback as built by NewUpstream")
	defer rep.Write()
	rep.Rule = "real NewUpstream(\"udp://127.0.0.1:P\"); the server answers every UDP query with TC and holds TCP replies until told; histories {abandon x1, abandon x2, none} followed by 2 answered queries; " +
		"oracle (content only): no TCP connection receives a query while it still owes the reply to an earlier one; a returned message answers the caller's own question with the caller's id"
	if sh, _ := report.Shard(); sh != 0 {
		rep.Eval("idle-shard")
		rep.Eval("idle-shard2")
		return
	}
	ul, err := net.ListenPacket("udp", "127.0.0.1:0")
	if err != nil {
		t.Fatal(err)
	}
	defer ul.Close()
	tl, err := net.Listen("tcp", ul.LocalAddr().String())
	if err != nil {
		t.Fatal(err)
	}
	defer tl.Close()
	go func() {
		b := make([]byte, 4096)
		for {
			n, a, err := ul.ReadFrom(b)
			if err != nil {
				return
			}
			if q, err := refdns.Decode(b[:n]); err == nil {
				r := env.RCodeReply(q, 0)
				r.Bits |= refdns.BitTC
				ul.WriteTo(r.Encode(false), a)
			}
		}
	}()
	var mu sync.Mutex
	hold := true
	type owed struct {
		c net.Conn
		q *refdns.Msg
	}
	var held []owed
	overlap := ""
	go func() {
		for {
			c, err := tl.Accept()
			if err != nil {
				return
			}
			go func() {
				defer c.Close()
				outstanding := 0
				for {
					hdr := make([]byte, 2)
					if _, err := io.ReadFull(c, hdr); err != nil {
						return
					}
					b := make([]byte, int(hdr[0])<<8|int(hdr[1]))
					if _, err := io.ReadFull(c, b); err != nil {
						return
					}
					q, err := refdns.Decode(b)
					if err != nil {
						return
					}
					mu.Lock()
					if outstanding > 0 && overlap == "" {
						overlap = fmt.Sprintf("query %s arrived on a connection that still owes %d replies", q.Q[0].Name, outstanding)
					}
					if hold {
						outstanding++
						held = append(held, owed{c, q})
						mu.Unlock()
						continue
					}
					mu.Unlock()
					c.Write(refdns.Frame(env.Answer(q, 1, 60).Encode(false)))
				}
			}()
		}
	}()
	for _, abandons := range []int{1, 2, 0} {
		u, err := NewUpstream("udp://"+ul.LocalAddr().String(), Opt{})
		if err != nil {
			t.Fatal(err)
		}
		mu.Lock()
		hold, held, overlap = true, nil, ""
		mu.Unlock()
		desc := fmt.Sprintf("%d abandoned truncated queries, then 2 answered ones", abandons)
		rep.Eval(desc)
		for i := 0; i < abandons; i++ {
			ctx, cancel := context.WithTimeout(context.Background(), 400*time.Millisecond)
			m, _ := u.ExchangeContext(ctx, refdns.Query(uint16(0x600+i), refdns.N(fmt.Sprintf("gone%d", i), "test"), 1, 1).Encode(false))
			cancel()
			if m != nil {
				rep.Violate("C06:real:reply-from-nowhere", "an exchange whose TCP reply is held back returned a message: "+desc, nil)
			}
		}
		mu.Lock()
		hold = false
		mu.Unlock()
		for i := 0; i < 2; i++ {
			name := refdns.N(fmt.Sprintf("kept%d", i), "test")
			id := uint16(0x610 + i)
			ctx, cancel := context.WithTimeout(context.Background(), 3*time.Second)
			m, xerr := u.ExchangeContext(ctx, refdns.Query(id, name, 1, 1).Encode(false))
			cancel()
			if m == nil {
				rep.Violate("C06:real:healthy-exchange-failed", fmt.Sprintf("exchange %d after the abandoned ones failed (%v): %s", i, xerr, desc), nil)
				continue
			}
			b := make([]byte, m.Len())
			n, _ := m.Pack(b, false, 0)
			d, derr := refdns.Decode(b[:n])
			if derr != nil || len(d.Q) != 1 || !d.Q[0].Name.Equal(name) || d.ID != id {
				rep.Violate("C06:real:wrong-reply", fmt.Sprintf("exchange %d (id %#x, %s) returned %v: %s", i, id, name, d, desc), nil)
			}
		}
		// the held replies arrive now, late
		mu.Lock()
		hs := held
		ov := overlap
		mu.Unlock()
		for _, h := range hs {
			h.c.Write(refdns.Frame(env.Answer(h.q, 9, 60).Encode(false)))
		}
		if ov != "" {
			rep.Violate("C06:real:second-query-before-reply-consumed", ov+": "+desc, nil)
		}
		u.Close()
	}
	rep.Sample(map[string]any{"history": "1 abandoned truncated query, then 2 answered", "expect": "the later queries use another TCP connection (or wait), each gets its own reply"})
}
