package dnsmsg

// C01 (decoder core): exhaustive enumeration of short / structurally
// interesting byte strings and of all <=2-byte deviations from a seed corpus.
// Oracle: no panic, decoding terminates, accepted messages re-pack and
// re-decode without panic.

import (
	"fmt"
	"os"
	"strings"
	"sync/atomic"
	"testing"
	"time"

	"github.com/IrineSistiana/mosproxy/internal/zzverif/env"
	"github.com/IrineSistiana/mosproxy/internal/zzverif/refdns"
	"github.com/IrineSistiana/mosproxy/internal/zzverif/report"
)

var (
	c01Cur      atomic.Pointer[[]byte]
	c01Progress atomic.Int64
)

// c01Decode is the operation under test for one input.
var c01Prop = func() string {
	if p := os.Getenv("VERIF_PROP"); p != "" {
		return p
	}
	return "C01"
}()

func c01Decode(b []byte) (accepted bool, panicked any) {
	defer func() {
		if r := recover(); r != nil {
			panicked = r
		}
	}()
	m, err := UnpackMsg(b)
	if err != nil {
		return false, nil
	}
	accepted = true
	l := m.Len()
	buf := make([]byte, l)
	for _, comp := range []bool{false, true} {
		n, err := m.Pack(buf, comp, 0)
		if err == nil {
			if m2, err2 := UnpackMsg(buf[:n]); err2 == nil {
				ReleaseMsg(m2)
			}
		}
	}
	// size-limited pack (the UDP path) must not panic either
	m.Pack(buf, true, 512)
	for _, q := range m.Questions {
		ToLowerName(q.Name)
		if rb, err := ToReadable(q.Name); err == nil {
			ReleaseName(Name(rb))
		}
	}
	ReleaseMsg(m)
	return true, nil
}

func c01Seeds() [][]byte {
	N := refdns.N
	long := refdns.N(strings.Repeat("p", 63), strings.Repeat("q", 63), strings.Repeat("r", 63), strings.Repeat("s", 61))
	q := func(n refdns.Name, t uint16) *refdns.Msg { return refdns.Query(0x1234, n, t, 1) }
	resp := func(rrs ...refdns.RR) *refdns.Msg {
		m := q(N("www", "example", "com"), 1)
		m.Bits |= refdns.BitQR | refdns.BitRA
		m.An = rrs
		return m
	}
	var out [][]byte
	add := func(m *refdns.Msg, comp bool) { out = append(out, m.Encode(comp)) }
	add(q(N("a"), 1), false)
	add(q(nil, 2), false)
	add(q(long, 28), false)
	add(q(N(strings.Repeat("L", 63), "com"), 1), false)
	m := q(N("example", "com"), 1)
	m.Ar = []refdns.RR{refdns.OPT(1232, 0, refdns.Option(8, []byte{0, 1, 24, 0, 192, 0, 2}))}
	add(m, false)
	e := N("www", "example", "com")
	for _, comp := range []bool{false, true} {
		add(resp(refdns.A(e, 60, 1, 2, 3, 4), refdns.AAAA(e, 60, 9)), comp)
		add(resp(refdns.NameRR(refdns.TypeCNAME, e, 60, N("cdn", "example", "com")), refdns.A(N("cdn", "example", "com"), 5, 9, 9, 9, 9)), comp)
		add(resp(refdns.NameRR(refdns.TypeNS, N("example", "com"), 60, N("ns", "example", "com")), refdns.NameRR(refdns.TypePTR, e, 1, e)), comp)
		add(resp(refdns.MX(N("example", "com"), 60, 10, N("mx", "example", "com"))), comp)
		add(resp(refdns.SOA(N("example", "com"), 60, N("ns", "example", "com"), N("root", "example", "com"), 7)), comp)
		add(resp(refdns.SRV(N("_dns", "_tcp", "example", "com"), 60, 1, 2, 53, N("ns", "example", "com"))), comp)
		add(resp(refdns.TXT(e, 60, 20, 'x'), refdns.Unknown(e, 65280, 1, nil), refdns.Unknown(e, 99, 1, []byte{1, 2, 3})), comp)
		mm := resp(refdns.A(e, 60, 1, 2, 3, 4))
		mm.Ns = []refdns.RR{refdns.SOA(N("example", "com"), 60, N("ns", "example", "com"), N("root", "example", "com"), 7)}
		mm.Ar = []refdns.RR{refdns.A(N("ns", "example", "com"), 1, 5, 5, 5, 5), refdns.OPT(4096, 0x8000, nil)}
		add(mm, comp)
	}
	// lying counts
	for _, c := range []uint16{0, 1, 2, 0xFFFF} {
		b := q(N("a"), 1).Encode(false)
		b[4], b[5] = byte(c>>8), byte(c)
		out = append(out, b)
		b2 := append([]byte(nil), b...)
		b2[4], b2[5] = 0, 1
		b2[6], b2[7] = byte(c>>8), byte(c)
		out = append(out, b2)
	}
	return out
}

func TestVerifC01Decoder(t *testing.T) {
	rep := report.New("C01 decoder core")
	defer rep.Write()
	classLen := report.ParamInt("CLASSLEN", 5)
	pairs := report.ParamInt("PAIRS", 0)
	rep.Rule = fmt.Sprintf("E1: (a) every byte string of length 0..2 appended to 6 header templates (counts in {0,1,2,0xFFFF}); every string of length <=%d over a 13-symbol class alphabet "+
		"{00,01,02,3F,40,80,C0,C1,FF,'a',0C,ptr-to-self,ptr-forward} at the question-name, RR-owner and RDATA-name positions; every 4-octet label / raw RDATA over {C0, pointer low bytes into itself, 00,01,3F,'a'} followed by a later name pointing at each of its offsets (pointer graphs hidden in opaque data); (b) around %d seed messages: every prefix, every single-byte substitution (pos x 256), "+
		"every byte deletion/duplication, every compression pointer retargeted to every offset 0..len+1%s; also every string of length<=3 over the alphabet (and all 2-byte strings) through NameScanner/ToReadable/ParseReadable; "+
		"distinct = distinct inputs; oracle = no panic, termination (10 s watchdog, re-run 5x), accepted messages re-pack (both modes and with limit 512) and re-decode",
		classLen, len(c01Seeds()), map[bool]string{true: ", every pair of substitutions over the class alphabet", false: ""}[pairs > 0])

	// watchdog
	done := make(chan struct{})
	defer close(done)
	go func() {
		last, lastT := int64(-1), time.Now()
		for {
			select {
			case <-done:
				return
			case <-time.After(time.Second):
			}
			p := c01Progress.Load()
			if p != last {
				last, lastT = p, time.Now()
				continue
			}
			if time.Since(lastT) < 10*time.Second {
				continue
			}
			in := *c01Cur.Load()
			hangs := 0
			for i := 0; i < 5; i++ {
				ch := make(chan struct{})
				go func() { c01Decode(in); close(ch) }()
				select {
				case <-ch:
				case <-time.After(5 * time.Second):
					hangs++
				}
			}
			if hangs == 5 {
				rep.Violate("C01:decoder:hang", fmt.Sprintf("decoding does not terminate on input %x", in), map[string]any{"Input": fmt.Sprintf("%x", in)})
				rep.Write()
				os.Exit(1)
			}
			lastT = time.Now()
		}
	}()

	// on behalf of C20 the same enumeration runs with the buffer-ownership hook installed
	var own *env.Own
	if os.Getenv("VERIF_PROP") == "C20" || os.Getenv("VERIF_PROP") == "C04" {
		own = env.InstallOwn(0xA5, false)
		defer env.UninstallOwn()
	}
	poolProbe := func(cp []byte) {
		// the free list of messages: whatever the decoder did with this input, a message taken from the pool afterwards is an empty
		// one - a header or a record left over from an input that failed to decode would show up in somebody else's response
		var probes []*Msg
		for i := 0; i < 3; i++ {
			pm := NewMsg()
			probes = append(probes, pm)
			if pm.Header != (Header{}) || len(pm.Questions)+len(pm.Answers)+len(pm.Authorities)+len(pm.Additionals) != 0 {
				rep.Violate(c01Prop+":decoder:stale-pooled-message", fmt.Sprintf("after decoding %x a message taken from the pool is not empty: header %+v, %d/%d/%d/%d records", cp, pm.Header,
					len(pm.Questions), len(pm.Answers), len(pm.Authorities), len(pm.Additionals)), map[string]any{"Input": fmt.Sprintf("%x", cp)})
				pm.Header = Header{}
				break
			}
		}
		for _, pm := range probes {
			ReleaseMsg(pm)
		}
	}
	n := 0
	try := func(b []byte) {
		n++
		if !report.Owns(n / 64) {
			return
		}
		cp := append([]byte(nil), b...)
		c01Cur.Store(&cp)
		c01Progress.Add(1)
		acc, p := c01Decode(cp)
		if p != nil {
			rep.Violate("C01:decoder:panic", fmt.Sprintf("panic %v on input %x", p, cp), map[string]any{"Input": fmt.Sprintf("%x", cp)})
		}
		if acc {
			rep.Count("accepted", 1)
		}
		poolProbe(cp)
		if own != nil {
			for _, v := range own.Audit() {
				rep.Violate("C20:decoder:ownership:"+strings.SplitN(v, " ", 3)[0]+"-"+strings.SplitN(v+"  ", " ", 3)[1], fmt.Sprintf("%s while decoding %x", v, cp), map[string]any{"Input": fmt.Sprintf("%x", cp)})
			}
		}
		rep.Eval(string(cp))
	}
	if rp := report.ReplayFile(); rp != nil {
		var x struct{ Input string }
		rp.Decode(&x)
		var b []byte
		fmt.Sscanf(x.Input, "%x", &b)
		n = 0
		acc, p := c01Decode(b)
		if p != nil {
			rep.Violate("C01:decoder:panic", fmt.Sprintf("panic %v on input %x", p, b), map[string]any{"Input": x.Input})
		}
		poolProbe(b)
		rep.Note(fmt.Sprintf("replayed, accepted=%v", acc))
		return
	}

	// (a1) header templates + all strings of length <= 2
	var templates [][]byte
	for _, cnt := range [][4]uint16{{1, 0, 0, 0}, {0, 1, 0, 0}, {2, 0, 0, 1}, {0xFFFF, 0, 0, 0}, {0, 0, 0xFFFF, 0xFFFF}, {1, 1, 1, 1}} {
		h := make([]byte, 12)
		h[0], h[1], h[2] = 0x12, 0x34, 0x01
		for i, c := range cnt {
			h[4+2*i], h[5+2*i] = byte(c>>8), byte(c)
		}
		templates = append(templates, h)
	}
	for _, h := range templates {
		try(h)
		for a := 0; a < 256; a++ {
			try(append(append([]byte(nil), h...), byte(a)))
			for b := 0; b < 256; b++ {
				try(append(append([]byte(nil), h...), byte(a), byte(b)))
			}
		}
	}
	for l := 0; l < 12; l++ {
		try(make([]byte, l))
	}
	// (a2) class-alphabet strings at name positions
	const nSym = 13
	sym := func(s int, pos int) byte {
		switch s {
		case 10:
			return 0x0C
		case 11:
			return byte(pos - 1) // with a preceding C0: pointer to itself
		case 12:
			return byte(pos + 1) // pointer just past itself
		}
		return []byte{0x00, 0x01, 0x02, 0x3F, 0x40, 0x80, 0xC0, 0xC1, 0xFF, 'a'}[s]
	}
	qmsg := refdns.Query(1, refdns.N("a"), 1, 1).Encode(false) // 12 + 3 + 4
	rrPrefix := append(append([]byte(nil), qmsg...), 0)
	rrPrefix[7] = 1 // one answer; owner name starts at len(qmsg)
	contexts := []struct {
		pre, post []byte
		patch     func(b []byte)
	}{
		{pre: append([]byte(nil), qmsg[:12]...), post: []byte{0, 1, 0, 1}},                                          // question name
		{pre: rrPrefix[:len(rrPrefix)-1], post: []byte{0, 1, 0, 1, 0, 0, 0, 1, 0, 4, 1, 2, 3, 4}},                   // RR owner
		{pre: append(append([]byte(nil), rrPrefix[:len(rrPrefix)-1]...), 0xC0, 0x0C, 0, 5, 0, 1, 0, 0, 0, 1, 0, 0)}, // CNAME rdata (RDLENGTH patched)
	}
	var str []int
	var rec func()
	rec = func() {
		for ci, cx := range contexts {
			b := append([]byte(nil), cx.pre...)
			for _, s := range str {
				b = append(b, sym(s, len(b)))
			}
			if ci == 2 {
				b[len(cx.pre)-1] = byte(len(str))
			}
			b = append(b, cx.post...)
			try(b)
		}
		if len(str) == classLen {
			return
		}
		for s := 0; s < nSym; s++ {
			str = append(str, s)
			rec()
			str = str[:len(str)-1]
		}
	}
	rec()

	// (a3) pointer graphs hidden in opaque data: a first name whose single label holds every string of length 4 over
	// {C0, low bytes pointing at each octet of that label, 00, 01, 3F, 'a'}, followed by a later name (second question,
	// RR owner, CNAME RDATA) that is a pointer to each offset of that region
	{
		symsA3 := []byte{0xC0, 0x0C, 0x0D, 0x0E, 0x0F, 0x10, 0x11, 0x00, 0x01, 0x3F, 'a'}
		var lab [4]byte
		for v := 0; v < len(symsA3)*len(symsA3)*len(symsA3)*len(symsA3); v++ {
			x := v
			for i := range lab {
				lab[i] = symsA3[x%len(symsA3)]
				x /= len(symsA3)
			}
			for tgt := 12; tgt <= 18; tgt++ {
				// two questions
				b := []byte{0x12, 0x34, 0x01, 0x00, 0, 2, 0, 0, 0, 0, 0, 0, 4, lab[0], lab[1], lab[2], lab[3], 0, 0, 1, 0, 1, 0xC0, byte(tgt), 0, 1, 0, 1}
				try(b)
				// one question + one answer whose owner is the pointer
				b2 := []byte{0x12, 0x34, 0x81, 0x80, 0, 1, 0, 1, 0, 0, 0, 0, 4, lab[0], lab[1], lab[2], lab[3], 0, 0, 1, 0, 1, 0xC0, byte(tgt), 0, 1, 0, 1, 0, 0, 0, 9, 0, 4, 1, 2, 3, 4}
				try(b2)
				// pointer inside CNAME RDATA, the opaque data is the RDATA of a preceding TXT-like record
				b3 := []byte{0x12, 0x34, 0x81, 0x80, 0, 0, 0, 2, 0, 0, 0, 0, 0, 0, 16, 0, 1, 0, 0, 0, 9, 0, 4, lab[0], lab[1], lab[2], lab[3], 0, 0, 5, 0, 1, 0, 0, 0, 9, 0, 2, 0xC0, byte(tgt + 11)}
				try(b3)
			}
		}
	}

	// (b) deviations around the seed corpus
	class := []byte{0x00, 0x01, 0x3F, 0x40, 0x80, 0xC0, 0xFF, 0x0C}
	for si, seed := range c01Seeds() {
		for l := 0; l <= len(seed); l++ {
			try(seed[:l])
		}
		for p := range seed {
			for v := 0; v < 256; v++ {
				if byte(v) == seed[p] {
					continue
				}
				b := append([]byte(nil), seed...)
				b[p] = byte(v)
				try(b)
			}
			try(append(append([]byte(nil), seed[:p]...), seed[p+1:]...))
			try(append(append(append([]byte(nil), seed[:p+1]...), seed[p]), seed[p+1:]...))
			if seed[p]&0xC0 == 0xC0 && p+1 < len(seed) {
				for tgt := 0; tgt <= len(seed)+1; tgt++ {
					b := append([]byte(nil), seed...)
					b[p], b[p+1] = 0xC0|byte(tgt>>8), byte(tgt)
					try(b)
				}
			}
		}
		if pairs > 0 && si%pairs == 0 {
			for p := 12; p < len(seed); p++ {
				for q := p + 1; q < len(seed); q++ {
					for _, v := range class {
						for _, w := range class {
							b := append([]byte(nil), seed...)
							b[p], b[q] = v, w
							try(b)
						}
					}
				}
			}
		}
	}

	// name helpers on arbitrary bytes
	tryName := func(b []byte) {
		n++
		if !report.Owns(n / 64) {
			return
		}
		func() {
			defer func() {
				if r := recover(); r != nil {
					rep.Violate("C01:name-helpers:panic", fmt.Sprintf("panic %v on %x", r, b), nil)
				}
			}()
			if rb, err := ToReadable(b); err == nil {
				ReleaseName(Name(rb))
			}
			cp := append([]byte(nil), b...)
			ToLowerName(cp)
			var nb NameBuilder
			if len(b) > 0 { // ParseReadable documents empty input as root; covered by C11
				nb.ParseReadable(cp)
			} else {
				nb.ParseReadable(cp)
			}
			Name(cp).PackLen()
			buf := make([]byte, 300)
			Name(cp).pack(buf, 0, map[string]uint16{})
		}()
		rep.Eval("name:" + string(b))
	}
	tryName(nil)
	for a := 0; a < 256; a++ {
		tryName([]byte{byte(a)})
		for b := 0; b < 256; b++ {
			tryName([]byte{byte(a), byte(b)})
		}
	}
	for _, l := range []int{253, 254, 255, 256, 300} {
		b := make([]byte, l)
		for i := range b {
			b[i] = 1
			if i%2 == 1 {
				b[i] = 'a'
			}
		}
		tryName(b)
		tryName([]byte(strings.Repeat("a.", l/2)))
		tryName([]byte(strings.Repeat("a", l)))
	}
	rep.Sample(map[string]any{"template+2bytes": "123401000001000000000000 c0 0c", "class_string_at_question_name": "…header… c0 0b 00010001 (pointer to itself)", "seed_mutation": "every prefix / byte substitution / pointer retarget of 27 seed messages"})
	rep.Count("inputs_enumerated_total", int64(0))
	if sh, _ := report.Shard(); sh == 0 {
		rep.Count("inputs_enumerated_total", int64(n))
	}
}
