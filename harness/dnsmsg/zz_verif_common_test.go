package dnsmsg

// Shared helpers for the C01/C02/C09 harnesses: three independent decoders
// (reference, miekg/dns, x/net dnsmessage) used to canonicalise wire data.

import (
	"bytes"
	"fmt"

	"github.com/IrineSistiana/mosproxy/internal/zzverif/refdns"
	"github.com/miekg/dns"
	"golang.org/x/net/dns/dnsmessage"
)

func vPack(m *Msg, compression bool, size int) (out []byte, err error) {
	defer func() {
		if r := recover(); r != nil {
			err = fmt.Errorf("PANIC in Pack: %v", r)
		}
	}()
	b := make([]byte, m.Len())
	n, err := m.Pack(b, compression, size)
	if err != nil {
		return nil, err
	}
	return b[:n], nil
}

func vUnpack(b []byte) (m *Msg, err error) {
	defer func() {
		if r := recover(); r != nil {
			err = fmt.Errorf("PANIC in Unpack: %v", r)
		}
	}()
	return UnpackMsg(b)
}

// canonical content of wire data as seen by each decoder
func vCanonRef(b []byte) (string, error) {
	m, err := refdns.Decode(b)
	if err != nil {
		return "", err
	}
	return m.Canon(), nil
}

func vCanonProxy(b []byte) (string, error) {
	m, err := vUnpack(b)
	if err != nil {
		return "", err
	}
	defer ReleaseMsg(m)
	u, err := vPack(m, false, 0)
	if err != nil {
		return "", err
	}
	return vCanonRef(u)
}

func vCanonMiekg(b []byte) (s string, err error) {
	defer func() {
		if r := recover(); r != nil {
			err = fmt.Errorf("miekg panic: %v", r)
		}
	}()
	m := new(dns.Msg)
	if err := m.Unpack(b); err != nil {
		return "", err
	}
	m.Compress = false
	u, err := m.Pack()
	if err != nil {
		return "", err
	}
	return vCanonRef(u)
}

func vCanonXnet(b []byte) (s string, err error) {
	defer func() {
		if r := recover(); r != nil {
			err = fmt.Errorf("xnet panic: %v", r)
		}
	}()
	var m dnsmessage.Message
	if err := m.Unpack(b); err != nil {
		return "", err
	}
	u, err := m.Pack()
	if err != nil {
		return "", err
	}
	return vCanonRef(u)
}

// x/net stores names as dotted strings, so labels containing '.' cannot be represented.
func vXnetCanRepresent(m *refdns.Msg) bool {
	ok := true
	chk := func(n refdns.Name) {
		for _, l := range n {
			if bytes.IndexByte(l, '.') >= 0 {
				ok = false
			}
		}
	}
	for _, q := range m.Q {
		chk(q.Name)
	}
	for _, s := range [][]refdns.RR{m.An, m.Ns, m.Ar} {
		for _, r := range s {
			chk(r.Owner)
			for _, p := range r.Parts {
				if p.IsName {
					chk(p.Name)
				}
			}
		}
	}
	return ok
}

func vFirstDiff(a, b string) string {
	n := len(a)
	if len(b) < n {
		n = len(b)
	}
	i := 0
	for i < n && a[i] == b[i] {
		i++
	}
	lo := i - 30
	if lo < 0 {
		lo = 0
	}
	ha, hb := i+50, i+50
	if ha > len(a) {
		ha = len(a)
	}
	if hb > len(b) {
		hb = len(b)
	}
	return fmt.Sprintf("at %d: want ...%s  got ...%s", i, a[lo:ha], b[lo:hb])
}
