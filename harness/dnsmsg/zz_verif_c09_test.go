package dnsmsg

// C09: size limit and well-formed truncation of Msg.Pack. Exhaustive over
// record sequences x section assignments x OPT position x limits x compression.

import (
	"fmt"
	"sort"
	"strings"
	"testing"

	"github.com/IrineSistiana/mosproxy/internal/zzverif/refdns"
	"github.com/IrineSistiana/mosproxy/internal/zzverif/report"
)

func c09Records() []refdns.RR {
	N := refdns.N
	return []refdns.RR{
		refdns.A(N("a"), 300, 192, 0, 2, 1),
		refdns.NameRR(refdns.TypeCNAME, N("www", "example", "a"), 60, N("cdn", "example", "a")),
		refdns.TXT(N("Example", "A"), 60, 96, 't'), // the question name in other letter case: equal as a DNS name, not octet-identical (no compression pointer to the question)
		refdns.TXT(N("a"), 60, 405, 'u'),
		refdns.SOA(N("example", "a"), 60, N("ns", "example", "a"), N("root", "example", "a"), 1),
	}
}

type c09Case struct {
	desc  string
	m     *refdns.Msg
	limit int
	comp  bool
}

func c09IsSubseq(kept, orig []refdns.RR) bool {
	j := 0
	for i := range kept {
		for j < len(orig) && orig[j].Canon() != kept[i].Canon() {
			j++
		}
		if j == len(orig) {
			return false
		}
		j++
	}
	return true
}

func c09NonOpt(rs []refdns.RR) []string {
	var o []string
	for i := range rs {
		if rs[i].Type != refdns.TypeOPT {
			o = append(o, rs[i].Canon())
		}
	}
	sort.Strings(o)
	return o
}

func c09SubMultiset(kept, orig []string) bool {
	cnt := map[string]int{}
	for _, s := range orig {
		cnt[s]++
	}
	for _, s := range kept {
		cnt[s]--
		if cnt[s] < 0 {
			return false
		}
	}
	return true
}

func c09Check(rep *report.R, c c09Case, replay any) {
	in := c.m.Encode(false)
	U := len(in)
	pm, err := vUnpack(in)
	if err != nil {
		rep.Violate("C09:unpack-rejects-valid", fmt.Sprintf("%s: %v", c.desc, err), replay)
		return
	}
	defer ReleaseMsg(pm)
	out, err := vPack(pm, c.comp, c.limit)
	viol := func(sig, msg string) {
		rep.Violate("C09:pack:"+sig, fmt.Sprintf("%s limit=%d compress=%v uncompressed=%d: %s\nout=%x", c.desc, c.limit, c.comp, U, msg, trunc(out)), replay)
	}
	if err != nil {
		rep.Eval("err")
		viol("error", "Pack failed: "+err.Error())
		return
	}
	eff := c.limit
	if eff > 0 && eff < 512 {
		eff = 512
	}
	if eff > 0 && len(out) > eff {
		viol("over-limit", fmt.Sprintf("output has %d bytes", len(out)))
	}
	d, derr := refdns.Decode(out)
	if derr != nil {
		rep.Eval("undecodable")
		hdrTC := len(out) >= 4 && out[2]&0x02 != 0
		viol(fmt.Sprintf("undecodable:tc=%v", hdrTC), fmt.Sprintf("output does not decode cleanly (%v): header counts do not match the records present", derr))
		return
	}
	for _, dn := range []struct {
		n string
		f func([]byte) (string, error)
	}{{"miekg", vCanonMiekg}, {"xnet", vCanonXnet}} {
		if _, e := dn.f(out); e != nil {
			if _, e0 := dn.f(in); e0 == nil {
				viol("undecodable-by-"+dn.n, e.Error())
			}
		}
	}
	omitted := (len(c.m.An) - len(d.An)) + (len(c.m.Ns) - len(d.Ns)) + (len(c.m.Ar) - len(d.Ar)) + (len(c.m.Q) - len(d.Q))
	wantTC := c.m.Has(refdns.BitTC) || omitted > 0
	if d.Has(refdns.BitTC) != wantTC {
		viol(fmt.Sprintf("tc-wrong:omitted=%v", omitted > 0), fmt.Sprintf("TC=%v but %d records omitted", d.Has(refdns.BitTC), omitted))
	}
	if (d.Bits&^refdns.BitTC) != (c.m.Bits&^refdns.BitTC) || d.ID != c.m.ID {
		viol("header-changed", fmt.Sprintf("id/bits %d/%04x -> %d/%04x", c.m.ID, c.m.Bits, d.ID, d.Bits))
	}
	if (eff == 0 || U <= eff) && omitted != 0 {
		viol("omitted-though-fits", fmt.Sprintf("%d records omitted although the uncompressed encoding (%d) fits", omitted, U))
	}
	if len(d.Q) != len(c.m.Q) {
		viol("question-dropped", "question section changed")
	} else {
		for i := range d.Q {
			if !d.Q[i].Name.Equal(c.m.Q[i].Name) || d.Q[i].Type != c.m.Q[i].Type || d.Q[i].Class != c.m.Q[i].Class {
				viol("question-changed", "question differs")
			}
		}
	}
	if len(d.OPTs()) != len(c.m.OPTs()) {
		viol("opt-dropped", fmt.Sprintf("OPT records %d -> %d", len(c.m.OPTs()), len(d.OPTs())))
	} else if len(d.OPTs()) == 1 && d.OPTs()[0].Canon() != c.m.OPTs()[0].Canon() {
		viol("opt-changed", "OPT record modified")
	}
	if !c09IsSubseq(d.An, c.m.An) {
		viol("answer-order", "kept answers are not an in-order subsequence of the originals")
	}
	if !c09IsSubseq(d.Ns, c.m.Ns) {
		viol("authority-order", "kept authority records are not an in-order subsequence of the originals")
	}
	if !c09SubMultiset(c09NonOpt(d.Ar), c09NonOpt(c.m.Ar)) {
		viol("additional-changed", "kept additional records are not a subset of the originals")
	}
	rep.Eval(fmt.Sprintf("%s|%d|%v|%d|%d", c.m.Canon()[:min(len(c.m.Canon()), 4000)], c.limit, c.comp, len(out), omitted))
	if omitted > 0 {
		rep.Count("truncated_cases", 1)
	}
}

func trunc(b []byte) []byte {
	if len(b) > 600 {
		return b[:600]
	}
	return b
}

func c09Limits(m *refdns.Msg) []int {
	set := map[int]bool{0: true, 100: true, 512: true, 513: true, 1232: true, 4096: true, 65535: true}
	U := m.Len()
	for _, d := range []int{-1, 0, 1} {
		set[U+d] = true
	}
	// +-2 window around every record boundary (uncompressed offsets), also shifted by the OPT length
	off := 12
	for i := range m.Q {
		off += m.Q[i].Len()
	}
	optLen := 0
	for _, o := range m.OPTs() {
		optLen = o.Len()
	}
	for _, s := range [][]refdns.RR{m.An, m.Ns, m.Ar} {
		for i := range s {
			if s[i].Type == refdns.TypeOPT {
				continue
			}
			off += s[i].Len()
			for d := -2; d <= 2; d++ {
				set[off+d] = true
				set[off+optLen+d] = true
			}
		}
	}
	// the same around every record boundary of the compressed encoding (the packer's running offset when compression is on)
	{
		pm := &refdns.Msg{ID: m.ID, Bits: m.Bits, Q: m.Q}
		secs := [][]refdns.RR{m.An, m.Ns, m.Ar}
		for si, sec := range secs {
			for i := range sec {
				if sec[i].Type == refdns.TypeOPT {
					continue
				}
				switch si {
				case 0:
					pm.An = append(pm.An, sec[i])
				case 1:
					pm.Ns = append(pm.Ns, sec[i])
				default:
					pm.Ar = append(pm.Ar, sec[i])
				}
				cl := len(pm.Encode(true))
				for _, d := range []int{-9, -5, -2, -1, 0, 1, 2} {
					set[cl+d] = true
					set[cl+optLen+d] = true
				}
			}
		}
	}
	var out []int
	for l := range set {
		if l == 0 || l == 100 || (l >= 512 && l <= 65535) {
			out = append(out, l)
		}
	}
	sort.Ints(out)
	return out
}

func c09Enumerate(maxRec int, emit func(c09Case)) {
	recs := c09Records()
	opt := refdns.OPT(1232, 0, refdns.Option(10, []byte{1, 2, 3, 4, 5, 6, 7, 8}))
	var seq []int
	var rec func()
	rec = func() {
		k := len(seq)
		for _, secs := range c02Sections(k) {
			nAr := 0
			for _, s := range secs {
				if s == 2 {
					nAr++
				}
			}
			// OPT absent (-1) or at each position of the additional section
			for op := -1; op <= nAr; op++ {
				for _, tc := range []bool{false, true} {
					if tc && k > 2 {
						continue // pre-set TC only explored on short messages
					}
					m := &refdns.Msg{ID: 0xBEEF, Bits: refdns.BitQR | refdns.BitRD | refdns.BitRA,
						Q: []refdns.Q{{Name: refdns.N("example", "a"), Type: 16, Class: 1}}}
					if tc {
						m.Bits |= refdns.BitTC
					}
					ai := 0
					for i, s := range seq {
						r := recs[s]
						r.TTL = uint32(100 + i) // make duplicates distinguishable so order is observable
						switch secs[i] {
						case 0:
							m.An = append(m.An, r)
						case 1:
							m.Ns = append(m.Ns, r)
						default:
							if ai == op {
								m.Ar = append(m.Ar, opt)
							}
							ai++
							m.Ar = append(m.Ar, r)
						}
					}
					if op == nAr {
						m.Ar = append(m.Ar, opt)
					}
					for _, lim := range c09Limits(m) {
						for _, comp := range []bool{false, true} {
							emit(c09Case{desc: fmt.Sprintf("records %v sections %v optPos %d tc=%v", seq, secs, op, tc), m: m, limit: lim, comp: comp})
						}
					}
				}
			}
		}
		if k == maxRec {
			return
		}
		for i := range recs {
			seq = append(seq, i)
			rec()
			seq = seq[:len(seq)-1]
		}
	}
	rec()
	// > 64 KiB messages against the 65535 limit of the stream transports
	bigs := []refdns.RR{
		refdns.Unknown(refdns.N("a"), 65280, 1, []byte(strings.Repeat("x", 16000))),
		refdns.Unknown(refdns.N("b", "a"), 65280, 1, []byte(strings.Repeat("y", 30000))),
		refdns.A(refdns.N("a"), 1, 1, 1, 1, 1),
	}
	var bseq []int
	var brec func()
	brec = func() {
		if len(bseq) >= 3 {
			for _, withOpt := range []bool{false, true} {
				m := &refdns.Msg{ID: 1, Bits: refdns.BitQR, Q: []refdns.Q{{Name: refdns.N("a"), Type: 255, Class: 1}}}
				for i, s := range bseq {
					r := bigs[s]
					r.TTL = uint32(i + 1)
					if i%2 == 0 {
						m.An = append(m.An, r)
					} else {
						m.Ns = append(m.Ns, r)
					}
				}
				sort.SliceStable(m.An, func(i, j int) bool { return false })
				if withOpt {
					m.Ar = append(m.Ar, opt)
				}
				U := m.Len()
				for _, lim := range []int{0, 65535, 65534, 40000, U, U - 1} {
					if lim < 0 || lim > 65535 {
						continue
					}
					for _, comp := range []bool{false, true} {
						emit(c09Case{desc: fmt.Sprintf("big records %v opt=%v", bseq, withOpt), m: m, limit: lim, comp: comp})
					}
				}
			}
		}
		if len(bseq) == 5 {
			return
		}
		for i := range bigs {
			bseq = append(bseq, i)
			brec()
			bseq = bseq[:len(bseq)-1]
		}
	}
	brec()
}

func TestVerifC09(t *testing.T) {
	rep := report.New("C09 Pack truncation")
	defer rep.Write()
	maxRec := report.ParamInt("MAXREC", 4)
	rep.Rule = fmt.Sprintf("E1: all sequences of <=%d records over {17B A, compressible CNAME, 96B TXT, 405B TXT, SOA} x all nondecreasing section assignments x OPT absent/at every additional position x "+
		"limits {0,100,512,513,1232,4096,65535, U-1,U,U+1, +-2 around every record boundary of the uncompressed and {-9,-5,-2..+2} of the compressed encoding (also shifted by the OPT length)} x compression on/off; plus 3..5 records of {16000B,30000B,A} against 65535/65534/40000/U/U-1; "+
		"oracle: length<=max(512,limit), decodes cleanly (reference, miekg, x/net), TC<=>omitted, nothing omitted if uncompressed fits, question+OPT retained, kept answer/authority records in order and byte-equal; "+
		"distinct = distinct (message, limit, compress, output length, omitted count)", maxRec)
	if rp := report.ReplayFile(); rp != nil {
		var x struct{ Idx int }
		rp.Decode(&x)
		i := 0
		c09Enumerate(maxRec, func(c c09Case) {
			if i == x.Idx {
				c09Check(rep, c, map[string]any{"Idx": i})
			}
			i++
		})
		return
	}
	i := 0
	c09Enumerate(maxRec, func(c c09Case) {
		if report.Owns(i / 8) {
			if i%200003 == 0 {
				rep.Sample(map[string]any{"case": c.desc, "limit": c.limit, "compress": c.comp, "uncompressed_len": c.m.Len()})
			}
			c09Check(rep, c, map[string]any{"Idx": i})
		}
		i++
	})
}
