package dnsmsg

// C02: the wire codec preserves message content. Exhaustive enumeration of a
// message grammar; every accepted message is re-encoded with and without
// compression and decoded again by four decoders.

import (
	"fmt"
	"strings"
	"testing"

	"github.com/IrineSistiana/mosproxy/internal/zzverif/refdns"
	"github.com/IrineSistiana/mosproxy/internal/zzverif/report"
)

func c02Names() []refdns.Name {
	N := refdns.N
	long := refdns.N(strings.Repeat("p", 63), strings.Repeat("q", 63), strings.Repeat("r", 63), strings.Repeat("s", 61))
	return []refdns.Name{
		nil, N("a"), N("b", "a"), N("a", "a"), N("a\x01a"), N("abc\x01d"), N("abc", "d"), N("a\x00", "a"), N("\xc0x", "a"),
		N("a.b", "a"), N("a\\", "a"), N("B", "A"), N(strings.Repeat("L", 63), "a"), long,
	}
}

func c02Records() []refdns.RR {
	N := refdns.N
	cookie := refdns.Option(10, []byte{1, 2, 3, 4, 5, 6, 7, 8})
	ecs := refdns.Option(8, []byte{0, 1, 24, 0, 192, 0, 2})
	big := make([]byte, 256)
	for i := range big {
		big[i] = byte(i)
	}
	aCH := refdns.A(N("a"), 5, 1, 2, 3, 4)
	aCH.Class = 3
	return []refdns.RR{
		refdns.A(N("a"), 300, 192, 0, 2, 1),
		refdns.A(N("b", "a"), 0, 192, 0, 2, 2),
		refdns.AAAA(N("a"), 0xFFFFFFFF, 7),
		refdns.NameRR(refdns.TypeNS, N("a"), 60, N("b", "a")),
		refdns.NameRR(refdns.TypeCNAME, N("b", "a"), 60, N("a", "a")),
		refdns.NameRR(refdns.TypePTR, N("a"), 60, N("a")),
		refdns.MX(N("a"), 60, 10, N("b", "a")),
		refdns.SOA(N("a"), 60, N("b", "a"), N("a", "a"), 2024),
		refdns.SRV(N("a"), 60, 1, 2, 853, N("b", "a")),
		refdns.OPT(1232, 0, nil),
		refdns.OPT(4096, 0x00008000, append(append([]byte{}, cookie...), ecs...)),
		refdns.TXT(N("a"), 60, 16, 'x'),
		refdns.Unknown(N("a"), 65280, 60, nil),
		refdns.Unknown(N("b", "a"), 65280, 60, []byte{0xC0, 0x0C, 0x00}),
		refdns.Unknown(N("a"), 65280, 60, big),
		aCH,
		refdns.NameRR(refdns.TypeNS, nil, 1, nil),
		refdns.NameRR(refdns.TypeCNAME, N("abc\x01d"), 60, N("abc", "d")),
		refdns.NameRR(refdns.TypeCNAME, N("abc", "d"), 60, N("abc\x01d")),
		refdns.MX(N("B", "A"), 60, 0, N("a\x01a")),
		refdns.Unknown(N("a"), 0, 60, []byte{1}),
		refdns.Unknown(N("a"), 65535, 60, []byte{2}),
	}
}

type c02Case struct {
	kind       string
	desc       string
	m          *refdns.Msg
	inC        bool        // encode input with compression pointers
	pre        []byte      // if set: bytes fed to the decoder (and normally rejected) before the message under test
	mayReject  bool        // the decoder may legitimately reject this message; only if it accepts must the content survive
	prePack    *refdns.Msg // if set: this message is decoded and packed into a buffer of prePackBuf octets first (the Pack fails half-way)
	prePackBuf int
}

// checkOne runs the oracle on one abstract message; returns an observation string.
func c02Check(rep *report.R, c c02Case, replay any) {
	if c.pre != nil {
		if m, err := vUnpack(c.pre); err == nil {
			ReleaseMsg(m)
		}
	}
	if c.prePack != nil {
		if m, err := vUnpack(c.prePack.Encode(false)); err == nil {
			for _, comp := range []bool{true, false} {
				func() {
					defer func() { recover() }()
					m.Pack(make([]byte, c.prePackBuf), comp, 0)
				}()
			}
			ReleaseMsg(m)
		}
	}
	in := c.m.Encode(c.inC)
	want := c.m.Canon()
	pm, err := vUnpack(in)
	if err != nil && c.mayReject {
		rep.Eval("reject:" + c.desc)
		rep.Count("rejected_optional_"+c.kind, 1)
		return
	}
	if err != nil {
		rep.Eval("reject")
		rep.Violate("C02:"+c.kind+":unpack-rejects-valid", fmt.Sprintf("%s: proxy rejects a well-formed message (%v): %x", c.desc, err, in), replay)
		return
	}
	defer ReleaseMsg(pm)
	obs := ""
	xnetOK := vXnetCanRepresent(c.m)
	for _, comp := range []bool{false, true} {
		out, err := vPack(pm, comp, 0)
		if err != nil {
			rep.Violate(fmt.Sprintf("C02:%s:pack-fails:compress=%v", c.kind, comp), fmt.Sprintf("%s: Pack into a Len()-sized buffer failed: %v", c.desc, err), replay)
			continue
		}
		if !comp && len(out) != pm.Len() {
			rep.Violate("C02:"+c.kind+":len-mismatch", fmt.Sprintf("%s: uncompressed encoding has %d bytes, Len()=%d", c.desc, len(out), pm.Len()), replay)
		}
		if !comp && len(out) != c.m.Len() {
			rep.Violate("C02:"+c.kind+":len-vs-reference", fmt.Sprintf("%s: uncompressed encoding has %d bytes, reference %d", c.desc, len(out), c.m.Len()), replay)
		}
		if comp && len(out) > pm.Len() {
			rep.Violate("C02:"+c.kind+":compressed-longer", fmt.Sprintf("%s: compressed %d > Len() %d", c.desc, len(out), pm.Len()), replay)
		}
		obs += fmt.Sprintf("%d/", len(out))
		type dec struct {
			name string
			f    func([]byte) (string, error)
			skip bool
		}
		for _, d := range []dec{{"ref", vCanonRef, false}, {"proxy", vCanonProxy, false}, {"miekg", vCanonMiekg, false}, {"xnet", vCanonXnet, !xnetOK}} {
			if d.skip {
				rep.Count("skipped_"+d.name, 1)
				continue
			}
			got, err := d.f(out)
			if err != nil {
				// an independent decoder that also rejects the *input* has its own limitation; not the proxy's fault
				if d.name == "miekg" || d.name == "xnet" {
					if _, e0 := d.f(in); e0 != nil {
						rep.Count("indep_rejects_input_"+d.name, 1)
						continue
					}
				}
				rep.Violate(fmt.Sprintf("C02:%s:undecodable:%s:compress=%v", c.kind, d.name, comp),
					fmt.Sprintf("%s: output of Pack(compress=%v) is rejected by %s: %v\n in=%x\nout=%x", c.desc, comp, d.name, err, in, out), replay)
				continue
			}
			if got != want {
				rep.Violate(fmt.Sprintf("C02:%s:content-changed:%s:compress=%v", c.kind, d.name, comp),
					fmt.Sprintf("%s: Pack(compress=%v) decoded by %s differs: %s\n in=%x\nout=%x", c.desc, comp, d.name, vFirstDiff(want, got), in, out), replay)
			}
		}
	}
	rep.Eval(want + obs)
}

func c02Sections(k int) [][]int {
	// nondecreasing section assignments for k records
	var out [][]int
	var rec func(cur []int)
	rec = func(cur []int) {
		if len(cur) == k {
			out = append(out, append([]int(nil), cur...))
			return
		}
		lo := 0
		if len(cur) > 0 {
			lo = cur[len(cur)-1]
		}
		for s := lo; s < 3; s++ {
			rec(append(cur, s))
		}
	}
	rec(nil)
	return out
}

func c02Build(qn int, recs []refdns.RR, secs []int, names []refdns.Name) *refdns.Msg {
	m := &refdns.Msg{ID: 0x1234, Bits: refdns.BitQR | refdns.BitRD | refdns.BitRA}
	for i := 0; i < qn; i++ {
		m.Q = append(m.Q, refdns.Q{Name: names[(i*2+1)%len(names)], Type: uint16(1 + 27*i), Class: 1})
	}
	for i, r := range recs {
		switch secs[i] {
		case 0:
			m.An = append(m.An, r)
		case 1:
			m.Ns = append(m.Ns, r)
		default:
			m.Ar = append(m.Ar, r)
		}
	}
	return m
}

func TestVerifC02(t *testing.T) {
	rep := report.New("C02 codec round trip")
	defer rep.Write()
	names := c02Names()
	recs := c02Records()
	maxRec := report.ParamInt("MAXREC", 2)
	slots := report.ParamInt("SLOTS", 4)
	rep.Rule = fmt.Sprintf("E1: (hdr) all 2^7 flag sets x 16 opcodes x 16 rcodes x 3 ids; (types) all sequences of <=%d records over a %d-record alphabet x all nondecreasing section assignments x 0..2 questions x input compression on/off; "+
		"(names) all assignments of a %d-name collision alphabet to %d name slots x 4 rdata-name types x input compression on/off; each case: proxy Unpack -> Pack(compress off/on, no limit) -> decoded by reference decoder, proxy, miekg/dns, x/net dnsmessage and compared with the abstract message; "+
		"distinct = distinct (canonical content, output lengths)", maxRec, len(recs), len(names), slots)

	if rp := report.ReplayFile(); rp != nil {
		var x struct {
			Kind string
			Idx  int
		}
		rp.Decode(&x)
		i := 0
		c02Enumerate(names, recs, maxRec, slots, func(c c02Case) {
			if c.kind == x.Kind && i == x.Idx {
				c02Check(rep, c, map[string]any{"Kind": x.Kind, "Idx": x.Idx})
			}
			if c.kind == x.Kind {
				i++
			}
		})
		return
	}
	idx := map[string]int{}
	total := 0
	c02Enumerate(names, recs, maxRec, slots, func(c c02Case) {
		i := idx[c.kind]
		idx[c.kind]++
		total++
		if !report.Owns(total) {
			return
		}
		if i%50021 == 0 {
			rep.Sample(map[string]any{"kind": c.kind, "case": c.desc, "wire_in": fmt.Sprintf("%x", c.m.Encode(c.inC))})
		}
		c02Check(rep, c, map[string]any{"Kind": c.kind, "Idx": i})
	})
	if sh, _ := report.Shard(); sh == 0 {
		for k, v := range idx {
			rep.Count("cases_"+k, int64(v))
		}
	}
}

func c02Enumerate(names []refdns.Name, recs []refdns.RR, maxRec, slots int, emit func(c02Case)) {
	// (hdr)
	flags := []uint16{refdns.BitQR, refdns.BitAA, refdns.BitTC, refdns.BitRD, refdns.BitRA, refdns.BitAD, refdns.BitCD}
	for _, id := range []uint16{0, 0x1234, 0xFFFF} {
		for fs := 0; fs < 1<<7; fs++ {
			for op := 0; op < 16; op++ {
				for rc := 0; rc < 16; rc++ {
					var bits uint16
					for i, f := range flags {
						if fs&(1<<i) != 0 {
							bits |= f
						}
					}
					bits |= uint16(op)<<11 | uint16(rc)
					m := &refdns.Msg{ID: id, Bits: bits, Q: []refdns.Q{{Name: refdns.N("a"), Type: 1, Class: 1}}}
					emit(c02Case{kind: "hdr", desc: fmt.Sprintf("header id=%d bits=%04x", id, bits), m: m})
				}
			}
		}
	}
	// (types)
	var seq []int
	var rec func()
	rec = func() {
		k := len(seq)
		rs := make([]refdns.RR, k)
		for i, s := range seq {
			rs[i] = recs[s]
		}
		for _, secs := range c02Sections(k) {
			for qn := 0; qn <= 2; qn++ {
				for _, inC := range []bool{false, true} {
					m := c02Build(qn, rs, secs, names)
					emit(c02Case{kind: "types", desc: fmt.Sprintf("records %v sections %v questions %d inputCompressed=%v", seq, secs, qn, inC), m: m, inC: inC})
				}
			}
		}
		if k == maxRec {
			return
		}
		for i := range recs {
			seq = append(seq, i)
			rec()
			seq = seq[:len(seq)-1]
		}
	}
	rec()
	// many records per section: every combination of 0..18 answers x 0..8 authorities x 0..3 additionals, each record with its own
	// address (so a record that ends up in another section, is lost or is doubled shows): section sizes beyond whatever a decoder
	// preallocates, and every way the sections can border on each other
	{
		N := refdns.N
		for na := 0; na <= 18; na++ {
			for nn := 0; nn <= 8; nn++ {
				for nr := 0; nr <= 3; nr++ {
					if na+nn+nr < 6 {
						continue // small combinations are covered by (types)
					}
					m := &refdns.Msg{ID: 7, Bits: refdns.BitQR, Q: []refdns.Q{{Name: N("many", "test"), Type: 1, Class: 1}}}
					for i := 0; i < na; i++ {
						m.An = append(m.An, refdns.A(N("many", "test"), 60, 10, 1, byte(i), 1))
					}
					for i := 0; i < nn; i++ {
						m.Ns = append(m.Ns, refdns.NameRR(refdns.TypeNS, N("test"), 60, N(fmt.Sprintf("ns%d", i), "test")))
					}
					for i := 0; i < nr; i++ {
						m.Ar = append(m.Ar, refdns.A(N(fmt.Sprintf("ns%d", i), "test"), 60, 10, 3, byte(i), 3))
					}
					emit(c02Case{kind: "many", desc: fmt.Sprintf("%d answers, %d authorities, %d additionals", na, nn, nr), m: m, inC: na%2 == 0})
				}
			}
		}
	}
	// names first occurring at offset >= 0x4000 (no pointer may be created to them)
	{
		bigrr := refdns.Unknown(refdns.N("a"), 65280, 1, make([]byte, 16400))
		for _, n := range names {
			for _, inC := range []bool{false, true} {
				m := &refdns.Msg{ID: 9, Bits: refdns.BitQR, Q: []refdns.Q{{Name: refdns.N("a"), Type: 1, Class: 1}},
					An: []refdns.RR{bigrr, refdns.NameRR(refdns.TypeCNAME, n, 1, n), refdns.NameRR(refdns.TypeCNAME, n, 1, n)}}
				emit(c02Case{kind: "far", desc: fmt.Sprintf("name %s first seen beyond offset 0x4000, inputCompressed=%v", n, inC), m: m, inC: inC})
			}
		}
	}
	// names straddling offset 0x4000: only the labels that start below the boundary may become pointer targets
	{
		N := refdns.N
		full := N("aaaa", "bbbb", "cccc")
		for d := 0; d <= 16; d++ {
			for _, inC := range []bool{false, true} {
				m := &refdns.Msg{ID: 9, Bits: refdns.BitQR, Q: []refdns.Q{{Name: N("q"), Type: 1, Class: 1}}}
				// header 12 + question 7 + first record (owner "q" compressed or not) ... pad so that the straddling owner starts at 0x4000-d
				pad := refdns.Unknown(N("q"), 65280, 1, nil)
				probe := &refdns.Msg{ID: 9, Bits: refdns.BitQR, Q: m.Q, An: []refdns.RR{pad}}
				base := len(probe.Encode(inC))
				want := 0x4000 - d
				if want-base < 0 {
					continue
				}
				pad = refdns.Unknown(N("q"), 65280, 1, make([]byte, want-base))
				m.An = []refdns.RR{pad, refdns.A(full, 1, 1, 2, 3, 4), refdns.A(N("bbbb", "cccc"), 1, 5, 6, 7, 8), refdns.NameRR(refdns.TypeCNAME, N("cccc"), 1, N("x", "bbbb", "cccc"))}
				emit(c02Case{kind: "straddle", desc: fmt.Sprintf("owner aaaa.bbbb.cccc starts %d octets below offset 0x4000, inputCompressed=%v", d, inC), m: m, inC: inC})
			}
		}
	}
	// records of interpreted types with empty RDATA (dynamic update style, classes IN/NONE/ANY): whatever the decoder accepts must survive
	{
		N := refdns.N
		for _, typ := range []uint16{refdns.TypeA, refdns.TypeAAAA, refdns.TypeCNAME, refdns.TypeNS, refdns.TypePTR, refdns.TypeMX, refdns.TypeSOA, refdns.TypeSRV, refdns.TypeTXT, refdns.TypeOPT} {
			for _, class := range []uint16{1, 254, 255} {
				for _, sec := range []int{0, 1, 2} {
					r := refdns.RR{Owner: N("upd", "a"), Type: typ, Class: class, TTL: 0}
					m := &refdns.Msg{ID: 5, Bits: 5 << 11, Q: []refdns.Q{{Name: N("a"), Type: refdns.TypeSOA, Class: 1}}}
					switch sec {
					case 0:
						m.An = []refdns.RR{r}
					case 1:
						m.Ns = []refdns.RR{r, refdns.A(N("a"), 1, 1, 1, 1, 1)}
					default:
						m.Ar = []refdns.RR{r}
					}
					emit(c02Case{kind: "empty-rdata", desc: fmt.Sprintf("type %d class %d with RDLENGTH 0 in section %d", typ, class, sec), m: m, mayReject: true})
				}
			}
		}
	}
	// (after-malformed) a rejected input must not disturb the codec state used by later messages:
	// every prefix of, and every RDLENGTH lie in, a few seed messages is decoded (and rejected) first
	{
		N := refdns.N
		victim := &refdns.Msg{ID: 3, Bits: refdns.BitQR, Q: []refdns.Q{{Name: N("example", "org"), Type: 1, Class: 1}},
			An: []refdns.RR{refdns.NameRR(refdns.TypeCNAME, N("example", "org"), 5, N("example", "net")), refdns.MX(N("example", "net"), 5, 1, N("mail", "example", "com"))}}
		seeds := []*refdns.Msg{
			{ID: 1, Bits: refdns.BitQR, Q: []refdns.Q{{Name: N("poison", "test"), Type: 1, Class: 1}}, An: []refdns.RR{refdns.A(N("poison", "test"), 1, 1, 2, 3, 4), refdns.MX(N("poison", "abcd"), 1, 1, N("mx", "poison", "efgh"))}},
			{ID: 2, Bits: refdns.BitQR, An: []refdns.RR{refdns.SOA(N("poisons", "xyz"), 1, N("ns", "poisons", "xyz"), N("root", "poison", "uvw"), 1), refdns.SRV(N("s"), 1, 1, 1, 1, N("target", "poison"))}},
		}
		for si, sd := range seeds {
			for _, comp := range []bool{false, true} {
				w := sd.Encode(comp)
				var bads [][]byte
				for l := 12; l < len(w); l++ {
					bads = append(bads, w[:l])
				}
				for p := 12; p+1 < len(w); p++ {
					for _, v := range []byte{0, 1, 0xFF} {
						b := append([]byte(nil), w...)
						b[p] = v
						bads = append(bads, b)
					}
				}
				for bi, bad := range bads {
					emit(c02Case{kind: "after-malformed", desc: fmt.Sprintf("after rejecting variant %d of seed %d (compressed=%v): %x", bi, si, comp, bad), m: victim, pre: bad})
				}
			}
		}
	}
	// (after-failed-pack) a Pack that fails half-way (buffer too small at every possible length) must not disturb later Packs:
	// the victim shares name suffixes with the failed message at other offsets
	{
		N := refdns.N
		victims := []*refdns.Msg{
			{ID: 3, Bits: refdns.BitQR, Q: []refdns.Q{{Name: N("www", "example", "org"), Type: 1, Class: 1}},
				An: []refdns.RR{refdns.NameRR(refdns.TypeCNAME, N("www", "example", "org"), 5, N("cdn", "example", "net")), refdns.A(N("cdn", "example", "net"), 5, 1, 2, 3, 4), refdns.MX(N("example", "org"), 5, 1, N("mail", "example", "org"))}},
			{ID: 4, Bits: refdns.BitQR, Q: []refdns.Q{{Name: N("a", "b", "poison", "test"), Type: 1, Class: 1}}, An: []refdns.RR{refdns.A(N("a", "b", "poison", "test"), 1, 1, 2, 3, 4)}},
		}
		failed := []*refdns.Msg{
			{ID: 1, Bits: refdns.BitQR, Q: []refdns.Q{{Name: N("x", "example", "org"), Type: 1, Class: 1}}, An: []refdns.RR{refdns.MX(N("y", "z", "example", "net"), 1, 1, N("mail", "example", "org")), refdns.A(N("poison", "test"), 1, 1, 2, 3, 4)}},
			{ID: 2, Bits: refdns.BitQR, Q: []refdns.Q{{Name: N("poison", "test"), Type: 1, Class: 1}}, An: []refdns.RR{refdns.SOA(N("b", "poison", "test"), 1, N("ns", "example", "net"), N("root", "example", "org"), 1)}},
		}
		for fi, f := range failed {
			for size := 0; size < f.Len(); size++ {
				for vi, v := range victims {
					emit(c02Case{kind: "after-failed-pack", desc: fmt.Sprintf("victim %d after packing message %d into a %d octet buffer (needs %d)", vi, fi, size, f.Len()), m: v, prePack: f, prePackBuf: size})
				}
			}
		}
	}
	// (large) messages whose uncompressed encoding is around and far beyond 65535 octets while the received (compressed) form is
	// small: "no size limit" means no limit, nothing is dropped
	{
		owner := refdns.N(strings.Repeat("o", 50), "big", "example", "test")
		ol := 1
		for _, l := range owner {
			ol += 1 + len(l)
		}
		per := ol + 14 // one A record, uncompressed
		base := 12 + ol + 4
		for _, n := range []int{(65535 - base) / per, (65535-base)/per + 1, (65535-base)/per + 2, 2 * (65535 - base) / per, 4500} {
			m := &refdns.Msg{ID: 9, Bits: refdns.BitQR, Q: []refdns.Q{{Name: owner, Type: 1, Class: 1}}}
			for i := 0; i < n; i++ {
				m.An = append(m.An, refdns.A(owner, 60, byte(i>>8), byte(i), 3, 4))
			}
			emit(c02Case{kind: "large", desc: fmt.Sprintf("%d A records, uncompressed length %d", n, m.Len()), m: m, inC: true})
		}
	}
	// (names)
	nn := len(names)
	cnt := 1
	for i := 0; i < slots; i++ {
		cnt *= nn
	}
	mk := func(t int, owner, target refdns.Name) refdns.RR {
		switch t {
		case 0:
			return refdns.NameRR(refdns.TypeCNAME, owner, 30, target)
		case 1:
			return refdns.MX(owner, 30, 5, target)
		case 2:
			return refdns.SOA(owner, 30, target, owner, 1)
		default:
			return refdns.SRV(owner, 30, 0, 0, 53, target)
		}
	}
	for v := 0; v < cnt; v++ {
		sl := make([]refdns.Name, 5)
		x := v
		for i := 0; i < slots; i++ {
			sl[i] = names[x%nn]
			x /= nn
		}
		for i := slots; i < 5; i++ {
			sl[i] = names[(v+i)%nn]
		}
		for t := 0; t < 4; t++ {
			for _, inC := range []bool{false, true} {
				m := &refdns.Msg{ID: 7, Bits: refdns.BitQR | refdns.BitRA, Q: []refdns.Q{{Name: sl[0], Type: 5, Class: 1}}}
				m.An = append(m.An, mk(t, sl[1], sl[2]))
				m.Ns = append(m.Ns, mk((t+1)%4, sl[3], sl[4]))
				emit(c02Case{kind: "names", desc: fmt.Sprintf("q=%s rr1(%d)=%s->%s rr2=%s->%s inputCompressed=%v", sl[0], t, sl[1], sl[2], sl[3], sl[4], inC), m: m, inC: inC})
			}
		}
	}
}
