package router

// C03 (many queries in flight, real sockets): thousands of UDP queries are waiting for an upstream that stays silent; a query that a
// reject rule answers locally still gets its response at once - handling one query never waits for the others.

import (
	"context"
	"fmt"
	"net"
	"testing"
	"time"

	"github.com/IrineSistiana/mosproxy/internal/mlog"
	"github.com/IrineSistiana/mosproxy/internal/zzverif/refdns"
	"github.com/IrineSistiana/mosproxy/internal/zzverif/report"
	"github.com/rs/zerolog"
)

func TestVerifC03ManyInFlight(t *testing.T) {
	mlog.SetLvl(zerolog.Disabled)
	rep := report.New("C03 a local answer while thousands of queries wait for the upstream")
	defer rep.Write()
	n := report.ParamInt("INFLIGHT", 4600)
	rep.Rule = fmt.Sprintf("real router from configuration: UDP listener, rule 1 rejects names under fast.test with NXDOMAIN, rule 2 forwards everything else to a local UDP upstream that never answers; %d different queries are sent (paced, so that the listener's socket buffer holds them) and stay in flight, "+
		"then a query for x.fast.test (sent 3 times, 100 ms apart, against datagram loss); oracle: the NXDOMAIN arrives within 4 s - long before the first of the waiting queries reaches its 6 s deadline", n)
	if sh, _ := report.Shard(); sh != 0 {
		rep.Eval("idle-shard")
		rep.Eval("idle-shard2")
		return
	}
	upc, err := net.ListenPacket("udp", "127.0.0.1:0")
	if err != nil {
		t.Fatal(err)
	}
	defer upc.Close()
	go func() { // reads and never answers
		b := make([]byte, 4096)
		for {
			if _, _, err := upc.ReadFrom(b); err != nil {
				return
			}
		}
	}()
	var r *router
	addr := ""
	for try := 0; try < 3 && r == nil; try++ {
		pc, err := net.ListenPacket("udp", "127.0.0.1:0")
		if err != nil {
			t.Fatal(err)
		}
		addr = pc.LocalAddr().String()
		pc.Close()
		cfg := &Config{
			Servers:    []ServerConfig{{Protocol: "udp", Listen: addr, Socket: SocketConfig{SO_RCVBUF: 8 << 20}}},
			Upstreams:  []UpstreamConfig{{Tag: "u", Addr: "udp://" + upc.LocalAddr().String()}},
			DomainSets: []DomainSetConfig{{Tag: "fast", Files: []string{vTmpFile("c03many_fast.txt", "fast.test\n")}}},
			Rules:      []RuleConfig{{Domain: "fast", Reject: 3}, {Forward: "u"}},
		}
		if r, err = run(context.Background(), cfg); err != nil {
			r = nil
		}
	}
	if r == nil {
		rep.Violate("C03:many-in-flight:router-start", "the router did not start", nil)
		return
	}
	defer r.close(nil)
	c, err := net.Dial("udp", addr)
	if err != nil {
		t.Fatal(err)
	}
	defer c.Close()
	ask := func(id uint16, d time.Duration) bool {
		q := refdns.Query(id, refdns.N("x", "fast", "test"), 1, 1).Encode(false)
		deadline := time.Now().Add(d)
		b := make([]byte, 4096)
		for try := 0; try < 3; try++ {
			c.Write(q)
			c.SetReadDeadline(time.Now().Add(100 * time.Millisecond))
			for {
				k, err := c.Read(b)
				if err != nil {
					break
				}
				if m, err := refdns.Decode(b[:k]); err == nil && m.ID == id && m.RCode() == 3 {
					return true
				}
			}
		}
		c.SetReadDeadline(deadline)
		for {
			k, err := c.Read(b)
			if err != nil {
				return false
			}
			if m, err := refdns.Decode(b[:k]); err == nil && m.ID == id && m.RCode() == 3 {
				return true
			}
		}
	}
	rep.Eval("a local answer on the idle listener")
	if !ask(0xFA00, 4*time.Second) {
		rep.Violate("C03:many-in-flight:setup", "x.fast.test is not answered on the idle listener", nil)
		return
	}
	t0 := time.Now()
	for i := 0; i < n; i++ {
		c.Write(refdns.Query(uint16(i), refdns.N(fmt.Sprintf("slow%d", i), "wait", "test"), 1, 1).Encode(false))
		if i%50 == 49 {
			time.Sleep(time.Millisecond)
		}
	}
	rep.Eval(fmt.Sprintf("a local answer with %d queries in flight", n))
	sent := time.Since(t0)
	ok := ask(0xFA01, 4*time.Second)
	if sent > 1500*time.Millisecond {
		// the machine was too slow to put the queries in flight close together: the first ones may be near their deadline, judge nothing
		rep.Note(fmt.Sprintf("sending %d queries took %v: not judged", n, sent))
		rep.Cap("machine too slow for the in-flight burst")
	} else if !ok {
		rep.Violate("C03:many-in-flight:local-answer-delayed", fmt.Sprintf("with %d queries waiting for a silent upstream (put in flight within %v) a query that a reject rule answers locally got no response within 4 s: handling a query waits for the queries in flight", n, sent), nil)
	}
	rep.Sample(map[string]any{"in flight": n, "local answer within 4 s": ok})
}
