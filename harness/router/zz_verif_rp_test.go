package router

// Request path under E3 + E4 (DESIGN 9.13): the real router (rules, cache with client groups, ECS, prefetch) behind
// two pipelining TCP clients of different client groups and a scripted upstream, driven by an event menu, with every
// statement boundary of the router's request-path files a possible pause point (one goroutine may stand still between
// two statements while other requests, upstream replies and refreshes go on).
//
// Oracles hold under any scheduling: a client only ever receives responses to its own queries, at most one each, with
// the question it asked and the answer the upstream gave for that question *and that client's group* (C03, C04, C07);
// an upstream query carries a question some client asked and the /24 of a client that asked it (C04, C12); nothing
// recycled shows up on a wire (C20); at the end - everything resumed, every upstream query answered, 7 s later -
// every query on an open connection has exactly one response (C03).

import (
	"fmt"
	"net/netip"
	"os"
	"strings"
	"testing"
	"time"

	"github.com/IrineSistiana/mosproxy/internal/zzverif/choice"
	"github.com/IrineSistiana/mosproxy/internal/zzverif/env"
	"github.com/IrineSistiana/mosproxy/internal/zzverif/refdns"
	"github.com/IrineSistiana/mosproxy/internal/zzverif/report"
)

var rpProp = func() string {
	if p := os.Getenv("VERIF_PROP"); p != "" {
		return p
	}
	return "C04"
}()

var rpSigs = map[string]string{
	"foreign-response": "C04 C03", "duplicate-response": "C03 C13", "wrong-question": "C04 C03", "wrong-answer": "C04 C07", "other-groups-entry": "C07 C04",
	"undecodable-response": "C03 C13 C20", "response-missing": "C03", "upstream-question": "C04 C10", "upstream-ecs": "C12 C04", "tainted": "C20 C04",
	"ownership": "C20", "router-start": "C03 C04 C07 C12 C19 C20 C13", "concurrent-refreshes": "C19", "panic": "C01 C03 C20",
}

func rpScenario(c *choice.Ctx, rep *report.R, depth int) {
	own := env.InstallOwn(0xA5, vRace)
	defer env.UninstallOwn()
	var trace []string
	fail := func(sig, msg string) {
		if !strings.Contains(rpSigs[sig], rpProp) {
			return
		}
		rep.Violate(rpProp+":request-path:"+sig, msg+"\n  events: "+strings.Join(trace, " ")+pauseNote(), map[string]any{"Choices": c.Choices()})
	}
	cfg := c03Config("forward")
	cfg.Cache.MemSize = 1 << 20
	cfg.Cache.IpMarker = vTmpFile("c07_marker.txt", c07Marker)
	cfg.ECS.Enabled = true
	v, err := vNewRouter(cfg, "u1")
	if err != nil {
		fail("router-start", err.Error())
		return
	}
	defer func() {
		pauseEnd()
		wait()
		v.Close()
	}()
	u := v.ups["u1"]
	srv := v.newTCPServer(0, 100000*time.Second)
	type client struct {
		idx   int
		group string
		net24 [3]byte
		sc    *streamClient
		sent  map[uint16]int // id -> question index
		seen  map[uint16]int // id -> responses
		nresp int
	}
	clients := []*client{{idx: 0, group: "g1", net24: [3]byte{10, 0, 0}}, {idx: 1, group: "g2", net24: [3]byte{10, 0, 1}}}
	for i, ip := range []string{"10.0.0.7", "10.0.1.7"} {
		clients[i].sc = v.tcpClient(srv, netip.AddrPortFrom(netip.MustParseAddr(ip), 5000), vLocalV4)
		clients[i].sent, clients[i].seen = map[uint16]int{}, map[uint16]int{}
	}
	names := []refdns.Name{refdns.N("one", "example", "test"), refdns.N("two", "example", "test")}
	asked := map[int]map[[3]byte]bool{0: {}, 1: {}} // question -> /24s of the clients that asked it
	nsent := 0
	serial := byte(0)
	type sinfo struct {
		q     int
		group string
	}
	serials := map[byte]sinfo{}
	ecsNet := func(uq *upQuery) (n [3]byte, ok bool) {
		if uq.Msg == nil || len(uq.Msg.OPTs()) != 1 {
			return
		}
		d := uq.Msg.OPTs()[0].RData()
		if len(d) < 11 || d[0] != 0 || d[1] != 8 {
			return
		}
		return [3]byte{d[8], d[9], d[10]}, true
	}
	qIndex := func(m *refdns.Msg) int {
		if m == nil || len(m.Q) != 1 {
			return -1
		}
		for i, n := range names {
			if m.Q[0].Name.Lower().Equal(n) {
				return i
			}
		}
		return -1
	}
	checkedUp := 0
	check := func() {
		// upstream side
		qs := u.Queries()
		for _, uq := range qs[checkedUp:] {
			qi := qIndex(uq.Msg)
			if qi < 0 || uq.Msg.Q[0].Type != 1 || uq.Msg.Q[0].Class != 1 {
				fail("upstream-question", fmt.Sprintf("upstream query #%d asks %v, which no client asked", uq.Idx, uq.Msg))
				continue
			}
			n, ok := ecsNet(uq)
			if !ok || !asked[qi][n] {
				fail("upstream-ecs", fmt.Sprintf("upstream query #%d for %s carries client subnet %v (ok=%v); the clients that asked this question are in %v", uq.Idx, names[qi], n, ok, asked[qi]))
			}
		}
		checkedUp = len(qs)
		// client side
		for _, cl := range clients {
			if t := own.Tainted(cl.sc.impl.Written()); t != "" {
				fail("tainted", fmt.Sprintf("bytes sent to client %d contain %s", cl.idx, t))
			}
			rs := cl.sc.Responses()
			for _, r := range rs[cl.nresp:] {
				if r == nil {
					fail("undecodable-response", fmt.Sprintf("client %d received an undecodable frame", cl.idx))
					continue
				}
				qi, mine := cl.sent[r.ID]
				if !mine {
					fail("foreign-response", fmt.Sprintf("client %d received a response with id %#x, which it never used: %s", cl.idx, r.ID, r.Canon()))
					continue
				}
				cl.seen[r.ID]++
				if cl.seen[r.ID] > 1 {
					fail("duplicate-response", fmt.Sprintf("client %d received %d responses to its query %#x", cl.idx, cl.seen[r.ID], r.ID))
				}
				if got := qIndex(r); got != qi {
					fail("wrong-question", fmt.Sprintf("client %d asked %s with id %#x and received a response about %v", cl.idx, names[qi], r.ID, r.Q))
					continue
				}
				if r.RCode() != 0 || len(r.An) == 0 {
					continue // SERVFAIL after an upstream failure
				}
				key, s, ok := env.AnswerKey(r)
				if !ok || key != env.KeyIP(names[qi], 1, 1) {
					fail("wrong-answer", fmt.Sprintf("client %d asked %s and received the answer to another question: %s", cl.idx, names[qi], r.Canon()))
					continue
				}
				if si, known := serials[s]; !known || si.q != qi {
					fail("wrong-answer", fmt.Sprintf("client %d asked %s and received an answer (serial %d) the upstream never gave for it", cl.idx, names[qi], s))
				} else if si.group != cl.group {
					fail("other-groups-entry", fmt.Sprintf("client %d (group %s) was served the answer fetched for group %s (serial %d)", cl.idx, cl.group, si.group, s))
				}
			}
			cl.nresp = len(rs)
		}
		// single flight: per (question, client group) every client request still waiting for its response may have one upstream
		// query in flight (a miss), and beyond those there is at most one more - the background refresh
		for qi := range names {
			for _, cl := range clients {
				up := 0
				for _, p := range u.Pending() {
					if n, ok := ecsNet(p); ok && qIndex(p.Msg) == qi && n == cl.net24 {
						up++
					}
				}
				waiting := 0
				for id, q := range cl.sent {
					if q == qi && cl.seen[id] == 0 {
						waiting++
					}
				}
				if up > waiting+1 {
					fail("concurrent-refreshes", fmt.Sprintf("%d upstream queries in flight for %s and the group of client %d while %d of its requests wait for a response: more than one background refresh", up, names[qi], cl.idx, waiting))
				}
			}
		}
	}
	aged := false
	// start state: a fresh router, or one whose cache holds the answer to question one for group g1 in the last quarter of its
	// lifetime (the next hit on it starts a background refresh) - the non-initial state most of the interesting orders need
	if c.Choose(2, "start-state") == 1 {
		cl := clients[0]
		cl.sent[0x2fff] = 0
		asked[0][cl.net24] = true
		cl.sc.SendMsg(refdns.Query(0x2fff, names[0], 1, 1))
		wait()
		if ps := u.Pending(); len(ps) == 1 {
			serial++
			serials[serial] = sinfo{0, "g1"}
			ps[0].Reply(env.Answer(ps[0].Msg, serial, 20).Encode(false))
		}
		wait()
		aged = true
		hsleep(15500 * time.Millisecond)
		wait()
		check()
		trace = append(trace, "[one/g1 cached, 15.5 s old]")
	}
	pauseBegin(c)
	for step := 0; step < depth; step++ {
		var menu []event
		if nsent < 4 {
			for _, cl := range clients {
				for qi := range names {
					cl, qi := cl, qi
					if pauseMode && cl.idx == 1 && qi == 1 {
						continue // (pause mode, smaller menu) the second client asks question one only: same question from two groups, two questions from one client
					}
					menu = append(menu, event{name: fmt.Sprintf("send(c%d,%s)", cl.idx, names[qi][0]), do: func() {
						id := uint16(0x3000 + nsent)
						nsent++
						cl.sent[id] = qi
						asked[qi][cl.net24] = true
						cl.sc.SendMsg(refdns.Query(id, names[qi], 1, 1))
					}})
				}
			}
		}
		for _, p := range u.Pending() {
			p := p
			qi := qIndex(p.Msg)
			if qi < 0 {
				continue
			}
			n, _ := ecsNet(p)
			g := map[[3]byte]string{{10, 0, 0}: "g1", {10, 0, 1}: "g2"}[n]
			menu = append(menu, event{name: fmt.Sprintf("reply(#%d)", p.Idx), do: func() {
				serial++
				serials[serial] = sinfo{qi, g}
				p.Reply(env.Answer(p.Msg, serial, 20).Encode(false))
			}})
			menu = append(menu, event{name: fmt.Sprintf("fail(#%d)", p.Idx), fault: true, do: func() { p.Fail() }})
		}
		if !aged && len(serials) > 0 {
			// entries stored so far enter the last quarter of their lifetime: the next hit starts a background refresh
			menu = append(menu, event{name: "advance15.5s", do: func() { aged = true; hsleep(15500 * time.Millisecond) }})
		}
		menu = append(menu, event{name: "advance1s", fault: true, do: func() { hsleep(time.Second) }})
		ev := pickEvent(c, menu)
		if ev == nil {
			break
		}
		trace = append(trace, ev.name)
		ev.do()
		wait()
		check()
	}
	selOff()
	// wind down: the held goroutine goes on, every upstream query is answered, request deadlines pass
	if resume() {
		wait()
	}
	pauseEnd()
	for round := 0; round < 6; round++ {
		ps := u.Pending()
		if len(ps) == 0 {
			break
		}
		for _, p := range ps {
			if qi := qIndex(p.Msg); qi >= 0 {
				n, _ := ecsNet(p)
				serial++
				serials[serial] = sinfo{qi, map[[3]byte]string{{10, 0, 0}: "g1", {10, 0, 1}: "g2"}[n]}
				p.Reply(env.Answer(p.Msg, serial, 20).Encode(false))
			} else {
				p.Fail()
			}
		}
		wait()
	}
	hsleep(7 * time.Second)
	wait()
	check()
	for _, cl := range clients {
		for id := range cl.sent {
			if cl.seen[id] != 1 {
				fail("response-missing", fmt.Sprintf("client %d: query %#x has %d responses after every upstream query was answered and 7 s passed", cl.idx, id, cl.seen[id]))
			}
		}
	}
	v.Close()
	for _, x := range own.Audit() {
		fail("ownership", x)
	}
	rep.Eval(strings.Join(trace, ","))
	rep.State(fmt.Sprintf("%d|%d|%d", nsent, len(u.Queries()), serial))
}

func TestVerifRP(t *testing.T) {
	rep := report.New(rpProp + " request path (E3 + E4)")
	defer rep.Write()
	depth := report.ParamInt("DEPTH", 5)
	bound := report.ParamInt("FAULTS", 1)
	rep.Rule = fmt.Sprintf("E3+E4: real router (forward rule, memory cache with two client groups, ECS, prefetch) behind two pipelining TCP clients (10.0.0.7 in g1, 10.0.1.7 in g2) and a scripted upstream; start states {fresh, answer to question one cached for g1 and 15.5 s old}; all sequences of length <=%d over {a client sends question one / two (<=4 queries), an upstream query is answered / fails, advance 15.5 s (entries enter their refresh window), advance 1 s} with <=%d fault events; "+
		"with PAUSE=1 additionally every statement boundary reached in router.go, cache.go, context.go, server_tcp.go, server_utils.go, ecs.go is a choice point 'this goroutine stands still here until resumed' (one per execution); "+
		"oracle (scheduling-independent): a client receives only responses to its own queries, at most one each, about the question it asked, carrying the answer the upstream gave for that question and that client's group; an upstream query asks a question some client asked and carries the /24 of a client that asked it; "+
		"nothing recycled on a wire; after the wind-down every query has exactly one response; ownership audit", depth, bound)
	st := runExplore(t, rep, bound, func(c *choice.Ctx) { rpScenario(c, rep, depth) })
	rep.Count("executions", st.Executions)
	rep.Sample(map[string]any{"events": "send(c0,one),reply(#0),advance15.5s,send(c0,one),[refresh goroutine held at its first statement],send(c1,two),resume", "oracle": "the refresh asks for 'one' with 10.0.0.0/24"})
}
