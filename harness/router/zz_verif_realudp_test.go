package router

// C03 / C01 (real sockets, the UDP listener's own read loop): the E3 seam enters
// the UDP listener at handleMsg, i.e. behind the loop that receives datagrams in
// batches and slices payload and control data. This part runs that loop: a real
// router started from configuration, UDP listener with multi_routes {on, off},
// a reject rule (no upstream needed).
//
// C03: a sweep over query sizes - every valid query of wire length 17..560 and a
// few larger ones up to the listener's 2048-octet receive buffer - gets exactly
// one response with its id, QR=1 and its question.
// C01: bursts in which valid queries are sent back-to-back with runts and garbage,
// so that they are received in the same batch: every valid query of a burst is
// answered, the process survives. Bursts are small (no receive-buffer overflow,
// so loopback does not lose datagrams) and the harness waits for all replies of a
// burst before the next one.

import (
	"bytes"
	"context"
	"fmt"
	"net"
	"os"
	"testing"
	"time"

	"github.com/IrineSistiana/mosproxy/internal/mlog"
	"github.com/IrineSistiana/mosproxy/internal/zzverif/refdns"
	"github.com/IrineSistiana/mosproxy/internal/zzverif/report"
	"github.com/rs/zerolog"
)

// realUDPQuery builds a valid query whose wire form has exactly n octets (nil if impossible).
func realUDPQuery(id uint16, n int) *refdns.Msg {
	if nameWire := n - 16; nameWire >= 1 && nameWire <= 255 && nameWire != 2 {
		var name refdns.Name
		for rest := nameWire - 1; rest > 0; {
			l := rest - 1
			if l > 63 {
				l = 63
				if rest-64 == 1 { // would leave a label of length 0
					l = 62
				}
			}
			name = append(name, bytes.Repeat([]byte{'a' + byte(len(name)%26)}, l))
			rest -= l + 1
		}
		return refdns.Query(id, name, 1, 1)
	}
	if k := n - 39; k >= 0 {
		q := refdns.Query(id, refdns.N("p", "test"), 1, 1)
		q.Ar = []refdns.RR{refdns.OPT(4096, 0, refdns.Option(12, make([]byte, k)))}
		return q
	}
	return nil
}

func TestVerifRealUDP(t *testing.T) {
	mlog.SetLvl(zerolog.Disabled)
	prop := os.Getenv("VERIF_PROP")
	if prop != "C01" {
		prop = "C03"
	}
	rep := report.New(prop + " UDP listener read loop on real sockets")
	defer rep.Write()
	bursts := report.ParamInt("BURSTS", 150)
	rep.Rule = fmt.Sprintf("real router from configuration, UDP listener on 127.0.0.1 with multi_routes {on, off}, reject rule. C03: valid queries of every wire length 17..560 and {700, 1000, 1232, 1472, 2000, 2047, 2048} octets, one at a time: "+
		"exactly one response each with the query's id, QR=1, rcode NXDOMAIN and the query's question. C01: %d bursts of 12 datagrams sent back-to-back from one socket (valid queries interleaved with runts of 0..11 octets, a header-only datagram, "+
		"lying counts and 600 octets of garbage): every valid query of a burst is answered (the harness waits up to 4 s per burst, resends nothing), the listener keeps answering afterwards", bursts)
	if sh, _ := report.Shard(); sh != 0 {
		rep.Eval("idle-shard")
		rep.Eval("idle-shard2")
		return
	}
	for _, multi := range []bool{false, true} {
		var r *router
		var addr string
		var err error
		for try := 0; try < 3; try++ {
			pc, e := net.ListenPacket("udp", "127.0.0.1:0")
			if e != nil {
				t.Fatal(e)
			}
			addr = pc.LocalAddr().String()
			pc.Close()
			cfg := &Config{
				Servers: []ServerConfig{{Protocol: "udp", Listen: addr, Udp: UdpConfig{MultiRoutes: multi}}},
				Rules:   []RuleConfig{{Reject: 3}},
			}
			if r, err = run(context.Background(), cfg); err == nil {
				break
			}
		}
		if err != nil {
			rep.Violate(prop+":real-udp:router-start", err.Error(), nil)
			continue
		}
		func() {
			defer r.close(nil)
			c, err := net.Dial("udp", addr)
			if err != nil {
				t.Fatal(err)
			}
			defer c.Close()
			buf := make([]byte, 4096)
			// collect reads responses until all ids in want were seen or the deadline passes; returns count per id
			collect := func(want map[uint16]bool, d time.Duration) map[uint16][]*refdns.Msg {
				got := map[uint16][]*refdns.Msg{}
				deadline := time.Now().Add(d)
				for {
					missing := 0
					for id := range want {
						if len(got[id]) == 0 {
							missing++
						}
					}
					if missing == 0 {
						// a short grace period for duplicates
						deadline = time.Now().Add(30 * time.Millisecond)
						want = nil
					}
					c.SetReadDeadline(deadline)
					n, err := c.Read(buf)
					if err != nil {
						return got
					}
					if m, derr := refdns.Decode(buf[:n]); derr == nil {
						got[m.ID] = append(got[m.ID], m)
					} else {
						rep.Violate(prop+":real-udp:undecodable-response", fmt.Sprintf("multi_routes=%v: %x", multi, buf[:n]), nil)
					}
				}
			}
			if prop == "C03" {
				var sizes []int
				for n := 17; n <= 560; n++ {
					sizes = append(sizes, n)
				}
				sizes = append(sizes, 700, 1000, 1232, 1472, 2000, 2047, 2048)
				id := uint16(0x300)
				for _, n := range sizes {
					id++
					q := realUDPQuery(id, n)
					if q == nil {
						continue
					}
					w := q.Encode(false)
					if len(w) != n {
						t.Fatalf("harness: query of %d octets came out as %d", n, len(w))
					}
					desc := fmt.Sprintf("multi_routes=%v query of %d octets", multi, n)
					rep.Eval(desc)
					c.Write(w)
					got := collect(map[uint16]bool{id: true}, 4*time.Second)
					switch rs := got[id]; {
					case len(rs) == 0:
						rep.Violate(fmt.Sprintf("C03:real-udp:no-response:multi_routes=%v", multi), "a valid query got no response within 4 s: "+desc, nil)
					case len(rs) > 1:
						rep.Violate("C03:real-udp:duplicate-response", desc, nil)
					default:
						m := rs[0]
						if !m.Has(refdns.BitQR) || m.RCode() != 3 || len(m.Q) != 1 || m.Q[0].Name.String() != q.Q[0].Name.String() {
							rep.Violate("C03:real-udp:bad-response", fmt.Sprintf("%s: got %s", desc, m.Canon()), nil)
						}
					}
				}
				return
			}
			// C01: bursts
			valid := func(id uint16) []byte {
				return refdns.Query(id, refdns.N("burst", "example", "test"), 1, 1).Encode(false)
			}
			lying := valid(0xEEEE)
			lying[4], lying[5], lying[6], lying[7] = 0xFF, 0xFF, 0xFF, 0xFF
			junk := [][]byte{{}, {0}, make([]byte, 5), make([]byte, 11), make([]byte, 12), lying, bytes.Repeat([]byte{0x3F}, 600), valid(0xEEEF)[:20]}
			id := uint16(0x100)
			lost := 0
			for b := 0; b < bursts && lost < 3; b++ {
				want := map[uint16]bool{}
				var burst [][]byte
				for i := 0; i < 12; i++ {
					if i%2 == 0 {
						id++
						want[id] = true
						burst = append(burst, valid(id))
					} else {
						burst = append(burst, junk[(b+i/2)%len(junk)])
					}
				}
				for _, d := range burst {
					c.Write(d)
				}
				if b%25 == 0 {
					rep.Eval(fmt.Sprintf("multi_routes=%v burst %d", multi, b))
				}
				got := collect(want, 4*time.Second)
				for wid := range want {
					if len(got[wid]) == 0 {
						lost++
						rep.Violate(fmt.Sprintf("C01:real-udp:valid-query-behind-malformed-datagram-unanswered:multi_routes=%v", multi), fmt.Sprintf("burst %d: 6 valid queries interleaved with malformed datagrams were sent back-to-back; the query with id %#x got no response within 4 s (%d of 6 answered)", b, wid, len(got)), nil)
						break
					}
				}
			}
			rep.AddTransitions(int64(bursts * 12))
			id++
			c.Write(valid(id))
			if got := collect(map[uint16]bool{id: true}, 4*time.Second); len(got[id]) == 0 {
				rep.Violate("C01:real-udp:listener-dead-after-bursts", fmt.Sprintf("multi_routes=%v: a valid query after the bursts got no response", multi), nil)
			}
		}()
	}
	rep.Sample(map[string]any{"input": "valid query of 17 octets (root, no OPT) with multi_routes on", "expect": "one NXDOMAIN response"})
}
