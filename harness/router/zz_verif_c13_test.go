package router

// C13: stream listeners frame correctly under any segmentation and pipelining.
// The same script is fed to tcpServer.handleConn (in-memory conn) and to
// gnetServer.OnTraffic (fake gnet conn, one call per segment); both are
// compared with a reference framer.

import (
	"bytes"
	"fmt"
	"sort"
	"strings"
	"testing"
	"time"

	"github.com/IrineSistiana/mosproxy/internal/zzverif/choice"
	"github.com/IrineSistiana/mosproxy/internal/zzverif/env"
	"github.com/IrineSistiana/mosproxy/internal/zzverif/refdns"
	"github.com/IrineSistiana/mosproxy/internal/zzverif/report"
)

// c13Inner is a complete, well-formed frame carried *inside* the body of every query but the first (as the payload of an EDNS
// padding option). A listener that loses track of frame boundaries at a cut placed right in front of it would decode it as a query
// of its own; its id (0x4242) is one no client ever sent.
var c13Inner = refdns.Frame(refdns.Query(0x4242, refdns.N("inner", "test"), 1, 1).Encode(false))

func c13Query(i int) *refdns.Msg {
	n := refdns.N(fmt.Sprintf("q%d%s", i, strings.Repeat("x", i*7)), "example", "test")
	q := refdns.Query(uint16(0x1300+i), n, 1, 1)
	if i >= 1 {
		q.Ar = []refdns.RR{refdns.OPT(1232, 0, refdns.Option(12, c13Inner))}
	}
	return q
}

// candidate cut positions inside a stream of frames (absolute offsets, exclusive of 0 and len)
func c13Cuts(frames [][]byte, rich bool) []int {
	var cuts []int
	off := 0
	for i, f := range frames {
		body := len(f) - 2
		mid := 2 + body/2
		if e := bytes.Index(f, c13Inner); e > 2 {
			mid = e // "mid body" is the spot right in front of the embedded frame
		}
		cand := []int{1, mid}
		if rich {
			cand = []int{1, 2, 3, mid, len(f) - 1}
		}
		for _, c := range cand {
			cuts = append(cuts, off+c)
		}
		off += len(f)
		if i < len(frames)-1 {
			cuts = append(cuts, off)
		}
	}
	return cuts
}

func c13Split(stream []byte, cuts []int, mask int) [][]byte {
	var segs [][]byte
	prev := 0
	for i, c := range cuts {
		if mask&(1<<i) != 0 {
			segs = append(segs, stream[prev:c])
			prev = c
		}
	}
	return append(segs, stream[prev:])
}

func c13Perms(n int) [][]int {
	var out [][]int
	var rec func(cur []int, used int)
	rec = func(cur []int, used int) {
		if len(cur) == n {
			out = append(out, append([]int(nil), cur...))
			return
		}
		for i := 0; i < n; i++ {
			if used&(1<<i) == 0 {
				rec(append(cur, i), used|1<<i)
			}
		}
	}
	rec(nil, 0)
	return out
}

func c13Scenario(c *choice.Ctx, rep *report.R, minK, maxK int, rich bool, fullSeg bool) {
	own := env.InstallOwn(0xA5, vRace)
	defer env.UninstallOwn()
	kind := []string{"tcp", "gnet"}[c.Choose(2, "listener")]
	k := minK + c.Choose(maxK-minK+1, "k")
	limit := []int32{100, 1, 2}[c.Choose(3, "limit")]
	var frames [][]byte
	var stream []byte
	for i := 0; i < k; i++ {
		q := c13Query(i)
		if fullSeg {
			q.Q[0].Name = nil // the shortest possible query: every segmentation of its 19 byte frame is enumerated
		}
		f := refdns.Frame(q.Encode(false))
		frames = append(frames, f)
		stream = append(stream, f...)
	}
	var cuts []int
	if fullSeg {
		for i := 1; i < len(stream); i++ {
			cuts = append(cuts, i)
		}
	} else {
		cuts = c13Cuts(frames, rich)
	}
	mask := c.Choose(1<<len(cuts), "segmentation")
	segs := c13Split(stream, cuts, mask)
	accepted := k
	if int(limit) < k {
		accepted = int(limit)
	}
	perms := c13Perms(accepted)
	perm := perms[c.Choose(len(perms), "completion-order")]
	stallWrites := kind == "tcp" && accepted >= 2 && c.Choose(2, "park-writes") == 1
	// an earlier connection of the same listener sent a length prefix and part of a body and went away: nothing of it may leak
	// into this connection (recycled per-connection state)
	prevMode := c.Choose(3, "previous-connection") // 0 none, 1 left a partial frame, 2 was closed with a query in flight that is answered afterwards
	prevConn := prevMode == 1
	prevInflight := prevMode == 2
	// the client pauses for longer than the idle timeout between two segments while its earlier queries are still being handled:
	// the listener may close the connection, but whatever it sends stays well-formed and answers only queries that were sent
	pause := kind == "tcp" && !stallWrites && len(segs) >= 2 && k >= 2 && c.Choose(2, "pause-longer-than-idle-timeout") == 1
	idleTO := 100 * time.Second
	if pause {
		idleTO = 2 * time.Second
	}
	var segLens []int
	for _, s := range segs {
		segLens = append(segLens, len(s))
	}
	desc := fmt.Sprintf("listener=%s k=%d limit=%d segments=%v completion=%v parkWrites=%v previousConn=%d pause>idle=%v", kind, k, limit, segLens, perm, stallWrites, prevMode, pause)
	fail := func(sig, msg string) {
		if prevMode != 0 && sig != "ownership" {
			// with an earlier connection in the history a wrong outcome means that per-connection state recycled from it (or still
			// held by its late callbacks) leaked into this connection: also C20's subject
			sig = "recycled-state:" + sig
		}
		rep.Violate("C13:"+kind+":"+sig, msg+"\n  "+desc, map[string]any{"Choices": c.Choices()})
	}
	v, err := vNewRouter(c03Config("forward"), "u1")
	if err != nil {
		fail("router-start", err.Error())
		return
	}
	defer v.Close()
	u := v.ups["u1"]
	var send func(seg []byte)
	var written func() []byte
	var tcpImpl *env.End
	partial := []byte{0, 40, 0x13, 0x99, 1, 0, 0}
	switch kind {
	case "tcp":
		srv := v.newTCPServer(limit, idleTO)
		if prevConn || prevInflight {
			p0 := v.tcpClient(srv, vClientV4, vLocalV4)
			if prevInflight {
				p0.SendMsg(refdns.Query(0x13F0, refdns.N("previous", "example", "test"), 1, 1))
			} else {
				p0.Send(partial)
			}
			wait()
			p0.Close()
			wait()
		}
		sc := v.tcpClient(srv, vClientV4, vLocalV4)
		tcpImpl = sc.impl
		if stallWrites {
			sc.impl.StallEach()
		}
		send = func(seg []byte) { sc.Send(seg) }
		written = func() []byte { return sc.impl.Written() }
	default:
		gsrv := v.newGnetServer(limit, 100*time.Second)
		if prevConn || prevInflight {
			g0 := v.gnetClient(gsrv, vClientV4, vLocalV4)
			if prevInflight {
				g0.Send(refdns.Frame(refdns.Query(0x13F0, refdns.N("previous", "example", "test"), 1, 1).Encode(false)))
			} else {
				g0.Send(partial)
			}
			wait()
			g0.Close()
			wait()
			if !prevInflight {
				g0.Stop()
			}
		}
		g := v.gnetClient(gsrv, vClientV4, vLocalV4)
		send = func(seg []byte) { g.Send(seg) }
		written = g.Written
	}
	upOffset := 0
	if prevInflight {
		// the previous connection's query is answered now, when that connection is long gone and this one has been opened
		wait()
		for _, p := range u.Pending() {
			if p.Msg != nil {
				p.Reply(env.Answer(p.Msg, 99, 60).Encode(false))
			}
		}
		wait()
		upOffset = len(u.Queries())
	}
	for i, s := range segs {
		if pause && i == len(segs)-1 {
			hsleep(3 * time.Second)
			wait()
		}
		send(s)
		wait()
	}
	// every frame must have been decoded exactly once: accepted ones are at the upstream, the surplus refused
	pend := u.Pending()
	if len(u.Queries())-upOffset != accepted && !pause {
		fail("decode-count", fmt.Sprintf("%d queries reached the upstream, expected %d of %d frames (limit %d)", len(u.Queries())-upOffset, accepted, k, limit))
	}
	// the upstream answers in the chosen order
	for _, pi := range perm {
		if pi < len(pend) && pend[pi].Msg != nil {
			pend[pi].Reply(env.Answer(pend[pi].Msg, byte(pi+1), 60).Encode(false))
			wait()
		}
	}
	// parked writes complete in an order chosen by the explorer (write completion is an event)
	if stallWrites {
		for guard := 0; guard < 20; guard++ {
			p := tcpImpl.Parked()
			if len(p) == 0 {
				break
			}
			tcpImpl.CommitOne(c.Choose(len(p), fmt.Sprintf("commit-of-%d", len(p))))
			wait()
		}
	}
	hsleep(7 * time.Second)
	wait()
	if stallWrites {
		for len(tcpImpl.Parked()) > 0 {
			tcpImpl.CommitOne(0)
			wait()
		}
	}
	// second batch on the same connection: the in-flight accounting must be back to zero
	upBefore := len(u.Queries())
	for i := 0; i < k; i++ {
		m := c13Query(i)
		if fullSeg {
			m.Q[0].Name = nil
		}
		m.ID += 0x10
		send(refdns.Frame(m.Encode(false)))
	}
	wait()
	if n := len(u.Queries()) - upBefore; n != accepted && !pause {
		fail("decode-count-second-batch", fmt.Sprintf("second batch: %d queries reached the upstream, expected %d of %d (limit %d)", n, accepted, k, limit))
	}
	for _, p := range u.Pending() {
		if p.Msg != nil {
			p.Reply(env.Answer(p.Msg, 9, 60).Encode(false))
		}
	}
	wait()
	if stallWrites {
		for len(tcpImpl.Parked()) > 0 {
			tcpImpl.CommitOne(0)
			wait()
		}
	}
	if stallWrites && k > accepted+1 {
		// a frame behind the first refused one is read only after the parked REFUSED write completes; by then handlers may have
		// finished, so it can be within the limit and go to the upstream, which nobody answers any more: let it time out
		for round := 0; round < 2*k; round++ {
			hsleep(7 * time.Second)
			wait()
			for len(tcpImpl.Parked()) > 0 {
				tcpImpl.CommitOne(0)
				wait()
			}
		}
	}
	out := written()
	fs, rest := env.SplitFrames(out)
	if rest != 0 {
		fail("stream-not-framed", fmt.Sprintf("response stream does not parse as length-prefixed frames (%d trailing bytes): %x", rest, out))
	}
	got := map[uint16][]int{}
	for _, f := range fs {
		m, err := refdns.Decode(f)
		if err != nil {
			fail("frame-undecodable", fmt.Sprintf("a response frame does not decode (%v): %x", err, f))
			continue
		}
		if t := own.Tainted(f); t != "" {
			fail("tainted-frame", "response frame contains "+t)
		}
		got[m.ID] = append(got[m.ID], m.RCode())
	}
	var obs []string
	for j := 0; j < 2*k; j++ {
		i := j % k
		id := uint16(0x1300 + i + 0x10*(j/k))
		want := 0
		if i >= accepted {
			want = 5
		}
		rc := got[id]
		switch {
		case pause && len(rc) <= 1:
			// the connection may have been closed for idleness at any point: missing responses and REFUSED/SERVFAIL are all fine
		case len(rc) == 0:
			dbg := ""
			if tcpImpl != nil {
				dbg = fmt.Sprintf(" [conn closed=%v parked=%d frames=%d upstream=%d]", tcpImpl.IsClosed(), len(tcpImpl.Parked()), len(fs), len(u.Queries()))
			}
			fail("response-missing", fmt.Sprintf("no response for query id %#x (frame %d of %d)%s", id, i, k, dbg))
		case len(rc) > 1:
			fail("response-duplicated", fmt.Sprintf("%d responses for query id %#x", len(rc), id))
		case stallWrites && i > accepted && (rc[0] == 0 || rc[0] == 2 || rc[0] == 5):
			// with parked writes the reader stalls on the first REFUSED response; whether a later frame is beyond the limit
			// when it is finally read depends on which handlers have finished by then: accepted (answered or SERVFAIL after
			// the upstream timeout) and REFUSED are both right
		case rc[0] != want:
			fail("wrong-rcode", fmt.Sprintf("query id %#x: rcode %s, expected %s", id, rcodeName(rc[0]), rcodeName(want)))
		}
		obs = append(obs, fmt.Sprint(rc))
		delete(got, id)
	}
	for id := range got {
		fail("unexpected-response", fmt.Sprintf("response with id %#x that no query had", id))
	}
	sort.Strings(obs)
	v.Close()
	for _, x := range own.Audit() {
		fail("ownership", x)
	}
	rep.Eval(desc)
	rep.State(fmt.Sprintf("%s|%d|%d|%v|%d", kind, k, limit, obs, len(segs)))
}

// c13BadFrame: a frame that cannot be a query (shorter than a header, a bare header cut off, garbage, empty) stands between valid
// pipelined queries. The listener gives the connection up there (or, if it chose to go on, it goes on in step): whatever it answers,
// it never serves a later valid query while skipping an earlier one, and the response stream stays well-framed.
func c13BadFrame(c *choice.Ctx, rep *report.R) {
	own := env.InstallOwn(0xA5, vRace)
	defer env.UninstallOwn()
	kind := []string{"tcp", "gnet"}[c.Choose(2, "listener")]
	bads := [][]byte{{0, 1, 7}, {0, 5, 1, 2, 3, 4, 5}, append([]byte{0, 11}, make([]byte, 11)...), append([]byte{0, 12}, refdns.Query(0x13AA, refdns.N("x"), 1, 1).Encode(false)[:12]...),
		refdns.Frame([]byte{0xde, 0xad, 0xbe, 0xef, 1, 2, 3, 4, 5, 6, 7, 8, 9, 10, 11, 12, 13, 14, 15, 16}), {0, 0}, {0, 2, 0x13, 0x02}}
	bi := c.Choose(len(bads), "bad-frame")
	pos := 1 + c.Choose(2, "bad-frame-position") // after the first / after the second valid query
	oneSegment := c.Choose(2, "one-segment") == 1
	desc := fmt.Sprintf("listener=%s bad frame %x after valid query #%d, one segment=%v", kind, bads[bi], pos, oneSegment)
	fail := func(sig, msg string) {
		rep.Violate("C13:"+kind+":bad-frame:"+sig, msg+"\n  "+desc, map[string]any{"Choices": c.Choices(), "BadFrame": true})
	}
	v, err := vNewRouter(c03Config("forward"), "u1")
	if err != nil {
		fail("router-start", err.Error())
		return
	}
	defer v.Close()
	v.ups["u1"].Auto = func(q *upQuery) *upResult {
		if q.Msg == nil {
			return &upResult{err: errScripted}
		}
		return &upResult{wire: env.Answer(q.Msg, 3, 60).Encode(false)}
	}
	var send func([]byte)
	var written func() []byte
	var closedByServer func() bool
	if kind == "tcp" {
		sc := v.tcpClient(v.newTCPServer(100, 100*time.Second), vClientV4, vLocalV4)
		send, written = func(b []byte) { sc.Send(b) }, func() []byte { return sc.impl.Written() }
		closedByServer = func() bool { return sc.done || sc.impl.IsClosed() }
	} else {
		g := v.gnetClient(v.newGnetServer(100, 100*time.Second), vClientV4, vLocalV4)
		send, written = func(b []byte) { g.Send(b) }, g.Written
		closedByServer = g.Closed
	}
	var parts [][]byte
	for i := 0; i < 4; i++ {
		if i == pos {
			parts = append(parts, bads[bi])
		}
		parts = append(parts, refdns.Frame(c13Query(i).Encode(false)))
	}
	if oneSegment {
		var all []byte
		for _, p := range parts {
			all = append(all, p...)
		}
		send(all)
		wait()
	} else {
		for _, p := range parts {
			send(p)
			wait()
		}
	}
	hsleep(7 * time.Second)
	wait()
	fs, rest := env.SplitFrames(written())
	if rest != 0 {
		fail("stream-not-framed", fmt.Sprintf("response stream has %d trailing bytes", rest))
	}
	answered := map[int]int{}
	for _, f := range fs {
		m, err := refdns.Decode(f)
		if err != nil {
			fail("frame-undecodable", fmt.Sprintf("%x", f))
			continue
		}
		if int(m.ID) >= 0x1300 && int(m.ID) < 0x1304 {
			answered[int(m.ID)-0x1300]++
		} else if !(bi == 3 || bi == 6) { // (the header-only / 2-octet frames carry an id of their own: a FORMERR-style answer to them is the listener's business)
			fail("unexpected-response", fmt.Sprintf("a response with id %#x that no valid query had", m.ID))
		}
	}
	for i := 0; i < 4; i++ {
		if answered[i] > 1 {
			fail("response-duplicated", fmt.Sprintf("query #%d answered %d times", i, answered[i]))
		}
		// (a query in front of the bad frame may lose its response: the listener closes the connection at the bad frame, possibly
		// before the earlier handler has written - the client sent garbage, the listener owes it nothing more)
		if i >= pos && answered[i] == 0 && !closedByServer() {
			fail("kept-open-but-unanswered", fmt.Sprintf("the listener kept the connection open after the bad frame, yet valid query #%d behind it has no response 7 s later: the stream is out of step", i))
		}
		if i > pos && answered[i] == 1 && answered[i-1] == 0 {
			fail("skipped-query", fmt.Sprintf("valid query #%d behind the bad frame was answered although valid query #%d in front of it was not: the stream got out of step", i, i-1))
		}
	}
	v.Close()
	for _, x := range own.Audit() {
		fail("ownership", x)
	}
	rep.Eval(desc + fmt.Sprint(answered))
	rep.State(fmt.Sprintf("bad|%s|%d|%v", kind, bi, answered))
}

// c13Burst: 90 pipelined queries (below the connection's limit of 100 concurrent queries) that reach the listener in ONE read - far
// more frames per read event than the enumeration's 1..3 - on the tcp and the gnet handler: every one is framed, answered and
// answered once, although no further octet arrives on the connection to wake the handler again.
func c13Burst(rep *report.R) {
	for _, kind := range []string{"tcp", "gnet"} {
		for _, n := range []int{63, 64, 65, 90} {
			desc := fmt.Sprintf("%d pipelined queries in one read on the %s handler", n, kind)
			rep.Eval("burst: " + desc)
			v, err := vNewRouter(c03Config("forward"), "u1")
			if err != nil {
				rep.Violate("C13:burst:router-start", err.Error(), nil)
				return
			}
			v.ups["u1"].Auto = func(q *upQuery) *upResult {
				if q.Msg == nil {
					return &upResult{err: errScripted}
				}
				return &upResult{wire: env.Answer(q.Msg, 3, 60).Encode(false)}
			}
			var seg []byte
			for i := 0; i < n; i++ {
				seg = append(seg, refdns.Frame(refdns.Query(uint16(0x2000+i), refdns.N(fmt.Sprintf("b%d", i), "example", "test"), 1, 1).Encode(false))...)
			}
			var written func() []byte
			if kind == "gnet" {
				g := v.gnetClient(v.newGnetServer(0, 300*time.Second), vClientV4, vLocalV4)
				g.Send(seg)
				written = g.Written
			} else {
				sc := v.tcpClient(v.newTCPServer(0, 300*time.Second), vClientV4, vLocalV4)
				sc.Send(seg)
				written = func() []byte { return sc.impl.Written() }
			}
			wait()
			hsleep(7 * time.Second)
			wait()
			fs, rest := env.SplitFrames(written())
			seen := map[uint16]int{}
			for _, f := range fs {
				if m, err := refdns.Decode(f); err == nil {
					seen[m.ID]++
				}
			}
			missing, dup := 0, 0
			for i := 0; i < n; i++ {
				switch seen[uint16(0x2000+i)] {
				case 0:
					missing++
				case 1:
				default:
					dup++
				}
			}
			if missing > 0 || dup > 0 || rest != 0 || len(fs) != n {
				rep.Violate("C13:burst:"+kind+":response-count", fmt.Sprintf("%s: %d response frames (%d trailing octets), %d queries without a response, %d answered more than once", desc, len(fs), rest, missing, dup), map[string]any{"Choices": []int{}, "Burst": n})
			}
			v.Close()
			wait()
		}
	}
}

func TestVerifC13(t *testing.T) {
	rep := report.New("C13 stream framing")
	defer rep.Write()
	maxK := report.ParamInt("MAXK", 2)
	coarseK := report.ParamInt("COARSEK", 3)
	full := report.ParamInt("FULLSEG", 0) == 1
	rep.Rule = fmt.Sprintf("E3 differential: k in 1..%d pipelined queries (distinct ids, 36..110 byte frames; every query but the first carries a complete framed query with an id nobody sent inside an EDNS padding option, and the mid-body cut falls right in front of it) x every subset of the candidate cuts {inside the length prefix, prefix|body, after the first body byte, mid body, before the last byte, frame|frame}; k = %d with the coarse cuts {inside prefix, mid body, frame|frame}%s "+
		"x per-connection limit {100,1,2} x every completion order of the accepted handlers x {responses written directly, response writes parked and released in reverse order} x {fresh listener, an earlier connection left a partial frame behind, an earlier connection was closed with a query in flight that is answered after this connection was opened} x (tcp) {no pause, a pause longer than the idle timeout before the last segment while queries are in flight}; the same script is fed to tcpServer.handleConn and to gnetServer.OnTraffic (fake gnet.Conn, one OnTraffic per segment); "+
		"plus 4 pipelined queries with a frame that cannot be a query (7 kinds: 1 / 5 / 11 octets, a bare header, garbage, empty, 2 octets) behind the first or second, in one segment or frame by frame: none behind it is answered while an earlier one is skipped, and a listener that keeps the connection open answers all of them; "+
		"oracle: every frame decoded exactly once, response stream is a concatenation of well-formed frames, one response per query id, surplus over the limit gets REFUSED, none dropped",
		maxK, coarseK, map[bool]string{true: "; a single 19-byte query in every one of its 2^18 segmentations", false: ""}[full])
	bubble(t, func() {
		st := runExplore(t, rep, -1, func(c *choice.Ctx) { c13Scenario(c, rep, 1, maxK, true, false) })
		rep.Count("executions_rich", st.Executions)
		if coarseK > maxK {
			st = runExplore(t, rep, -1, func(c *choice.Ctx) { c13Scenario(c, rep, maxK+1, coarseK, false, false) })
			rep.Count("executions_coarse", st.Executions)
		}
		if full {
			st = runExplore(t, rep, -1, func(c *choice.Ctx) { c13Scenario(c, rep, 1, 1, false, true) })
			rep.Count("executions_fullseg", st.Executions)
		}
		st = runExplore(t, rep, -1, func(c *choice.Ctx) { c13BadFrame(c, rep) })
		rep.Count("executions_bad_frame", st.Executions)
		if sh, _ := report.Shard(); sh == 0 && report.ReplayFile() == nil {
			hmu.Lock()
			c13Burst(rep)
			hmu.Unlock()
		}
	})
	rep.Sample(map[string]any{"listener": "gnet", "k": 2, "segments": "[1 40 3 ...]", "limit": 1, "expect": "id 0x1300 answered, id 0x1301 REFUSED, two well-formed frames"})
}
