package router

// Shared E3 machinery for the router harnesses: the real router built by run()
// with scripted upstreams, and client seams for every listener kind.

import (
	"context"
	"errors"
	"fmt"
	"net"
	"net/netip"
	"os"
	"path/filepath"
	"runtime/debug"
	"strings"
	"sync"
	"testing"
	"testing/synctest"
	"time"

	"github.com/IrineSistiana/mosproxy/internal/dnsmsg"
	"github.com/IrineSistiana/mosproxy/internal/mlog"
	"github.com/IrineSistiana/mosproxy/internal/zzverif/choice"
	"github.com/IrineSistiana/mosproxy/internal/zzverif/env"
	"github.com/IrineSistiana/mosproxy/internal/zzverif/pause"
	"github.com/IrineSistiana/mosproxy/internal/zzverif/refdns"
	"github.com/IrineSistiana/mosproxy/internal/zzverif/report"
	"github.com/rs/zerolog"
)

func init() {
	debug.SetMaxStack(32 << 20) // a runaway recursion in the implementation fails fast instead of growing to 1 GB
	zerolog.SetGlobalLevel(zerolog.Disabled)
}

var vRace = os.Getenv("VERIF_RACE") == "1"

// ---------------------------------------------------------------- scripted upstream

type upResult struct {
	wire []byte // reply bytes (decoded by the fake like a transport would)
	err  error
}

type upQuery struct {
	Up       string
	Idx      int
	At       time.Time
	Wire     []byte
	Msg      *refdns.Msg
	ch       chan upResult
	u        *scriptUp
	Answered bool
	Gone     bool // the exchange context ended before an answer was delivered
}

type scriptUp struct {
	tag    string
	mu     sync.Mutex
	qs     []*upQuery
	closed int
	// Auto, if set, answers a query at once (nil result = leave pending).
	Auto func(q *upQuery) *upResult
	own  **env.Own
}

var errScripted = errors.New("scripted upstream failure")

func (u *scriptUp) ExchangeContext(ctx context.Context, m []byte) (*dnsmsg.Msg, error) {
	q := &upQuery{Up: u.tag, At: time.Now(), Wire: append([]byte(nil), m...), ch: make(chan upResult, 1), u: u}
	q.Msg, _ = refdns.Decode(q.Wire)
	u.mu.Lock()
	q.Idx = len(u.qs)
	u.qs = append(u.qs, q)
	auto := u.Auto
	u.mu.Unlock()
	if auto != nil {
		// the auto responder touches harness state: it runs as part of the harness
		var r *upResult
		publish(func() { r = auto(q) })
		if r != nil {
			u.mu.Lock()
			q.Answered = true
			u.mu.Unlock()
			q.ch <- *r
		}
	}
	select {
	case r := <-q.ch:
		if r.err != nil {
			return nil, r.err
		}
		resp, err := dnsmsg.UnpackMsg(r.wire)
		if err != nil {
			return nil, fmt.Errorf("malformed reply: %w", err)
		}
		return resp, nil
	case <-ctx.Done():
		u.mu.Lock()
		q.Gone = true
		u.mu.Unlock()
		return nil, context.Cause(ctx)
	}
}

func (u *scriptUp) Close() error { u.mu.Lock(); u.closed++; u.mu.Unlock(); return nil }

func (u *scriptUp) Queries() []*upQuery {
	u.mu.Lock()
	defer u.mu.Unlock()
	return append([]*upQuery(nil), u.qs...)
}

// Pending returns queries that can still be answered.
func (u *scriptUp) Pending() []*upQuery {
	u.mu.Lock()
	defer u.mu.Unlock()
	var out []*upQuery
	for _, q := range u.qs {
		if !q.Answered && !q.Gone {
			out = append(out, q)
		}
	}
	return out
}

func (q *upQuery) Reply(wire []byte) {
	q.u.mu.Lock()
	q.Answered = true
	q.u.mu.Unlock()
	q.ch <- upResult{wire: wire}
}
func (q *upQuery) Fail() {
	q.u.mu.Lock()
	q.Answered = true
	q.u.mu.Unlock()
	q.ch <- upResult{err: errScripted}
}

// ---------------------------------------------------------------- router under test

type vRouter struct {
	r   *router
	ups map[string]*scriptUp
	tmp string
	own *env.Own

	closedOnce bool
	closers    []func() // client transports to shut when the router is closed
}

// vNewRouter builds the real router from cfg via run(); every upstream named in tags is created by the
// real initUpstream and then has its transport replaced by a scripted one.
func vNewRouter(cfg *Config, tags ...string) (*vRouter, error) {
	mlog.SetLvl(zerolog.Disabled)
	for _, tag := range tags {
		cfg.Upstreams = append(cfg.Upstreams, UpstreamConfig{Tag: tag, Addr: "tcp://192.0.2.1:53"})
	}
	r, err := run(context.Background(), cfg)
	if err != nil {
		// run() has closed what it had started; goroutines that poll once a second (otter's cleanup loop) need to see it
		// before the bubble may end
		hsleep(3 * time.Second)
		wait()
		return nil, err
	}
	v := &vRouter{r: r, ups: map[string]*scriptUp{}}
	for _, tag := range tags {
		w := r.upstreams[tag]
		w.u.Close()
		su := &scriptUp{tag: tag}
		w.u = su
		v.ups[tag] = su
	}
	return v, nil
}

// Close shuts the router down and lets background goroutines that poll once a second (otter's
// cleanup loop) observe it, so that the bubble can end.
func (v *vRouter) Close() {
	if v.closedOnce {
		return
	}
	v.closedOnce = true
	for _, f := range v.closers {
		f()
	}
	for _, u := range v.ups {
		for _, q := range u.Pending() {
			q.Fail()
		}
		u.mu.Lock()
		u.Auto = func(*upQuery) *upResult { return &upResult{err: errScripted} }
		u.mu.Unlock()
	}
	wait()
	v.r.close(nil)
	hsleep(7 * time.Second) // request deadlines, otter's 1 s cleanup poll
	wait()
}

// vTmpFile writes a file under a per-process temp dir (domain lists, ip markers).
var vTmpDir string

func vTmpFile(name, content string) string {
	if vTmpDir == "" {
		d, err := os.MkdirTemp("", "verif_router_")
		if err != nil {
			panic(err)
		}
		vTmpDir = d
	}
	p := filepath.Join(vTmpDir, name)
	if b, err := os.ReadFile(p); err == nil && string(b) == content {
		return p
	}
	if err := os.WriteFile(p, []byte(content), 0o644); err != nil {
		panic(err)
	}
	return p
}

func TestMain(m *testing.M) {
	code := m.Run()
	if vTmpDir != "" {
		os.RemoveAll(vTmpDir)
	}
	os.Exit(code)
}

// ---------------------------------------------------------------- client seams

func zvTCPAddr(ap netip.AddrPort) net.Addr { return net.TCPAddrFromAddrPort(ap) }

var (
	vClientV4 = netip.MustParseAddrPort("198.51.100.7:40001")
	vLocalV4  = netip.MustParseAddrPort("203.0.113.1:53")
)

// streamClient is a client connected to tcpServer.handleConn over an in-memory connection.
type streamClient struct {
	impl *env.End // the server's end
	done bool     // handleConn returned
}

func (v *vRouter) newTCPServer(maxConcurrent int32, idle time.Duration) *tcpServer {
	if maxConcurrent <= 0 {
		maxConcurrent = defaultMaxConcurrentRequestPreTCPConn
	}
	if idle <= 0 {
		idle = defaultTCPIdleTimeout
	}
	return &tcpServer{r: v.r, logger: v.r.subLoggerForServer("server_tcp", "verif"), idleTimeout: idle, maxConcurrent: maxConcurrent}
}

func (v *vRouter) tcpClient(s *tcpServer, remote, local netip.AddrPort) *streamClient {
	impl, _ := env.Pipe(zvTCPAddr(local), zvTCPAddr(remote))
	c := &streamClient{impl: impl}
	v.closers = append(v.closers, func() { impl.PeerFIN() })
	go func() { // as tcpServer.run does
		s.handleConn(impl)
		impl.Close()
		publish(func() { c.done = true })
	}()
	return c
}

func (c *streamClient) Send(segments ...[]byte) { c.impl.Inject(segments...) }
func (c *streamClient) SendMsg(m *refdns.Msg)   { c.impl.Inject(refdns.Frame(m.Encode(false))) }
func (c *streamClient) Close()                  { c.impl.PeerFIN() }

// Frames returns complete response frames received so far and the number of trailing bytes.
func (c *streamClient) Frames() ([][]byte, int) { return env.SplitFrames(c.impl.Written()) }

func (c *streamClient) Responses() []*refdns.Msg {
	fs, _ := c.Frames()
	var out []*refdns.Msg
	for _, f := range fs {
		m, err := refdns.Decode(f)
		if err != nil {
			m = nil
		}
		out = append(out, m)
	}
	return out
}

// ---------------------------------------------------------------- misc

var inBubble bool

// bubble runs f inside the worker's synctest bubble (created on first use, never nested).
func bubble(t *testing.T, f func()) {
	if inBubble {
		f()
		return
	}
	synctest.Test(t, func(t *testing.T) {
		inBubble = true
		defer func() { inBubble = false }()
		f()
	})
}

func runExplore(t *testing.T, rep *report.R, bound int, scenario func(c *choice.Ctx)) choice.Stats {
	sh, n := report.Shard()
	opt := choice.Options{Bound: bound, Shard: sh, NShards: n, ShardDepth: report.ParamInt("SHARDDEPTH", 2), Deadline: report.Deadline()}
	if rp := report.ReplayFile(); rp != nil {
		var x struct{ Choices []int }
		rp.Decode(&x)
		c := choice.Replay(x.Choices, true, func(c *choice.Ctx) bool {
			bubble(t, func() { hmu.Lock(); defer hmu.Unlock(); scenario(c) })
			return true
		})
		rep.Note("replayed: " + strings.Join(c.Trace(), " "))
		return choice.Stats{Executions: 1}
	}
	var st choice.Stats
	// One bubble per worker process: objects recycled through global pools (channels, timers) may then
	// legitimately travel from one execution to the next, as they do between requests in a real process.
	bubble(t, func() {
		st = choice.Explore(opt, func(c *choice.Ctx) bool {
			report.SetCurrent(c)
			hmu.Lock()
			defer hmu.Unlock()
			scenario(c)
			wait()
			report.FlushCurrent()
			return rep.NViolations() < 50
		})
	})
	rep.AddTransitions(st.ChoicePoints)
	if n := pause.SelSeen.Swap(0); n > 0 {
		rep.Count("selects_with_several_ready_cases", n) // each was a choice point (owned selects, DESIGN 9.17)
	}
	if st.Capped {
		rep.Cap(st.CapReason)
	}
	rep.Count("replay_divergences_rerun", st.Divergences)
	rep.Count("divergent_executions_accepted", st.DivergentAccepted)
	if pauseMode {
		rep.Count("executions_with_a_goroutine_held_at_a_pause_point", pz.n)
		rep.Note("E4: every statement boundary of the instrumented implementation files that an explored execution reaches (first PAUSEHITS hits per point) was a choice point 'this goroutine stands still here until resumed'; at most one such preemption per execution, never inside a critical section, never across virtual time")
	}
	return st
}

func rcodeName(rc int) string {
	switch rc {
	case 0:
		return "NOERROR"
	case 2:
		return "SERVFAIL"
	case 3:
		return "NXDOMAIN"
	case 4:
		return "NOTIMP"
	case 5:
		return "REFUSED"
	}
	return fmt.Sprint(rc)
}

// hmu orders the harness goroutine and the goroutines it observes for the race detector: the harness holds it
// whenever it runs and releases it only while it waits for quiescence or lets virtual time pass; goroutines
// that publish results for the harness take it while doing so.
var hmu sync.Mutex

func wait() {
	hmu.Unlock()
	synctest.Wait()
	hmu.Lock()
	report.Progress()
	if pz.abort {
		pz.abort = false
		pz.c = nil
		choice.AbortUnowned()
	}
}

func hsleep(d time.Duration) {
	if resume() {
		wait() // virtual time never passes while a goroutine is held at a pause point: a preemption is short
	}
	pz.sleepUntil = time.Now().Add(d)
	hmu.Unlock()
	time.Sleep(d)
	hmu.Lock()
	pz.sleepUntil = time.Time{}
}

// publish runs f (which stores results read by the harness) under hmu.
func publish(f func()) {
	hmu.Lock()
	f()
	hmu.Unlock()
}

// ---- E4: pause points (DESIGN 9.13); see harness/transport/zz_verif_common_test.go for the commentary.
var pz struct {
	selOn, selUsed bool   // owned selects: a non-default outcome may still be chosen / was chosen
	selAt          string // "<file>:<line> case k" of that outcome
	c              *choice.Ctx
	ch             chan struct{}
	at             string
	used           bool
	hits           map[string]int
	cap            int
	n              int64

	window, windows, step int

	abort bool // an unowned-subtree signal was caught on an implementation goroutine

	sleepUntil time.Time
}

var pauseMode = report.ParamInt("PAUSE", 0) > 0

func pauseBegin(c *choice.Ctx) {
	if !pauseMode {
		// no pause points in this build; where the implementation files carry owned selects (tools_instr -selonly) those are
		// choice points all the same
		if report.ParamInt("SELECTS", 1) > 0 {
			pz.c, pz.ch, pz.at, pz.used, pz.abort = c, nil, "", false, false
			pz.selOn, pz.selUsed, pz.selAt = true, false, ""
			pause.SelHook = selHook
		}
		return
	}
	pz.c, pz.ch, pz.at, pz.used, pz.abort = c, nil, "", false, false
	pz.selOn, pz.selUsed, pz.selAt = report.ParamInt("SELECTS", 1) > 0, false, ""
	pause.SelHook = selHook
	// The pause space is partitioned by the harness step during whose reaction the goroutine is stopped: the window is the
	// first choice of the execution, which spreads the subtrees over the worker processes (pause choice points are binary
	// with a heavy default branch; as leading choices they would leave all the work to one shard).
	pz.windows = report.ParamInt("PAUSEWINDOWS", 7)
	pz.window, pz.step = c.Choose(pz.windows, "pause-window"), 0
	pz.hits = map[string]int{}
	pz.cap = report.ParamInt("PAUSEHITS", 1)
	pause.Hook = pauseHook
	pause.Enable(true)
}

func pauseHook(id string) {
	var ch chan struct{}
	publish(func() {
		if pz.c == nil || pz.used || pz.abort {
			return
		}
		if st := min(pz.step, pz.windows-1); st != pz.window {
			return
		}
		defer func() {
			// the choice point may be the one at which the search core finds that this subtree is another worker's: the
			// signal is raised again on the harness goroutine (in wait), where Explore recovers it
			if r := recover(); r != nil {
				if !choice.IsUnowned(r) {
					panic(r)
				}
				pz.abort = true
			}
		}()
		if !pz.sleepUntil.IsZero() && time.Now().Before(pz.sleepUntil) {
			return
		}
		pz.hits[id]++
		if pz.hits[id] > pz.cap {
			return
		}
		if pz.c.Choose(2, "pause@"+id) == 1 {
			pz.used = true
			pause.Enable(false)
			ch = make(chan struct{})
			pz.ch, pz.at = ch, id
			pz.n++
		}
	})
	if ch != nil {
		<-ch
	}
}

func paused() bool { return pz.ch != nil }

func pauseNote() string {
	n := ""
	if pz.used {
		n = " [one goroutine stood still before " + pz.at + " until resumed]"
	}
	if pz.selUsed {
		n += " [the select at " + pz.selAt + " was taken although an earlier case was ready too]"
	}
	return n
}

// selHook runs on an implementation goroutine that is about to execute a blocking select of which several cases are ready
// (tools_instr, ownSelect): the first ready case in source order is the default, any other one is a deviation, at most one
// per execution. (The Go runtime picks at random; every outcome offered here is one it can produce.)
func selHook(id string, ready []int) (k int) {
	k = ready[0]
	if !hmu.TryLock() {
		return // implementation code called on the harness goroutine itself: the default outcome, no choice point
	}
	defer hmu.Unlock()
	func() {
		if pz.c == nil || !pz.selOn || pz.selUsed || pz.abort {
			return
		}
		defer func() {
			if r := recover(); r != nil {
				if !choice.IsUnowned(r) {
					panic(r)
				}
				pz.abort = true
			}
		}()
		if j := pz.c.Choose(len(ready), "select@"+id); j > 0 {
			k = ready[j]
			pz.selUsed, pz.selAt = true, fmt.Sprintf("%s case %d", id, k)
		}
	}()
	return
}

// selOff: from here on (wind-down of a scenario) selects take their default outcome.
func selOff() { pz.selOn = false }

// pauseOff: no goroutine is stopped from here on (a scenario's closing part that judges progress).
func pauseOff() { pause.Enable(false) }

func resume() bool {
	if pz.ch != nil {
		close(pz.ch)
		pz.ch = nil
		return true
	}
	return false
}

func pauseEnd() {
	pause.Enable(false)
	pause.SelHook = nil
	pz.c = nil
	resume()
}

// vLongNames: names of every wire length from 240 to the maximum of 255 octets, from clients without a known address, with an
// IPv4 and with an IPv6 address, ECS on (the upstream request carries the question, the OPT record and the client-subnet option:
// its largest forms) and off, through the tcp seam of the real router with a catch-all forward rule: the question reaches the
// upstream once, as it was asked, and the upstream's answer comes back. Called inside a bubble with hmu held.
func vLongNames(rep *report.R, prop string) {
	for _, ecs := range []bool{true, false} {
		cfg := &Config{Rules: []RuleConfig{{Forward: "u1"}}}
		cfg.ECS.Enabled = ecs
		v, err := vNewRouter(cfg, "u1")
		if err != nil {
			rep.Violate(prop+":long-names:router-start", err.Error(), nil)
			return
		}
		u := v.ups["u1"]
		u.Auto = func(q *upQuery) *upResult {
			if q.Msg == nil {
				return &upResult{err: errScripted}
			}
			return &upResult{wire: env.Answer(q.Msg, 1, 60).Encode(false)}
		}
		srv := v.newTCPServer(0, 300*time.Second)
		n := 0
		for _, peer := range []netip.AddrPort{netip.MustParseAddrPort("198.51.100.9:4000"), netip.MustParseAddrPort("[2001:db8:1:2:3:4:5:6]:4000")} {
			for wire := 240; wire <= 255; wire++ {
				// labels of 63 octets (64 on the wire), a last label that makes up the rest, the root octet
				var labels []string
				rest := wire - 1
				for rest > 0 {
					l := min(63, rest-1)
					if l <= 0 {
						break
					}
					labels = append(labels, strings.Repeat(string(rune('a'+len(labels))), l))
					rest -= l + 1
				}
				name := refdns.N(labels...)
				n++
				desc := fmt.Sprintf("name of %d wire octets from client %s, ecs=%v", name.WireLen(), peer.Addr(), ecs)
				rep.Eval("long-names: " + desc)
				pc := v.tcpClient(srv, peer, vLocalV4)
				pc.SendMsg(refdns.Query(uint16(n), name, 1, 1))
				wait()
				rs := pc.Responses()
				qs := u.Queries()
				if len(qs) != n || qs[n-1].Msg == nil || len(qs[n-1].Msg.Q) != 1 || !qs[n-1].Msg.Q[0].Name.Equal(name) {
					rep.Violate(prop+":long-names:not-forwarded", fmt.Sprintf("the upstream saw %d queries after %d client queries (the last one %v): %s", len(qs), n, func() any {
						if len(qs) > 0 && qs[len(qs)-1].Msg != nil {
							return qs[len(qs)-1].Msg.Q
						}
						return nil
					}(), desc), nil)
					pc.Close()
					v.Close()
					return
				}
				if len(rs) != 1 || rs[0] == nil || rs[0].RCode() != 0 || len(rs[0].An) != 1 {
					rep.Violate(prop+":long-names:not-answered", fmt.Sprintf("%d responses (%v): %s", len(rs), rs, desc), nil)
				}
				pc.Close()
			}
		}
		v.Close()
		wait()
	}
}
