package router

// C12 (real sockets): which address every listener takes as "the client" when it
// announces a client subnet upstream. The E3 seams enter the stream listeners
// behind their accept / connection loops (handleStream, OnTraffic with a fake
// connection), where remote and local address are already separate arguments.
// Here a router is started from configuration with ECS on and one listener of
// every kind on 127.0.0.1; clients are bound to the source address 127.7.7.7; a
// local UDP upstream records the ECS option of every query it receives.

import (
	"bytes"
	"context"
	"crypto/tls"
	"fmt"
	"io"
	"net"
	"net/http"
	"sync"
	"testing"
	"time"

	"github.com/IrineSistiana/mosproxy/internal/mlog"
	"github.com/IrineSistiana/mosproxy/internal/zzverif/env"
	"github.com/IrineSistiana/mosproxy/internal/zzverif/refdns"
	"github.com/IrineSistiana/mosproxy/internal/zzverif/report"
	"github.com/quic-go/quic-go"
	"github.com/rs/zerolog"
)

func TestVerifC12Real(t *testing.T) {
	mlog.SetLvl(zerolog.Disabled)
	rep := report.New("C12 client address per listener on real sockets")
	defer rep.Write()
	kinds := []string{"udp", "tcp", "gnet", "tls", "http", "fasthttp", "quic"}
	rep.Rule = fmt.Sprintf("real router from configuration, ECS enabled, listeners %v on 127.0.0.1, local UDP upstream recording the EDNS0 options of every query; per listener two queries (the second on the same connection where the protocol has one) "+
		"from a client bound to 127.7.7.7; oracle: every upstream query carries exactly one Client Subnet option 127.7.7.0/24 (family 1, source 24, scope 0, 3 address octets) - never the listener's own 127.0.0.0/24", kinds)
	if sh, _ := report.Shard(); sh != 0 {
		rep.Eval("idle-shard")
		rep.Eval("idle-shard2")
		return
	}
	upc, err := net.ListenPacket("udp", "127.0.0.1:0")
	if err != nil {
		t.Fatal(err)
	}
	defer upc.Close()
	var mu sync.Mutex
	seen := map[string][][]byte{} // first label of the query name -> ECS payloads
	go func() {
		b := make([]byte, 4096)
		for {
			n, a, err := upc.ReadFrom(b)
			if err != nil {
				return
			}
			q, err := refdns.Decode(b[:n])
			if err != nil || len(q.Q) != 1 {
				continue
			}
			var ecs [][]byte
			for _, o := range q.OPTs() {
				rd := o.RData()
				for len(rd) >= 4 {
					code, l := int(rd[0])<<8|int(rd[1]), int(rd[2])<<8|int(rd[3])
					if len(rd) < 4+l {
						break
					}
					if code == 8 {
						ecs = append(ecs, append([]byte(nil), rd[4:4+l]...))
					}
					rd = rd[4+l:]
				}
			}
			mu.Lock()
			k := string(q.Q[0].Name[0])
			seen[k] = append(seen[k], ecs...)
			if len(ecs) == 0 {
				seen[k] = append(seen[k], []byte("no-ecs"))
			}
			mu.Unlock()
			upc.WriteTo(env.Answer(q, 1, 60).Encode(false), a)
		}
	}()
	var r *router
	addrs := map[string]string{}
	for try := 0; try < 3 && r == nil; try++ {
		cfg := &Config{Upstreams: []UpstreamConfig{{Tag: "u", Addr: "udp://" + upc.LocalAddr().String()}}, Rules: []RuleConfig{{Forward: "u"}}}
		cfg.ECS.Enabled = true
		for _, k := range kinds {
			if k == "udp" || k == "quic" {
				pc, err := net.ListenPacket("udp", "127.0.0.1:0")
				if err != nil {
					t.Fatal(err)
				}
				addrs[k] = pc.LocalAddr().String()
				pc.Close()
			} else {
				l, err := net.Listen("tcp", "127.0.0.1:0")
				if err != nil {
					t.Fatal(err)
				}
				addrs[k] = l.Addr().String()
				l.Close()
			}
			sc := ServerConfig{Protocol: k, Listen: addrs[k]}
			if k == "tls" || k == "quic" {
				sc.Tls.DebugUseTempCert = true
			}
			cfg.Servers = append(cfg.Servers, sc)
		}
		if r, err = run(context.Background(), cfg); err != nil {
			r = nil
		}
	}
	if r == nil {
		rep.Violate("C12:real-clients:router-start", fmt.Sprint(err), nil)
		return
	}
	defer r.close(nil)
	time.Sleep(300 * time.Millisecond)
	src := net.ParseIP("127.7.7.7")
	query := func(k string, i int) []byte {
		return refdns.Query(uint16(0x1200+i), refdns.N(fmt.Sprintf("%s%d", k, i), "example", "test"), 1, 1).Encode(false)
	}
	readFrame := func(c net.Conn) bool {
		c.SetReadDeadline(time.Now().Add(4 * time.Second))
		hdr := make([]byte, 2)
		if _, err := io.ReadFull(c, hdr); err != nil {
			return false
		}
		_, err := io.ReadFull(c, make([]byte, int(hdr[0])<<8|int(hdr[1])))
		return err == nil
	}
	insecure := &tls.Config{InsecureSkipVerify: true}
	for _, k := range kinds {
		rep.Eval("listener " + k)
		answered := 0
		switch k {
		case "udp":
			c, err := net.DialUDP("udp", &net.UDPAddr{IP: src}, func() *net.UDPAddr { a, _ := net.ResolveUDPAddr("udp", addrs[k]); return a }())
			if err != nil {
				rep.Note("cannot bind 127.7.7.7: " + err.Error())
				rep.Cap("loopback alias unavailable")
				return
			}
			for i := 0; i < 2; i++ {
				c.Write(query(k, i))
				c.SetReadDeadline(time.Now().Add(4 * time.Second))
				if _, err := c.Read(make([]byte, 2048)); err == nil {
					answered++
				}
			}
			c.Close()
		case "tcp", "gnet", "tls":
			d := &net.Dialer{Timeout: 3 * time.Second, LocalAddr: &net.TCPAddr{IP: src}}
			var c net.Conn
			var err error
			if k == "tls" {
				c, err = tls.DialWithDialer(d, "tcp", addrs[k], insecure)
			} else {
				c, err = d.Dial("tcp", addrs[k])
			}
			if err != nil {
				rep.Violate("C12:real-clients:"+k+":connect", err.Error(), nil)
				continue
			}
			for i := 0; i < 2; i++ {
				c.Write(refdns.Frame(query(k, i)))
				if readFrame(c) {
					answered++
				}
			}
			c.Close()
		case "http", "fasthttp":
			tr := &http.Transport{DialContext: (&net.Dialer{Timeout: 3 * time.Second, LocalAddr: &net.TCPAddr{IP: src}}).DialContext}
			hc := &http.Client{Transport: tr, Timeout: 5 * time.Second}
			for i := 0; i < 2; i++ {
				req, _ := http.NewRequest("POST", "http://"+addrs[k]+"/dns-query", bytes.NewReader(query(k, i)))
				req.Header.Set("Content-Type", "application/dns-message")
				if resp, err := hc.Do(req); err == nil {
					io.ReadAll(resp.Body)
					resp.Body.Close()
					if resp.StatusCode == 200 {
						answered++
					}
				}
			}
			tr.CloseIdleConnections()
		case "quic":
			uc, err := net.ListenUDP("udp4", &net.UDPAddr{IP: src})
			if err != nil {
				continue
			}
			qt := &quic.Transport{Conn: uc}
			ctx, cancel := context.WithTimeout(context.Background(), 10*time.Second)
			sa, _ := net.ResolveUDPAddr("udp4", addrs[k])
			conn, err := qt.Dial(ctx, sa, &tls.Config{InsecureSkipVerify: true, NextProtos: []string{"doq"}}, &quic.Config{})
			if err == nil {
				for i := 0; i < 2; i++ {
					st, err := conn.OpenStreamSync(ctx)
					if err != nil {
						break
					}
					st.SetDeadline(time.Now().Add(5 * time.Second))
					q := query(k, i)
					q[0], q[1] = 0, 0
					st.Write(refdns.Frame(q))
					st.Close()
					if b, _ := io.ReadAll(st); len(b) > 2 {
						answered++
					}
				}
				conn.CloseWithError(0, "")
			}
			cancel()
			qt.Close()
			uc.Close()
		}
		if answered != 2 {
			rep.Note(fmt.Sprintf("listener %s: %d of 2 queries answered", k, answered))
		}
		want := []byte{0, 1, 24, 0, 127, 7, 7}
		for i := 0; i < 2; i++ {
			mu.Lock()
			got := seen[fmt.Sprintf("%s%d", k, i)]
			mu.Unlock()
			switch {
			case len(got) == 0:
				rep.Violate("C12:real-clients:"+k+":not-forwarded", fmt.Sprintf("query %d on the %s listener never reached the upstream", i, k), nil)
			case len(got) != 1 || !bytes.Equal(got[0], want):
				rep.Violate("C12:real-clients:"+k+":client-subnet", fmt.Sprintf("%s listener, client 127.7.7.7, query %d: the upstream query carries Client Subnet payload(s) %x, expected exactly %x (127.7.7.0/24)", k, i, got, want), nil)
			}
		}
	}
	rep.Sample(map[string]any{"listener": "quic", "client": "127.7.7.7", "expect": "ECS 127.7.7.0/24 in the upstream query"})
}
