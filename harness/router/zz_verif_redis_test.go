package router

// C07 / C08 (second-level cache): the redis backend (internal/cache/redis.go) and
// the promotion into the memory cache, exercised with two real router instances
// that share one (harness-made, RESP2) redis server, a real local upstream and
// real UDP listeners. Real time: a fixed timed history of about 12 s with
// content-only oracles whose time bounds are one-sided (ages are measured from
// points where the true age can only be larger).

import (
	"bufio"
	"context"
	"fmt"
	"io"
	"net"
	"os"
	"strconv"
	"strings"
	"sync"
	"testing"
	"time"

	"github.com/IrineSistiana/mosproxy/internal/mlog"
	"github.com/IrineSistiana/mosproxy/internal/zzverif/env"
	"github.com/IrineSistiana/mosproxy/internal/zzverif/refdns"
	"github.com/IrineSistiana/mosproxy/internal/zzverif/report"
	"github.com/rs/zerolog"
)

type vredisEntry struct {
	v      []byte
	expire time.Time
}

type vredisSet struct {
	key string
	nx  bool
	px  int64
	at  time.Time
}

type vredis struct {
	l    net.Listener
	mu   sync.Mutex
	kv   map[string]vredisEntry
	sets []vredisSet
	gets int
	// getDelay: every GET is answered this much later (the connection's later commands queue behind it, as with a slow server)
	getDelay time.Duration
	getLog   []vredisGet
	// setHang: SET commands are taken and never answered (the connection's later replies queue behind them, as with a hung server)
	setHang bool
}

type vredisGet struct {
	recv, replied time.Time
}

func newVRedis() (*vredis, error) {
	l, err := net.Listen("tcp", "127.0.0.1:0")
	if err != nil {
		return nil, err
	}
	s := &vredis{l: l, kv: map[string]vredisEntry{}}
	go func() {
		for {
			c, err := l.Accept()
			if err != nil {
				return
			}
			go s.serve(c)
		}
	}()
	return s, nil
}

func vredisRead(br *bufio.Reader) ([]string, error) {
	line, err := br.ReadString('\n')
	if err != nil {
		return nil, err
	}
	line = strings.TrimRight(line, "\r\n")
	if len(line) == 0 || line[0] != '*' {
		return nil, fmt.Errorf("not an array: %q", line)
	}
	n, err := strconv.Atoi(line[1:])
	if err != nil {
		return nil, err
	}
	var args []string
	for i := 0; i < n; i++ {
		h, err := br.ReadString('\n')
		if err != nil {
			return nil, err
		}
		h = strings.TrimRight(h, "\r\n")
		if len(h) == 0 || h[0] != '$' {
			return nil, fmt.Errorf("not a bulk string: %q", h)
		}
		l, err := strconv.Atoi(h[1:])
		if err != nil {
			return nil, err
		}
		b := make([]byte, l+2)
		if _, err := io.ReadFull(br, b); err != nil {
			return nil, err
		}
		args = append(args, string(b[:l]))
	}
	return args, nil
}

func (s *vredis) serve(c net.Conn) {
	defer c.Close()
	br := bufio.NewReader(c)
	for {
		a, err := vredisRead(br)
		if err != nil || len(a) == 0 {
			return
		}
		out := ""
		switch strings.ToUpper(a[0]) {
		case "PING":
			out = "+PONG\r\n"
		case "CLIENT", "SELECT", "AUTH":
			out = "+OK\r\n"
		case "HELLO":
			out = "-ERR unknown command 'HELLO'\r\n"
		case "CLUSTER":
			out = "-ERR This instance has cluster support disabled\r\n"
		case "GET":
			s.mu.Lock()
			d := s.getDelay
			s.mu.Unlock()
			recv := time.Now()
			if d > 0 {
				time.Sleep(d)
			}
			s.mu.Lock()
			s.gets++
			s.getLog = append(s.getLog, vredisGet{recv, time.Now()})
			e, ok := s.kv[a[1]]
			if ok && !time.Now().Before(e.expire) {
				delete(s.kv, a[1])
				ok = false
			}
			s.mu.Unlock()
			if ok {
				out = fmt.Sprintf("$%d\r\n%s\r\n", len(e.v), e.v)
			} else {
				out = "$-1\r\n"
			}
		case "SET":
			for {
				s.mu.Lock()
				h := s.setHang
				s.mu.Unlock()
				if !h {
					break
				}
				time.Sleep(50 * time.Millisecond)
			}
			set := vredisSet{key: a[1], px: -1, at: time.Now()}
			for i := 3; i < len(a); i++ {
				switch strings.ToUpper(a[i]) {
				case "NX":
					set.nx = true
				case "PX":
					i++
					set.px, _ = strconv.ParseInt(a[i], 10, 64)
				case "EX":
					i++
					sec, _ := strconv.ParseInt(a[i], 10, 64)
					set.px = sec * 1000
				}
			}
			s.mu.Lock()
			s.sets = append(s.sets, set)
			old, live := s.kv[a[1]]
			live = live && time.Now().Before(old.expire)
			if set.nx && live {
				out = "$-1\r\n"
			} else {
				exp := time.Now().Add(1000 * time.Hour)
				if set.px >= 0 {
					exp = time.Now().Add(time.Duration(set.px) * time.Millisecond)
				}
				s.kv[a[1]] = vredisEntry{v: []byte(a[2]), expire: exp}
				out = "+OK\r\n"
			}
			s.mu.Unlock()
		default:
			out = "-ERR unknown command '" + a[0] + "'\r\n"
		}
		if _, err := c.Write([]byte(out)); err != nil {
			return
		}
	}
}

func (s *vredis) live() int {
	s.mu.Lock()
	defer s.mu.Unlock()
	n := 0
	for _, e := range s.kv {
		if time.Now().Before(e.expire) {
			n++
		}
	}
	return n
}

// vupstream is a local DNS-over-TCP server: positive answers (TTL 6) for names starting with "pos", NXDOMAIN with a 100 s SOA for
// "nx", SERVFAIL for "sf" and for every name listed in failing.
type vupstream struct {
	l       net.Listener
	mu      sync.Mutex
	queries []string // "name/type" in arrival order
	serial  byte
	failing map[string]bool
	ttl     uint32 // of positive answers; 0 = 6
}

func newVUpstream() (*vupstream, error) {
	l, err := net.Listen("tcp", "127.0.0.1:0")
	if err != nil {
		return nil, err
	}
	u := &vupstream{l: l, failing: map[string]bool{}}
	go func() {
		for {
			c, err := l.Accept()
			if err != nil {
				return
			}
			go func() {
				defer c.Close()
				for {
					hdr := make([]byte, 2)
					if _, err := io.ReadFull(c, hdr); err != nil {
						return
					}
					b := make([]byte, int(hdr[0])<<8|int(hdr[1]))
					if _, err := io.ReadFull(c, b); err != nil {
						return
					}
					q, err := refdns.Decode(b)
					if err != nil || len(q.Q) != 1 {
						return
					}
					name := q.Q[0].Name.String()
					u.mu.Lock()
					u.queries = append(u.queries, fmt.Sprintf("%s/%d", name, q.Q[0].Type))
					u.serial++
					ser := u.serial
					fail := u.failing[name]
					u.mu.Unlock()
					var r *refdns.Msg
					switch {
					case fail || strings.HasPrefix(name, "sf"):
						r = env.RCodeReply(q, 2)
					case strings.HasPrefix(name, "nx"):
						r = env.RCodeReply(q, 3)
						r.Ns = []refdns.RR{refdns.SOA(refdns.N("test"), 100, refdns.N("ns", "test"), refdns.N("root", "test"), 100)}
					default:
						r = env.Answer(q, ser, 6)
						if strings.HasPrefix(name, "zttl") {
							r = env.Answer(q, ser, 0)
						} else if u.ttl > 0 {
							r = env.Answer(q, ser, u.ttl)
						}
					}
					c.Write(refdns.Frame(r.Encode(false)))
				}
			}()
		}
	}()
	return u, nil
}

func (u *vupstream) count(key string) int {
	u.mu.Lock()
	defer u.mu.Unlock()
	n := 0
	for _, q := range u.queries {
		if q == key {
			n++
		}
	}
	return n
}

func TestVerifRedis(t *testing.T) {
	mlog.SetLvl(zerolog.Disabled)
	prop := os.Getenv("VERIF_PROP")
	if prop != "C07" {
		prop = "C08"
	}
	rep := report.New(prop + " second-level (redis) cache")
	defer rep.Write()
	rep.Rule = "two real routers (memory cache + the same redis URL, started from configuration) share one harness-made RESP2 redis server and one local TCP upstream (TTL 6 answers, NXDOMAIN with a 100 s SOA, SERVFAIL); real UDP clients; " +
		"timed history: A fetches pos1; 2 s later B asks pos1 (redis hit + promotion), pos1/AAAA (other type: miss) and A asks POS1 (case variant: hit); B asks again at 4 s; both ask after the lifetime + 2.2 s; nx1 and sf1 likewise with their " +
		"30 s / 1 s lifetimes; a live positive entry whose refresh is answered SERVFAIL stays; every SET the routers send is recorded. Oracles (one-sided time bounds): served TTL <= 6 - whole seconds elapsed (>= 1), " +
		"nothing from cache after lifetime + 2.2 s, SET PX <= lifetime, negative entries are SET with NX and positive ones without, cached answers equal the relayed one, a different type / group is a different entry, " +
		"an entry held by redis is served without an upstream exchange once the router has been up for 2.5 s"
	if sh, _ := report.Shard(); sh != 0 {
		rep.Eval("idle-shard")
		rep.Eval("idle-shard2")
		return
	}
	fail := func(sig, msg string) { rep.Violate(prop+":redis:"+sig, msg, nil) }
	rd, err := newVRedis()
	if err != nil {
		t.Fatal(err)
	}
	defer rd.l.Close()
	up, err := newVUpstream()
	if err != nil {
		t.Fatal(err)
	}
	defer up.l.Close()
	type inst struct {
		r    *router
		addr string
	}
	start := func() (*inst, error) {
		var lastErr error
		for try := 0; try < 3; try++ {
			pc, err := net.ListenPacket("udp", "127.0.0.1:0")
			if err != nil {
				return nil, err
			}
			addr := pc.LocalAddr().String()
			pc.Close()
			cfg := &Config{
				Servers:   []ServerConfig{{Protocol: "udp", Listen: addr}},
				Upstreams: []UpstreamConfig{{Tag: "u", Addr: "tcp://" + up.l.Addr().String()}},
				Rules:     []RuleConfig{{Forward: "u"}},
				Cache:     CacheConfig{MemSize: 1 << 20, Redis: "redis://" + rd.l.Addr().String() + "?protocol=2&client_cache=0"},
			}
			r, err := run(context.Background(), cfg)
			if err == nil {
				return &inst{r, addr}, nil
			}
			lastErr = err
		}
		return nil, lastErr
	}
	A, err := start()
	if err != nil {
		fail("router-start", err.Error())
		return
	}
	defer A.r.close(nil)
	B, err := start()
	if err != nil {
		fail("router-start", err.Error())
		return
	}
	defer B.r.close(nil)
	time.Sleep(2600 * time.Millisecond) // the redis backend is used after its first successful ping (one per second)
	id := uint16(0x7000)
	ask := func(in *inst, name refdns.Name, typ uint16) *refdns.Msg {
		id++
		c, err := net.Dial("udp", in.addr)
		if err != nil {
			return nil
		}
		defer c.Close()
		q := refdns.Query(id, name, typ, 1)
		for try := 0; try < 2; try++ {
			c.Write(q.Encode(false))
			c.SetReadDeadline(time.Now().Add(3 * time.Second))
			b := make([]byte, 4096)
			n, err := c.Read(b)
			if err != nil {
				continue
			}
			m, err := refdns.Decode(b[:n])
			if err != nil || m.ID != id {
				continue
			}
			return m
		}
		return nil
	}
	N := refdns.N
	ttlOf := func(m *refdns.Msg) int {
		if m == nil || len(m.An) == 0 {
			return -1
		}
		return int(m.An[0].TTL)
	}
	serialOf := func(m *refdns.Msg) int {
		if m == nil {
			return -1
		}
		_, s, ok := env.AnswerKey(m)
		if !ok {
			return -1
		}
		return int(s)
	}
	step := func(desc string) { rep.Eval(desc) }

	// ---- positive entry through redis
	// redis keeps fetch and expiry times in whole seconds: fetch late in a wall-clock second, where truncating and rounding differ
	for ms := time.Now().Nanosecond() / 1e6; ms < 700 || ms > 850; ms = time.Now().Nanosecond() / 1e6 {
		time.Sleep(10 * time.Millisecond)
	}
	step("A fetches pos1")
	r1 := ask(A, N("pos1", "test"), 1)
	fetched := time.Now() // the fetch is complete: the entry's true age is at least the time since now
	if r1 == nil || r1.RCode() != 0 || up.count("pos1.test/1") != 1 {
		fail("setup", fmt.Sprintf("first fetch failed: %v (upstream saw %d)", r1, up.count("pos1.test/1")))
		return
	}
	ser1 := serialOf(r1)
	time.Sleep(2 * time.Second)
	if rd.live() == 0 {
		fail("nothing-stored", "2 s after a positive answer was relayed nothing is stored in redis")
	}
	step("B asks pos1 (held by redis only)")
	r2 := ask(B, N("pos1", "test"), 1)
	age := int(time.Since(fetched) / time.Second)
	switch {
	case r2 == nil:
		fail("no-response", "B gave no response")
	case up.count("pos1.test/1") != 1:
		if prop == "C07" {
			fail("redis-entry-not-served", fmt.Sprintf("the entry is in redis, B has been up for 4.6 s, yet B asked the upstream again (%d upstream queries)", up.count("pos1.test/1")))
		}
	default:
		if serialOf(r2) != ser1 || len(r2.An) != len(r1.An) || r2.RCode() != r1.RCode() {
			fail("cached-answer-differs", fmt.Sprintf("B served %s from redis, A relayed %s", r2.Canon(), r1.Canon()))
		}
		if prop == "C08" && (ttlOf(r2) > 6-age || ttlOf(r2) < 1) {
			fail("ttl-not-aged", fmt.Sprintf("B served ttl %d for an entry fetched at least %d s ago with ttl 6", ttlOf(r2), age))
		}
	}
	step("B asks pos1/AAAA (other type)")
	r3 := ask(B, N("pos1", "test"), 28)
	if r3 == nil || up.count("pos1.test/28") != 1 {
		if prop == "C07" {
			fail("other-type-served-from-cache", fmt.Sprintf("a query for another type did not reach the upstream (%d) or got no response", up.count("pos1.test/28")))
		}
	} else if serialOf(r3) == ser1 && prop == "C07" {
		fail("other-type-served-from-cache", "the AAAA query was answered with the cached A answer")
	}
	step("A asks POS1 (case variant)")
	r4 := ask(A, N("POS1", "Test"), 1)
	if r4 == nil || serialOf(r4) != ser1 || up.count("pos1.test/1") != 1 {
		if prop == "C07" {
			fail("case-variant-missed", fmt.Sprintf("the case variant was not answered from the cache (upstream queries %d, serial %d vs %d)", up.count("pos1.test/1"), serialOf(r4), ser1))
		}
	}
	time.Sleep(2 * time.Second)
	step("B asks pos1 again (memory, promoted from redis)")
	r5 := ask(B, N("pos1", "test"), 1)
	age = int(time.Since(fetched) / time.Second)
	if r5 != nil && serialOf(r5) == ser1 && prop == "C08" && (ttlOf(r5) > 6-age || ttlOf(r5) < 1) {
		fail("ttl-not-aged-after-promotion", fmt.Sprintf("B served ttl %d for an entry fetched at least %d s ago with ttl 6", ttlOf(r5), age))
	}
	// ---- a live positive entry is not displaced by a failing refresh (pos2: fetched now, refreshed in its last quarter)
	step("A fetches pos2")
	p1 := ask(A, N("pos2", "test"), 1)
	p2Fetched := time.Now()
	serP := serialOf(p1)
	// ---- negative and error answers
	step("A fetches nx1 and sf1")
	n1 := ask(A, N("nx1", "test"), 1)
	s1 := ask(A, N("sf1", "test"), 1)
	sfFetched := time.Now()
	if n1 == nil || n1.RCode() != 3 || s1 == nil || s1.RCode() != 2 {
		fail("setup", "negative fetches failed")
	}
	// pos1 expires: 6 s after its fetch; wait until 8.3 s
	if d := time.Until(fetched.Add(8300 * time.Millisecond)); d > 0 {
		time.Sleep(d)
	}
	if prop == "C08" {
		step("both ask pos1 after lifetime + 2.2 s")
		before := up.count("pos1.test/1")
		e1 := ask(A, N("pos1", "test"), 1)
		// (only the answer fetched back then is judged: if one of the earlier hits came late enough to fall into the last quarter
		// of the lifetime - a loaded machine - a refresh has legitimately stored a newer answer, recognisable by its serial)
		if serialOf(e1) == ser1 {
			fail("served-after-lifetime", fmt.Sprintf("at least 8.3 s after a ttl 6 answer was fetched router A still served that answer (serial %d, new upstream queries %d)", ser1, up.count("pos1.test/1")-before))
		}
		// (B may now legitimately get A's fresh entry from redis: only the old answer must be gone)
		if e2 := ask(B, N("pos1", "test"), 1); serialOf(e2) == ser1 {
			fail("served-after-lifetime", fmt.Sprintf("at least 8.3 s after a ttl 6 answer was fetched router B still served it (serial %d)", ser1))
		}
		step("B asks sf1 after 1 s + 2.2 s")
		if d := time.Until(sfFetched.Add(3300 * time.Millisecond)); d > 0 {
			time.Sleep(d)
		}
		before = up.count("sf1.test/1")
		ask(B, N("sf1", "test"), 1)
		if up.count("sf1.test/1") != before+1 {
			fail("servfail-served-after-lifetime", "a SERVFAIL answer was still served from the cache 3.3 s after it was fetched (lifetime 1 s): the upstream was not asked again")
		}
	}
	// refresh of pos2 in its last quarter (4.5 s .. 6 s) answered SERVFAIL
	if d := time.Until(p2Fetched.Add(4800 * time.Millisecond)); d > 0 {
		time.Sleep(d)
	}
	up.mu.Lock()
	up.failing["pos2.test"] = true
	up.mu.Unlock()
	step("A asks pos2 in its last quarter; the refresh is answered SERVFAIL")
	h1 := ask(A, N("pos2", "test"), 1)
	time.Sleep(400 * time.Millisecond)
	h2 := ask(B, N("pos2", "test"), 1)
	if time.Since(p2Fetched) < 5500*time.Millisecond {
		for who, m := range map[string]*refdns.Msg{"A": h1, "B": h2} {
			if m != nil && m.RCode() != 0 && prop == "C08" {
				fail("negative-displaced-positive", fmt.Sprintf("%s answered rcode %d for pos2 while its positive entry (serial %d) had more than 0.5 s to live: a failing refresh displaced it", who, m.RCode(), serP))
			}
		}
	}
	// ---- TTL 0 answers (cached for 1 s): redis keeps the fetch time in whole seconds, so within that second the age can
	// already read "1 s" - more than the record's TTL. Ten names fetched by A, each asked once from B, 110 ms apart, so that
	// the lookups straddle the next second boundary while the entries are still alive.
	if prop == "C08" {
		step("A fetches zttl0..9 (upstream TTL 0), B asks them 110 ms apart")
		for i := 0; i < 10; i++ {
			ask(A, N(fmt.Sprintf("zttl%d", i), "test"), 1)
		}
		for i := 0; i < 10; i++ {
			time.Sleep(110 * time.Millisecond)
			z := ask(B, N(fmt.Sprintf("zttl%d", i), "test"), 1)
			if z != nil && len(z.An) > 0 && z.An[0].TTL > 1 {
				fail("ttl-exceeds-upstream-ttl", fmt.Sprintf("upstream TTL 0, fetched less than 2 s ago: B served zttl%d with ttl %d (must be at most 1)", i, z.An[0].TTL))
				break
			}
		}
	}
	// ---- an entry that reaches a router's memory cache late in its life (promotion from redis 4 s after the fetch) still ends with
	// the lifetime counted from the fetch, not from the promotion
	if prop == "C08" {
		step("A fetches late1; B asks it 4 s later (promotion) and again after lifetime + 2.3 s")
		l1 := ask(A, N("late1", "test"), 1)
		lateFetched := time.Now()
		serL := serialOf(l1)
		time.Sleep(4 * time.Second)
		l2 := ask(B, N("late1", "test"), 1)
		if d := time.Until(lateFetched.Add(8300 * time.Millisecond)); d > 0 {
			time.Sleep(d)
		}
		// (judged only if the 4 s lookup really was answered with the old answer, and only that answer: a refresh may have stored a newer one)
		if l3 := ask(B, N("late1", "test"), 1); l1 != nil && l2 != nil && serialOf(l2) == serL && l3 != nil && serialOf(l3) == serL {
			fail("served-after-lifetime", fmt.Sprintf("at least 8.3 s after a ttl 6 answer was fetched router B, which took it over from redis when it was 4 s old, still served it (serial %d)", serL))
		}
	}
	// ---- what was written to redis
	rd.mu.Lock()
	sets := append([]vredisSet(nil), rd.sets...)
	rd.mu.Unlock()
	if len(sets) == 0 {
		fail("nothing-stored", "no SET reached redis")
	}
	for _, s := range sets {
		k := strings.ToLower(s.key)
		desc := fmt.Sprintf("SET key=%q nx=%v px=%d", s.key, s.nx, s.px)
		step("set:" + fmt.Sprint(s.nx, s.px > 0))
		if prop != "C08" {
			continue
		}
		switch {
		case s.px <= 0:
			fail("stored-without-lifetime", desc)
		case strings.Contains(k, "zttl") && s.px > 1000:
			fail("lifetime-too-long", "a ttl 0 answer (cached for at most 1 s): "+desc)
		case (strings.Contains(k, "pos") || strings.Contains(k, "late")) && s.px > 6000:
			fail("lifetime-too-long", "a ttl 6 answer: "+desc)
		case strings.Contains(k, "nx1") && s.px > 30000:
			fail("lifetime-too-long", "an NXDOMAIN answer (at most 30 s): "+desc)
		case strings.Contains(k, "sf1") && s.px > 1000:
			fail("lifetime-too-long", "a SERVFAIL answer (at most 1 s): "+desc)
		}
		if (strings.Contains(k, "nx1") || strings.Contains(k, "sf1")) && !s.nx {
			fail("negative-stored-without-nx", "error / negative answers must not displace a live entry: "+desc)
		}
	}
	rep.Sample(map[string]any{"step": "B asks pos1 2 s after A fetched it", "expect": "served from redis, ttl <= 4, identical records, no upstream query"})
}
