package router

// C15 (admission seams): refused queries are answered REFUSED / 503 and are not
// forwarded; other subnets are not affected. All event sequences up to a
// length bound per listener seam, with a small burst.

import (
	"fmt"
	"net"
	"net/http"
	"net/netip"
	"strings"
	"testing"
	"time"

	"github.com/IrineSistiana/mosproxy/internal/zzverif/choice"
	"github.com/IrineSistiana/mosproxy/internal/zzverif/env"
	"github.com/IrineSistiana/mosproxy/internal/zzverif/refdns"
	"github.com/IrineSistiana/mosproxy/internal/zzverif/report"
)

// fakeListener feeds in-memory connections to tcpServer.run / http servers.
type fakeListener struct {
	ch     chan net.Conn
	closed chan struct{}
}

func newFakeListener() *fakeListener {
	return &fakeListener{ch: make(chan net.Conn, 16), closed: make(chan struct{})}
}
func (l *fakeListener) Accept() (net.Conn, error) {
	select {
	case c := <-l.ch:
		return c, nil
	case <-l.closed:
		return nil, net.ErrClosed
	}
}
func (l *fakeListener) Close() error {
	select {
	case <-l.closed:
	default:
		close(l.closed)
	}
	return nil
}
func (l *fakeListener) Addr() net.Addr { return zvTCPAddr(vLocalV4) }

type c15Outcome struct {
	kind string // "answer", "refused", "closed", "none"
}

func c15Seams() []string { return []string{"udp", "tcp", "gnet", "http", "http-client-addr-header"} }

func c15SeamScenario(c *choice.Ctx, rep *report.R, depth int) {
	own := env.InstallOwn(0xA5, vRace)
	defer env.UninstallOwn()
	seam := c15Seams()[c.Choose(len(c15Seams()), "seam")]
	burst := []int{4, 8, 9}[c.Choose(3, "burst")]
	// the upstream may fail every exchange: the client is answered SERVFAIL, and an admitted query still costs what it costs
	upFails := c.Choose(2, "upstream-fails") == 1
	// which subnets: IPv4 clients under the default masks (/24), IPv6 clients under the default masks (/48), IPv6 clients under
	// configured masks (v4_mask 32, v6_mask 64). The udp seam uses real loopback sockets and stays with IPv4.
	masks := "default-v4"
	if seam != "udp" {
		masks = []string{"default-v4", "default-v6", "configured-32-64"}[c.Choose(3, "masks")]
	}
	var trace []string
	fail := func(sig, msg string) {
		rep.Violate("C15:"+seam+":"+sig, fmt.Sprintf("%s\n  burst=%d rate=1/s masks=%s upstream-fails=%v events: %s", msg, burst, masks, upFails, strings.Join(trace, " ")), map[string]any{"Choices": c.Choices()})
	}
	cfg := c03Config("forward")
	cfg.Limiter.Client = ClientLimiterConfig{Limit: 1, Burst: burst}
	if masks == "configured-32-64" {
		cfg.Limiter.Client.V4Mask, cfg.Limiter.Client.V6Mask = 32, 64
	}
	v, err := vNewRouter(cfg, "u1")
	if err != nil {
		fail("router-start", err.Error())
		return
	}
	defer v.Close()
	u := v.ups["u1"]
	u.Auto = func(q *upQuery) *upResult {
		if upFails {
			return &upResult{err: errScripted}
		}
		return &upResult{wire: env.Answer(q.Msg, 1, 60).Encode(false)}
	}
	clients := map[string]string{"A": "127.1.1.7", "A2": "127.1.1.200", "B": "127.1.2.7"} // A, A2 share a /24
	switch masks {
	case "default-v6":
		clients = map[string]string{"A": "2001:db8:1:1::7", "A2": "2001:db8:1:2::9", "B": "2001:db8:2:1::7"} // A, A2 share a /48
	case "configured-32-64":
		clients = map[string]string{"A": "2001:db8:1:1::7", "A2": "2001:db8:1:1::9", "B": "2001:db8:1:2::7"} // A, A2 share a /64; B is in the same /48
	}
	// per seam: a function that sends one query from a client and classifies what happened
	type sender func(who string, id uint16) string
	var send sender
	q := func(id uint16) *refdns.Msg { return refdns.Query(id, refdns.N("lim", "example", "test"), 1, 1) }
	classify := func(m *refdns.Msg) string {
		if m == nil {
			return "garbled"
		}
		switch m.RCode() {
		case 0:
			return "answer"
		case 2:
			if upFails {
				return "answer" // admitted and forwarded; the upstream failed
			}
		case 5:
			return "refused"
		}
		return "rcode" + rcodeName(m.RCode())
	}
	var minCost, firstCost int // firstCost: what the very first request of a fresh subnet is charged at admission
	newConn := false           // tcp seam: the last send opened a connection (charged costTCPConn on its own when it was accepted)
	switch seam {
	case "udp":
		minCost, firstCost = costUDPQuery, costUDPQuery
		ucs := map[string]*udpClient{}
		send = func(who string, id uint16) string {
			uc := ucs[who]
			if uc == nil {
				var err error
				uc, err = v.udpClient(clients[who])
				if err != nil {
					return "harness-error:" + err.Error()
				}
				ucs[who] = uc
			}
			before := len(uc.Poll())
			uc.Send(q(id).Encode(false))
			wait()
			got := uc.Poll()
			if len(got) != before+1 {
				return fmt.Sprintf("none(%d)", len(got)-before)
			}
			m, _ := refdns.Decode(got[before])
			return classify(m)
		}
	case "tcp":
		minCost, firstCost = costTCPQuery, costTCPConn+costTCPQuery
		// (at most 2 queries in flight per connection: the queries here come one at a time, so the limit is never the reason for a
		// refusal - unless refusals leak in-flight slots)
		s := v.newTCPServer(2, 100*time.Second)
		fl := newFakeListener()
		s.l = fl
		go s.run()
		v.closers = append(v.closers, func() { s.Close() })
		conns := map[string]*env.End{}
		send = func(who string, id uint16) string {
			impl := conns[who]
			newConn = false
			if impl == nil || impl.IsClosed() {
				newConn = true
				impl, _ = env.Pipe(zvTCPAddr(vLocalV4), zvTCPAddr(netip.AddrPortFrom(netip.MustParseAddr(clients[who]), 999)))
				conns[who] = impl
				im := impl
				v.closers = append(v.closers, func() { im.PeerFIN() })
				fl.ch <- impl
				wait()
				if impl.IsClosed() {
					return "closed"
				}
			}
			fs, _ := env.SplitFrames(impl.Written())
			before := len(fs)
			impl.Inject(refdns.Frame(q(id).Encode(false)))
			wait()
			fs, _ = env.SplitFrames(impl.Written())
			if len(fs) != before+1 {
				if impl.IsClosed() {
					return "closed"
				}
				return fmt.Sprintf("none(%d)", len(fs)-before)
			}
			m, _ := refdns.Decode(fs[before])
			return classify(m)
		}
	case "gnet":
		minCost, firstCost = costTCPConn, costTCPConn // the gnet listener only charges connections
		s := v.newGnetServer(2, 100*time.Second)
		send = func(who string, id uint16) string {
			g := v.gnetClient(s, netip.AddrPortFrom(netip.MustParseAddr(clients[who]), 999), vLocalV4)
			wait()
			if g.Closed() {
				return "closed"
			}
			g.Send(refdns.Frame(q(id).Encode(false)))
			wait()
			fs, _ := env.SplitFrames(g.Written())
			defer func() { g.Close(); wait() }()
			if len(fs) != 1 {
				return fmt.Sprintf("none(%d)", len(fs))
			}
			m, _ := refdns.Decode(fs[0])
			return classify(m)
		}
	case "http", "http-client-addr-header":
		minCost, firstCost = costHTTPQuery, costHTTPQuery
		h := v.newHTTPHandler()
		if seam == "http-client-addr-header" {
			h.clientAddrHeader = "X-Real-Client"
		}
		send = func(who string, id uint16) string {
			peer := netip.AddrPortFrom(netip.MustParseAddr(clients[who]), 999).String()
			var mod func(*http.Request)
			if seam == "http-client-addr-header" {
				// behind a front-end: every request comes from the front-end's address, the client is named by the header
				peer = "203.0.113.9:443"
				mod = func(r *http.Request) { r.Header.Set("X-Real-Client", clients[who]) }
			}
			res := vDoHRequest(h, "POST", q(id).Encode(false), peer, mod)
			wait()
			if !res.done {
				return "none(0)"
			}
			if res.status == 503 {
				return "refused"
			}
			if res.status != 200 {
				return fmt.Sprintf("http%d", res.status)
			}
			m, _ := refdns.Decode(res.body)
			return classify(m)
		}
	}
	start := time.Now()
	type adm struct {
		at   time.Duration
		cost int
	}
	admitted := map[string][]adm{}
	subnet := map[string]string{"A": "a", "A2": "a", "B": "b"}
	usedSubnet := map[string]bool{}
	id := uint16(0x1500)
	for step := 0; step < depth; step++ {
		ev := c.Choose(4, "event")
		if ev == 3 {
			hsleep(time.Second)
			wait()
			trace = append(trace, "+1s")
			continue
		}
		who := []string{"A", "A2", "B"}[ev]
		id++
		upBefore := len(u.Queries())
		out := send(who, id)
		fwd := len(u.Queries()) - upBefore
		trace = append(trace, fmt.Sprintf("%s:%s", who, out))
		sn := subnet[who]
		switch out {
		case "answer":
			if fwd != 1 {
				fail("answer-without-forward", fmt.Sprintf("%s got an answer but the upstream saw %d queries", who, fwd))
			}
			now := time.Since(start)
			cost := minCost
			if seam == "tcp" && newConn {
				cost += costTCPConn // the connection this query arrived on was accepted (and charged) just before
			}
			admitted[sn] = append(admitted[sn], adm{now, cost})
			ad := admitted[sn]
			sum := 0
			for j := len(ad) - 1; j >= 0; j-- {
				n := len(ad) - j
				sum += ad[j].cost
				w := (now - ad[j].at).Seconds()
				if float64(sum) > float64(burst)+w+1e-6 {
					fail("bound-exceeded", fmt.Sprintf("subnet of %s: %d queries (total cost %d: %d per query, %d per accepted tcp connection) admitted in %.0fs, bound %d + 1*window", who, n, sum, minCost, costTCPConn, w, burst))
					break
				}
			}
		case "refused", "closed":
			if fwd != 0 {
				fail("refused-but-forwarded", fmt.Sprintf("%s was refused (%s) but the query was forwarded", who, out))
			}
			if !usedSubnet[sn] && burst >= firstCost {
				fail("fresh-subnet-refused", fmt.Sprintf("first request ever from the subnet of %s was refused: other subnets' traffic was charged to it", who))
			}
			if out == "closed" && seam == "udp" {
				fail("no-refused-response", "UDP query dropped instead of REFUSED")
			}
		default:
			if strings.HasPrefix(out, "none") && seam != "gnet" {
				fail("no-response", fmt.Sprintf("%s: query neither answered nor refused (%s)", who, out))
			} else if !strings.HasPrefix(out, "none") {
				fail("unexpected-outcome", fmt.Sprintf("%s: %s", who, out))
			}
		}
		usedSubnet[sn] = true
	}
	// recovery: whatever happened so far, after the client has been refused a few more times and has then stayed silent for burst
	// seconds (its bucket is certainly full again) its next query is admitted - on the connection it has been using all along
	if c.Choose(2, "recovery-history") == 1 && burst >= firstCost {
		for i := 0; i < 12; i++ {
			id++
			if out := send("A", id); out != "refused" && out != "answer" && out != "closed" {
				break
			}
		}
		hsleep(time.Duration(burst+1) * time.Second)
		wait()
		id++
		out := send("A", id)
		trace = append(trace, "12xA,+"+fmt.Sprint(burst+1)+"s,A:"+out)
		if out == "closed" { // the connection went away meanwhile: a new one (its cost is within the full bucket as well)
			id++
			out = send("A", id)
		}
		if out != "answer" {
			fail("refused-within-budget", fmt.Sprintf("A was refused a number of times, then stayed silent for %d s (burst %d at 1/s: the bucket is full again), and its next query got %q", burst+1, burst, out))
		}
	}
	v.Close()
	for _, x := range own.Audit() {
		fail("ownership", x)
	}
	rep.Eval(seam + fmt.Sprint(burst) + strings.Join(trace, ","))
	rep.State(seam + strings.Join(trace, ","))
}

// c15LatencyScenario: the per-subnet bound with an upstream that takes time to answer. One subnet sends paced queries (distinct
// names, every 4th a repeat that is served from the cache) for 4 s while every upstream reply is delivered after a fixed latency;
// whatever is booked when (at arrival, before or after the upstream exchange), the admitted queries x the listener's cost per
// query never exceed burst + rate x window over any window.
func c15LatencyScenario(c *choice.Ctx, rep *report.R) {
	own := env.InstallOwn(0xA5, vRace)
	defer env.UninstallOwn()
	const rate = 20
	const tick = 25 * time.Millisecond
	latency := []time.Duration{0, 200 * time.Millisecond, 500 * time.Millisecond, 1500 * time.Millisecond}[c.Choose(4, "upstream-latency")]
	pace := []int{1, 2, 4, 8}[c.Choose(4, "pace")] // ticks between queries
	burstCfg := []int{0, 60}[c.Choose(2, "burst")]
	burst := burstCfg
	if burst == 0 {
		burst = rate
	}
	desc := fmt.Sprintf("rate=%d/s burst=%d(cfg %d) upstream latency=%v one query every %v for 4s", rate, burst, burstCfg, latency, time.Duration(pace)*tick)
	fail := func(sig, msg string) {
		rep.Violate("C15:http:slow-upstream:"+sig, msg+"\n  "+desc, map[string]any{"Choices": c.Choices(), "Latency": true})
	}
	cfg := c03Config("forward")
	cfg.Cache.MemSize = 1 << 20
	cfg.Limiter.Client = ClientLimiterConfig{Limit: rate, Burst: burstCfg}
	v, err := vNewRouter(cfg, "u1")
	if err != nil {
		fail("router-start", err.Error())
		return
	}
	defer v.Close()
	u := v.ups["u1"]
	h := v.newHTTPHandler()
	start := time.Now()
	type req struct {
		res *httpResult
		at  time.Duration
	}
	var reqs []req
	answered := 0
	for t := 0; t < 160+int(latency/tick)+8; t++ {
		// upstream replies that are due
		for _, uq := range u.Pending() {
			if uq.Msg != nil && time.Since(uq.At) >= latency {
				uq.Reply(env.Answer(uq.Msg, 1, 60).Encode(false))
			}
		}
		wait()
		if t < 160 && t%pace == 0 {
			i := len(reqs)
			name := fmt.Sprintf("n%d", i)
			if i%4 == 3 {
				name = "n0" // a repeat: cache hit once n0 has been answered
			}
			q := refdns.Query(uint16(0x2000+i), refdns.N(name, "lat", "test"), 1, 1)
			reqs = append(reqs, req{vDoHRequest(h, "POST", q.Encode(false), "127.9.9.7:999", nil), time.Since(start)})
			wait()
		}
		hsleep(tick)
		wait()
	}
	var admitted []time.Duration
	refused := 0
	for _, r := range reqs {
		switch {
		case !r.res.done:
			fail("no-response", "a request got no response")
		case r.res.status == 503:
			refused++
		case r.res.status == 200:
			admitted = append(admitted, r.at)
			answered++
		default:
			fail("unexpected-status", fmt.Sprint(r.res.status))
		}
	}
	for j := range admitted {
		for k := j; k < len(admitted); k++ {
			n := k - j + 1
			w := (admitted[k] - admitted[j]).Seconds()
			if float64(n*costHTTPQuery) > float64(burst)+rate*w+1e-6 {
				fail("bound-exceeded", fmt.Sprintf("%d queries (cost >= %d each) of one subnet admitted within %.3fs, bound burst + rate*window = %.1f (%d admitted, %d refused in total)", n, costHTTPQuery, w, float64(burst)+rate*w, len(admitted), refused))
				j = len(admitted)
				break
			}
		}
	}
	v.Close()
	for _, x := range own.Audit() {
		fail("ownership", x)
	}
	rep.Eval(desc + fmt.Sprintf("=>%d/%d", len(admitted), refused))
	rep.State(desc)
}

func TestVerifC15Seams(t *testing.T) {
	rep := report.New("C15 admission seams")
	defer rep.Write()
	depth := report.ParamInt("DEPTH", 4)
	rep.Rule = fmt.Sprintf("E3: real router with client limiter (rate 1/s, burst {4,8,9}, default masks) and an upstream that answers every query / fails every exchange; seams {udp (real loopback sockets), tcp (real accept loop over a fake listener + per-query check), gnet (OnOpen), http}; "+
		"all sequences of length <=%d over {query from A, query from A2 (same /24), query from B (other /24), advance 1 s}; oracle: every query is either answered (and forwarded exactly once) or refused with REFUSED / 503 / connection refusal (and not forwarded); "+
		"the first request of a subnet is never refused; admitted queries per subnet x their minimum cost <= burst + rate*window; "+
		"plus (http seam, rate 20/s, burst {default, 60}): one subnet sends a query every {25,50,100,200} ms for 4 s (distinct names, every 4th a cache hit) while the upstream answers after {0, 0.2, 0.5, 1.5} s: same bound over every window", depth)
	lat := false
	if rp := report.ReplayFile(); rp != nil {
		var x struct{ Latency bool }
		rp.Decode(&x)
		lat = x.Latency
	}
	if !lat {
		st := runExplore(t, rep, -1, func(c *choice.Ctx) { c15SeamScenario(c, rep, depth) })
		rep.Count("executions", st.Executions)
	}
	if lat || report.ReplayFile() == nil {
		st := runExplore(t, rep, -1, func(c *choice.Ctx) { c15LatencyScenario(c, rep) })
		rep.Count("executions_slow_upstream", st.Executions)
	}
	rep.Sample(map[string]any{"seam": "udp", "burst": 4, "events": "A:answer A2:refused B:answer +1s A:refused", "note": "an admitted UDP query costs 1 + 3 (upstream) tokens"})
}
