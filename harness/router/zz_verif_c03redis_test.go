package router

// C03 (second-level cache that stops answering, real sockets): the redis backend is fed asynchronously; when the server hangs on
// its writes, answers that cannot be stored are dropped from the store queue - the request path never waits for redis. A burst of
// 250 different queries right after the server hung: every one gets its response within the request deadline.

import (
	"context"
	"fmt"
	"net"
	"testing"
	"time"

	"github.com/IrineSistiana/mosproxy/internal/mlog"
	"github.com/IrineSistiana/mosproxy/internal/zzverif/refdns"
	"github.com/IrineSistiana/mosproxy/internal/zzverif/report"
	"github.com/rs/zerolog"
)

func TestVerifC03RedisHung(t *testing.T) {
	mlog.SetLvl(zerolog.Disabled)
	rep := report.New("C03 responses while the redis backend hangs")
	defer rep.Write()
	const burst = 250
	rep.Rule = fmt.Sprintf("real router (udp listener, memory cache + redis backend on a harness-made RESP2 server, local TCP upstream that answers at once); after the backend is connected the server stops answering SET commands; "+
		"%d different queries are sent in one burst; oracle: every query gets a response within 9 s of the burst (a store that cannot be queued is dropped, the request path does not wait for redis)", burst)
	if sh, _ := report.Shard(); sh != 0 {
		rep.Eval("idle-shard")
		rep.Eval("idle-shard2")
		return
	}
	rd, err := newVRedis()
	if err != nil {
		t.Fatal(err)
	}
	defer rd.l.Close()
	up, err := newVUpstream()
	if err != nil {
		t.Fatal(err)
	}
	defer up.l.Close()
	var r *router
	addr := ""
	for try := 0; try < 3 && r == nil; try++ {
		pc, err := net.ListenPacket("udp", "127.0.0.1:0")
		if err != nil {
			t.Fatal(err)
		}
		addr = pc.LocalAddr().String()
		pc.Close()
		cfg := &Config{
			Servers:   []ServerConfig{{Protocol: "udp", Listen: addr}},
			Upstreams: []UpstreamConfig{{Tag: "u", Addr: "tcp+pipeline://" + up.l.Addr().String()}},
			Rules:     []RuleConfig{{Forward: "u"}},
			Cache:     CacheConfig{MemSize: 1 << 20, Redis: "redis://" + rd.l.Addr().String() + "?protocol=2&client_cache=0"},
		}
		if r, err = run(context.Background(), cfg); err != nil {
			r = nil
		}
	}
	if r == nil {
		rep.Violate("C03:redis-hung:router-start", "the router did not start", nil)
		return
	}
	defer func() {
		rd.mu.Lock()
		rd.setHang = false
		rd.mu.Unlock()
		r.close(nil)
	}()
	time.Sleep(2600 * time.Millisecond) // the backend is used after its first successful ping
	c, err := net.Dial("udp", addr)
	if err != nil {
		t.Fatal(err)
	}
	defer c.Close()
	ask := func(lo, n int) (answered map[uint16]bool) {
		answered = map[uint16]bool{}
		for i := 0; i < n; i++ {
			c.Write(refdns.Query(uint16(lo+i), refdns.N(fmt.Sprintf("pos-h%d", lo+i), "test"), 1, 1).Encode(false))
			if i%25 == 24 {
				time.Sleep(2 * time.Millisecond) // stay below the socket buffers
			}
		}
		deadline := time.Now().Add(9 * time.Second) // request deadline 6 s plus a generous allowance for a loaded machine
		b := make([]byte, 4096)
		for len(answered) < n && time.Now().Before(deadline) {
			c.SetReadDeadline(deadline)
			k, err := c.Read(b)
			if err != nil {
				break
			}
			// (any response counts: a query that was waiting for the backend when it hung may be answered SERVFAIL at its deadline)
			if m, err := refdns.Decode(b[:k]); err == nil && int(m.ID) >= lo && int(m.ID) < lo+n {
				answered[m.ID] = true
			}
		}
		return
	}
	rep.Eval("warm-up: 10 queries with a healthy backend")
	if got := ask(0x100, 10); len(got) != 10 {
		rep.Violate("C03:redis-hung:setup", fmt.Sprintf("%d of 10 warm-up queries answered", len(got)), nil)
		return
	}
	time.Sleep(300 * time.Millisecond)
	rd.mu.Lock()
	rd.setHang = true
	rd.mu.Unlock()
	rep.Eval(fmt.Sprintf("burst of %d queries while SET hangs", burst))
	got := ask(0x1000, burst)
	if len(got) != burst {
		rep.Violate("C03:redis-hung:no-response", fmt.Sprintf("%d of %d queries sent while the redis server was hanging on SET got no response within 9 s: the request path waits for the cache backend", burst-len(got), burst), nil)
	}
	rep.Sample(map[string]any{"burst": burst, "answered": len(got)})
}
