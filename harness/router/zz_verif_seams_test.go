package router

// Client seams for the remaining listener kinds: gnet (fake gnet.Conn driven
// by a fake event loop), DoT (real crypto/tls over the in-memory connection),
// DoH net/http handler, fasthttp handler, DoQ stream handler and UDP (real
// loopback sockets, non-blocking receive).

import (
	"bytes"
	"crypto/tls"
	"encoding/base64"
	"io"
	"net"
	"net/http"
	"net/http/httptest"
	"net/netip"
	"sync"
	"syscall"
	"time"

	"github.com/IrineSistiana/mosproxy/internal/testutils"
	"github.com/IrineSistiana/mosproxy/internal/zzverif/env"
	"github.com/IrineSistiana/mosproxy/internal/zzverif/refdns"
	"github.com/panjf2000/gnet/v2"
	"github.com/valyala/fasthttp"
)

// ---------------------------------------------------------------- gnet

// fakeLoop serialises callbacks like a gnet event loop.
type fakeLoop struct {
	jobs chan func()
	quit chan struct{}
}

func newFakeLoop() *fakeLoop {
	l := &fakeLoop{jobs: make(chan func(), 1024), quit: make(chan struct{})}
	go func() {
		for {
			select {
			case f := <-l.jobs:
				f()
			case <-l.quit:
				return
			}
		}
	}()
	return l
}

func (l *fakeLoop) stop() { close(l.quit) }

type fakeGnetConn struct {
	gnet.Conn // nil: unexpected calls panic
	loop      *fakeLoop
	srv       *gnetServer
	ctx       any
	local     net.Addr
	remote    net.Addr
	mu        sync.Mutex
	in        []byte
	out       []byte // everything written to the client
	writes    [][]byte
	closed    bool
	onClosed  bool
}

func (c *fakeGnetConn) Context() any         { return c.ctx }
func (c *fakeGnetConn) SetContext(v any)     { c.ctx = v }
func (c *fakeGnetConn) LocalAddr() net.Addr  { return c.local }
func (c *fakeGnetConn) RemoteAddr() net.Addr { return c.remote }
func (c *fakeGnetConn) InboundBuffered() int { return len(c.in) }

// Next follows gnet v2.3.6: n > buffered => (nil, ErrShortBuffer), nothing consumed; n <= 0 => everything.
func (c *fakeGnetConn) Next(n int) ([]byte, error) {
	if n > len(c.in) {
		return nil, io.ErrShortBuffer
	}
	if n <= 0 {
		n = len(c.in)
	}
	b := c.in[:n:n]
	c.in = c.in[n:]
	return b, nil
}

func (c *fakeGnetConn) Write(b []byte) (int, error) {
	c.mu.Lock()
	defer c.mu.Unlock()
	if c.closed {
		return 0, net.ErrClosed
	}
	c.out = append(c.out, b...)
	c.writes = append(c.writes, append([]byte(nil), b...))
	return len(b), nil
}

func (c *fakeGnetConn) Flush() error { return nil }

func (c *fakeGnetConn) AsyncWrite(b []byte, cb gnet.AsyncCallback) error {
	c.loop.jobs <- func() {
		_, err := c.Write(b) // the bytes are copied when the loop gets to it
		if cb != nil {
			cb(c, err)
		}
	}
	return nil
}

func (c *fakeGnetConn) Close() error {
	c.loop.jobs <- func() { c.doClose(nil) }
	return nil
}

func (c *fakeGnetConn) doClose(err error) {
	c.mu.Lock()
	was := c.closed
	c.closed = true
	c.mu.Unlock()
	if !was {
		c.srv.OnClose(c, err)
		c.onClosed = true
	}
}

type gnetClient struct {
	c       *fakeGnetConn
	loop    *fakeLoop
	stopped bool
}

func (v *vRouter) newGnetServer(maxConcurrent int32, idle time.Duration) *gnetServer {
	if maxConcurrent <= 0 {
		maxConcurrent = defaultMaxConcurrentRequestPreTCPConn
	}
	if idle <= 0 {
		idle = defaultTCPIdleTimeout
	}
	return &gnetServer{r: v.r, logger: v.r.subLoggerForServer("server_gnet", "verif"), engineReady: make(chan struct{}), idleTimeout: idle, maxConcurrent: maxConcurrent}
}

func (v *vRouter) gnetClient(s *gnetServer, remote, local netip.AddrPort) *gnetClient {
	loop := newFakeLoop()
	c := &fakeGnetConn{loop: loop, srv: s, local: zvTCPAddr(local), remote: zvTCPAddr(remote)}
	loop.jobs <- func() {
		out, act := s.OnOpen(c)
		if len(out) > 0 {
			c.Write(out)
		}
		if act == gnet.Close {
			c.doClose(nil)
		}
	}
	g := &gnetClient{c: c, loop: loop}
	v.closers = append(v.closers, func() { g.Close(); wait(); g.Stop() })
	return g
}

// Send delivers each segment as one read event (one OnTraffic call), like gnet does.
func (g *gnetClient) Send(segments ...[]byte) {
	for _, s := range segments {
		s := append([]byte(nil), s...)
		g.loop.jobs <- func() {
			g.c.mu.Lock()
			closed := g.c.closed
			g.c.mu.Unlock()
			if closed {
				return
			}
			g.c.in = append(g.c.in, s...)
			if act := g.c.srv.OnTraffic(g.c); act == gnet.Close {
				g.c.doClose(nil)
			}
			// gnet reuses its read buffer after OnTraffic returns: poison what was handed out
			for i := range s {
				s[i] = env.Poison
			}
		}
	}
}
func (g *gnetClient) Written() []byte {
	g.c.mu.Lock()
	defer g.c.mu.Unlock()
	return append([]byte(nil), g.c.out...)
}
func (g *gnetClient) Closed() bool { g.c.mu.Lock(); defer g.c.mu.Unlock(); return g.c.closed }
func (g *gnetClient) Close() {
	g.loop.jobs <- func() { g.c.doClose(io.EOF) }
}
func (g *gnetClient) Stop() {
	if !g.stopped {
		g.stopped = true
		g.loop.stop()
	}
}

// ---------------------------------------------------------------- TLS (DoT)

var (
	vCertOnce sync.Once
	vCert     tls.Certificate
)

func vServerCert() tls.Certificate {
	vCertOnce.Do(func() {
		c, err := testutils.GenerateCertificate("test.test")
		if err != nil {
			panic(err)
		}
		vCert = c
	})
	return vCert
}

type tlsClient struct {
	sc    *streamClient
	tc    *tls.Conn
	mu    sync.Mutex
	rx    []byte
	hsOK  bool
	hsErr error
}

func (v *vRouter) tlsClient(s *tcpServer, remote, local netip.AddrPort) *tlsClient {
	sc := v.tcpClient(s, remote, local)
	t := &tlsClient{sc: sc}
	v.closers = append(v.closers, func() { t.Close() })
	t.tc = tls.Client(sc.impl.Peer(), &tls.Config{InsecureSkipVerify: true, Time: func() time.Time { return time.Now().AddDate(30, 0, 0) }})
	go func() {
		if err := t.tc.Handshake(); err != nil {
			publish(func() { t.hsErr = err })
			return
		}
		publish(func() { t.hsOK = true })
		buf := make([]byte, 70000)
		for {
			n, err := t.tc.Read(buf)
			t.mu.Lock()
			t.rx = append(t.rx, buf[:n]...)
			t.mu.Unlock()
			if err != nil {
				return
			}
		}
	}()
	return t
}

func (t *tlsClient) Send(segments ...[]byte) {
	for _, s := range segments {
		t.tc.Write(s)
	}
}
func (t *tlsClient) Received() []byte {
	t.mu.Lock()
	defer t.mu.Unlock()
	return append([]byte(nil), t.rx...)
}
func (t *tlsClient) Close() { t.tc.Close(); t.sc.impl.Peer().Close() }

// ---------------------------------------------------------------- DoH (net/http handler)

type httpResult struct {
	done     bool
	status   int
	body     []byte
	ctype    string
	panicked any
}

func (v *vRouter) newHTTPHandler() *httpHandler {
	return &httpHandler{r: v.r, localAddr: vLocalV4, logger: v.r.subLoggerForServer("server_http", "verif")}
}

func vDoHRequest(h http.Handler, method string, wire []byte, remote string, mutate func(*http.Request)) *httpResult {
	var req *http.Request
	if method == http.MethodGet {
		req = httptest.NewRequest(method, "/dns-query?dns="+base64.RawURLEncoding.EncodeToString(wire), nil)
		req.Header.Set("Accept", "application/dns-message")
	} else {
		req = httptest.NewRequest(method, "/dns-query", bytes.NewReader(wire))
		req.Header.Set("Content-Type", "application/dns-message")
	}
	req.RemoteAddr = remote
	if mutate != nil {
		mutate(req)
	}
	res := &httpResult{}
	go func() {
		defer func() {
			if r := recover(); r != nil {
				publish(func() { res.panicked, res.done = r, true })
			}
		}()
		rec := httptest.NewRecorder()
		h.ServeHTTP(rec, req)
		publish(func() {
			res.status = rec.Code
			res.body = append([]byte(nil), rec.Body.Bytes()...)
			res.ctype = rec.Header().Get("Content-Type")
			res.done = true
		})
	}()
	return res
}

// ---------------------------------------------------------------- DoH (fasthttp handler)

func (v *vRouter) newFastHTTPHandler() *fasthttpHandler {
	return &fasthttpHandler{r: v.r, logger: v.r.subLoggerForServer("server_fasthttp", "verif")}
}

func vFastDoHRequest(h *fasthttpHandler, method string, wire []byte, remote netip.AddrPort, mutate func(*fasthttp.Request)) *httpResult {
	var req fasthttp.Request
	req.Header.SetMethod(method)
	if method == http.MethodGet {
		req.SetRequestURI("/dns-query?dns=" + base64.RawURLEncoding.EncodeToString(wire))
		req.Header.Set("Accept", "application/dns-message")
	} else {
		req.SetRequestURI("/dns-query")
		req.Header.Set("Content-Type", "application/dns-message")
	}
	if mutate != nil {
		mutate(&req)
	}
	res := &httpResult{}
	go func() {
		defer func() {
			if r := recover(); r != nil {
				publish(func() { res.panicked, res.done = r, true })
			}
		}()
		var ctx fasthttp.RequestCtx
		ctx.Init(&req, zvTCPAddr(remote), nil)
		if method != http.MethodGet {
			// the real server runs with StreamRequestBody: the body is only available as a stream
			ctx.Request.SetBodyStream(bytes.NewReader(wire), len(wire))
		}
		if mutate != nil {
			mutate(&ctx.Request)
		}
		h.HandleFastHTTP(&ctx)
		publish(func() {
			res.status = ctx.Response.StatusCode()
			res.body = append([]byte(nil), ctx.Response.Body()...)
			res.ctype = string(ctx.Response.Header.ContentType())
			res.done = true
		})
	}()
	return res
}

// ---------------------------------------------------------------- DoQ (stream handler)

type quicClient struct {
	s    *env.FakeStream
	peer *env.End
	done bool
}

// seamIdle is the idle time-out of the stream listeners opened by the seams (scenarios that let long virtual time pass raise it)
var seamIdle = 30 * time.Second

func (v *vRouter) newQuicServer() *quicServer {
	return &quicServer{r: v.r, idleTimeout: min(defaultQuicIdleTimeout, seamIdle), logger: v.r.subLoggerForServer("server_quic", "verif")}
}

func vUDPAddr(ap netip.AddrPort) net.Addr { return net.UDPAddrFromAddrPort(ap) }

// quicStream opens one DoQ stream handled by the real handleStream (as handleConn's goroutine does).
func (v *vRouter) quicStream(s *quicServer, remote, local netip.AddrPort) *quicClient {
	conn := env.NewFakeQuicConn(vUDPAddr(local), vUDPAddr(remote))
	st, peer := env.NewFakeStream(0, vUDPAddr(local), vUDPAddr(remote))
	q := &quicClient{s: st, peer: peer}
	v.closers = append(v.closers, func() { peer.Close(); st.E.Abort() })
	// the stream goes through the real handleConn (accept loop, limiter, per-stream goroutine), as quicServer.run starts it
	go func() {
		s.handleConn(conn)
		conn.CloseWithError(0, "")
	}()
	conn.PushStream(st)
	v.closers = append(v.closers, func() { conn.Die() })
	go func() {
		<-st.Context().Done() // the handler closed the send side (or the stream was killed)
		publish(func() { q.done = true })
	}()
	return q
}

func (q *quicClient) Send(segments ...[]byte) { q.s.E.Inject(segments...) }
func (q *quicClient) FinSend()                { q.peer.CloseWrite() }
func (q *quicClient) Written() []byte         { return q.s.E.Written() }

// ---------------------------------------------------------------- UDP (real loopback sockets)

type udpClient struct {
	srv      *udpServer
	send     *net.UDPConn // the server's socket
	recv     *net.UDPConn // the client's socket
	remote   netip.AddrPort
	listener netip.AddrPort
	got      [][]byte
}

func (v *vRouter) udpClient(clientIP string) (*udpClient, error) {
	send, err := net.ListenUDP("udp4", &net.UDPAddr{IP: net.IPv4(127, 0, 0, 1)})
	if err != nil {
		return nil, err
	}
	recv, err := net.ListenUDP("udp4", &net.UDPAddr{IP: net.ParseIP(clientIP)})
	if err != nil {
		send.Close()
		return nil, err
	}
	s := &udpServer{r: v.r, logger: v.r.subLoggerForServer("server_udp", "verif"), cs: []*wmUdpConn{{c: send}}}
	uc := &udpClient{srv: s, send: send, recv: recv,
		remote:   recv.LocalAddr().(*net.UDPAddr).AddrPort(),
		listener: send.LocalAddr().(*net.UDPAddr).AddrPort()}
	v.closers = append(v.closers, func() { uc.Close() })
	return uc, nil
}

// Send hands one datagram to the real handleMsg, then overwrites the receive buffer like the read loop would.
func (u *udpClient) Send(b []byte) {
	buf := make([]byte, 2048)
	n := copy(buf, b)
	u.srv.handleMsg(buf[:n], nil, u.remote, u.listener)
	for i := range buf {
		buf[i] = env.Poison
	}
}

// Poll collects datagrams that have arrived (non-blocking).
func (u *udpClient) Poll() [][]byte {
	rc, err := u.recv.SyscallConn()
	if err != nil {
		return u.got
	}
	buf := make([]byte, 70000)
	for {
		n := -1
		rc.Read(func(fd uintptr) bool {
			var e error
			n, _, e = syscall.Recvfrom(int(fd), buf, syscall.MSG_DONTWAIT)
			if e != nil {
				n = -1
			}
			return true // never wait
		})
		if n < 0 {
			break
		}
		u.got = append(u.got, append([]byte(nil), buf[:n]...))
	}
	return u.got
}

func (u *udpClient) Close() { u.send.Close(); u.recv.Close() }

var _ = refdns.Frame
