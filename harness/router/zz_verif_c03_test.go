package router

// C03: every query gets exactly one matching response whatever the upstream does.
// Product of listener seam x query alphabet x rule outcome x upstream outcome,
// each run in a virtual-time bubble up to t = 20 s.

import (
	"bytes"
	"crypto/tls"
	"fmt"
	"io"
	"net/http"
	"os"
	"strings"
	"testing"
	"testing/iotest"
	"time"

	"github.com/IrineSistiana/mosproxy/internal/upstream/transport"
	"github.com/IrineSistiana/mosproxy/internal/zzverif/choice"
	"github.com/IrineSistiana/mosproxy/internal/zzverif/env"
	"github.com/IrineSistiana/mosproxy/internal/zzverif/refdns"
	"github.com/IrineSistiana/mosproxy/internal/zzverif/report"
	"github.com/valyala/fasthttp"
)

type c03Query struct {
	desc string
	m    *refdns.Msg
}

func c03Queries() []c03Query {
	var out []c03Query
	name := refdns.N("www", "example", "test")
	for _, qr := range []uint16{0, refdns.BitQR} {
		for _, op := range []uint16{0, 1, 2, 15} {
			for _, rd := range []uint16{0, refdns.BitRD} {
				for qd := 0; qd <= 2; qd++ {
					m := &refdns.Msg{ID: uint16(0x4000 + len(out)), Bits: qr | op<<11 | rd}
					for i := 0; i < qd; i++ {
						m.Q = append(m.Q, refdns.Q{Name: append(refdns.N(fmt.Sprintf("q%d", i)), name...), Type: 1, Class: 1})
					}
					out = append(out, c03Query{fmt.Sprintf("qr=%d op=%d rd=%d qd=%d", qr>>15, op, rd>>8, qd), m})
				}
			}
		}
	}
	std := func(desc string, f func(m *refdns.Msg)) {
		m := refdns.Query(uint16(0x5000+len(out)), name, 1, 1)
		f(m)
		out = append(out, c03Query{desc, m})
	}
	for _, b := range []struct {
		n string
		b uint16
	}{{"AA", refdns.BitAA}, {"TC", refdns.BitTC}, {"AD", refdns.BitAD}, {"CD", refdns.BitCD}, {"RA", refdns.BitRA}, {"rcode3", 3}} {
		b := b
		std("std+"+b.n, func(m *refdns.Msg) { m.Bits |= b.b })
	}
	std("TXT/CH", func(m *refdns.Msg) { m.Q[0].Type, m.Q[0].Class = 16, 3 })
	std("mixed-case", func(m *refdns.Msg) { m.Q[0].Name = refdns.N("WwW", "eXaMpLe", "TEST") })
	std("root", func(m *refdns.Msg) { m.Q[0].Name = nil })
	std("name-255-wire-octets", func(m *refdns.Msg) {
		m.Q[0].Name = refdns.N(strings.Repeat("a", 63), strings.Repeat("b", 63), strings.Repeat("c", 63), strings.Repeat("d", 61))
	})
	std("name-254-wire-octets", func(m *refdns.Msg) {
		m.Q[0].Name = refdns.N(strings.Repeat("a", 63), strings.Repeat("b", 63), strings.Repeat("c", 63), strings.Repeat("d", 60))
	})
	std("label-with-odd-octets", func(m *refdns.Msg) { m.Q[0].Name = refdns.N("a\x00b", "c.d", "\xff\\", "test") })
	std("opt", func(m *refdns.Msg) { m.Ar = []refdns.RR{refdns.OPT(4096, 0, nil)} })
	std("opt+cookie+do", func(m *refdns.Msg) {
		m.Ar = []refdns.RR{refdns.OPT(1232, 0x8000, refdns.Option(10, []byte{1, 2, 3, 4, 5, 6, 7, 8}))}
	})
	std("extra-answer", func(m *refdns.Msg) { m.An = []refdns.RR{refdns.A(name, 1, 1, 1, 1, 1)} })
	std("extra-authority", func(m *refdns.Msg) { m.Ns = []refdns.RR{refdns.NameRR(refdns.TypeNS, name, 1, name)} })
	std("extra-additional", func(m *refdns.Msg) { m.Ar = []refdns.RR{refdns.A(name, 1, 1, 1, 1, 1), refdns.OPT(512, 0, nil)} })
	std("id0", func(m *refdns.Msg) { m.ID = 0 })
	std("idffff", func(m *refdns.Msg) { m.ID = 0xFFFF })
	return out
}

var (
	c03Rules = []string{"forward", "reject3", "no-rule", "rule-without-action", "no-match"}
	c03Ups   = []string{"noerror", "nxdomain", "servfail", "malformed", "error", "silence", "reply-late-5.9s"}
)

func c03Config(rule string) *Config {
	cfg := &Config{}
	switch rule {
	case "forward":
		cfg.Rules = []RuleConfig{{Forward: "u1"}}
	case "reject3":
		cfg.Rules = []RuleConfig{{Reject: 3}, {Forward: "u1"}}
	case "no-rule":
	case "rule-without-action":
		cfg.Rules = []RuleConfig{{}, {Forward: "u1"}}
	case "no-match":
		f := vTmpFile("c03_other.txt", "other.invalid\n")
		cfg.DomainSets = []DomainSetConfig{{Tag: "other", Files: []string{f}}}
		cfg.Rules = []RuleConfig{{Domain: "other", Forward: "u1"}}
	}
	return cfg
}

// c03Expect is the reference decision table.
func c03Expect(q *refdns.Msg, rule, up string) (rcode int, forwarded bool) {
	if q.Has(refdns.BitQR) || !q.Has(refdns.BitRD) || q.OpCode() != 0 || len(q.Q) != 1 {
		return 4, false
	}
	switch rule {
	case "reject3":
		return 3, false
	case "no-rule", "rule-without-action", "no-match":
		return 5, false
	}
	switch up {
	case "noerror", "reply-late-5.9s":
		return 0, true
	case "nxdomain":
		return 3, true
	case "servfail":
		return 2, true
	}
	return 2, true // malformed reply, error, silence => SERVFAIL
}

// c03CheckResponse verifies the header/question rules of the property for one response.
func c03CheckResponse(q, r *refdns.Msg, wantRcode int) []string {
	var bad []string
	add := func(f string, a ...any) { bad = append(bad, fmt.Sprintf(f, a...)) }
	if r.ID != q.ID {
		add("id %#x != query id %#x", r.ID, q.ID)
	}
	if r.OpCode() != q.OpCode() {
		add("opcode %d != query opcode %d", r.OpCode(), q.OpCode())
	}
	if !r.Has(refdns.BitQR) {
		add("QR not set")
	}
	if !r.Has(refdns.BitRA) {
		add("RA not set")
	}
	if r.Has(refdns.BitRD) != q.Has(refdns.BitRD) {
		add("RD not copied")
	}
	if len(r.Q) > 1 {
		add("%d questions", len(r.Q))
	}
	if len(r.Q) == 1 {
		if len(q.Q) == 0 {
			add("question invented")
		} else if !r.Q[0].Name.Lower().Equal(q.Q[0].Name.Lower()) || r.Q[0].Type != q.Q[0].Type || r.Q[0].Class != q.Q[0].Class {
			add("question %s/%d/%d differs from the query's first question %s/%d/%d", r.Q[0].Name, r.Q[0].Class, r.Q[0].Type, q.Q[0].Name, q.Q[0].Class, q.Q[0].Type)
		}
	}
	if r.RCode() != wantRcode {
		add("rcode %s, expected %s", rcodeName(r.RCode()), rcodeName(wantRcode))
	}
	return bad
}

func c03Scenario(c *choice.Ctx, rep *report.R, queries []c03Query) {
	own := env.InstallOwn(0xA5, vRace)
	defer env.UninstallOwn()
	seam := c03Seams[c.Choose(len(c03Seams), "seam")]
	rule := c03Rules[c.Choose(len(c03Rules), "rule")]
	qi := c.Choose(len(queries), "query")
	q := queries[qi]
	wantRcode, fwd := c03Expect(q.m, rule, "noerror")
	up := "noerror"
	if fwd {
		up = c03Ups[c.Choose(len(c03Ups), "upstream")]
		wantRcode, _ = c03Expect(q.m, rule, up)
	}
	// the listener's idle time-out (a configuration option) may be shorter than the time a slow upstream needs: a connection with a
	// query in flight is not idle
	idle := 30 * time.Second
	if fwd && (up == "silence" || up == "reply-late-5.9s") && c.Choose(2, "listener-idle-timeout") == 1 {
		idle = 3 * time.Second
	}
	savedIdle := seamIdle
	seamIdle = idle
	defer func() { seamIdle = savedIdle }()
	desc := fmt.Sprintf("seam=%s rule=%s query[%s] upstream=%s listener idle_timeout=%v", seam.name, rule, q.desc, up, idle)
	fail := func(sig, msg string) {
		rep.Violate("C03:"+seam.name+":"+sig, msg+"\n  "+desc+fmt.Sprintf("\n  query wire %x", q.m.Encode(false)), map[string]any{"Choices": c.Choices()})
	}
	v, err := vNewRouter(c03Config(rule), "u1")
	if err != nil {
		fail("router-start", err.Error())
		return
	}
	defer v.Close()
	u := v.ups["u1"]
	cl := seam.open(v)
	t0 := time.Now()
	cl.send(q.m)
	wait()
	pend := u.Pending()
	if fwd != (len(u.Queries()) == 1) {
		fail("forwarding", fmt.Sprintf("expected forwarded=%v, upstream saw %d queries", fwd, len(u.Queries())))
	}
	if len(pend) == 1 {
		uq := pend[0]
		if uq.Msg == nil {
			fail("upstream-query-undecodable", fmt.Sprintf("%x", uq.Wire))
		} else {
			switch up {
			case "noerror":
				uq.Reply(env.Answer(uq.Msg, 1, 60).Encode(true))
			case "nxdomain":
				uq.Reply(env.RCodeReply(uq.Msg, 3).Encode(false))
			case "servfail":
				uq.Reply(env.RCodeReply(uq.Msg, 2).Encode(false))
			case "malformed":
				uq.Reply([]byte{0, 0, 0x81, 0x80, 0, 1, 0, 1, 0, 0, 0, 0, 0xC0, 0x0C})
			case "error":
				uq.Fail()
			case "reply-late-5.9s":
				hsleep(5900 * time.Millisecond)
				wait()
				uq.Reply(env.Answer(uq.Msg, 1, 60).Encode(false))
			}
		}
	}
	wait()
	// let the request deadline pass, then look again at 20 s
	var firstAt time.Duration = -1
	for _, at := range []time.Duration{0, 6 * time.Second, 6*time.Second + 50*time.Millisecond, 20 * time.Second} {
		if d := t0.Add(at).Sub(time.Now()); d > 0 {
			hsleep(d)
		}
		wait()
		n := cl.count()
		if n > 0 && firstAt < 0 {
			firstAt = time.Since(t0)
		}
		if at >= 6*time.Second+50*time.Millisecond && n == 0 {
			fail("no-response", fmt.Sprintf("no response %v after the query", at))
			break
		}
		if n > 1 {
			fail("multiple-responses", fmt.Sprintf("%d responses", n))
			break
		}
	}
	rs, raw := cl.responses()
	obs := fmt.Sprintf("%d responses", len(rs))
	if len(rs) >= 1 {
		r := rs[0]
		if r == nil {
			if t := own.Tainted(raw[0]); t != "" {
				fail("tainted-response", "response contains "+t+" (and does not decode)")
			}
			fail("undecodable-response", fmt.Sprintf("%x", raw[0]))
		} else {
			for _, b := range c03CheckResponse(q.m, r, wantRcode) {
				fail("bad-response:"+strings.SplitN(b, " ", 2)[0], b+"\n  response "+r.Canon())
			}
			if t := own.Tainted(raw[0]); t != "" {
				fail("tainted-response", "response contains "+t)
			}
			obs = fmt.Sprintf("%s@%v", rcodeName(r.RCode()), firstAt)
		}
	}
	cl.close()
	v.Close()
	wait()
	for _, x := range own.Audit() {
		fail("ownership", x)
	}
	rep.Eval(desc + "=>" + obs)
	rep.State(fmt.Sprintf("%s|%s|%d|%s", seam.name, rule, wantRcode, obs))
}

// c03Cached: the response to a query that is answered from the cache obeys the same header rules. Every seam; a first client
// fetches the answer, a second client (other id, RD as chosen, same or case-variant name) is then served without the upstream.
func c03Cached(c *choice.Ctx, rep *report.R) {
	own := env.InstallOwn(0xA5, vRace)
	defer env.UninstallOwn()
	seam := c03Seams[c.Choose(len(c03Seams), "seam")]
	rd := c.Choose(2, "second-query-rd") == 1
	variant := c.Choose(2, "second-query-case-variant") == 1
	desc := fmt.Sprintf("cached: seam=%s second query rd=%v case-variant=%v", seam.name, rd, variant)
	fail := func(sig, msg string) {
		rep.Violate("C03:"+seam.name+":cached:"+sig, msg+"\n  "+desc, map[string]any{"Choices": c.Choices(), "Cached": true})
	}
	cfg := c03Config("forward")
	cfg.Cache.MemSize = 1 << 20
	v, err := vNewRouter(cfg, "u1")
	if err != nil {
		fail("router-start", err.Error())
		return
	}
	defer v.Close()
	u := v.ups["u1"]
	u.Auto = func(q *upQuery) *upResult {
		if q.Msg == nil {
			return &upResult{err: errScripted}
		}
		return &upResult{wire: env.Answer(q.Msg, 1, 60).Encode(false)}
	}
	q1 := refdns.Query(0x0301, refdns.N("cached", "example", "test"), 1, 1)
	q1.Bits |= refdns.BitRD
	cl1 := seam.open(v)
	cl1.send(q1)
	wait()
	hsleep(100 * time.Millisecond)
	wait()
	if rs, _ := cl1.responses(); len(rs) != 1 || rs[0] == nil || rs[0].RCode() != 0 {
		fail("setup", fmt.Sprintf("first fetch: %d responses", len(rs)))
		return
	}
	cl1.close()
	name := refdns.N("cached", "example", "test")
	if variant {
		name = refdns.N("CacheD", "Example", "TEST")
	}
	q2 := refdns.Query(0xBEEF, name, 1, 1)
	if rd {
		q2.Bits |= refdns.BitRD
	}
	before := len(u.Queries())
	cl2 := seam.open(v)
	cl2.send(q2)
	wait()
	hsleep(100 * time.Millisecond)
	wait()
	rs, raw := cl2.responses()
	obs := fmt.Sprintf("%d", len(rs))
	switch {
	case len(rs) != 1:
		fail("response-count", fmt.Sprintf("%d responses to the second query", len(rs)))
	case rs[0] == nil:
		fail("undecodable-response", fmt.Sprintf("%x", raw[0]))
	default:
		for _, b := range c03CheckResponse(q2, rs[0], 0) {
			fail("bad-response:"+strings.SplitN(b, " ", 2)[0], b+fmt.Sprintf(" (served from the cache: %v)\n  response %s", len(u.Queries()) == before, rs[0].Canon()))
		}
		obs += fmt.Sprintf("/%v", len(u.Queries()) == before)
	}
	cl2.close()
	v.Close()
	wait()
	for _, x := range own.Audit() {
		fail("ownership", x)
	}
	rep.Eval(desc + "=>" + obs)
	rep.State(desc)
}

func c09Answer(q *refdns.Msg, n int) *refdns.Msg { return c09AnswerT(q, n, 240, 0) }

// n records with txt text octets each, plus (tail > 0) one more record with tail text octets
func c09AnswerT(q *refdns.Msg, n, txt, tail int) *refdns.Msg {
	m := env.Answer(q, 1, 60)
	if tail > 0 {
		// owned by the root: its encoding cannot be shortened by compression, so the response ends exactly where the composition says
		// and it is the last record of the last non-empty section before the OPT record, i.e. the last one packed
		defer func() { m.Ns = append(m.Ns, refdns.TXT(refdns.Name{}, 77, tail, 'T')) }()
	}
	for i := 0; i < n; i++ {
		r := refdns.TXT(q.Q[0].Name, uint32(100+i%50), txt, byte('a'+i%26))
		if i%3 == 2 {
			m.Ns = append(m.Ns, r)
		} else {
			m.An = append(m.An, r)
		}
	}
	return m
}

// c03Compose finds the answer composition (n records of txt text octets plus one root-owned record of tail text octets, see
// c09AnswerT) for which the complete response, as this listener encodes it, is exactly want octets. The encoding is measured,
// not assumed: two probe queries (same name length, 2 and 3 records, big advertised size) through the same listener give the
// fixed part and the size of one record. setN switches the upstream's answer size for the probes.
func c03Compose(v *vRouter, seam c03Seam, queryHasOPT bool, txt, want int, setN func(int)) (n, tail, fixed, rec int, errs string) {
	probe := func(name string, k int) int {
		setN(k)
		pq := refdns.Query(0x0910, refdns.N(name, "example", "test"), 16, 1)
		pq.Ar = []refdns.RR{refdns.OPT(65535, 0, nil)}
		cl := seam.open(v)
		cl.send(pq)
		wait()
		hsleep(100 * time.Millisecond)
		wait()
		_, raws := cl.responses()
		cl.close()
		wait()
		if len(raws) != 1 {
			return -1
		}
		return len(raws[0])
	}
	s2, s3 := probe("pr2", 2), probe("pr3", 3)
	rec = s3 - s2
	fixed = s2 - 2*rec
	if !queryHasOPT {
		fixed -= 11 // the probes carried an OPT record (11 octets), this query does not
	}
	if s2 < 0 || s3 < 0 || rec < txt+10 || fixed < 12 {
		return 0, 0, fixed, rec, fmt.Sprintf("probe responses of %d and %d octets", s2, s3)
	}
	// full = fixed + n*rec + (1 + 10 + 1 + tail): n compressed records, then one TXT record owned by the root with tail text octets
	n = (want - fixed - 13) / rec
	tail = want - fixed - n*rec - 12
	if tail > 254 {
		n, tail = n+1, tail-rec
	}
	if n < 0 || tail < 1 || tail > 254 {
		return 0, 0, fixed, rec, fmt.Sprintf("cannot compose %d octets from fixed=%d rec=%d", want, fixed, rec)
	}
	setN(n)
	return n, tail, fixed, rec, ""
}

// c03Huge: responses around the largest UDP datagram. The client advertises 65535 octets; the upstream's answer is composed so
// that the complete response is exactly `size` octets. Exactly one response must arrive on every listener.
func c03Huge(c *choice.Ctx, rep *report.R) {
	own := env.InstallOwn(0xA5, vRace)
	defer env.UninstallOwn()
	seam := c03Seams[c.Choose(len(c03Seams), "seam")]
	size := 65500 + c.Choose(36, "response-size")
	desc := fmt.Sprintf("seam=%s query with OPT(65535), upstream answer composed for a complete response of %d octets", seam.name, size)
	fail := func(sig, msg string) {
		rep.Violate("C03:"+seam.name+":"+sig, msg+"\n  "+desc, map[string]any{"Choices": c.Choices(), "Huge": true})
	}
	v, err := vNewRouter(c03Config("forward"), "u1")
	if err != nil {
		fail("router-start", err.Error())
		return
	}
	defer v.Close()
	n, tail := 0, 0
	v.ups["u1"].Auto = func(q *upQuery) *upResult {
		return &upResult{wire: c09AnswerT(q.Msg, n, 240, tail).Encode(false)}
	}
	var cerr string
	n, tail, _, _, cerr = c03Compose(v, seam, true, 240, size, func(k int) { n = k })
	if cerr != "" {
		fail("compose", cerr)
		return
	}
	q := refdns.Query(0x0903, refdns.N("big", "example", "test"), 16, 1)
	q.Ar = []refdns.RR{refdns.OPT(65535, 0, nil)}
	cl := seam.open(v)
	cl.send(q)
	wait()
	hsleep(6*time.Second + 50*time.Millisecond)
	wait()
	rs, raw := cl.responses()
	obs := fmt.Sprintf("%d responses", len(rs))
	switch {
	case len(rs) == 0 && seam.name == "udp" && size > 65507:
		fail("no-response:datagram-over-65507", fmt.Sprintf("no response within 6.05 s: the %d octet response does not fit a UDP datagram (sendmsg fails with EMSGSIZE) and nothing else is sent", size))
	case len(rs) == 0:
		fail("no-response", "no response within 6.05 s")
	case len(rs) > 1:
		fail("multiple-responses", fmt.Sprintf("%d responses", len(rs)))
	case rs[0] == nil:
		fail("undecodable-response", fmt.Sprintf("%d octets", len(raw[0])))
	default:
		for _, b := range c03CheckResponse(q, rs[0], 0) {
			fail("bad-response:"+strings.SplitN(b, " ", 2)[0], b)
		}
		obs = fmt.Sprintf("%d octets tc=%v", len(raw[0]), rs[0].Has(refdns.BitTC))
	}
	// whatever happened to that response (on UDP it may have been impossible to send): the listener keeps answering ordinary queries
	{
		n = 0
		tail = 0
		cl2 := cl // the same listener instance and, where the transport allows it, the same connection
		if strings.HasPrefix(seam.name, "quic") || strings.HasPrefix(seam.name, "http") || strings.HasPrefix(seam.name, "fasthttp") {
			cl2 = seam.open(v)
		}
		before := 0
		if cl2 == cl {
			before = len(rs)
		}
		cl2.send(refdns.Query(0x0904, refdns.N("after", "example", "test"), 1, 1))
		wait()
		hsleep(6*time.Second + 50*time.Millisecond)
		wait()
		rs2, _ := cl2.responses()
		answered := false
		for _, m := range rs2 {
			answered = answered || (m != nil && m.ID == 0x0904)
		}
		if len(rs2) != before+1 || !answered {
			fail("no-response-after-big-response", fmt.Sprintf("an ordinary query sent after the %d octet response (sent or not) got %d new responses", size, len(rs2)-before))
		}
		if cl2 != cl {
			cl2.close()
		}
	}
	cl.close()
	v.Close()
	wait()
	for _, x := range own.Audit() {
		fail("ownership", x)
	}
	rep.Eval(desc + "=>" + obs)
	rep.State(fmt.Sprintf("huge|%s|%s", seam.name, obs))
}

// c03LongLived: a client that keeps one connection in use (a query every d < idle_timeout) for several idle timeouts: the idle
// timer is about the time since the last activity, every query is answered and the server never closes the connection under it.
func c03LongLived(c *choice.Ctx, rep *report.R) {
	own := env.InstallOwn(0xA5, vRace)
	defer env.UninstallOwn()
	kind := []string{"tcp", "quic", "tls"}[c.Choose(3, "listener")]
	step := []time.Duration{500 * time.Millisecond, 1500 * time.Millisecond, 1900 * time.Millisecond}[c.Choose(3, "interval")]
	const idle = 2 * time.Second
	n := int(4*idle/step) + 1
	desc := fmt.Sprintf("listener=%s idle_timeout=%v one query every %v, %d queries on one connection", kind, idle, step, n)
	fail := func(sig, msg string) {
		p := "C03"
		if os.Getenv("VERIF_PROP") == "C13" {
			p = "C13" // the same scenario is a part of C13: every response of a connection that stays in use is emitted as a frame
		}
		rep.Violate(p+":"+kind+":long-lived:"+sig, msg+"\n  "+desc, map[string]any{"Choices": c.Choices(), "LongLived": true})
	}
	v, err := vNewRouter(c03Config("forward"), "u1")
	if err != nil {
		fail("router-start", err.Error())
		return
	}
	defer v.Close()
	v.ups["u1"].Auto = func(q *upQuery) *upResult { return &upResult{wire: env.Answer(q.Msg, 1, 60).Encode(false)} }
	var send func(i int, m *refdns.Msg) // sends query i
	var got func(i int) (*refdns.Msg, bool)
	var closed func() bool
	switch kind {
	case "tls":
		srv := v.newTCPServer(0, idle)
		srv.tlsConfig = &tls.Config{Certificates: []tls.Certificate{vServerCert()}}
		tc := v.tlsClient(srv, vClientV4, vLocalV4)
		wait()
		send = func(i int, m *refdns.Msg) { wait(); tc.Send(refdns.Frame(m.Encode(false))) }
		got = func(i int) (*refdns.Msg, bool) {
			fs, _ := env.SplitFrames(tc.Received())
			if i < len(fs) {
				m, _ := refdns.Decode(fs[i])
				return m, true
			}
			return nil, false
		}
		closed = func() bool { return tc.sc.done || tc.sc.impl.IsClosed() }
	case "tcp":
		sc := v.tcpClient(v.newTCPServer(0, idle), vClientV4, vLocalV4)
		send = func(i int, m *refdns.Msg) { sc.SendMsg(m) }
		got = func(i int) (*refdns.Msg, bool) {
			rs := sc.Responses()
			if i < len(rs) {
				return rs[i], true
			}
			return nil, false
		}
		closed = func() bool { return sc.done || sc.impl.IsClosed() }
	default:
		qs := v.newQuicServer()
		qs.idleTimeout = idle
		conn := env.NewFakeQuicConn(vUDPAddr(vLocalV4), vUDPAddr(vClientV4))
		connDone := false
		go func() { // as quicServer.run does
			qs.handleConn(conn)
			conn.CloseWithError(0, "")
			publish(func() { connDone = true })
		}()
		v.closers = append(v.closers, func() { conn.Die() })
		var streams []*env.FakeStream
		var peers []*env.End
		send = func(i int, m *refdns.Msg) {
			st, peer := env.NewFakeStream(i*4, vUDPAddr(vLocalV4), vUDPAddr(vClientV4))
			streams, peers = append(streams, st), append(peers, peer)
			w := m.Encode(false)
			w[0], w[1] = 0, 0
			st.E.Inject(refdns.Frame(w))
			peer.CloseWrite()
			conn.PushStream(st)
		}
		got = func(i int) (*refdns.Msg, bool) {
			if i >= len(streams) {
				return nil, false
			}
			fs, _ := env.SplitFrames(streams[i].E.Written())
			if len(fs) == 0 {
				return nil, false
			}
			m, _ := refdns.Decode(fs[0])
			return m, true
		}
		closed = func() bool { return connDone || conn.IsClosed() }
	}
	for i := 0; i < n; i++ {
		if closed() {
			fail("closed-while-in-use", fmt.Sprintf("the server closed the connection %v after the previous query (query %d of %d not sent)", step, i, n))
			return
		}
		q := refdns.Query(uint16(0x0300+i), refdns.N(fmt.Sprintf("ll%d", i), "example", "test"), 1, 1)
		send(i, q)
		wait()
		hsleep(50 * time.Millisecond)
		wait()
		r, ok := got(i)
		if !ok || r == nil {
			fail("no-response", fmt.Sprintf("query %d (sent %v after the first, %v after the previous one) got no response", i, time.Duration(i)*step, step))
			return
		}
		hsleep(step - 50*time.Millisecond)
		wait()
	}
	v.Close()
	wait()
	for _, x := range own.Audit() {
		fail("ownership", x)
	}
	rep.Eval(desc)
	rep.State("longlived|" + desc)
}

// c03QuicOverlap: several queries overlap on one DoQ connection (each on its own stream, accepted by the real handleConn) and are
// answered by the upstream in every order: each stream carries exactly the response to its own query, whichever handler ends first.
func c03QuicOverlap(c *choice.Ctx, rep *report.R) {
	own := env.InstallOwn(0xA5, vRace)
	defer env.UninstallOwn()
	n := 2 + c.Choose(2, "streams")
	perms := [][]int{{0, 1}, {1, 0}}
	if n == 3 {
		perms = [][]int{{0, 1, 2}, {0, 2, 1}, {1, 0, 2}, {1, 2, 0}, {2, 0, 1}, {2, 1, 0}}
	}
	perm := perms[c.Choose(len(perms), "completion-order")]
	// the listener's idle time-out: the default, or one shorter than the pause between two upstream replies - a connection with a
	// query in flight is not idle, however long ago its last stream was opened or finished
	gap := []time.Duration{0, 2500 * time.Millisecond}[c.Choose(2, "gap-between-replies")]
	if gap > 0 {
		was := seamIdle
		seamIdle = 2 * time.Second
		defer func() { seamIdle = was }()
	}
	// ... and with a client limiter whose burst admits exactly one DoQ query: the first stream is admitted, the others - opened in the
	// same instant - are refused (closed without a response, which the listener does by design); the admitted query still gets its
	// response, however long its upstream takes and whatever happened to the other streams of its connection
	limited := c.Choose(2, "limiter-admits-only-the-first-stream") == 1
	desc := fmt.Sprintf("%d overlapping DoQ streams on one connection, upstream answers in order %v, %v apart (listener idle time-out %v), limiter admitting only the first: %v", n, perm, gap, min(seamIdle, defaultQuicIdleTimeout), limited)
	fail := func(sig, msg string) {
		rep.Violate("C03:quic:overlap:"+sig, msg+"\n  "+desc+pauseNote(), map[string]any{"Choices": c.Choices(), "QuicOverlap": true})
	}
	ocfg := c03Config("forward")
	if limited {
		ocfg.Limiter = LimiterConfig{Client: ClientLimiterConfig{Limit: 1, Burst: costQUICQuery}}
	}
	v, err := vNewRouter(ocfg, "u1")
	if err != nil {
		fail("router-start", err.Error())
		return
	}
	defer v.Close()
	u := v.ups["u1"]
	qs := v.newQuicServer()
	pauseBegin(c) // (E4 part doq-overlap-preempt: one of the listener's goroutines may stand still between two statements)
	defer pauseEnd()
	conn := env.NewFakeQuicConn(vUDPAddr(vLocalV4), vUDPAddr(vClientV4))
	go func() { // as quicServer.run does
		qs.handleConn(conn)
		conn.CloseWithError(0, "")
	}()
	v.closers = append(v.closers, func() { conn.Die() })
	var streams []*env.FakeStream
	for i := 0; i < n; i++ {
		st, peer := env.NewFakeStream(i*4, vUDPAddr(vLocalV4), vUDPAddr(vClientV4))
		streams = append(streams, st)
		w := refdns.Query(0, refdns.N(fmt.Sprintf("ov%d", i), "example", "test"), 1, 1).Encode(false)
		st.E.Inject(refdns.Frame(w))
		peer.CloseWrite()
		conn.PushStream(st)
		wait()
	}
	pend := u.Pending()
	admitted := n
	if limited {
		admitted = 1
	}
	if len(pend) != admitted && !paused() {
		fail("forwarding", fmt.Sprintf("%d of %d overlapping queries reached the upstream (%d admitted)", len(pend), n, admitted))
	}
	due := map[int]bool{}
	for _, pi := range perm {
		due[pi] = true
		for _, p := range u.Pending() {
			// (a query whose turn has come is answered when it shows up: a handler held at a pause point sends its query late)
			for di := range due {
				if p.Msg != nil && len(p.Msg.Q) == 1 && p.Msg.Q[0].Name.Lower().Equal(refdns.N(fmt.Sprintf("ov%d", di), "example", "test")) {
					p.Reply(env.Answer(p.Msg, byte(di+1), 60).Encode(false))
				}
			}
		}
		wait()
		if gap > 0 {
			hsleep(gap)
			wait()
		}
	}
	// (a handler that was held back sends its upstream query only now: it is answered as well)
	selOff()
	pauseOff()
	for round := 0; round < 3; round++ {
		if resume() {
			wait()
		}
		for _, p := range u.Pending() {
			for i := 0; i < n; i++ {
				if p.Msg != nil && len(p.Msg.Q) == 1 && p.Msg.Q[0].Name.Lower().Equal(refdns.N(fmt.Sprintf("ov%d", i), "example", "test")) {
					p.Reply(env.Answer(p.Msg, byte(i+1), 60).Encode(false))
				}
			}
		}
		wait()
	}
	hsleep(7 * time.Second)
	wait()
	for i, st := range streams {
		fs, rest := env.SplitFrames(st.E.Written())
		if limited && i > 0 {
			// refused by the limiter: nothing, or (should the listener ever say so) one REFUSED
			bad := len(fs) > 1
			if len(fs) == 1 {
				m, err := refdns.Decode(fs[0])
				bad = err != nil || m.RCode() != 5
			}
			if bad {
				fail("refused-stream-answered", fmt.Sprintf("stream %d was refused by the limiter and carries %d frames", i, len(fs)))
			}
			continue
		}
		if len(fs) != 1 || rest != 0 {
			fail("response-count", fmt.Sprintf("stream %d carries %d response frames (%d trailing octets): its query was answered on another stream, or its stream was closed under it", i, len(fs), rest))
			continue
		}
		m, err := refdns.Decode(fs[0])
		if err != nil || len(m.Q) != 1 || !m.Q[0].Name.Equal(refdns.N(fmt.Sprintf("ov%d", i), "example", "test")) || m.RCode() != 0 {
			fail("wrong-response", fmt.Sprintf("stream %d (query ov%d) carries %v", i, i, m))
		}
	}
	v.Close()
	wait()
	for _, x := range own.Audit() {
		fail("ownership", x)
	}
	rep.Eval(desc)
	rep.State("quic-overlap|" + desc)
}

// c03ManyQueries: more queries than a pipelined upstream connection has transaction ids (65536), one after the other through the
// real router and the real pipelined transport over the scripted dialer: every single one gets its response - also the ones around
// the point where the connection has used up its id space and the transport has to move on to a new connection.
func c03ManyQueries(rep *report.R, udp bool, total int) {
	kind := map[bool]string{false: "pipeline-tcp", true: "pipeline-udp"}[udp]
	desc := fmt.Sprintf("%d sequential queries through a %s upstream", total, kind)
	fail := func(sig, msg string) {
		rep.Violate("C03:tcp:many-queries:"+sig, msg+"\n  "+desc, map[string]any{"Choices": []int{}, "Many": true})
	}
	v, err := vNewRouter(c03Config("forward"), "u1")
	if err != nil {
		fail("router-start", err.Error())
		return
	}
	defer v.Close()
	network := "tcp"
	if udp {
		network = "udp"
	}
	d := env.NewDialer(network)
	tr := transport.NewPipelineTransport(transport.PipelineOpts{DialContext: d.Dial, IsTCP: !udp, IdleTimeout: time.Hour, MaxConcurrentQuery: 64})
	v.r.upstreams["u1"].u = tr
	v.closers = append(v.closers, func() {
		for i := 0; i < d.NumConns(); i++ {
			d.ImplEnd(i).Abort()
		}
	})
	sc := v.tcpClient(v.newTCPServer(0, 100000*time.Second), vClientV4, vLocalV4)
	// the scripted server answers the newest frame on whichever connection carries it
	for i := 0; i < total; i++ {
		q := refdns.Query(uint16(i), refdns.N(fmt.Sprintf("m%d", i), "many", "test"), 1, 1)
		sc.impl.Inject(refdns.Frame(q.Encode(false)))
		wait()
		answered := false
		for ci := d.NumConns() - 1; ci >= 0 && !answered; ci-- {
			impl := d.ImplEnd(ci)
			if impl.IsClosed() {
				continue
			}
			last := impl.LastWrite()
			if last == nil {
				continue
			}
			w := last
			if !udp {
				if len(w) < 2 {
					continue
				}
				w = w[2:]
			}
			if m, err := refdns.Decode(w); err == nil && len(m.Q) == 1 && m.Q[0].Name.Equal(q.Q[0].Name) {
				r := env.Answer(m, 1, 60).Encode(false)
				if !udp {
					r = refdns.Frame(r)
				}
				impl.Inject(r)
				answered = true
			}
		}
		wait()
		out := sc.impl.TakeWritten()
		fs, _ := env.SplitFrames(out)
		if len(fs) != 1 {
			// give it the request deadline: a SERVFAIL is still a response
			hsleep(7 * time.Second)
			wait()
			fs, _ = env.SplitFrames(append(out, sc.impl.TakeWritten()...))
		}
		if len(fs) != 1 {
			fail("no-response", fmt.Sprintf("query number %d (of %d on this upstream; %d upstream connections so far, forwarded=%v) got %d responses within the request deadline", i+1, total, d.NumConns(), answered, len(fs)))
			return
		}
		if i%4096 == 0 {
			report.Progress()
		}
	}
	rep.Eval(desc)
}

// c03Pair: two (or three) queries arriving in ONE read on a stream listener, answered by the upstream in either order: each gets
// exactly one response, with its own id and question.
func c03Pair(c *choice.Ctx, rep *report.R) {
	own := env.InstallOwn(0xA5, vRace)
	defer env.UninstallOwn()
	kind := []string{"tcp", "gnet"}[c.Choose(2, "listener")]
	k := 2 + c.Choose(2, "queries-in-one-read")
	order := c.Choose(2, "reply-order")
	desc := fmt.Sprintf("listener=%s %d queries in one segment, upstream replies in order %d", kind, k, order)
	fail := func(sig, msg string) {
		rep.Violate("C03:"+kind+":one-read:"+sig, msg+"\n  "+desc, map[string]any{"Choices": c.Choices(), "Pair": true})
	}
	v, err := vNewRouter(c03Config("forward"), "u1")
	if err != nil {
		fail("router-start", err.Error())
		return
	}
	defer v.Close()
	u := v.ups["u1"]
	var seg []byte
	var qs []*refdns.Msg
	for i := 0; i < k; i++ {
		q := refdns.Query(uint16(0x0330+i), refdns.N(fmt.Sprintf("pair%d", i), "example", "test"), 1, 1)
		qs = append(qs, q)
		seg = append(seg, refdns.Frame(q.Encode(false))...)
	}
	var written func() []byte
	if kind == "tcp" {
		sc := v.tcpClient(v.newTCPServer(0, 100*time.Second), vClientV4, vLocalV4)
		sc.Send(seg)
		written = func() []byte { return sc.impl.Written() }
	} else {
		g := v.gnetClient(v.newGnetServer(0, 100*time.Second), vClientV4, vLocalV4)
		g.Send(seg)
		written = g.Written
	}
	wait()
	pend := u.Pending()
	if len(pend) != k {
		fail("forwarding", fmt.Sprintf("%d of %d queries reached the upstream", len(pend), k))
	}
	if order == 1 {
		for i, j := 0, len(pend)-1; i < j; i, j = i+1, j-1 {
			pend[i], pend[j] = pend[j], pend[i]
		}
	}
	for _, p := range pend {
		if p.Msg != nil {
			p.Reply(env.Answer(p.Msg, 1, 60).Encode(false))
			wait()
		}
	}
	hsleep(6*time.Second + 50*time.Millisecond)
	wait()
	fs, rest := env.SplitFrames(written())
	if rest != 0 {
		fail("stream-not-framed", fmt.Sprintf("%d trailing octets", rest))
	}
	got := map[uint16]int{}
	for _, f := range fs {
		m, err := refdns.Decode(f)
		if err != nil {
			fail("undecodable-response", fmt.Sprintf("%x", f))
			continue
		}
		got[m.ID]++
		matched := false
		for _, q := range qs {
			if q.ID == m.ID {
				matched = true
				for _, b := range c03CheckResponse(q, m, 0) {
					fail("bad-response:"+strings.SplitN(b, " ", 2)[0], b)
				}
				if kk, _, ok := env.AnswerKey(m); m.RCode() == 0 && (!ok || kk != env.KeyIP(q.Q[0].Name, 1, 1)) {
					fail("foreign-answer", fmt.Sprintf("the response with id %#x does not answer %s", m.ID, q.Q[0].Name))
				}
			}
		}
		if !matched {
			fail("response-with-unknown-id", fmt.Sprintf("id %#x", m.ID))
		}
	}
	for _, q := range qs {
		if got[q.ID] != 1 {
			fail("response-count", fmt.Sprintf("query id %#x got %d responses", q.ID, got[q.ID]))
		}
	}
	v.Close()
	wait()
	for _, x := range own.Audit() {
		fail("ownership", x)
	}
	rep.Eval(desc)
	rep.State("pair|" + desc)
}

// client is the seam-independent view of one client transport.
type c03Client interface {
	send(m *refdns.Msg)
	count() int
	responses() (msgs []*refdns.Msg, raw [][]byte)
	close()
}

type c03Seam struct {
	name string
	open func(v *vRouter) c03Client
}

type c03TCP struct{ c *streamClient }

func (t *c03TCP) send(m *refdns.Msg) { t.c.SendMsg(m) }
func (t *c03TCP) count() int         { f, _ := t.c.Frames(); return len(f) }
func (t *c03TCP) responses() ([]*refdns.Msg, [][]byte) {
	f, _ := t.c.Frames()
	return t.c.Responses(), f
}
func (t *c03TCP) close() { t.c.Close() }

type c03Gnet struct{ g *gnetClient }

func (t *c03Gnet) send(m *refdns.Msg) { t.g.Send(refdns.Frame(m.Encode(false))) }
func (t *c03Gnet) count() int         { f, _ := env.SplitFrames(t.g.Written()); return len(f) }
func (t *c03Gnet) responses() ([]*refdns.Msg, [][]byte) {
	return c03Decode(env.SplitFrames(t.g.Written()))
}
func (t *c03Gnet) close() { t.g.Close(); wait(); t.g.Stop() }

func c03Decode(fs [][]byte, _ int) ([]*refdns.Msg, [][]byte) {
	var out []*refdns.Msg
	for _, f := range fs {
		m, err := refdns.Decode(f)
		if err != nil {
			m = nil
		}
		out = append(out, m)
	}
	return out, fs
}

type c03TLS struct{ t *tlsClient }

func (t *c03TLS) send(m *refdns.Msg) { wait(); t.t.Send(refdns.Frame(m.Encode(false))) }
func (t *c03TLS) count() int         { f, _ := env.SplitFrames(t.t.Received()); return len(f) }
func (t *c03TLS) responses() ([]*refdns.Msg, [][]byte) {
	return c03Decode(env.SplitFrames(t.t.Received()))
}
func (t *c03TLS) close() { t.t.Close() }

// HTTP seams: one request per query; a response is a 200 with a DNS body.
type c03HTTP struct {
	do  func(wire []byte) *httpResult
	res []*httpResult
}

func (t *c03HTTP) send(m *refdns.Msg) { t.res = append(t.res, t.do(m.Encode(false))) }
func (t *c03HTTP) count() int {
	n := 0
	for _, r := range t.res {
		if r.done {
			n++
		}
	}
	return n
}
func (t *c03HTTP) responses() ([]*refdns.Msg, [][]byte) {
	var fs [][]byte
	for _, r := range t.res {
		if r.done {
			if r.panicked != nil || r.status != 200 || r.ctype != "application/dns-message" {
				fs = append(fs, []byte(fmt.Sprintf("HTTP %d panic=%v ctype=%q", r.status, r.panicked, r.ctype)))
			} else {
				fs = append(fs, r.body)
			}
		}
	}
	return c03Decode(fs, 0)
}
func (t *c03HTTP) close() {}

type c03Quic struct {
	q      *quicClient
	pieces bool
}

func (t *c03Quic) send(m *refdns.Msg) {
	f := refdns.Frame(m.Encode(false))
	if t.pieces {
		t.q.Send(f[:2])
		wait()
		t.q.Send(f[2 : 2+len(f[2:])/2])
		wait()
		t.q.Send(f[2+len(f[2:])/2:])
		t.q.FinSend()
		return
	}
	t.q.Send(f)
	t.q.FinSend()
}
func (t *c03Quic) count() int { f, _ := env.SplitFrames(t.q.Written()); return len(f) }
func (t *c03Quic) responses() ([]*refdns.Msg, [][]byte) {
	return c03Decode(env.SplitFrames(t.q.Written()))
}
func (t *c03Quic) close() {}

type c03UDP struct{ u *udpClient }

func (t *c03UDP) send(m *refdns.Msg) { t.u.Send(m.Encode(false)) }
func (t *c03UDP) count() int         { return len(t.u.Poll()) }
func (t *c03UDP) responses() ([]*refdns.Msg, [][]byte) {
	return c03Decode(t.u.Poll(), 0)
}
func (t *c03UDP) close() { t.u.Close() }

var c03Seams = []c03Seam{
	{"tcp", func(v *vRouter) c03Client {
		return &c03TCP{v.tcpClient(v.newTCPServer(0, seamIdle), vClientV4, vLocalV4)}
	}},
	{"gnet", func(v *vRouter) c03Client {
		return &c03Gnet{v.gnetClient(v.newGnetServer(0, seamIdle), vClientV4, vLocalV4)}
	}},
	{"tls", func(v *vRouter) c03Client {
		s := v.newTCPServer(0, seamIdle)
		s.tlsConfig = &tls.Config{Certificates: []tls.Certificate{vServerCert()}}
		return &c03TLS{v.tlsClient(s, vClientV4, vLocalV4)}
	}},
	{"http-get", func(v *vRouter) c03Client {
		h := v.newHTTPHandler()
		return &c03HTTP{do: func(w []byte) *httpResult { return vDoHRequest(h, "GET", w, vClientV4.String(), nil) }}
	}},
	{"http-post", func(v *vRouter) c03Client {
		h := v.newHTTPHandler()
		return &c03HTTP{do: func(w []byte) *httpResult { return vDoHRequest(h, "POST", w, vClientV4.String(), nil) }}
	}},
	{"http-post-chunked", func(v *vRouter) c03Client {
		// a POST whose length is not declared (HTTP/1.1 chunked, HTTP/2 without content-length): net/http reports ContentLength -1
		h := v.newHTTPHandler()
		return &c03HTTP{do: func(w []byte) *httpResult {
			return vDoHRequest(h, "POST", w, vClientV4.String(), func(r *http.Request) {
				r.ContentLength = -1
				r.TransferEncoding = []string{"chunked"}
				r.Header.Del("Content-Length")
			})
		}}
	}},
	{"http-post-in-pieces", func(v *vRouter) c03Client {
		// a POST of declared length whose body reaches the server in several pieces (header and body in different segments, several
		// HTTP/2 DATA frames): a Read on the body returns what has arrived, not the whole body
		h := v.newHTTPHandler()
		return &c03HTTP{do: func(w []byte) *httpResult {
			return vDoHRequest(h, "POST", w, vClientV4.String(), func(r *http.Request) {
				r.Body = io.NopCloser(iotest.OneByteReader(bytes.NewReader(w)))
			})
		}}
	}},
	{"fasthttp-get", func(v *vRouter) c03Client {
		h := v.newFastHTTPHandler()
		return &c03HTTP{do: func(w []byte) *httpResult { return vFastDoHRequest(h, "GET", w, vClientV4, nil) }}
	}},
	{"fasthttp-post", func(v *vRouter) c03Client {
		h := v.newFastHTTPHandler()
		return &c03HTTP{do: func(w []byte) *httpResult { return vFastDoHRequest(h, "POST", w, vClientV4, nil) }}
	}},
	{"fasthttp-post-chunked", func(v *vRouter) c03Client {
		// a POST without Content-Length (Transfer-Encoding: chunked): the body stream has no announced size
		h := v.newFastHTTPHandler()
		return &c03HTTP{do: func(w []byte) *httpResult {
			return vFastDoHRequest(h, "POST", w, vClientV4, func(r *fasthttp.Request) { r.SetBodyStream(bytes.NewReader(w), -1) })
		}}
	}},
	{"quic", func(v *vRouter) c03Client {
		return &c03Quic{q: v.quicStream(v.newQuicServer(), vClientV4, vLocalV4)}
	}},
	{"quic-in-pieces", func(v *vRouter) c03Client {
		// the query reaches the stream in two pieces (length prefix, then the body; a query larger than a packet; reordering) and the
		// FIN is known when the last piece is read: quic-go then returns the last octets together with io.EOF
		q := v.quicStream(v.newQuicServer(), vClientV4, vLocalV4)
		q.s.E.EOFWithLastData = true
		return &c03Quic{q: q, pieces: true}
	}},
	{"udp", func(v *vRouter) c03Client {
		u, err := v.udpClient("127.0.0.1")
		if err != nil {
			panic(err)
		}
		return &c03UDP{u}
	}},
}

// TestVerifC03QuicOverlap: the overlapping-streams scenario alone (E4 part doq-overlap-preempt).
func TestVerifC03QuicOverlap(t *testing.T) {
	rep := report.New("C03 overlapping DoQ streams, with pause points")
	defer rep.Write()
	rep.Rule = "E3+E4: 2-3 DoQ streams overlapping on one connection through the real handleConn / handleStream, upstream replies in every order, immediately or 2.5 s apart against a 2 s idle time-out, with and without a limiter that admits only the first stream; on overlay copies of the DoQ listener and the request path with a pause point before every statement (one goroutine held between two statements, preemption bound 1) and owned selects; oracle: every admitted stream carries exactly its own response, refused streams carry nothing (or REFUSED), ownership audit"
	st := runExplore(t, rep, -1, func(c *choice.Ctx) { c03QuicOverlap(c, rep) })
	rep.Count("executions_quic_overlap", st.Executions)
}

func TestVerifC03(t *testing.T) {
	rep := report.New("C03 exactly one matching response")
	defer rep.Write()
	queries := c03Queries()
	var seams []string
	for _, s := range c03Seams {
		seams = append(seams, s.name)
	}
	rep.Rule = fmt.Sprintf("E3: real router (run()) with scripted upstream in a synctest bubble; full product listener seam %v x %d queries (all QR x opcode{0,1,2,15} x RD x QDCOUNT{0,1,2}; flag/class/type/case/OPT/extra-record variants) x rule outcome %v x upstream outcome %v (only when forwarded); "+
		"observed at t=0, 6s, 6.05s, 20s on the exact virtual clock; oracle: exactly one response, by 6s+50ms, id/opcode/RD copied, QR=RA=1, <=1 question equal to the first question, rcode per reference decision table; ownership audit; "+
		"plus, on every seam, a query advertising 65535 octets whose upstream answer is composed (listener encoding measured by two probes) so that the complete response is exactly 65500..65535 octets, one by one: exactly one well-formed response within 6.05 s, and an ordinary query afterwards is answered too; 2..3 queries arriving in one read on the tcp and gnet handlers, answered in either order: one matching response each; "+
		"plus, on the tcp, tls (DoT over crypto/tls) and quic connection handlers with idle_timeout 2 s, one connection kept in use for four idle timeouts with a query every {0.5, 1.5, 1.9} s: every query answered, connection never closed under the client; "+
		"plus 65576 sequential queries through the real pipelined transport (more than one connection's id space): each gets its response; "+
		"plus 2-3 queries overlapping on one DoQ connection (streams accepted by the real handleConn), answered by the upstream in every order: each stream carries exactly its own response; "+
		"plus, on every seam with the memory cache on, a second client asking a cached question (other id, RD set / clear, same or other letter case): the same header rules for the response served from the cache",
		seams, len(queries), c03Rules, c03Ups)
	huge, longLived, many, pair, cached, overlap := false, false, false, false, false, false
	if rp := report.ReplayFile(); rp != nil {
		var x struct{ Huge, LongLived, Many, Pair, Cached, QuicOverlap bool }
		rp.Decode(&x)
		huge, longLived, many, pair, cached, overlap = x.Huge, x.LongLived, x.Many, x.Pair, x.Cached, x.QuicOverlap
	}
	if os.Getenv("VERIF_PROP") == "C13" && report.ReplayFile() == nil {
		st := runExplore(t, rep, -1, func(c *choice.Ctx) { c03LongLived(c, rep) })
		rep.Count("executions_long_lived", st.Executions)
		return
	}
	if cached || report.ReplayFile() == nil {
		st := runExplore(t, rep, -1, func(c *choice.Ctx) { c03Cached(c, rep) })
		rep.Count("executions_cached", st.Executions)
	}
	if !huge && !longLived && !many && !pair && !cached && !overlap {
		st := runExplore(t, rep, -1, func(c *choice.Ctx) { c03Scenario(c, rep, queries) })
		rep.Count("executions", st.Executions)
	}
	if huge || report.ReplayFile() == nil {
		st := runExplore(t, rep, -1, func(c *choice.Ctx) { c03Huge(c, rep) })
		rep.Count("executions_huge", st.Executions)
	}
	if sh, _ := report.Shard(); (sh == 0 && report.ReplayFile() == nil) || many {
		bubble(t, func() {
			hmu.Lock()
			defer hmu.Unlock()
			c03ManyQueries(rep, false, 65536+40)
			if report.Thorough() {
				c03ManyQueries(rep, true, 65536+40)
			}
		})
	}
	if pair || report.ReplayFile() == nil {
		st := runExplore(t, rep, -1, func(c *choice.Ctx) { c03Pair(c, rep) })
		rep.Count("executions_one_read", st.Executions)
	}
	if longLived || report.ReplayFile() == nil {
		st := runExplore(t, rep, -1, func(c *choice.Ctx) { c03LongLived(c, rep) })
		rep.Count("executions_long_lived", st.Executions)
	}
	if overlap || report.ReplayFile() == nil {
		st := runExplore(t, rep, -1, func(c *choice.Ctx) { c03QuicOverlap(c, rep) })
		rep.Count("executions_quic_overlap", st.Executions)
	}
	rep.Sample(map[string]any{"seam": "tcp", "rule": "forward", "query": "qr=0 op=0 rd=1 qd=1", "upstream": "silence", "expect": "one SERVFAIL at exactly 6s"})
}
