package router

// C15 (DoQ admission, real quic-go on loopback): the connection cost must be
// charged to the client's subnet. Fixed 3-step script, rate 1/s so that real
// time cannot matter for the asserted direction (a fresh subnet is admitted).

import (
	"context"
	"crypto/tls"
	"fmt"
	"io"
	"net"
	"testing"
	"time"

	"github.com/IrineSistiana/mosproxy/internal/zzverif/env"
	"github.com/IrineSistiana/mosproxy/internal/zzverif/refdns"
	"github.com/IrineSistiana/mosproxy/internal/zzverif/report"
	"github.com/quic-go/quic-go"
)

func c15QuicQuery(server string, clientIP string, id uint16) (string, error) {
	uc, err := net.ListenUDP("udp4", &net.UDPAddr{IP: net.ParseIP(clientIP)})
	if err != nil {
		return "", err
	}
	defer uc.Close()
	tr := &quic.Transport{Conn: uc}
	defer tr.Close()
	ctx, cancel := context.WithTimeout(context.Background(), 10*time.Second)
	defer cancel()
	sa, _ := net.ResolveUDPAddr("udp4", server)
	conn, err := tr.Dial(ctx, sa, &tls.Config{InsecureSkipVerify: true, NextProtos: []string{"doq"}}, &quic.Config{})
	if err != nil {
		return "dial-failed", nil
	}
	defer conn.CloseWithError(0, "")
	st, err := conn.OpenStreamSync(ctx)
	if err != nil {
		return "refused", nil
	}
	st.SetDeadline(time.Now().Add(10 * time.Second))
	q := refdns.Query(id, refdns.N("doq", "example", "test"), 1, 1)
	q.ID = 0
	if _, err := st.Write(refdns.Frame(q.Encode(false))); err != nil {
		return "refused", nil
	}
	st.Close()
	b, err := io.ReadAll(st)
	if err != nil || len(b) < 2 {
		return "refused", nil
	}
	fs, _ := env.SplitFrames(b)
	if len(fs) != 1 {
		return "garbled", nil
	}
	m, err := refdns.Decode(fs[0])
	if err != nil {
		return "garbled", nil
	}
	if m.RCode() == 0 {
		return "answer", nil
	}
	return "rcode" + rcodeName(m.RCode()), nil
}

// c15QuicMany: one connection from clientIP, n queries on n streams, one after the other; returns how many were answered and
// the time the whole thing took (an upper bound of the window in which the admitted cost was charged).
func c15QuicMany(server string, clientIP string, n int) (answered int, took time.Duration, err error) {
	uc, err := net.ListenUDP("udp4", &net.UDPAddr{IP: net.ParseIP(clientIP)})
	if err != nil {
		return 0, 0, err
	}
	defer uc.Close()
	tr := &quic.Transport{Conn: uc}
	defer tr.Close()
	ctx, cancel := context.WithTimeout(context.Background(), 20*time.Second)
	defer cancel()
	t0 := time.Now()
	sa, _ := net.ResolveUDPAddr("udp4", server)
	conn, err := tr.Dial(ctx, sa, &tls.Config{InsecureSkipVerify: true, NextProtos: []string{"doq"}}, &quic.Config{})
	if err != nil {
		return 0, time.Since(t0), nil
	}
	defer conn.CloseWithError(0, "")
	for i := 0; i < n; i++ {
		st, err := conn.OpenStreamSync(ctx)
		if err != nil {
			break
		}
		st.SetDeadline(time.Now().Add(5 * time.Second))
		q := refdns.Query(0, refdns.N(fmt.Sprintf("many%d", i), "example", "test"), 1, 1)
		if _, err := st.Write(refdns.Frame(q.Encode(false))); err != nil {
			break
		}
		st.Close()
		b, _ := io.ReadAll(st)
		if fs, _ := env.SplitFrames(b); len(fs) == 1 {
			if m, err := refdns.Decode(fs[0]); err == nil && m.RCode() == 0 {
				answered++
			}
		}
	}
	return answered, time.Since(t0), nil
}

func TestVerifC15Quic(t *testing.T) {
	rep := report.New("C15 DoQ admission (real quic-go)")
	defer rep.Write()
	rep.Rule = "real quic listener started by startQuicServer on 127.0.0.1 with client limiter rate 1/s burst 15 (= one QUIC connection); script: connection+query from 127.1.1.7 (must be served), then from 127.1.2.7 (other /24: a fresh subnet must be served whatever 127.1.1.7 did), then one connection from 127.1.3.7 with 12 queries in a row (connection cost + answered queries x query cost <= burst + rate x time taken); distinct = distinct (client, outcome)"
	if sh, _ := report.Shard(); sh != 0 {
		rep.Eval("idle-shard")
		rep.Eval("idle-shard2")
		return
	}
	cfg := c03Config("forward")
	cfg.Limiter.Client = ClientLimiterConfig{Limit: 1, Burst: 15 + 2 + 3}
	v, err := vNewRouter(cfg, "u1")
	if err != nil {
		t.Fatal(err)
	}
	defer v.r.close(nil)
	v.ups["u1"].Auto = func(q *upQuery) *upResult { return &upResult{wire: env.Answer(q.Msg, 1, 60).Encode(false)} }
	s, err := v.r.startQuicServer(&ServerConfig{Protocol: "quic", Listen: "127.0.0.1:0", Tls: TlsConfig{DebugUseTempCert: true}})
	if err != nil {
		rep.Note("cannot start a quic listener here: " + err.Error())
		rep.Cap("quic listener unavailable")
		rep.Eval("unavailable")
		rep.Eval("unavailable2")
		return
	}
	defer s.Close()
	addr := s.l.Addr().String()
	a, err := c15QuicQuery(addr, "127.1.1.7", 1)
	if err != nil {
		rep.Note("client socket: " + err.Error())
		rep.Cap("loopback alias unavailable")
		return
	}
	rep.Eval("A:" + a)
	b, _ := c15QuicQuery(addr, "127.1.2.7", 2)
	rep.Eval("B:" + b)
	rep.Sample(map[string]any{"A(127.1.1.7)": a, "B(127.1.2.7)": b})
	if a != "answer" {
		rep.Violate("C15:quic:first-client-not-served", fmt.Sprintf("first DoQ client was not served: %s", a), nil)
	}
	// a third subnet: one connection, 12 queries in a row. What is admitted is charged to that subnet: 15 for the connection and
	// costTCPQuery for every answered query.
	if n, took, err := c15QuicMany(addr, "127.1.3.7", 12); err == nil {
		rep.Eval(fmt.Sprintf("C:%d answered", n))
		burst := float64(cfg.Limiter.Client.Burst)
		if charged := float64(costQuicConn + n*costTCPQuery); n > 0 && charged > burst+took.Seconds()+1e-6 {
			rep.Violate("C15:quic:bound-exceeded", fmt.Sprintf("one DoQ connection from 127.1.3.7 (cost %d) got %d of 12 queries answered (cost %d each) within %.2f s: %v charged to one subnet, bound burst %v + 1/s x window", costQuicConn, n, costTCPQuery, took.Seconds(), charged, burst), nil)
		}
	}
	if b != "answer" {
		rep.Violate("C15:quic:fresh-subnet-refused", fmt.Sprintf("a DoQ client from a fresh subnet (127.1.2.7) was refused after 127.1.1.7 used its own budget (outcome %s): the connection cost is not charged to the client's subnet", b), nil)
	}
}
