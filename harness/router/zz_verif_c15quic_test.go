package router

// C15 (DoQ admission, real quic-go on loopback): the connection cost must be
// charged to the client's subnet. Fixed 3-step script, rate 1/s so that real
// time cannot matter for the asserted direction (a fresh subnet is admitted).

import (
	"context"
	"crypto/tls"
	"fmt"
	"io"
	"net"
	"testing"
	"time"

	"github.com/IrineSistiana/mosproxy/internal/zzverif/env"
	"github.com/IrineSistiana/mosproxy/internal/zzverif/refdns"
	"github.com/IrineSistiana/mosproxy/internal/zzverif/report"
	"github.com/quic-go/quic-go"
)

func c15QuicQuery(server string, clientIP string, id uint16) (string, error) {
	uc, err := net.ListenUDP("udp4", &net.UDPAddr{IP: net.ParseIP(clientIP)})
	if err != nil {
		return "", err
	}
	defer uc.Close()
	tr := &quic.Transport{Conn: uc}
	defer tr.Close()
	ctx, cancel := context.WithTimeout(context.Background(), 10*time.Second)
	defer cancel()
	sa, _ := net.ResolveUDPAddr("udp4", server)
	conn, err := tr.Dial(ctx, sa, &tls.Config{InsecureSkipVerify: true, NextProtos: []string{"doq"}}, &quic.Config{})
	if err != nil {
		return "dial-failed", nil
	}
	defer conn.CloseWithError(0, "")
	st, err := conn.OpenStreamSync(ctx)
	if err != nil {
		return "refused", nil
	}
	st.SetDeadline(time.Now().Add(10 * time.Second))
	q := refdns.Query(id, refdns.N("doq", "example", "test"), 1, 1)
	q.ID = 0
	if _, err := st.Write(refdns.Frame(q.Encode(false))); err != nil {
		return "refused", nil
	}
	st.Close()
	b, err := io.ReadAll(st)
	if err != nil || len(b) < 2 {
		return "refused", nil
	}
	fs, _ := env.SplitFrames(b)
	if len(fs) != 1 {
		return "garbled", nil
	}
	m, err := refdns.Decode(fs[0])
	if err != nil {
		return "garbled", nil
	}
	if m.RCode() == 0 {
		return "answer", nil
	}
	return "rcode" + rcodeName(m.RCode()), nil
}

func TestVerifC15Quic(t *testing.T) {
	rep := report.New("C15 DoQ admission (real quic-go)")
	defer rep.Write()
	rep.Rule = "real quic listener started by startQuicServer on 127.0.0.1 with client limiter rate 1/s burst 15 (= one QUIC connection); script: connection+query from 127.1.1.7 (must be served), then from 127.1.2.7 (other /24: a fresh subnet must be served whatever 127.1.1.7 did); distinct = distinct (client, outcome)"
	if sh, _ := report.Shard(); sh != 0 {
		rep.Eval("idle-shard")
		rep.Eval("idle-shard2")
		return
	}
	cfg := c03Config("forward")
	cfg.Limiter.Client = ClientLimiterConfig{Limit: 1, Burst: 15 + 2 + 3}
	v, err := vNewRouter(cfg, "u1")
	if err != nil {
		t.Fatal(err)
	}
	defer v.r.close(nil)
	v.ups["u1"].Auto = func(q *upQuery) *upResult { return &upResult{wire: env.Answer(q.Msg, 1, 60).Encode(false)} }
	s, err := v.r.startQuicServer(&ServerConfig{Protocol: "quic", Listen: "127.0.0.1:0", Tls: TlsConfig{DebugUseTempCert: true}})
	if err != nil {
		rep.Note("cannot start a quic listener here: " + err.Error())
		rep.Cap("quic listener unavailable")
		rep.Eval("unavailable")
		rep.Eval("unavailable2")
		return
	}
	defer s.Close()
	addr := s.l.Addr().String()
	a, err := c15QuicQuery(addr, "127.1.1.7", 1)
	if err != nil {
		rep.Note("client socket: " + err.Error())
		rep.Cap("loopback alias unavailable")
		return
	}
	rep.Eval("A:" + a)
	b, _ := c15QuicQuery(addr, "127.1.2.7", 2)
	rep.Eval("B:" + b)
	rep.Sample(map[string]any{"A(127.1.1.7)": a, "B(127.1.2.7)": b})
	if a != "answer" {
		rep.Violate("C15:quic:first-client-not-served", fmt.Sprintf("first DoQ client was not served: %s", a), nil)
	}
	if b != "answer" {
		rep.Violate("C15:quic:fresh-subnet-refused", fmt.Sprintf("a DoQ client from a fresh subnet (127.1.2.7) was refused after 127.1.1.7 used its own budget (outcome %s): the connection cost is not charged to the client's subnet", b), nil)
	}
}
