package router

// C08: cached answers age correctly and expire on time (real otter cache,
// exact virtual clock). Also hosts the hit-guarantee oracle of C07.

import (
	"fmt"
	"math"
	"testing"
	"time"

	"github.com/IrineSistiana/mosproxy/internal/zzverif/choice"
	"github.com/IrineSistiana/mosproxy/internal/zzverif/env"
	"github.com/IrineSistiana/mosproxy/internal/zzverif/refdns"
	"github.com/IrineSistiana/mosproxy/internal/zzverif/report"
)

// lifetime per the property's table
func c08Lifetime(rcode int, minTTL uint32, hasRec bool, maxTTL time.Duration) time.Duration {
	ttl := time.Duration(minTTL) * time.Second
	var l time.Duration
	switch rcode {
	case 0:
		if hasRec {
			l = ttl
		} else {
			l = 30 * time.Second
		}
	case 3:
		l = 30 * time.Second
		if hasRec && ttl < l {
			l = ttl
		}
	case 2:
		l = time.Second
		if hasRec && ttl < l {
			l = ttl
		}
	default:
		l = 5 * time.Second
		if hasRec && ttl < l {
			l = ttl
		}
	}
	if l <= 0 {
		l = time.Second
	}
	if l > maxTTL {
		l = maxTTL
	}
	return l
}

func c08TTLs() []uint32 {
	if report.Thorough() {
		return []uint32{0, 1, 2, 5, 30, 300, 86400, math.MaxUint32}
	}
	return []uint32{0, 2, 30, math.MaxUint32}
}

type c08Case struct {
	ttlAn, ttlNs uint32
	rcode        int
	tc           bool
	records      bool
	upOPT        bool
	maxTTL       int // config value, 0 = default
	probe        int
}

var c08Rcodes = []int{0, 2, 3, 5}

// probe offsets: absolute early ones and ones relative to the lifetime L
func c08ProbeAt(i int, L time.Duration) time.Duration {
	switch i {
	case 0:
		return 400 * time.Millisecond
	case 1:
		return time.Second
	case 2:
		return 1600 * time.Millisecond
	case 3:
		return L - 1600*time.Millisecond
	case 4:
		return L - 400*time.Millisecond
	case 5:
		return L + 600*time.Millisecond
	case 6:
		return L + 1900*time.Millisecond
	default:
		return L + 2100*time.Millisecond
	}
}

func c08Scenario(c *choice.Ctx, rep *report.R, prop string) {
	own := env.InstallOwn(0xA5, vRace)
	defer env.UninstallOwn()
	ttls := c08TTLs()
	cs := c08Case{}
	cs.maxTTL = []int{0, 10}[c.Choose(2, "max_ttl")]
	cs.rcode = c08Rcodes[c.Choose(len(c08Rcodes), "rcode")]
	cs.tc = c.Choose(2, "tc") == 1
	cs.records = c.Choose(2, "records") == 1
	if cs.records {
		cs.ttlAn = ttls[c.Choose(len(ttls), "ttl-answer")]
		cs.ttlNs = ttls[c.Choose(len(ttls), "ttl-authority")]
	}
	cs.upOPT = c.Choose(2, "upstream-reply-carries-opt") == 1
	cs.probe = c.Choose(8, "probe")
	maxTTL := 6 * time.Hour
	if cs.maxTTL > 0 {
		maxTTL = time.Duration(cs.maxTTL) * time.Second
	}
	minTTL := cs.ttlAn
	if cs.ttlNs < minTTL {
		minTTL = cs.ttlNs
	}
	L := c08Lifetime(cs.rcode, minTTL, cs.records, maxTTL)
	at := c08ProbeAt(cs.probe, L)
	desc := fmt.Sprintf("%+v lifetime=%v probe@%v", cs, L, at)
	if at <= 0 {
		rep.Count("skipped_nonpositive_probe", 1)
		return
	}
	fail := func(sig, msg string) {
		if prop != "C08" {
			return // when run for C07 only the hit guarantee is judged
		}
		rep.Violate(prop+":"+sig, msg+"\n  "+desc, map[string]any{"Choices": c.Choices()})
	}
	cfg := c03Config("forward")
	cfg.Cache.MemSize = 1 << 20
	cfg.Cache.MaximumTTL = cs.maxTTL
	v, err := vNewRouter(cfg, "u1")
	if err != nil {
		fail("router-start", err.Error())
		return
	}
	defer v.Close()
	u := v.ups["u1"]
	sc := v.tcpClient(v.newTCPServer(0, 1000000*time.Second), vClientV4, vLocalV4)
	name := refdns.N("ttl", "example", "test")
	q := refdns.Query(0x0808, name, 1, 1)
	hsleep(300 * time.Millisecond) // do not start on a second boundary of the cache clock
	sc.SendMsg(q)
	wait()
	if len(u.Pending()) != 1 || u.Pending()[0].Msg == nil {
		fail("setup", "no upstream query for the first request")
		return
	}
	uq := u.Pending()[0]
	reply := env.RCodeReply(uq.Msg, uint16(cs.rcode))
	if cs.tc {
		reply.Bits |= refdns.BitTC
	}
	if cs.records {
		if cs.rcode == 0 {
			reply.An = []refdns.RR{refdns.A(name, cs.ttlAn, 192, 0, 2, 1), refdns.A(name, cs.ttlAn, 192, 0, 2, 2)}
		}
		reply.Ns = []refdns.RR{refdns.SOA(refdns.N("example", "test"), cs.ttlNs, refdns.N("ns", "example", "test"), refdns.N("root", "example", "test"), 1)}
		if cs.rcode != 0 { // keep both ttls in play for negative answers too
			reply.Ar = []refdns.RR{refdns.A(refdns.N("ns", "example", "test"), cs.ttlAn, 192, 0, 2, 53)}
		}
	}
	// the upstream's reply carries its own OPT record (it answers an EDNS0 query): the record is not part of the answer - it has no
	// TTL - and changes neither what is cached nor for how long
	if cs.upOPT {
		reply.Ar = append(reply.Ar, refdns.OPT(1232, 0x8000, refdns.Option(10, []byte{1, 2, 3, 4, 5, 6, 7, 8})))
	}
	t0 := time.Now()
	uq.Reply(reply.Encode(false))
	wait()
	if rs := sc.Responses(); len(rs) != 1 || rs[0] == nil || rs[0].RCode() != cs.rcode {
		fail("setup", "first response missing or wrong")
		return
	}
	hsleep(at)
	wait()
	before := len(u.Queries())
	sc.SendMsg(q)
	wait()
	newUp := len(u.Queries()) - before
	// a background refresh (cache hit in the last quarter) also contacts the upstream; a *hit* is a response that arrived without waiting for it
	rs := sc.Responses()
	hit := len(rs) == 2
	elapsed := time.Since(t0)
	cacheable := !cs.tc
	obs := fmt.Sprintf("hit=%v newUp=%d", hit, newUp)
	if hit {
		r := rs[1]
		if r == nil {
			fail("undecodable-hit", "cached response does not decode")
		} else {
			if !cacheable {
				fail("truncated-reply-cached", "a truncated upstream reply was served from cache")
			}
			if elapsed >= L+2*time.Second {
				fail("served-after-expiry", fmt.Sprintf("served from cache %v after fetch; lifetime %v (+2s granularity)", elapsed, L))
			}
			if r.RCode() != cs.rcode {
				fail("cached-rcode", fmt.Sprintf("cached rcode %d, original %d", r.RCode(), cs.rcode))
			}
			secs := uint32(elapsed / time.Second)
			chk := func(sec string, got, orig []refdns.RR) {
				// (the upstream's own OPT record is not part of the answer: the client, which sent no OPT, gets none)
				var o2 []refdns.RR
				for _, rr := range orig {
					if rr.Type != refdns.TypeOPT {
						o2 = append(o2, rr)
					}
				}
				orig = o2
				if len(got) != len(orig) {
					fail("cached-records", fmt.Sprintf("%s: %d records, originally %d", sec, len(got), len(orig)))
					return
				}
				for i := range got {
					if got[i].Type == refdns.TypeOPT {
						continue
					}
					max := uint32(1)
					if orig[i].TTL > secs && orig[i].TTL-secs > 1 {
						max = orig[i].TTL - secs
					}
					if got[i].TTL > max || got[i].TTL < 1 {
						fail("ttl-not-aged", fmt.Sprintf("%s[%d]: ttl %d after %v, upstream ttl %d: must be in [1,%d]", sec, i, got[i].TTL, elapsed, orig[i].TTL, max))
					}
					if got[i].CanonNoTTL() != orig[i].CanonNoTTL() {
						fail("cached-records", fmt.Sprintf("%s[%d] differs from the relayed record", sec, i))
					}
				}
			}
			chk("answer", r.An, reply.An)
			chk("authority", r.Ns, reply.Ns)
			chk("additional", r.Ar, reply.Ar)
		}
	} else {
		if len(rs) != 1 {
			fail("response-count", fmt.Sprintf("%d responses", len(rs)))
		}
		if newUp != 1 {
			fail("no-refetch", fmt.Sprintf("no cached answer but %d new upstream queries", newUp))
		}
		// C07 hit guarantee: more than one second of lifetime left => must be served from cache
		if prop == "C07" && cacheable && L-elapsed > time.Second {
			rep.Violate("C07:hit-guarantee", fmt.Sprintf("repeat query %v after fetch with lifetime %v (%v left) was not answered from the cache\n  %s", elapsed, L, L-elapsed, desc), map[string]any{"Choices": c.Choices()})
		}
	}
	if !cacheable && newUp != 1 {
		fail("truncated-reply-cached", "after a truncated reply the next query must cause a new upstream exchange")
	}
	for _, p := range u.Pending() {
		p.Fail()
	}
	wait()
	sc.Close()
	v.Close()
	wait()
	for _, x := range own.Audit() {
		fail("ownership", x)
	}
	rep.Eval(desc + "=>" + obs)
	rep.State(fmt.Sprintf("%d|%v|%v|%v|%s", cs.rcode, cs.tc, L, at, obs))
}

// c08History covers the multi-step histories: failed exchange never cached; refresh failure keeps the old entry;
// a negative refresh reply never displaces a live positive entry.
func c08History(c *choice.Ctx, rep *report.R) {
	own := env.InstallOwn(0xA5, vRace)
	defer env.UninstallOwn()
	first := []string{"error", "malformed", "positive"}[c.Choose(3, "first")]
	refresh := []string{"servfail", "nxdomain", "refused", "error", "positive-new-ttl", "tc"}[c.Choose(6, "refresh")]
	desc := fmt.Sprintf("history first=%s refresh=%s", first, refresh)
	fail := func(sig, msg string) {
		rep.Violate("C08:"+sig, msg+"\n  "+desc, map[string]any{"Choices": c.Choices()})
	}
	cfg := c03Config("forward")
	cfg.Cache.MemSize = 1 << 20
	v, err := vNewRouter(cfg, "u1")
	if err != nil {
		fail("router-start", err.Error())
		return
	}
	defer v.Close()
	u := v.ups["u1"]
	sc := v.tcpClient(v.newTCPServer(0, 100000*time.Second), vClientV4, vLocalV4)
	name := refdns.N("hist", "example", "test")
	q := refdns.Query(0x0809, name, 1, 1)
	ask := func() (*refdns.Msg, int) {
		before, nr := len(u.Queries()), len(sc.Responses())
		sc.SendMsg(q)
		wait()
		rs := sc.Responses()
		if len(rs) > nr {
			return rs[nr], len(u.Queries()) - before
		}
		return nil, len(u.Queries()) - before
	}
	hsleep(300 * time.Millisecond)
	r, n := ask()
	if r != nil || n != 1 {
		fail("setup", "first query")
		return
	}
	uq := u.Pending()[0]
	switch first {
	case "error":
		uq.Fail()
	case "malformed":
		uq.Reply([]byte{1, 2, 3})
	case "positive":
		uq.Reply(env.Answer(uq.Msg, 1, 100).Encode(false))
	}
	wait()
	if first != "positive" {
		// failed exchanges are never cached: the next query goes upstream again
		hsleep(400 * time.Millisecond)
		r, n = ask()
		if r != nil || n != 1 {
			fail("failed-exchange-cached", fmt.Sprintf("after a failed exchange the repeat query was answered without a new upstream exchange (new upstream queries: %d)", n))
		}
		for _, p := range u.Pending() {
			p.Fail()
		}
		wait()
		rep.Eval(desc)
		return
	}
	hsleep(80 * time.Second) // into the last quarter of the 100 s lifetime
	r, n = ask()
	if r == nil || n != 1 {
		fail("refresh-not-started", fmt.Sprintf("hit in the last quarter: response=%v new upstream queries=%d", r != nil, n))
		return
	}
	if len(u.Pending()) != 1 {
		fail("refresh-not-started", "no pending refresh")
		return
	}
	rq := u.Pending()[0]
	switch refresh {
	case "servfail":
		rq.Reply(env.RCodeReply(rq.Msg, 2).Encode(false))
	case "nxdomain":
		rq.Reply(env.RCodeReply(rq.Msg, 3).Encode(false))
	case "refused":
		rq.Reply(env.RCodeReply(rq.Msg, 5).Encode(false))
	case "error":
		rq.Fail()
	case "positive-new-ttl":
		rq.Reply(env.Answer(rq.Msg, 2, 500).Encode(false))
	case "tc":
		m := env.Answer(rq.Msg, 3, 500)
		m.Bits |= refdns.BitTC
		rq.Reply(m.Encode(false))
	}
	wait()
	hsleep(5 * time.Second) // 85 s after the first fetch: the positive entry is still alive
	r, n = ask()
	if r == nil {
		fail("live-entry-lost", fmt.Sprintf("after a %s refresh the still-live positive entry was not served (new upstream queries %d)", refresh, n))
	} else {
		_, serial, _ := env.AnswerKey(r)
		switch {
		case r.RCode() != 0 || len(r.An) != 1:
			fail("negative-displaced-positive", fmt.Sprintf("a %s refresh reply displaced the live positive entry: client now gets rcode %d", refresh, r.RCode()))
		case refresh == "positive-new-ttl" && (serial != 2 || r.An[0].TTL < 490):
			fail("refresh-not-stored", fmt.Sprintf("after a successful refresh the hit shows serial %d ttl %d", serial, r.An[0].TTL))
		case refresh != "positive-new-ttl" && (serial != 1 || r.An[0].TTL > 15):
			fail("old-entry-altered", fmt.Sprintf("after a failed refresh the hit shows serial %d ttl %d (expected the old entry, ttl <= 15)", serial, r.An[0].TTL))
		}
	}
	for _, p := range u.Pending() {
		p.Fail()
	}
	wait()
	sc.Close()
	v.Close()
	wait()
	for _, x := range own.Audit() {
		fail("ownership", x)
	}
	rep.Eval(desc)
	rep.State(desc)
}

func TestVerifC08(t *testing.T) {
	rep := report.New("C08 cache ageing and expiry")
	defer rep.Write()
	rep.Rule = fmt.Sprintf("E3: real router + real otter memory cache + scripted upstream under the exact virtual clock; full product maximum_ttl {default,10} x rcode {0,2,3,5} x TC {0,1} x upstream reply {without, with} an OPT record of its own x {no records, records with (answer ttl, authority ttl) in %v^2} "+
		"x probe instant {+0.4s,+1s,+1.6s, L-1.6s, L-0.4s, L+0.6s, L+1.9s, L+2.1s} (L = lifetime by the property's table); plus histories {failed/malformed first exchange -> repeat; positive(100s) -> hit at 80s -> refresh answered %v -> hit at 85s}; "+
		"oracle: a response without waiting for an upstream exchange has every ttl in [1, max(1, upstream - floor(elapsed))], arrives before L+2s, equals the relayed records; TC and failed exchanges are never cached; negatives never displace a live positive entry; "+
		"(C07) repeat with >1s of lifetime left is a cache hit", c08TTLs(), []string{"servfail", "nxdomain", "refused", "error", "positive-new-ttl", "tc"})
	st := runExplore(t, rep, -1, func(c *choice.Ctx) {
		if c.Choose(2, "family") == 0 {
			c08Scenario(c, rep, "C08")
		} else {
			c08History(c, rep)
		}
	})
	rep.Count("executions", st.Executions)
	rep.Sample(map[string]any{"rcode": 3, "records": true, "ttl": "answer 30 / authority 2", "lifetime": "2s", "probe": "L+1.9s", "oracle": "a hit here is still inside the 2 s granularity allowance; at L+2.1s it is a violation"})
}
