package router

// C07: cached answers go only to the same question and client group, unchanged.
// (a) key function via the real request path, (b) fidelity of cached responses,
// (c) group lookup vs linear scan, (e) hit guarantee (shares the C08 scenario).
// (d) concurrency of the memory cache is the E2 part (harness/cache).

import (
	"bytes"
	"fmt"
	"net/netip"
	"sort"
	"strings"
	"testing"
	"time"

	"github.com/IrineSistiana/mosproxy/internal/dnsmsg"
	"github.com/IrineSistiana/mosproxy/internal/pool"
	"github.com/IrineSistiana/mosproxy/internal/zzverif/choice"
	"github.com/IrineSistiana/mosproxy/internal/zzverif/env"
	"github.com/IrineSistiana/mosproxy/internal/zzverif/refdns"
	"github.com/IrineSistiana/mosproxy/internal/zzverif/report"
)

type c07Q struct {
	name       refdns.Name
	class, typ uint16
	client     string // address
}

const c07Marker = "10.0.0.0,10.0.0.255,g1\n10.0.1.0,10.0.1.255,g2\n2001:db8::,2001:db8::ffff,g1\n"

type c07Var struct {
	name    string
	apply   func(q *c07Q)
	sameKey bool // property: hit iff true
}

func c07Variants() []c07Var {
	return []c07Var{
		{"identical", func(q *c07Q) {}, true},
		{"case-of-one-letter", func(q *c07Q) { q.name = refdns.N("wWw", "example", "test") }, true},
		{"all-upper", func(q *c07Q) { q.name = refdns.N("WWW", "EXAMPLE", "TEST") }, true},
		{"one-label-differs", func(q *c07Q) { q.name = refdns.N("wwx", "example", "test") }, false},
		{"extra-label", func(q *c07Q) { q.name = refdns.N("a", "www", "example", "test") }, false},
		{"parent-name", func(q *c07Q) { q.name = refdns.N("example", "test") }, false},
		{"class-IN-to-CH", func(q *c07Q) { q.class = 3 }, false},
		{"class-IN-to-257", func(q *c07Q) { q.class = 257 }, false},
		{"type-A-to-AAAA", func(q *c07Q) { q.typ = 28 }, false},
		{"type-A-to-257", func(q *c07Q) { q.typ = 257 }, false},
		{"client-same-group", func(q *c07Q) { q.client = "10.0.0.200" }, true},
		{"client-same-label-other-range", func(q *c07Q) { q.client = "2001:db8::5" }, true},
		{"client-v4-mapped-same-group", func(q *c07Q) { q.client = "::ffff:10.0.0.9" }, true},
		{"client-outside-any-group", func(q *c07Q) { q.client = "10.0.2.1" }, false},
		{"client-other-group", func(q *c07Q) { q.client = "10.0.1.7" }, false},
	}
}

func c07KeyScenario(c *choice.Ctx, rep *report.R) {
	vars := c07Variants()
	vi := c.Choose(len(vars), "variant")
	baseGroup := c.Choose(3, "base-client") // g1 client, ungrouped client, no marker file configured
	rev := c.Choose(2, "direction")         // store variant first, then ask base
	// what the upstream puts into the question section of its reply to the first query: the question as asked, the same name in
	// upper case, or the second query's question (an upstream that rewrites the question): the entry is filed under what was asked
	echo := c.Choose(3, "upstream-echo")
	va := vars[vi]
	base := c07Q{refdns.N("www", "example", "test"), 1, 1, "10.0.0.7"}
	sameKey := va.sameKey
	switch baseGroup {
	case 1:
		base.client = "10.9.9.9"
	}
	other := base
	va.apply(&other)
	if baseGroup == 1 && strings.HasPrefix(va.name, "client-") {
		// base client is outside every group: same key iff the variant client is outside too
		sameKey = va.name == "client-outside-any-group"
	}
	if baseGroup == 2 && strings.HasPrefix(va.name, "client-") {
		sameKey = true // no groups configured: every client shares the cache
	}
	first, second := base, other
	if rev == 1 {
		first, second = other, base
	}
	desc := fmt.Sprintf("upstream-echo=%d variant=%s baseClient=%d reversed=%d first=%s/%d/%d@%s second=%s/%d/%d@%s", echo, va.name, baseGroup, rev, first.name, first.class, first.typ, first.client, second.name, second.class, second.typ, second.client)
	var outcomes [2]string
	var keys [2][2][]byte
	for pi, pat := range []byte{0xA5, 0x5A} {
		func() {
			own := env.InstallOwn(pat, vRace)
			defer env.UninstallOwn()
			fail := func(sig, msg string) {
				rep.Violate("C07:key:"+sig, msg+"\n  "+desc, map[string]any{"Choices": c.Choices()})
			}
			cfg := c03Config("forward")
			cfg.Cache.MemSize = 1 << 20
			if baseGroup != 2 {
				cfg.Cache.IpMarker = vTmpFile("c07_marker.txt", c07Marker)
			}
			v, err := vNewRouter(cfg, "u1")
			if err != nil {
				fail("router-start", err.Error())
				return
			}
			defer v.Close()
			u := v.ups["u1"]
			serial := byte(0)
			u.Auto = func(q *upQuery) *upResult {
				serial++
				r := env.Answer(q.Msg, serial, 300)
				if serial == 1 && len(r.Q) == 1 {
					switch echo {
					case 1:
						r.Q = []refdns.Q{{Name: refdns.Name(upperLabels(r.Q[0].Name)), Type: r.Q[0].Type, Class: r.Q[0].Class}}
					case 2:
						r.Q = []refdns.Q{{Name: second.name.Lower(), Type: second.typ, Class: second.class}}
					}
				}
				return &upResult{wire: r.Encode(false)}
			}
			srv := v.newTCPServer(0, 1000*time.Second)
			ask := func(q c07Q, id uint16) (*refdns.Msg, int) {
				before := len(u.Queries())
				sc := v.tcpClient(srv, netip.AddrPortFrom(netip.MustParseAddr(q.client), 5555), vLocalV4)
				sc.SendMsg(refdns.Query(id, q.name, q.typ, q.class))
				wait()
				rs := sc.Responses()
				sc.Close()
				wait()
				if len(rs) != 1 || rs[0] == nil {
					return nil, len(u.Queries()) - before
				}
				if t := own.Tainted(sc.impl.Written()); t != "" {
					fail("tainted-response", "response contains "+t)
				}
				return rs[0], len(u.Queries()) - before
			}
			r1, n1 := ask(first, 0x0701)
			if r1 == nil || n1 != 1 {
				fail("setup", "first query was not forwarded")
				return
			}
			hsleep(2300 * time.Millisecond)
			r2, n2 := ask(second, 0x0702)
			if r2 == nil {
				fail("setup", "no response to the second query")
				return
			}
			hit := n2 == 0
			outcomes[pi] = fmt.Sprintf("hit=%v", hit)
			if hit != sameKey {
				if hit {
					fail("served-to-different-question:"+va.name, fmt.Sprintf("the answer cached for the first query was served to the second although they differ in %s", va.name))
				} else {
					fail("miss-for-same-question:"+va.name, fmt.Sprintf("queries that differ only in %s must share a cache entry but the second was forwarded", va.name))
				}
			}
			// whatever the path, the answer must be the upstream's answer for the second query's own question
			if k, _, ok := env.AnswerKey(r2); !ok || k != env.KeyIP(second.name, second.class, second.typ) {
				fail("wrong-answer:"+va.name, fmt.Sprintf("the second query received data produced for a different question: %s", r2.Canon()))
			}
			// the key bytes themselves, under this fill pattern
			for i, q := range []c07Q{first, second} {
				dq := dnsmsg.NewQuestion()
				dq.Name = dnsmsg.Name(pool.CopyBuf(q.name.Lower().Wire()))
				dq.Class, dq.Type = dnsmsg.Class(q.class), dnsmsg.Type(q.typ)
				mark := v.r.cache.ipMark(netip.MustParseAddr(q.client))
				k := cacheKey(dq, mark)
				keys[pi][i] = append([]byte(nil), k...)
				if t := own.Tainted(append(append([]byte{}, k...), pat, pat, pat)); t != "" && bytes.Contains(k, []byte{pat, pat}) {
					fail("uninitialised-bytes-in-key", fmt.Sprintf("cache key %x contains uninitialised pool memory (fill pattern %#x)", []byte(k), pat))
				}
				pool.ReleaseBuf(k)
				dnsmsg.ReleaseQuestion(dq)
			}
			for _, x := range own.Audit() {
				fail("ownership", x)
			}
		}()
	}
	if outcomes[0] != outcomes[1] {
		rep.Violate("C07:key:depends-on-buffer-history", fmt.Sprintf("hit/miss differs with the fill pattern of recycled buffers: %v\n  %s", outcomes, desc), map[string]any{"Choices": c.Choices()})
	}
	for i := 0; i < 2; i++ {
		if !bytes.Equal(keys[0][i], keys[1][i]) {
			rep.Violate("C07:key:uninitialised-bytes-in-key", fmt.Sprintf("cache key differs with the fill pattern of recycled buffers: %x vs %x\n  %s", keys[0][i], keys[1][i], desc), map[string]any{"Choices": c.Choices()})
		}
	}
	rep.Eval(desc + "=>" + outcomes[0])
	rep.State(va.name + outcomes[0])
}

// ---- (b) fidelity

func c07Records() []refdns.RR {
	N := refdns.N
	e := N("fid", "example", "test")
	return []refdns.RR{
		refdns.A(e, 300, 192, 0, 2, 1),
		refdns.AAAA(e, 200, 1),
		refdns.NameRR(refdns.TypeCNAME, e, 100, N("cdn", "example", "test")),
		refdns.NameRR(refdns.TypeNS, N("example", "test"), 400, N("ns", "example", "test")),
		refdns.MX(N("example", "test"), 500, 10, N("mx", "Example", "test")),
		refdns.SOA(N("example", "test"), 600, N("ns", "example", "test"), N("root", "example", "test"), 9),
		refdns.SRV(N("_s", "_tcp", "example", "test"), 700, 1, 2, 3, N("ns", "example", "test")),
		refdns.TXT(e, 800, 300, 'z'),
		refdns.Unknown(e, 65280, 900, []byte{0xC0, 0x0C, 1}),
		refdns.A(e, 300, 192, 0, 2, 1), // duplicate of #0: order of equal records
	}
}

func c07SecAssign(k int) [][]int {
	var out [][]int
	var rec func(cur []int)
	rec = func(cur []int) {
		if len(cur) == k {
			out = append(out, append([]int(nil), cur...))
			return
		}
		lo := 0
		if len(cur) > 0 {
			lo = cur[len(cur)-1]
		}
		for s := lo; s < 3; s++ {
			rec(append(cur, s))
		}
	}
	rec(nil)
	return out
}

func c07Fidelity(c *choice.Ctx, rep *report.R, maxRec int) {
	own := env.InstallOwn(0xA5, vRace)
	defer env.UninstallOwn()
	recs := c07Records()
	k := c.Choose(maxRec+1, "nrec")
	var seq []int
	for i := 0; i < k; i++ {
		seq = append(seq, c.Choose(len(recs), fmt.Sprintf("rec%d", i)))
	}
	secsAll := c07SecAssign(k)
	secs := secsAll[c.Choose(len(secsAll), "sections")]
	rcode := []uint16{0, 3}[c.Choose(2, "rcode")]
	flags := []uint16{0, refdns.BitAA, refdns.BitAD, refdns.BitCD, refdns.BitAA | refdns.BitAD | refdns.BitCD}[c.Choose(5, "flags")]
	withOpt := c.Choose(2, "client-opt") == 1
	desc := fmt.Sprintf("records=%v sections=%v rcode=%d flags=%04x clientOPT=%v", seq, secs, rcode, flags, withOpt)
	fail := func(sig, msg string) {
		rep.Violate("C07:fidelity:"+sig, msg+"\n  "+desc, map[string]any{"Choices": c.Choices()})
	}
	cfg := c03Config("forward")
	cfg.Cache.MemSize = 1 << 20
	v, err := vNewRouter(cfg, "u1")
	if err != nil {
		fail("router-start", err.Error())
		return
	}
	defer v.Close()
	u := v.ups["u1"]
	u.Auto = func(q *upQuery) *upResult {
		m := env.RCodeReply(q.Msg, rcode)
		m.Bits |= flags
		for i, s := range seq {
			switch secs[i] {
			case 0:
				m.An = append(m.An, recs[s])
			case 1:
				m.Ns = append(m.Ns, recs[s])
			default:
				m.Ar = append(m.Ar, recs[s])
			}
		}
		m.Ar = append(m.Ar, refdns.OPT(1232, 0, refdns.Option(10, make([]byte, 8))))
		return &upResult{wire: m.Encode(true)}
	}
	sc := v.tcpClient(v.newTCPServer(0, 1000*time.Second), vClientV4, vLocalV4)
	mk := func(id uint16) *refdns.Msg {
		q := refdns.Query(id, refdns.N("fid", "example", "test"), 255, 1)
		if withOpt {
			q.Ar = []refdns.RR{refdns.OPT(4096, 0, nil)}
		}
		return q
	}
	sc.SendMsg(mk(0x0711))
	wait()
	hsleep(2300 * time.Millisecond)
	sc.SendMsg(mk(0x0722))
	wait()
	rs := sc.Responses()
	if len(rs) != 2 || rs[0] == nil || rs[1] == nil {
		fail("setup", fmt.Sprintf("%d responses", len(rs)))
		return
	}
	if len(u.Queries()) != 1 {
		fail("setup", fmt.Sprintf("second query was not served from cache (%d upstream queries)", len(u.Queries())))
		return
	}
	a, b := rs[0], rs[1]
	if a.Bits != b.Bits {
		fail("header", fmt.Sprintf("flags/rcode %04x relayed, %04x from cache", a.Bits, b.Bits))
	}
	if b.ID != 0x0722 {
		fail("header", "id of the cached response is not the query's")
	}
	if len(a.Q) != len(b.Q) || (len(a.Q) == 1 && (!a.Q[0].Name.Equal(b.Q[0].Name) || a.Q[0].Type != b.Q[0].Type || a.Q[0].Class != b.Q[0].Class)) {
		fail("question", "question section differs")
	}
	cmp := func(sec string, x, y []refdns.RR, ordered bool) {
		if len(x) != len(y) {
			fail("records", fmt.Sprintf("%s: %d records relayed, %d from cache", sec, len(x), len(y)))
			return
		}
		xs, ys := make([]string, len(x)), make([]string, len(y))
		for i := range x {
			xs[i], ys[i] = x[i].CanonNoTTL(), y[i].CanonNoTTL()
			if x[i].Type != refdns.TypeOPT && (y[i].TTL > x[i].TTL || y[i].TTL < 1) && ordered {
				fail("ttl", fmt.Sprintf("%s[%d]: ttl %d relayed, %d from cache", sec, i, x[i].TTL, y[i].TTL))
			}
		}
		if !ordered {
			sort.Strings(xs)
			sort.Strings(ys)
		}
		for i := range xs {
			if xs[i] != ys[i] {
				fail("records", fmt.Sprintf("%s[%d]: relayed %s, from cache %s", sec, i, xs[i], ys[i]))
			}
		}
	}
	cmp("answer", a.An, b.An, true)
	cmp("authority", a.Ns, b.Ns, true)
	cmp("additional", a.Ar, b.Ar, false)
	for _, x := range own.Audit() {
		fail("ownership", x)
	}
	rep.Eval(desc)
	rep.State(fmt.Sprintf("%d|%v|%d", k, secs, rcode))
}

// ---- (c) group lookup vs linear scan

func c07Points() []netip.Addr {
	var out []netip.Addr
	for _, s := range []string{"0.0.0.0", "10.0.0.0", "10.0.0.5", "10.0.0.255", "10.0.1.0", "255.255.255.255", "::", "::1", "::fffe:ffff:ffff", "2001:db8::", "2001:db8::ffff", "ffff:ffff:ffff:ffff:ffff:ffff:ffff:ffff"} {
		out = append(out, netip.MustParseAddr(s))
	}
	return out
}

func c07Less(a, b netip.Addr) bool { x, y := a.As16(), b.As16(); return bytes.Compare(x[:], y[:]) < 0 }

func c07GroupLookup(rep *report.R, maxRanges int) {
	pts := c07Points()
	type rng struct {
		s, e  netip.Addr
		label string
	}
	var all []rng
	for i, s := range pts {
		for j, e := range pts {
			_ = j
			if !c07Less(e, s) { // start <= end
				all = append(all, rng{s, e, []string{"g1", "g2"}[(i+j)%2]})
			}
		}
	}
	probes := append([]netip.Addr{}, pts...)
	probes = append(probes, netip.MustParseAddr("::ffff:10.0.0.5"), netip.MustParseAddr("10.0.0.6"), netip.MustParseAddr("2001:db8::1"))
	probes = append(probes, netip.Addr{}) // a client whose address is unknown (unix socket, missing address header): in no group, whatever the file says about ::
	n := 0
	var cur []rng
	var rec func(start int)
	eval := func() {
		n++
		if !report.Owns(n) {
			return
		}
		var sb strings.Builder
		sb.WriteString("# generated\n\n")
		for _, r := range cur {
			fmt.Fprintf(&sb, "%s,%s,%s   # c\n", r.s, r.e, r.label)
		}
		// reference: reject iff two ranges share a point
		overlap := false
		for i := range cur {
			for j := i + 1; j < len(cur); j++ {
				if !c07Less(cur[i].e, cur[j].s) && !c07Less(cur[j].e, cur[i].s) {
					overlap = true
				}
			}
		}
		var m *ipMarker
		var err error
		func() {
			defer func() {
				if r := recover(); r != nil {
					err = fmt.Errorf("PANIC %v", r)
				}
			}()
			m, err = loadIpMarkerFromReader(strings.NewReader(sb.String()))
		}()
		desc := strings.ReplaceAll(sb.String(), "\n", "; ")
		rep.Eval(desc)
		if err != nil && strings.HasPrefix(err.Error(), "PANIC") {
			rep.Violate("C07:groups:load-panic", err.Error()+" for "+desc, nil)
			return
		}
		if overlap != (err != nil) {
			rep.Violate(fmt.Sprintf("C07:groups:overlap-handling:accepted=%v", err == nil), fmt.Sprintf("ranges overlap=%v but loader error=%v: %s", overlap, err, desc), nil)
			return
		}
		if err != nil {
			return
		}
		for _, p := range probes {
			want := ""
			for _, r := range cur {
				if p.IsValid() && !c07Less(p, r.s) && !c07Less(r.e, p) {
					want = r.label
				}
			}
			if got := m.Mark(p); got != want {
				rep.Violate("C07:groups:wrong-label", fmt.Sprintf("address %s: label %q, linear scan says %q; file: %s", p, got, want, desc), nil)
			}
		}
	}
	rec = func(start int) {
		eval()
		if len(cur) == maxRanges {
			return
		}
		for i := range all {
			cur = append(cur, all[i])
			rec(i)
			cur = cur[:len(cur)-1]
		}
	}
	rec(0)
	// neighbouring ranges with the same label, ending and starting on /64 boundaries (the low half wraps from all-ones to zero):
	// what lies between two ranges belongs to neither, however close they are and whatever their labels
	{
		his := []string{"2001:db8:0:1", "2001:db8:0:2", "2001:db8:0:5", "2001:db9:0:0", "fd00:0:0:0"}
		for i, ha := range his {
			for _, hb := range his[i+1:] {
				for _, aEnd := range []string{":ffff:ffff:ffff:ffff", "::ffff"} {
					for _, bStart := range []string{"::", "::5"} {
						for _, labels := range [][2]string{{"g1", "g1"}, {"g1", "g2"}} {
							n++
							if !report.Owns(n) {
								continue
							}
							aLo, aHi := netip.MustParseAddr(ha+"::"), netip.MustParseAddr(ha+aEnd)
							bLo, bHi := netip.MustParseAddr(hb+bStart), netip.MustParseAddr(hb+"::ffff")
							file := fmt.Sprintf("%s,%s,%s\n%s,%s,%s\n", aLo, aHi, labels[0], bLo, bHi, labels[1])
							desc := strings.ReplaceAll(file, "\n", "; ")
							rep.Eval(desc)
							m, err := loadIpMarkerFromReader(strings.NewReader(file))
							if err != nil {
								rep.Violate("C07:groups:label-sequence-rejected", fmt.Sprintf("%v for %s", err, desc), nil)
								continue
							}
							probes := []netip.Addr{aLo, aHi, bLo, bHi, aHi.Next(), bLo.Prev(), netip.MustParseAddr(ha + ":8000::1"), netip.MustParseAddr(hb + "::3"),
								netip.MustParseAddr("2001:db8:0:3::1"), netip.MustParseAddr("2001:db8:ffff::1"), netip.MustParseAddr("e000::1"), netip.MustParseAddr("10.0.0.1")}
							for _, p := range probes {
								want := ""
								if !c07Less(p, aLo) && !c07Less(aHi, p) {
									want = labels[0]
								} else if !c07Less(p, bLo) && !c07Less(bHi, p) {
									want = labels[1]
								}
								if got := m.Mark(p); got != want {
									rep.Violate("C07:groups:wrong-label", fmt.Sprintf("address %s: label %q, linear scan says %q; file: %s", p, got, want, desc), nil)
								}
							}
						}
					}
				}
			}
		}
	}
	// label sequences: up to 6 disjoint ranges (v4 and v6, not in address order) labelled by every sequence over 3 labels (repeats,
	// returns to an earlier label, runs): each range keeps the label written on its own line
	lranges := [][2]string{{"10.0.3.0", "10.0.3.255"}, {"10.0.1.0", "10.0.1.255"}, {"2001:db8:5::", "2001:db8:5::ffff"}, {"10.0.2.0", "10.0.2.255"}, {"192.0.2.1", "192.0.2.1"}, {"2001:db8:1::", "2001:db8:1::ffff"}}
	labels := []string{"east", "west", "north"}
	maxSeq := 5
	if maxRanges >= 3 {
		maxSeq = 6
	}
	var seq []int
	var lrec func()
	lrec = func() {
		if len(seq) > 0 {
			n++
			if report.Owns(n) {
				var sb strings.Builder
				for i, l := range seq {
					fmt.Fprintf(&sb, "%s,%s,%s\n", lranges[i][0], lranges[i][1], labels[l])
				}
				desc := strings.ReplaceAll(sb.String(), "\n", "; ")
				rep.Eval("labels:" + desc)
				var m *ipMarker
				var err error
				func() {
					defer func() {
						if r := recover(); r != nil {
							err = fmt.Errorf("PANIC %v", r)
						}
					}()
					m, err = loadIpMarkerFromReader(strings.NewReader(sb.String()))
				}()
				if err != nil {
					rep.Violate("C07:groups:label-sequence-rejected", fmt.Sprintf("%v for %s", err, desc), nil)
				} else {
					for i, l := range seq {
						for _, a := range lranges[i] {
							if got := m.Mark(netip.MustParseAddr(a)); got != labels[l] {
								rep.Violate("C07:groups:wrong-label", fmt.Sprintf("address %s: label %q, its line says %q; file: %s", a, got, labels[l], desc), nil)
							}
						}
					}
				}
			}
		}
		if len(seq) == maxSeq {
			return
		}
		for l := range labels {
			seq = append(seq, l)
			lrec()
			seq = seq[:len(seq)-1]
		}
	}
	lrec()
}

// c07BigFiles: range files far larger than anything the enumeration builds - more lines than a line scanner's first buffer holds,
// more ranges than any index granularity (4097, 5000: not multiples of a power of two), more distinct labels than 16 bits count
// (70001) - every range with a label of its own (or one of three labels, so that long runs share one): every range's first, middle
// and last address carries its line's label, the address just below the first range and just above the last carry none.
func c07BigFiles(rep *report.R) {
	for _, cfg := range []struct {
		n      int
		labels int // 0: one label per range
	}{{130, 0}, {400, 3}, {4097, 0}, {5000, 0}, {70001, 0}} {
		var sb strings.Builder
		label := func(i int) string {
			if cfg.labels > 0 {
				return []string{"AA", "BB", "CC"}[min(i, cfg.labels-1)]
			}
			return fmt.Sprintf("L%d", i)
		}
		addr := func(i, off int) netip.Addr { // range i covers 10.x.y.(16k) .. +9, ranges do not touch
			v := uint32(10)<<24 + uint32(i)*16 + uint32(off)
			return netip.AddrFrom4([4]byte{byte(v >> 24), byte(v >> 16), byte(v >> 8), byte(v)})
		}
		for i := 0; i < cfg.n; i++ {
			fmt.Fprintf(&sb, "%s,%s,%s\n", addr(i, 0), addr(i, 9), label(i))
		}
		desc := fmt.Sprintf("range file with %d ranges (%d octets), %s", cfg.n, sb.Len(), map[bool]string{true: "labels AA, BB, CC...", false: "one label per range"}[cfg.labels > 0])
		rep.Eval("big-file: " + desc)
		var m *ipMarker
		var err error
		func() {
			defer func() {
				if r := recover(); r != nil {
					err = fmt.Errorf("PANIC %v", r)
				}
			}()
			m, err = loadIpMarkerFromReader(strings.NewReader(sb.String()))
		}()
		if err != nil {
			rep.Violate("C07:groups:big-file-rejected", fmt.Sprintf("%v for a %s", err, desc), nil)
			continue
		}
		bad := 0
		for i := 0; i < cfg.n && bad < 3; i++ {
			for _, off := range []int{0, 5, 9} {
				if got := m.Mark(addr(i, off)); got != label(i) {
					bad++
					rep.Violate("C07:groups:wrong-label:big-file", fmt.Sprintf("address %s (range #%d of a %s): label %q, its line says %q", addr(i, off), i, desc, got, label(i)), nil)
					break
				}
			}
			if got := m.Mark(addr(i, 12)); got != "" {
				bad++
				rep.Violate("C07:groups:wrong-label:big-file", fmt.Sprintf("address %s lies between range #%d and the next of a %s and is labelled %q", addr(i, 12), i, desc, got), nil)
			}
		}
	}
}

func TestVerifC07(t *testing.T) {
	rep := report.New("C07 cache key, fidelity, groups")
	defer rep.Write()
	maxRec := report.ParamInt("MAXREC", 2)
	maxRanges := report.ParamInt("MAXRANGES", 2)
	rep.Rule = fmt.Sprintf("E3/E1: (a) key: %d single-component variants (case, label, class, type, client address in same group / same label other range / v4-mapped / outside / other group) x base client {grouped, ungrouped, no marker file} x both store orders, via the real request path (tcp seam, per-client connections), each under the two fill patterns 0xA5/0x5A for recycled buffers: hit iff the property says so, outcome and key bytes independent of the pattern; "+
		"(b) fidelity: all sequences of <=%d records over a 10-record alphabet x section assignments x rcode {0,3} x flags x client OPT on/off: cached response equals the relayed one except id and TTLs, answer/authority order kept; "+
		"(c) groups: all files of <=%d ranges over a 12-point address universe (v4, v6, boundaries) vs linear scan on 15 probe addresses, overlapping files must be rejected, plus every label sequence of length <=5 over 3 labels on 6 disjoint ranges; (e) hit guarantee: the C08 history space with the oracle 'repeat with >1 s of lifetime left is served from cache'",
		len(c07Variants()), maxRec, maxRanges)
	if report.ReplayFile() == nil {
		c07GroupLookup(rep, maxRanges)
		if sh, _ := report.Shard(); sh == 0 {
			c07BigFiles(rep)
		}
	}
	st := runExplore(t, rep, -1, func(c *choice.Ctx) {
		switch c.Choose(3, "family") {
		case 0:
			c07KeyScenario(c, rep)
		case 1:
			c07Fidelity(c, rep, maxRec)
		default:
			c08Scenario(c, rep, "C07")
		}
	})
	rep.Count("executions", st.Executions)
	rep.Sample(map[string]any{"variant": "class-IN-to-CH", "first": "www.example.test IN A from 10.0.0.7 (g1)", "second": "www.example.test CH A from 10.0.0.7", "expect": "miss"})
}

func upperLabels(n refdns.Name) [][]byte {
	var out [][]byte
	for _, l := range n {
		out = append(out, bytes.ToUpper(l))
	}
	return out
}
