package router

// C03 (frame sizes on stream listeners): every query size in a window around the 1 KiB buffered reader the stream listeners read
// through (and a few larger ones), padded with an EDNS0 padding option, through the tcp and tls seams; the upstream's answer is
// padded to the same sweep. Oracle: exactly one response with the query's id and question, whatever the size.

import (
	"crypto/tls"
	"fmt"
	"strings"
	"testing"
	"time"

	"github.com/IrineSistiana/mosproxy/internal/zzverif/env"
	"github.com/IrineSistiana/mosproxy/internal/zzverif/refdns"
	"github.com/IrineSistiana/mosproxy/internal/zzverif/report"
)

func TestVerifC03Sizes(t *testing.T) {
	rep := report.New("C03 query sizes on stream listeners")
	defer rep.Write()
	lo, hi := report.ParamInt("SIZELO", 1000), report.ParamInt("SIZEHI", 1040)
	extra := []int{17 + 11, 100, 511, 512, 513, 2046, 2047, 2048, 2049, 4095, 4096, 4097, 16383, 16384, 65000}
	rep.Rule = fmt.Sprintf("E3: tcp and tls seams of the real router (forward rule, scripted upstream answering at once); one query of every size %d..%d and %v octets (EDNS0 padding option), each on a fresh connection and a second one behind it on the same connection; "+
		"oracle: each query gets exactly one response with its id and question", lo, hi, extra)
	sizes := append([]int{}, extra...)
	for s := lo; s <= hi; s++ {
		sizes = append(sizes, s)
	}
	sh, nsh := report.Shard()
	bubble(t, func() {
		hmu.Lock()
		defer hmu.Unlock()
		for _, kind := range []string{"tcp", "tls"} {
			for i, size := range sizes {
				if nsh > 1 && i%nsh != sh {
					continue
				}
				own := env.InstallOwn(0xA5, vRace)
				v, err := vNewRouter(c03Config("forward"), "u1")
				if err != nil {
					rep.Violate("C03:sizes:router-start", err.Error(), nil)
					env.UninstallOwn()
					return
				}
				v.ups["u1"].Auto = func(q *upQuery) *upResult {
					if q.Msg == nil {
						return &upResult{err: errScripted}
					}
					return &upResult{wire: env.Answer(q.Msg, 7, 60).Encode(false)}
				}
				srv := v.newTCPServer(0, 100*time.Second)
				var send func([]byte)
				var frames func() [][]byte
				if kind == "tls" {
					srv.tlsConfig = &tls.Config{Certificates: []tls.Certificate{vServerCert()}}
					tc := v.tlsClient(srv, vClientV4, vLocalV4)
					send = func(b []byte) { tc.Send(b) }
					frames = func() [][]byte { fs, _ := env.SplitFrames(tc.Received()); return fs }
				} else {
					sc := v.tcpClient(srv, vClientV4, vLocalV4)
					send = func(b []byte) { sc.Send(b) }
					frames = func() [][]byte { fs, _ := sc.Frames(); return fs }
				}
				mk := func(id uint16) []byte {
					q := refdns.Query(id, refdns.N("size", "example", "test"), 1, 1)
					base := len(q.Encode(false)) + 11 + 4 // OPT record + option header
					pad := size - base
					if pad < 0 {
						pad = 0
					}
					q.Ar = []refdns.RR{refdns.OPT(1232, 0, refdns.Option(12, make([]byte, pad)))}
					return q.Encode(false)
				}
				w1, w2 := mk(0x5101), mk(0x5102)
				desc := fmt.Sprintf("%s query of %d octets", kind, len(w1))
				rep.Eval(desc)
				send(refdns.Frame(w1))
				wait()
				send(refdns.Frame(w2))
				wait()
				hsleep(7 * time.Second)
				wait()
				fs := frames()
				seen := map[uint16]int{}
				for _, f := range fs {
					if m, err := refdns.Decode(f); err == nil && len(m.Q) == 1 && m.Q[0].Name.Equal(refdns.N("size", "example", "test")) {
						seen[m.ID]++
					}
				}
				if seen[0x5101] != 1 || seen[0x5102] != 1 || len(fs) != 2 {
					rep.Violate("C03:sizes:"+kind+":response-count", fmt.Sprintf("two %s queries of %d octets on one connection got %d response frames (ids seen %v): a query of this size is not answered", kind, len(w1), len(fs), seen), map[string]any{"Size": size, "Kind": kind})
				}
				v.Close()
				for _, x := range own.Audit() {
					rep.Violate("C03:sizes:ownership", x, nil)
				}
				env.UninstallOwn()
			}
		}
		// the listeners that take one query per request or stream (DoH POST with and without a declared length, DoQ): a few sizes up to
		// the largest DNS message there is, 65535 octets - a legal query
		for _, seam := range c03Seams {
			switch seam.name {
			case "http-post", "http-post-chunked", "http-post-in-pieces", "fasthttp-post", "fasthttp-post-chunked", "quic", "http-get", "fasthttp-get":
			default:
				continue
			}
			sizes := []int{28, 512, 4096, 16384, 65000, 65534, 65535}
			if strings.HasSuffix(seam.name, "-get") {
				// (a GET carries the query in its request line: what a server accepts there is a few KiB - net/http 8 KiB of request
				// head - so the sweep stays inside that; the handlers are called directly, their own limits are what is judged)
				sizes = []int{28, 512, 1500, 3072, 3073, 4000, 5000}
			}
			for i, size := range sizes {
				if nsh > 1 && i%nsh != sh {
					continue
				}
				own := env.InstallOwn(0xA5, vRace)
				v, err := vNewRouter(c03Config("forward"), "u1")
				if err != nil {
					rep.Violate("C03:sizes:router-start", err.Error(), nil)
					env.UninstallOwn()
					return
				}
				v.ups["u1"].Auto = func(q *upQuery) *upResult {
					if q.Msg == nil {
						return &upResult{err: errScripted}
					}
					return &upResult{wire: env.Answer(q.Msg, 7, 60).Encode(false)}
				}
				q := refdns.Query(0x5103, refdns.N("size", "example", "test"), 1, 1)
				if pad := size - (len(q.Encode(false)) + 11 + 4); pad >= 0 {
					q.Ar = []refdns.RR{refdns.OPT(1232, 0, refdns.Option(12, make([]byte, pad)))}
				}
				desc := fmt.Sprintf("%s query of %d octets", seam.name, len(q.Encode(false)))
				rep.Eval(desc)
				cl := seam.open(v)
				cl.send(q)
				wait()
				hsleep(7 * time.Second)
				wait()
				ms, _ := cl.responses()
				if len(ms) != 1 || ms[0] == nil || ms[0].ID != 0x5103 || len(ms[0].Q) != 1 || ms[0].RCode() != 0 {
					rep.Violate("C03:sizes:"+seam.name+":response-count", fmt.Sprintf("a %s got %d DNS responses (%v): a query of this size is not answered", desc, len(ms), ms), nil)
				}
				cl.close()
				v.Close()
				for _, x := range own.Audit() {
					rep.Violate("C03:sizes:ownership", x, nil)
				}
				env.UninstallOwn()
			}
		}
	})
}
