package router

// C03 (real sockets, stream listeners as configured by default): the E3 seams
// build the tcp / gnet servers themselves (with their own idle timeout) and feed
// the gnet handler through a fake connection. This part starts the listeners
// from configuration with nothing but protocol and address, so that the
// defaults and the real gnet engine are what runs:
//
//   fragmented: a query cut into two TCP segments at every offset of a small set
//   (inside the length prefix, right behind it, inside the body), 60 ms apart,
//   followed by an ordinary query on the same connection: two matching responses.
//   silent upstream: the response is the proxy's own SERVFAIL when the request
//   deadline (6 s) passes - on the same connection, which must still be there.
//
// Content-only oracles; the waits are generous bounds for "never".

import (
	"context"
	"crypto/tls"
	"encoding/base64"
	"fmt"
	"io"
	"net"
	"net/http"
	"strings"
	"sync"
	"testing"
	"time"

	"github.com/IrineSistiana/mosproxy/internal/mlog"
	"github.com/IrineSistiana/mosproxy/internal/zzverif/env"
	"github.com/IrineSistiana/mosproxy/internal/zzverif/refdns"
	"github.com/IrineSistiana/mosproxy/internal/zzverif/report"
	"github.com/rs/zerolog"
)

func TestVerifC03RealStream(t *testing.T) {
	mlog.SetLvl(zerolog.Disabled)
	rep := report.New("C03 stream listeners with default settings on real sockets")
	defer rep.Write()
	cuts := []int{1, 2, 3, 14, 30}
	rep.Rule = fmt.Sprintf("real router from configuration: listeners {tcp, gnet, tls (temporary certificate)} given only protocol and address (every default applies), forward rule to a local UDP upstream; "+
		"per listener: (a) a query sent as two TCP segments cut after %v octets of the framed message, 60 ms apart, then an ordinary query on the same connection: one matching NOERROR response each; "+
		"(b) a query the upstream never answers: exactly one SERVFAIL with the query's id on the same connection (waited for up to 9 s), nothing else; (c) DoH listeners {http, https, fasthttp}, defaults: a GET answered by the upstream and one it never answers: HTTP 200 with NOERROR / with the proxy's SERVFAIL; distinct = (listener, case)", cuts)
	if sh, _ := report.Shard(); sh != 0 {
		rep.Eval("idle-shard")
		rep.Eval("idle-shard2")
		return
	}
	upc, err := net.ListenPacket("udp", "127.0.0.1:0")
	if err != nil {
		t.Fatal(err)
	}
	defer upc.Close()
	go func() {
		b := make([]byte, 4096)
		for {
			n, a, err := upc.ReadFrom(b)
			if err != nil {
				return
			}
			q, err := refdns.Decode(b[:n])
			if err != nil || len(q.Q) != 1 || strings.HasPrefix(q.Q[0].Name.String(), "silent") {
				continue
			}
			upc.WriteTo(env.Answer(q, 1, 60).Encode(false), a)
		}
	}()
	kinds := []string{"tcp", "gnet", "tls"}
	httpKinds := []string{"http", "https", "fasthttp"}
	var r *router
	addrs := map[string]string{}
	for try := 0; try < 3 && r == nil; try++ {
		cfg := &Config{Upstreams: []UpstreamConfig{{Tag: "u", Addr: "udp://" + upc.LocalAddr().String()}}, Rules: []RuleConfig{{Forward: "u"}}}
		for _, k := range append(append([]string{}, kinds...), httpKinds...) {
			l, err := net.Listen("tcp", "127.0.0.1:0")
			if err != nil {
				t.Fatal(err)
			}
			addrs[k] = l.Addr().String()
			l.Close()
			sc := ServerConfig{Protocol: k, Listen: addrs[k]}
			if k == "tls" || k == "https" {
				sc.Tls.DebugUseTempCert = true
			}
			cfg.Servers = append(cfg.Servers, sc)
		}
		if r, err = run(context.Background(), cfg); err != nil {
			r = nil
		}
	}
	if r == nil {
		rep.Violate("C03:real-stream:router-start", fmt.Sprint(err), nil)
		return
	}
	defer r.close(nil)
	time.Sleep(300 * time.Millisecond)
	dial := func(k string) (net.Conn, error) {
		if k == "tls" {
			return tls.DialWithDialer(&net.Dialer{Timeout: 3 * time.Second}, "tcp", addrs[k], &tls.Config{InsecureSkipVerify: true})
		}
		return net.DialTimeout("tcp", addrs[k], 3*time.Second)
	}
	// readFrames reads framed responses until n were read or the deadline passes
	readFrames := func(c net.Conn, n int, d time.Duration) (out []*refdns.Msg, closed bool) {
		c.SetReadDeadline(time.Now().Add(d))
		for len(out) < n {
			hdr := make([]byte, 2)
			if _, err := io.ReadFull(c, hdr); err != nil {
				if ne, ok := err.(net.Error); ok && ne.Timeout() {
					return out, false
				}
				return out, true
			}
			b := make([]byte, int(hdr[0])<<8|int(hdr[1]))
			if _, err := io.ReadFull(c, b); err != nil {
				return out, true
			}
			m, _ := refdns.Decode(b)
			out = append(out, m)
		}
		return out, false
	}
	var mu sync.Mutex
	violate := func(sig, msg string) { mu.Lock(); rep.Violate(sig, msg, nil); mu.Unlock() }
	var wg sync.WaitGroup
	for _, k := range kinds {
		k := k
		wg.Add(1)
		go func() {
			defer wg.Done()
			id := uint16(0x3300)
			for _, cut := range cuts {
				mu.Lock()
				rep.Eval(fmt.Sprintf("%s fragmented at %d", k, cut))
				mu.Unlock()
				c, err := dial(k)
				if err != nil {
					violate("C03:real-stream:"+k+":connect", err.Error())
					return
				}
				id += 2
				f1 := refdns.Frame(refdns.Query(id, refdns.N("frag", "example", "test"), 1, 1).Encode(false))
				f2 := refdns.Frame(refdns.Query(id+1, refdns.N("next", "example", "test"), 1, 1).Encode(false))
				c.Write(f1[:cut])
				time.Sleep(60 * time.Millisecond)
				c.Write(f1[cut:])
				time.Sleep(60 * time.Millisecond)
				c.Write(f2)
				ms, closed := readFrames(c, 2, 5*time.Second)
				got := map[uint16]int{}
				for _, m := range ms {
					if m != nil && m.RCode() == 0 && m.Has(refdns.BitQR) {
						got[m.ID]++
					}
				}
				if got[id] != 1 || got[id+1] != 1 || len(ms) != 2 {
					violate(fmt.Sprintf("C03:real-stream:%s:fragmented-query", k), fmt.Sprintf("listener %s: a query sent in two segments (cut after %d octets) followed by an ordinary query on the same connection: %d responses within 5 s (first query answered %d times, second %d times, connection closed by the proxy: %v)", k, cut, len(ms), got[id], got[id+1], closed))
				}
				c.Close()
			}
			mu.Lock()
			rep.Eval(k + " silent upstream")
			mu.Unlock()
			c, err := dial(k)
			if err != nil {
				violate("C03:real-stream:"+k+":connect", err.Error())
				return
			}
			defer c.Close()
			id += 2
			c.Write(refdns.Frame(refdns.Query(id, refdns.N("silent", "example", "test"), 1, 1).Encode(false)))
			ms, closed := readFrames(c, 1, 9*time.Second)
			switch {
			case len(ms) == 0:
				violate(fmt.Sprintf("C03:real-stream:%s:no-response-to-unanswered-query", k), fmt.Sprintf("listener %s with default settings, upstream silent: no response within 9 s (connection closed by the proxy: %v); expected the proxy's SERVFAIL when the 6 s request deadline passes", k, closed))
			case ms[0] == nil || ms[0].ID != id || ms[0].RCode() != 2 || !ms[0].Has(refdns.BitQR):
				violate(fmt.Sprintf("C03:real-stream:%s:bad-response-to-unanswered-query", k), fmt.Sprintf("listener %s: %v", k, ms[0]))
			}
		}()
	}
	// the DoH listeners (net/http plain and TLS, fasthttp) with every default: a query the upstream never answers gets the proxy's
	// SERVFAIL in an ordinary HTTP 200 when the request deadline passes - a server-side write / handler time-out below that
	// deadline would cut the response off
	for _, k := range httpKinds {
		k := k
		wg.Add(1)
		go func() {
			defer wg.Done()
			for ci, name := range []string{"plain", "silent"} {
				mu.Lock()
				rep.Eval(k + " " + name + " upstream")
				mu.Unlock()
				id := uint16(0x3400 + ci)
				q := refdns.Query(id, refdns.N(name, "example", "test"), 1, 1).Encode(false)
				scheme := "http"
				if k == "https" {
					scheme = "https"
				}
				tr := &http.Transport{TLSClientConfig: &tls.Config{InsecureSkipVerify: true}, ForceAttemptHTTP2: true}
				hc := &http.Client{Transport: tr, Timeout: 12 * time.Second}
				req, _ := http.NewRequest("GET", scheme+"://"+addrs[k]+"/dns-query?dns="+base64.RawURLEncoding.EncodeToString(q), nil)
				req.Header.Set("Accept", "application/dns-message")
				resp, err := hc.Do(req)
				var body []byte
				status := 0
				if err == nil {
					status = resp.StatusCode
					body, _ = io.ReadAll(io.LimitReader(resp.Body, 70000))
					resp.Body.Close()
				}
				tr.CloseIdleConnections()
				m, _ := refdns.Decode(body)
				wantRcode := map[string]int{"plain": 0, "silent": 2}[name]
				if err != nil || status != 200 || m == nil || m.ID != id || m.RCode() != wantRcode || !m.Has(refdns.BitQR) {
					violate(fmt.Sprintf("C03:real-stream:%s:%s-upstream", k, name), fmt.Sprintf("DoH listener %s with default settings, upstream %s: request error %v, status %d, message %v; expected HTTP 200 with rcode %d within 12 s", k, name, err, status, m, wantRcode))
				}
			}
		}()
	}
	wg.Wait()
	rep.Sample(map[string]any{"listener": "gnet", "case": "query cut after 1 octet, then a second query", "expect": "two NOERROR responses with the two ids"})
}
