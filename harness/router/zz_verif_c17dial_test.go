package router

// C17, the router's side of "peers are reached exactly as configured": every upstream entry of a configuration goes through
// initUpstream (app/router/upstream.go) before internal/upstream sees it. The matrix scheme x URL port x dial_addr is run through the
// real run(); internal/upstream/upstream.go is an overlay copy whose "net" is the vnet shim, so every dial (net.Dialer) and every
// resolution of a QUIC peer (ResolveUDPAddr) of the real NewUpstream ends in a recorder that refuses it. One query per router is
// sent through a loopback UDP listener; judged is where the upstream tried to go.

import (
	"context"
	"errors"
	"fmt"
	"net"
	"strings"
	"sync"
	"testing"
	"time"

	"github.com/IrineSistiana/mosproxy/internal/mlog"
	"github.com/IrineSistiana/mosproxy/internal/zzverif/refdns"
	"github.com/IrineSistiana/mosproxy/internal/zzverif/report"
	"github.com/IrineSistiana/mosproxy/internal/zzverif/vnet"
	"github.com/rs/zerolog"
)

func TestVerifC17RouterDial(t *testing.T) {
	mlog.SetLvl(zerolog.Disabled)
	rep := report.New("C17 upstream dial targets through the router's configuration")
	defer rep.Write()
	schemes := []struct {
		name, defPort, net string
	}{
		{"", "53", "udp"}, {"udp", "53", "udp"}, {"tcp", "53", "tcp"}, {"tcp+pipeline", "53", "tcp"}, {"tls", "853", "tcp"}, {"tls+pipeline", "853", "tcp"},
		{"https", "443", "tcp"}, {"http", "80", "tcp"}, {"h3", "443", "udp"}, {"quic", "853", "udp"},
	}
	hosts := []struct{ text, ip string }{{"192.0.2.53", "192.0.2.53"}, {"[2001:db8::53]", "2001:db8::53"}}
	dials := []struct{ text, ip, port string }{{"", "", ""}, {"127.83.12.7", "127.83.12.7", ""}, {"127.83.12.7:5353", "127.83.12.7", "5353"}, {"[2001:db8::99]:5353", "2001:db8::99", "5353"}}
	rep.Rule = fmt.Sprintf("E1 over the real run(): upstream scheme %d x URL host {IPv4, IPv6 literal} x URL port {none, 5353} x dial_addr {none, bare IPv4, IPv4:port, [IPv6]:port}; "+
		"internal/upstream/upstream.go compiled from an overlay copy whose net.Dialer / ResolveUDPAddr record and refuse; one query through a loopback UDP listener; oracle: every dial of the upstream goes to dial_addr (else the URL host) on dial_addr's port, else the URL's (dial_addr absent), else the scheme's default", len(schemes))
	var mu sync.Mutex
	var seen []string
	refused := errors.New("verif: dial intercepted")
	vnet.DialHook = func(ctx context.Context, network, address string) (net.Conn, error) {
		mu.Lock()
		seen = append(seen, network+"|"+address)
		mu.Unlock()
		return nil, refused
	}
	realResolve := vnet.ResolveUDPAddr
	vnet.ResolveUDPAddr = func(network, address string) (*net.UDPAddr, error) {
		mu.Lock()
		seen = append(seen, "udp-resolve|"+address)
		mu.Unlock()
		return nil, refused
	}
	defer func() { vnet.DialHook, vnet.ResolveUDPAddr = nil, realResolve }()
	n := 0
	for _, sc := range schemes {
		for _, h := range hosts {
			for _, port := range []string{"", "5353"} {
				for _, da := range dials {
					n++
					if !report.Owns(n) {
						continue
					}
					addr := h.text
					if port != "" {
						addr += ":" + port
					}
					if sc.name != "" {
						addr = sc.name + "://" + addr
					}
					if strings.HasPrefix(sc.name, "http") || sc.name == "h3" {
						addr += "/dns-query"
					}
					desc := fmt.Sprintf("upstream addr=%q dial_addr=%q", addr, da.text)
					rep.Eval(desc)
					var laddr string
					r, _, err := c17Run(func() *Config {
						laddr = c17FreeAddr(true)
						return &Config{
							Servers:   []ServerConfig{{Protocol: "udp", Listen: laddr}},
							Upstreams: []UpstreamConfig{{Tag: "u", Addr: addr, DialAddr: da.text, Tls: TlsConfig{InsecureSkipVerify: true}}},
							Rules:     []RuleConfig{{Forward: "u"}},
						}
					})
					if err != nil {
						rep.Violate("C17:router-dial:rejected", fmt.Sprintf("run() refused a supported upstream entry: %v (%s)", err, desc), nil)
						continue
					}
					mu.Lock()
					seen = nil
					mu.Unlock()
					if c, err := net.Dial("udp", laddr); err == nil {
						c.Write(refdns.Query(0x1717, refdns.N("dial", "example", "test"), 1, 1).Encode(false))
						c.SetReadDeadline(time.Now().Add(8 * time.Second))
						b := make([]byte, 1500)
						c.Read(b) // SERVFAIL once the upstream has given up
						c.Close()
					}
					r.close(nil)
					mu.Lock()
					got := append([]string(nil), seen...)
					mu.Unlock()
					wantIP, wantPort := h.ip, port
					if wantPort == "" {
						wantPort = sc.defPort
					}
					if da.text != "" {
						wantIP, wantPort = da.ip, da.port
						if wantPort == "" {
							wantPort = sc.defPort
						}
					}
					if len(got) == 0 {
						rep.Violate("C17:router-dial:no-dial", "the query made the upstream dial nothing: "+desc, nil)
						continue
					}
					for _, s := range got {
						network, address, _ := strings.Cut(s, "|")
						host, p, e := net.SplitHostPort(address)
						if e != nil || host != wantIP || p != wantPort || !strings.HasPrefix(network, sc.net[:3]) {
							rep.Violate(fmt.Sprintf("C17:router-dial:wrong-target:%s:dial=%s", sc.name, da.text),
								fmt.Sprintf("the upstream went to %s, expected %s %s port %s (%s)", s, sc.net, wantIP, wantPort, desc), nil)
							break
						}
					}
				}
			}
		}
	}
	rep.Sample(map[string]any{"addr": "tls+pipeline://192.0.2.53", "dial_addr": "127.83.12.7", "expect": "tcp 127.83.12.7:853"})
}
