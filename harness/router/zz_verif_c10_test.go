package router

// C10: rules are first-match and a query reaches only the selected upstream.
// All rule lists up to a length bound over the full rule alphabet, loaded by
// the real run(), compared with a 15-line reference interpreter.

import (
	"fmt"
	"regexp"
	"strings"
	"testing"
	"time"

	"github.com/IrineSistiana/mosproxy/internal/zzverif/choice"
	"github.com/IrineSistiana/mosproxy/internal/zzverif/env"
	"github.com/IrineSistiana/mosproxy/internal/zzverif/refdns"
	"github.com/IrineSistiana/mosproxy/internal/zzverif/report"
)

type c10Rule struct {
	domain  string // "", "A", "B"
	reverse bool
	reject  uint16
	forward string // "", "u1", "u2"
}

func (r c10Rule) String() string {
	return fmt.Sprintf("{dom=%s rev=%v rej=%d fwd=%s}", r.domain, r.reverse, r.reject, r.forward)
}

func c10Alphabet() []c10Rule {
	var out []c10Rule
	for _, d := range []string{"", "A", "B", "E", "R"} {
		for _, rev := range []bool{false, true} {
			for _, rej := range []uint16{0, 2, 3, 5} {
				for _, f := range []string{"", "u1", "u2"} {
					out = append(out, c10Rule{d, rev, rej, f})
				}
			}
		}
	}
	return out
}

// A also holds a regexp entry with a case-sensitive escape (\D: not a digit; lower-casing the file would turn it into \d); E is a
// domain set without entries (a file of comments): it matches nothing; R holds only the root domain: it matches every name.
var c10Sets = map[string][]string{"A": {"a.test", "shared.test", `regexp:^re\D\.zone$`}, "B": {"b.test", "shared.test"}, "E": {}, "R": {"."}}

// reference interpreter
func c10Ref(rules []c10Rule, lowerName string) (rcode int, upstream string) {
	for _, r := range rules {
		if r.domain != "" {
			in := false
			for _, e := range c10Sets[r.domain] {
				if re, ok := strings.CutPrefix(e, "regexp:"); ok {
					if regexp.MustCompile(re).MatchString(lowerName) {
						in = true
					}
				} else if e == "." || lowerName == e || strings.HasSuffix(lowerName, "."+e) {
					in = true
				}
			}
			if in == r.reverse {
				continue
			}
		}
		if r.reject > 0 {
			return int(r.reject), ""
		}
		if r.forward != "" {
			return 0, r.forward
		}
		return 5, ""
	}
	return 5, ""
}

type c10Q struct {
	name       refdns.Name
	typ, class uint16
}

func c10Queries() []c10Q {
	var out []c10Q
	for _, n := range []refdns.Name{refdns.N("a", "test"), refdns.N("B", "Test"), refdns.N("www", "Shared", "TEST"), refdns.N("other", "test")} {
		out = append(out, c10Q{n, 1, 1}, c10Q{n, 16, 3})
	}
	// in A by its regexp entry / not in A (a digit where the entry wants a non-digit)
	out = append(out, c10Q{refdns.N("reX", "zone"), 1, 1}, c10Q{refdns.N("re1", "zone"), 1, 1})
	return out
}

func c10Scenario(c *choice.Ctx, rep *report.R, alpha []c10Rule, maxLen int, sub []int) {
	own := env.InstallOwn(0xA5, vRace)
	defer env.UninstallOwn()
	n := c.Choose(maxLen+1, "len")
	var rules []c10Rule
	for i := 0; i < n; i++ {
		if n >= 3 {
			rules = append(rules, alpha[sub[c.Choose(len(sub), fmt.Sprintf("rule%d", i))]])
		} else {
			rules = append(rules, alpha[c.Choose(len(alpha), fmt.Sprintf("rule%d", i))])
		}
	}
	cacheOn := c.Choose(2, "cache") == 1
	// one upstream may be broken (every exchange fails): the query is then answered SERVFAIL, it is not handed to the next rule
	failing := []string{"", "u1", "u2"}[c.Choose(3, "failing-upstream")]
	desc := fmt.Sprintf("rules=%v cache=%v failing-upstream=%q", rules, cacheOn, failing)
	fail := func(sig, msg string) {
		rep.Violate("C10:"+sig, msg+"\n  "+desc, map[string]any{"Choices": c.Choices()})
	}
	cfg := &Config{}
	cfg.DomainSets = []DomainSetConfig{
		{Tag: "A", Files: []string{vTmpFile("c10_A.txt", strings.Join(c10Sets["A"], "\n")+"\n")}},
		// (the first file of B ends without a newline and the second starts with an entry: files are loaded one by one, lines do not fuse)
		{Tag: "B", Files: []string{vTmpFile("c10_B1nonl.txt", c10Sets["B"][0]), vTmpFile("c10_B2e.txt", c10Sets["B"][1]+"\n# second file\n")}},
		{Tag: "E", Files: []string{vTmpFile("c10_E.txt", "# nothing in here\n\n   # really\n")}},
		{Tag: "R", Files: []string{vTmpFile("c10_R.txt", "# everything\n.\n")}},
	}
	for _, r := range rules {
		cfg.Rules = append(cfg.Rules, RuleConfig{Reverse: r.reverse, Domain: r.domain, Reject: r.reject, Forward: r.forward})
	}
	if cacheOn {
		cfg.Cache.MemSize = 1 << 20
	}
	v, err := vNewRouter(cfg, "u1", "u2")
	if err != nil {
		fail("router-start", err.Error())
		return
	}
	defer v.Close()
	serial := byte(0)
	for tag, u := range v.ups {
		broken := tag == failing
		u.Auto = func(q *upQuery) *upResult {
			if q.Msg == nil || broken {
				return &upResult{err: errScripted}
			}
			serial++
			return &upResult{wire: env.Answer(q.Msg, serial, 300).Encode(false)}
		}
	}
	sc := v.tcpClient(v.newTCPServer(0, 300*time.Second), vClientV4, vLocalV4)
	seen := map[string]int{} // upstream -> queries consumed so far
	nResp := 0
	obs := ""
	// round 0: fresh; round 1: 3 s later (cache hits when a cache is configured); round 2: in the last quarter of the 300 s ttl: a
	// cache hit whose background refresh must go to the selected upstream with exactly that question, and nowhere else
	rounds := 2
	if cacheOn {
		rounds = 3
	}
	for round := 0; round < rounds; round++ {
		if round == 2 {
			hsleep(240 * time.Second)
			wait()
		}
		for qi, q := range c10Queries() {
			m := refdns.Query(uint16(0x1000+qi), q.name, q.typ, q.class)
			sc.SendMsg(m)
			wait()
			lower := strings.ToLower(q.name.String())
			wantRc, wantUp := c10Ref(rules, lower)
			rs := sc.Responses()
			if len(rs) != nResp+1 || rs[nResp] == nil {
				fail("response-count", fmt.Sprintf("query %s: %d new responses", q.name, len(rs)-nResp))
				return
			}
			r := rs[nResp]
			nResp++
			if wantUp != "" && wantUp == failing {
				wantRc = 2
			}
			if r.RCode() != wantRc {
				fail("wrong-outcome", fmt.Sprintf("query %s/%d/%d: rcode %s, reference %s (upstream %q)", q.name, q.class, q.typ, rcodeName(r.RCode()), rcodeName(wantRc), wantUp))
			}
			for tag, u := range v.ups {
				qs := u.Queries()
				newQs := qs[seen[tag]:]
				seen[tag] = len(qs)
				want := 0
				if tag == wantUp && !(cacheOn && round == 1 && tag != failing) {
					want = 1 // round 2 with a cache: the one query is the background refresh (or, for a failing upstream, the request itself)
				}
				if len(newQs) != want {
					fail("wrong-upstream-contact", fmt.Sprintf("query %s/%d/%d (round %d): upstream %s received %d queries, reference says %d (selected upstream %q)", q.name, q.class, q.typ, round, tag, len(newQs), want, wantUp))
				}
				for _, uq := range newQs {
					if uq.Msg == nil || len(uq.Msg.Q) != 1 {
						fail("forwarded-question", fmt.Sprintf("undecodable/odd upstream query %x", uq.Wire))
						continue
					}
					fq := uq.Msg.Q[0]
					if !fq.Name.Equal(q.name.Lower()) || fq.Type != q.typ || fq.Class != q.class || !uq.Msg.Has(refdns.BitRD) {
						fail("forwarded-question", fmt.Sprintf("upstream got %s/%d/%d RD=%v for query %s/%d/%d", fq.Name, fq.Class, fq.Type, uq.Msg.Has(refdns.BitRD), q.name, q.class, q.typ))
					}
					if uq.Msg.Has(refdns.BitQR) || uq.Msg.OpCode() != 0 || len(uq.Msg.An)+len(uq.Msg.Ns) != 0 {
						fail("forwarded-question", "upstream query is not a plain standard query")
					}
				}
			}
			if wantUp != "" && wantUp != failing && r.RCode() == 0 {
				k, _, ok := env.AnswerKey(r)
				if !ok || k != env.KeyIP(q.name, q.class, q.typ) {
					fail("wrong-answer", fmt.Sprintf("answer for %s/%d/%d is not the selected upstream's answer to that question", q.name, q.class, q.typ))
				}
			}
			obs += fmt.Sprintf("%d%s,", r.RCode(), wantUp)
		}
		hsleep(3 * time.Second)
	}
	sc.Close()
	v.Close()
	wait()
	for _, x := range own.Audit() {
		fail("ownership", x)
	}
	rep.Eval(desc + "=>" + obs)
	rep.State(obs)
}

// c10SetFiles: one domain set spread over several files - a domain in one file, one of its subdomains in another, in both
// orders, either of them padded with 20000 other entries (so that either file may be the one whose loading ends last, should
// files ever be loaded side by side) - is the union of its files: the domain, its subdomain and everything below both match.
func c10SetFiles(rep *report.R) {
	var filler strings.Builder
	for i := 0; i < 20000; i++ {
		fmt.Fprintf(&filler, "f%05d.filler.test\n", i)
	}
	for li, layout := range [][2]string{
		{"example.test\n", "www.example.test\n" + filler.String()},
		{"example.test\n" + filler.String(), "www.example.test\n"},
		{"www.example.test\n" + filler.String(), "example.test\n"},
		{"www.example.test\n", "example.test\n" + filler.String()},
		{"www.example.test\nexample.test\n", "mail.example.test\nfull:other.test\n"},
	} {
		desc := fmt.Sprintf("set M = files {%.20q..., %.20q...} (%d and %d octets)", layout[0], layout[1], len(layout[0]), len(layout[1]))
		rep.Eval("set-files: " + desc)
		fail := func(sig, msg string) {
			rep.Violate("C10:set-files:"+sig, msg+"\n  "+desc, map[string]any{"Choices": []int{}, "SetFiles": li})
		}
		cfg := &Config{
			DomainSets: []DomainSetConfig{{Tag: "M", Files: []string{vTmpFile(fmt.Sprintf("c10_M%da.txt", li), layout[0]), vTmpFile(fmt.Sprintf("c10_M%db.txt", li), layout[1])}}},
			Rules:      []RuleConfig{{Domain: "M", Forward: "u1"}, {Reject: 5}},
		}
		v, err := vNewRouter(cfg, "u1")
		if err != nil {
			fail("router-start", err.Error())
			continue
		}
		serial := byte(0)
		v.ups["u1"].Auto = func(q *upQuery) *upResult {
			if q.Msg == nil {
				return &upResult{err: errScripted}
			}
			serial++
			return &upResult{wire: env.Answer(q.Msg, serial, 300).Encode(false)}
		}
		sc := v.tcpClient(v.newTCPServer(0, 300*time.Second), vClientV4, vLocalV4)
		n := 0
		for _, q := range []struct {
			name []string
			in   bool
		}{{[]string{"example", "test"}, true}, {[]string{"mail", "example", "test"}, true}, {[]string{"www", "example", "test"}, true}, {[]string{"deep", "www", "example", "test"}, true},
			{[]string{"f00007", "filler", "test"}, li < 4}, {[]string{"xexample", "test"}, false}, {[]string{"test"}, false}, {[]string{"other", "test"}, li == 4}, {[]string{"sub", "other", "test"}, false}} {
			sc.SendMsg(refdns.Query(uint16(0x1100+n), refdns.N(q.name...), 1, 1))
			wait()
			rs := sc.Responses()
			if len(rs) != n+1 || rs[n] == nil {
				fail("response-count", fmt.Sprintf("query %v", q.name))
				break
			}
			if want := map[bool]int{true: 0, false: 5}[q.in]; rs[n].RCode() != want {
				fail("wrong-outcome", fmt.Sprintf("query %s: rcode %s, the union of the files says %s", strings.Join(q.name, "."), rcodeName(rs[n].RCode()), rcodeName(want)))
			}
			n++
		}
		sc.Close()
		v.Close()
		wait()
	}
}

func TestVerifC10(t *testing.T) {
	rep := report.New("C10 first-match rules")
	defer rep.Write()
	alpha := c10Alphabet()
	maxLen := report.ParamInt("MAXLEN", 2)
	// 12-rule sub-alphabet for length-3 lists
	var sub []int
	for i, r := range alpha {
		if (r.reject == 0 || r.reject == 3) && !(r.reject == 3 && r.forward == "u2") && !(r.domain == "" && r.reverse) && r.domain != "E" && r.domain != "R" {
			if r.domain == "B" && r.forward == "u1" {
				continue
			}
			sub = append(sub, i)
		}
	}
	rep.Rule = fmt.Sprintf("E3: all rule lists of length 0..%d over the full %d-rule alphabet {domain none/A/B/E/R (E: a set without entries, R: a set holding only the root domain)} x reverse x reject {0,2,3,5} x forward {none,u1,u2} (length-3 lists over a %d-rule sub-alphabet), domain sets A,B share an entry, B is split over two files, A also holds a regexp entry with a case-sensitive escape, "+
		"cache off/on, no upstream / u1 / u2 failing every exchange, loaded by the real run(); 10 queries (names in A only / B only / both / neither, mixed case; A/IN and TXT/CH; two names that differ in what the regexp entry's \\D accepts) sent twice through the tcp seam and, with a cache, a third time in the last quarter of the ttl (hit + background refresh); upstreams are recording auto-responders; "+
		"oracle vs reference interpreter: client rcode (SERVFAIL when the selected upstream fails), exactly the selected upstream is contacted exactly once (never on the second round with the cache on), forwarded question is lower-cased with same class/type and RD=1, answer is that upstream's answer",
		maxLen, len(alpha), len(sub))
	st := runExplore(t, rep, -1, func(c *choice.Ctx) { c10Scenario(c, rep, alpha, maxLen, sub) })
	rep.Count("executions", st.Executions)
	if sh, _ := report.Shard(); sh == 0 && report.ReplayFile() == nil {
		bubble(t, func() { hmu.Lock(); defer hmu.Unlock(); c10SetFiles(rep); vLongNames(rep, "C10") })
	}
	rep.Sample(map[string]any{"rules": "[{dom=A rev=true rej=0 fwd=u1} {dom= rev=false rej=3 fwd=u2}]", "query": "www.Shared.TEST TXT/CH", "reference": "rule 0 does not apply (name in A, reversed) -> rule 1 rejects with NXDOMAIN, no upstream contacted"})
}
