package router

// C19 (with a second-level cache): "the hit is answered immediately from cache"
// must also hold when the router has a redis cache behind its memory cache and
// that redis is slow. One real router (memory + redis, started from
// configuration), the harness-made RESP2 redis server of the C07/C08 part with
// every GET answered 3 s late, a local TCP upstream answering with TTL 8.
//
// Oracle (causal, not a latency bound): a hit on an entry the router holds in
// memory must not wait for redis - if a redis GET arrived after the client's
// query was sent, the response must reach the client before redis answers that
// GET. On the unchanged tree no GET is issued for a memory hit at all.

import (
	"context"
	"fmt"
	"net"
	"sync"
	"testing"
	"time"

	"github.com/IrineSistiana/mosproxy/internal/mlog"
	"github.com/IrineSistiana/mosproxy/internal/zzverif/refdns"
	"github.com/IrineSistiana/mosproxy/internal/zzverif/report"
	"github.com/rs/zerolog"
)

func TestVerifC19Redis(t *testing.T) {
	mlog.SetLvl(zerolog.Disabled)
	rep := report.New("C19 hits with a slow second-level cache")
	defer rep.Write()
	rep.Rule = "one real router (memory cache + redis URL, from configuration), harness-made RESP2 redis whose GETs are answered 3 s late once the entries are stored, local TCP upstream (TTL 8), real UDP clients; " +
		"timed history per name: fetch, hit at +1 s (fresh), 3 concurrent hits at +6.5 s (inside the last quarter of the lifetime), hit at +7.3 s; oracles: every hit is answered before any redis GET issued after the query was sent is answered " +
		"(a memory hit never waits for redis), no more refreshes than in-window hits, the hit after a refresh shows a renewed TTL"
	if sh, _ := report.Shard(); sh != 0 {
		rep.Eval("idle-shard")
		rep.Eval("idle-shard2")
		return
	}
	fail := func(sig, msg string) { rep.Violate("C19:redis:"+sig, msg, nil) }
	rd, err := newVRedis()
	if err != nil {
		t.Fatal(err)
	}
	defer rd.l.Close()
	up, err := newVUpstream()
	if err != nil {
		t.Fatal(err)
	}
	up.ttl = 8
	defer up.l.Close()
	var r *router
	var addr string
	for try := 0; try < 3 && r == nil; try++ {
		pc, err := net.ListenPacket("udp", "127.0.0.1:0")
		if err != nil {
			t.Fatal(err)
		}
		addr = pc.LocalAddr().String()
		pc.Close()
		cfg := &Config{
			Servers:   []ServerConfig{{Protocol: "udp", Listen: addr}},
			Upstreams: []UpstreamConfig{{Tag: "u", Addr: "tcp://" + up.l.Addr().String()}},
			Rules:     []RuleConfig{{Forward: "u"}},
			Cache:     CacheConfig{MemSize: 1 << 20, Redis: "redis://" + rd.l.Addr().String() + "?protocol=2&client_cache=0"},
		}
		r, err = run(context.Background(), cfg)
		if err != nil {
			r = nil
		}
	}
	if r == nil {
		fail("router-start", "the router did not start")
		return
	}
	defer r.close(nil)
	time.Sleep(2600 * time.Millisecond) // the redis backend is used after its first successful ping
	var idMu sync.Mutex
	id := uint16(0x1900)
	type answer struct {
		m          *refdns.Msg
		sent, recv time.Time
	}
	ask := func(name refdns.Name) answer {
		idMu.Lock()
		id++
		my := id
		idMu.Unlock()
		c, err := net.Dial("udp", addr)
		if err != nil {
			return answer{}
		}
		defer c.Close()
		a := answer{sent: time.Now()}
		c.Write(refdns.Query(my, name, 1, 1).Encode(false))
		c.SetReadDeadline(time.Now().Add(5500 * time.Millisecond))
		b := make([]byte, 4096)
		for {
			n, err := c.Read(b)
			if err != nil {
				return a
			}
			if m, err := refdns.Decode(b[:n]); err == nil && m.ID == my {
				a.m, a.recv = m, time.Now()
				return a
			}
		}
	}
	// waited: a GET that redis received after the query was sent and answered before the response arrived (or no response)
	waited := func(a answer) (bool, string) {
		rd.mu.Lock()
		defer rd.mu.Unlock()
		for _, g := range rd.getLog {
			if g.recv.After(a.sent) && (a.m == nil || g.replied.Before(a.recv)) {
				return true, fmt.Sprintf("redis received a GET %v after the query was sent and answered it %v later; the client's response came %v after the query", g.recv.Sub(a.sent).Round(time.Millisecond), g.replied.Sub(g.recv).Round(time.Millisecond),
					func() any {
						if a.m == nil {
							return "never (5.5 s)"
						}
						return a.recv.Sub(a.sent).Round(time.Millisecond)
					}())
			}
		}
		return false, ""
	}
	for _, nm := range []string{"posa", "posb"} {
		name := refdns.N(nm, "test")
		key := nm + ".test/1"
		rd.mu.Lock()
		rd.getDelay = 0
		rd.mu.Unlock()
		rep.Eval(nm + ": fetch")
		f := ask(name)
		fetched := time.Now()
		if f.m == nil || f.m.RCode() != 0 || up.count(key) != 1 {
			fail("setup", fmt.Sprintf("%s: first fetch failed (upstream saw %d)", nm, up.count(key)))
			return
		}
		time.Sleep(300 * time.Millisecond)
		rd.mu.Lock()
		rd.getDelay = 3 * time.Second
		rd.getLog = nil
		rd.mu.Unlock()
		hit := func(what string, at time.Duration, n int) []answer {
			time.Sleep(time.Until(fetched.Add(at)))
			rep.Eval(fmt.Sprintf("%s: %s (%d clients) at +%v with redis GETs taking 3 s", nm, what, n, at))
			out := make([]answer, n)
			var wg sync.WaitGroup
			for i := 0; i < n; i++ {
				wg.Add(1)
				go func(i int) { defer wg.Done(); out[i] = ask(name) }(i)
			}
			wg.Wait()
			// This part runs on the wall clock. On a machine too busy to send the queries when they were due (the entry lives 8 s,
			// the latest hit is due at +7.3 s) the entry may have expired by the time the router looks - then asking redis and the
			// upstream is right. Such a step is not judged (noted as a cap); the virtual-clock parts decide the same property.
			late := time.Duration(0)
			for _, a := range out {
				late = max(late, a.sent.Sub(fetched.Add(at)))
			}
			if late > 300*time.Millisecond {
				rep.Cap(fmt.Sprintf("redis-slow %s: %s sent %v late (machine busy): not judged", nm, what, late.Round(time.Millisecond)))
				return out
			}
			for _, a := range out {
				if a.m == nil {
					fail("hit-not-answered", fmt.Sprintf("%s: %s: no response within 5.5 s", nm, what))
				} else if a.m.RCode() != 0 || len(a.m.An) == 0 {
					fail("hit-not-answered", fmt.Sprintf("%s: %s: response %s", nm, what, a.m.Canon()))
				}
				if w, why := waited(a); w {
					if a.m != nil && len(a.m.An) > 0 && a.m.An[0].TTL >= 5 {
						// a freshly fetched answer (TTL 8): the router found the entry expired - it handled the query later than it
						// was sent - and went the whole way; no hit was delayed
						rep.Cap(fmt.Sprintf("redis-slow %s: %s was handled after the entry had expired (fresh TTL %d): not judged", nm, what, a.m.An[0].TTL))
						continue
					}
					fail("hit-waited-for-redis", fmt.Sprintf("%s: %s on an entry held in memory: %s", nm, what, why))
				}
			}
			return out
		}
		hit("fresh hit", time.Second, 1)
		if up.count(key) != 1 {
			fail("fresh-hit-forwarded", fmt.Sprintf("%s: the upstream saw %d queries after a hit 1 s into a lifetime of 8 s", nm, up.count(key)))
		}
		hit("hits inside the refresh window", 6500*time.Millisecond, 3)
		time.Sleep(time.Until(fetched.Add(7300 * time.Millisecond)))
		if n := up.count(key); n > 4 {
			// (whether two refreshes overlapped is decided on the virtual clock by the prefetch part; here only the count is visible, and
			// a hit that read the old entry just before the first refresh replaced it may legitimately start another one)
			fail("refresh-count", fmt.Sprintf("%s: 3 hits inside the last quarter of the lifetime: the upstream saw %d queries in total, more refreshes than hits", nm, n))
		}
		late := hit("hit after the refresh", 7300*time.Millisecond, 1)
		if a := late[0]; a.m != nil && len(a.m.An) > 0 && up.count(key) >= 2 && a.m.An[0].TTL < 6 {
			fail("refresh-not-visible", fmt.Sprintf("%s: the refresh was answered at about +6.5 s with TTL 8, a hit at +7.3 s still shows TTL %d", nm, a.m.An[0].TTL))
		}
	}
	rep.Sample(map[string]any{"history": "fetch, +1 s hit, +6.5 s three hits, +7.3 s hit; redis GET latency 3 s", "expect": "no hit waits for redis; one refresh"})
}
