package router

// C19: prefetch is single-flight and never delays a cache hit.

import (
	"fmt"
	"net/netip"
	"os"
	"strings"
	"testing"
	"time"

	"github.com/IrineSistiana/mosproxy/internal/zzverif/choice"
	"github.com/IrineSistiana/mosproxy/internal/zzverif/env"
	"github.com/IrineSistiana/mosproxy/internal/zzverif/refdns"
	"github.com/IrineSistiana/mosproxy/internal/zzverif/report"
)

// c19AsC07: the same exploration (hits from clients of two groups and of none, interleaved with background refreshes and
// clock ticks) run as a part of C07.
var c19AsC07 = os.Getenv("VERIF_PROP") == "C07"

func c19Scenario(c *choice.Ctx, rep *report.R, depth int) {
	own := env.InstallOwn(0xA5, vRace)
	defer env.UninstallOwn()
	var trace []string
	fail := func(sig, msg string) {
		if c19AsC07 {
			// as a part of C07: only what C07 states (a hit is the entry stored for that question and client group)
			if sig != "wrong-entry" && sig != "bad-hit" && sig != "ownership" && sig != "router-start" {
				return
			}
			rep.Violate("C07:with-refresh:"+sig, msg+"\n  events: "+strings.Join(trace, " "), map[string]any{"Choices": c.Choices()})
			return
		}
		rep.Violate("C19:"+sig, msg+"\n  events: "+strings.Join(trace, " "), map[string]any{"Choices": c.Choices()})
	}
	cfg := c03Config("forward")
	cfg.Cache.MemSize = 1 << 20
	cfg.Cache.IpMarker = vTmpFile("c07_marker.txt", c07Marker)
	cfg.ECS.Enabled = true
	v, err := vNewRouter(cfg, "u1")
	if err != nil {
		fail("router-start", err.Error())
		return
	}
	defer v.Close()
	u := v.ups["u1"]
	srv := v.newTCPServer(0, 100000*time.Second)
	type client struct {
		name  string
		group string
		sc    *streamClient
		nresp int
	}
	clients := []*client{{name: "g1a", group: "g1"}, {name: "g1b", group: "g1"}, {name: "g2", group: "g2"}}
	for i, ip := range []string{"10.0.0.7", "10.0.0.99", "10.0.1.7"} {
		clients[i].sc = v.tcpClient(srv, netip.AddrPortFrom(netip.MustParseAddr(ip), 5000), vLocalV4)
	}
	name := refdns.N("pf", "example", "test")
	q := refdns.Query(0x1919, name, 1, 1)
	// the second client of group g1 spells the same name with other letter case: same question, same entry, same refresh
	qMixed := refdns.Query(0x1919, refdns.N("PF", "Example", "tESt"), 1, 1)
	serial := byte(0)
	ttlOf := map[byte]uint32{}
	reply := func(uq *upQuery, ttl uint32) {
		serial++
		ttlOf[serial] = ttl
		uq.Reply(env.Answer(uq.Msg, serial, ttl).Encode(false))
	}
	// initial fetch per group at t=0.3: ttl 20 (lifetime 20 s, last quarter starts at 15 s, the exploration starts at 15.5 s) or
	// ttl 40 (last quarter starts at 30 s, the exploration starts at 30.9 s and has 9.4 s of lifetime left: room for a refresh
	// that stays pending for most of its own 6 s deadline)
	ttl0 := []uint32{20, 40}[c.Choose(2, "initial-ttl")]
	hsleep(300 * time.Millisecond)
	groupSerial := map[string]byte{}
	for _, cl := range []*client{clients[0], clients[2]} {
		cl.sc.SendMsg(q)
		wait()
		p := u.Pending()
		if len(p) != 1 {
			fail("setup", "initial fetch")
			return
		}
		reply(p[0], ttl0)
		groupSerial[cl.group] = serial
		wait()
		cl.nresp++
	}
	fetchedAt := time.Now()
	if ttl0 == 20 {
		hsleep(15500 * time.Millisecond) // 15.5 s: inside the last quarter
	} else {
		hsleep(30900 * time.Millisecond)
	}
	wait()
	trace = append(trace, fmt.Sprintf("ttl%d", ttl0))
	// expected state per group
	type gstate struct {
		serial    byte // entry currently expected to be served
		storedAt  time.Time
		ttl       uint32
		refreshes int           // completed refreshes
		either    map[byte]bool // after a miss answered together with a pending refresh: the serials that may be cached
	}
	gs := map[string]*gstate{"g1": {groupSerial["g1"], fetchedAt, ttl0, 0, nil}, "g2": {groupSerial["g2"], fetchedAt, ttl0, 0, nil}}
	ecsGroup := func(uq *upQuery) string {
		if uq.Msg == nil || len(uq.Msg.OPTs()) != 1 {
			return "?"
		}
		d := uq.Msg.OPTs()[0].RData()
		if len(d) >= 11 && d[10] == 0 {
			return "g1"
		}
		return "g2"
	}
	check := func() {
		per := map[string]int{}
		for _, p := range u.Pending() {
			per[ecsGroup(p)]++
		}
		for g, n := range per {
			if n > 1 {
				fail("concurrent-refreshes", fmt.Sprintf("%d refresh queries in flight for the same question and client group %s", n, g))
			}
		}
	}
	for step := 0; step < depth; step++ {
		var menu []event
		hitOf := map[string]func(){}
		for _, cl := range clients {
			cl := cl
			hit := func() {
				before := len(cl.sc.Responses())
				pendBefore := 0
				for _, p := range u.Pending() {
					if ecsGroup(p) == cl.group {
						pendBefore++
					}
				}
				if cl.name == "g1b" {
					cl.sc.SendMsg(qMixed)
				} else {
					cl.sc.SendMsg(q)
				}
				wait()
				rs := cl.sc.Responses()
				st := gs[cl.group]
				alive := time.Since(st.storedAt) < time.Duration(st.ttl)*time.Second-time.Second
				if len(rs) != before+1 || rs[before] == nil {
					if alive {
						fail("hit-delayed", fmt.Sprintf("query from %s while the entry has more than 1 s to live was not answered at once (it waits for the upstream)", cl.name))
					}
					// an expired entry: this became an ordinary miss; answer it to keep going
					st.either = nil
					for _, p := range u.Pending() {
						if ecsGroup(p) == cl.group {
							// (a refresh that is still pending is answered too: its store and the miss's store race, either entry may stay)
							if st.either == nil {
								st.either = map[byte]bool{}
							}
							reply(p, 20)
							st.either[serial] = true
							st.serial, st.storedAt, st.ttl = serial, time.Now(), 20
						}
					}
					wait()
					return
				}
				r := rs[before]
				_, s, ok := env.AnswerKey(r)
				if !ok || len(r.An) != 1 {
					fail("bad-hit", "cached response has no answer")
					return
				}
				if alive && s != st.serial && st.either[s] {
					st.serial = s // the other of two racing stores stayed
				}
				if alive && s != st.serial {
					fail("wrong-entry", fmt.Sprintf("hit from %s served serial %d, expected the entry with serial %d (group %s, %d refreshes done)", cl.name, s, st.serial, cl.group, st.refreshes))
				}
				if s == st.serial {
					age := uint32(time.Since(st.storedAt) / time.Second)
					max := uint32(1)
					if st.ttl > age {
						max = st.ttl - age
					}
					if r.An[0].TTL > max || (max > 2 && r.An[0].TTL < max-2) {
						fail("ttl-after-refresh", fmt.Sprintf("hit shows ttl %d, expected about %d (entry ttl %d, age %ds)", r.An[0].TTL, max, st.ttl, age))
					}
					// a hit well inside the last quarter (80..92 % of the lifetime) while no refresh of its group is in flight starts one:
					// a reservation that outlives its refresh would switch refreshing off for this entry for good
					life := time.Duration(st.ttl) * time.Second
					if a := time.Since(st.storedAt); pendBefore == 0 && st.either == nil && a >= life*80/100 && a <= life*92/100 {
						n := 0
						for _, p := range u.Pending() {
							if ecsGroup(p) == cl.group {
								n++
							}
						}
						if n == 0 {
							fail("refresh-not-started", fmt.Sprintf("hit from %s at %v of a lifetime of %v with no refresh of group %s in flight (%d completed before): no refresh was started", cl.name, a, life, cl.group, st.refreshes))
						}
					}
				}
			}
			hitOf[cl.name] = hit
			menu = append(menu, event{name: "hit(" + cl.name + ")", do: hit})
		}
		for _, p := range u.Pending() {
			p := p
			g := ecsGroup(p)
			menu = append(menu, event{name: fmt.Sprintf("refresh-ok(%s)", g), do: func() {
				reply(p, 40)
				st := gs[g]
				st.serial, st.storedAt, st.ttl, st.either = serial, time.Now(), 40, nil
				st.refreshes++
			}})
			// the answer's ttl is shorter than what the old entry has left: it replaces the entry all the same
			menu = append(menu, event{name: fmt.Sprintf("refresh-ok-ttl3(%s)", g), do: func() {
				reply(p, 3)
				st := gs[g]
				st.serial, st.storedAt, st.ttl, st.either = serial, time.Now(), 3, nil
				st.refreshes++
			}})
			menu = append(menu, event{name: fmt.Sprintf("refresh-servfail(%s)", g), fault: true, do: func() {
				p.Reply(env.RCodeReply(p.Msg, 2).Encode(false))
				gs[g].refreshes++
			}})
			menu = append(menu, event{name: fmt.Sprintf("refresh-error(%s)", g), fault: true, do: func() { p.Fail(); gs[g].refreshes++ }})
			// ... and the next hit of that group arrives in the same instant (it starts the next refresh right away)
			first := map[string]string{"g1": "g1a", "g2": "g2"}[g]
			menu = append(menu, event{name: fmt.Sprintf("refresh-error(%s)+hit(%s)", g, first), fault: true, do: func() {
				p.Fail()
				gs[g].refreshes++
				wait()
				hitOf[first]()
			}})
			menu = append(menu, event{name: fmt.Sprintf("refresh-refused(%s)", g), fault: true, do: func() {
				p.Reply(env.RCodeReply(p.Msg, 5).Encode(false))
				gs[g].refreshes++
			}})
			menu = append(menu, event{name: fmt.Sprintf("refresh-notimp(%s)", g), fault: true, do: func() {
				p.Reply(env.RCodeReply(p.Msg, 4).Encode(false))
				gs[g].refreshes++
			}})
		}
		for _, g := range []string{"g1", "g2"} {
			g, st := g, gs[g]
			// on to 85 % of the current entry's lifetime: the next hit lands inside its last quarter (after a refresh with a short ttl
			// the fixed steps would jump over it)
			if at := st.storedAt.Add(time.Duration(st.ttl) * time.Second * 85 / 100); st.refreshes > 0 && time.Now().Before(at) && st.either == nil {
				menu = append(menu, event{name: fmt.Sprintf("advance-to-85%%-of-lifetime(%s)", g), do: func() { hsleep(time.Until(at)) }})
			}
		}
		menu = append(menu, event{name: "advance1s", do: func() { hsleep(time.Second) }})
		menu = append(menu, event{name: "advance5.5s", do: func() { hsleep(5500 * time.Millisecond) }})
		if len(u.Pending()) > 0 {
			// past the refresh's own deadline (6 s): whatever the router does with a refresh that timed out, a later hit must not
			// meet two of them
			menu = append(menu, event{name: "advance6.5s", do: func() { hsleep(6500 * time.Millisecond) }})
		}
		ev := pickEvent(c, menu)
		if ev == nil {
			break
		}
		trace = append(trace, ev.name)
		ev.do()
		wait()
		check()
	}
	rep.Eval(strings.Join(trace, ","))
	rep.State(fmt.Sprintf("%d|%d|%d|%d", gs["g1"].refreshes, gs["g2"].refreshes, len(u.Pending()), len(u.Queries())))
	v.Close()
	for _, x := range own.Audit() {
		fail("ownership", x)
	}
}

// event menus for router scenarios (same shape as the transport harness)
type event struct {
	name  string
	fault bool
	do    func()
}

func pickEvent(c *choice.Ctx, menu []event) *event {
	pz.step++
	if len(menu) == 0 {
		return nil
	}
	if pz.ch != nil {
		// a goroutine stands still at a pause point: letting it go on is the default, every other event happens "during" the preemption
		menu = append([]event{{name: "resume(" + pz.at + ")", do: func() { resume() }}}, menu...)
	}
	defer report.FlushCurrent()
	var sb strings.Builder
	var normal, faults []int
	for i := range menu {
		sb.WriteString(menu[i].name)
		sb.WriteByte(';')
		if menu[i].fault {
			faults = append(faults, i)
		} else {
			normal = append(normal, i)
		}
	}
	lbl := sb.String()
	f := 0
	if len(faults) > 0 {
		f = c.Deviate(len(faults)+1, "fault:"+lbl)
		if f == 0 && len(normal) == 0 {
			return nil
		}
	}
	if f > 0 {
		return &menu[faults[f-1]]
	}
	return &menu[normal[c.Choose(len(normal), "event:"+lbl)]]
}

// c19ManyKeys: N distinct questions are all in their refresh window while the upstream is slow: every hit is still immediate.
func c19ManyKeys(rep *report.R, n int) {
	own := env.InstallOwn(0xA5, vRace)
	defer env.UninstallOwn()
	fail := func(sig, msg string) { rep.Violate("C19:"+sig, msg, map[string]any{"Choices": []int{}, "ManyKeys": n}) }
	cfg := c03Config("forward")
	cfg.Cache.MemSize = 8 << 20
	v, err := vNewRouter(cfg, "u1")
	if err != nil {
		fail("router-start", err.Error())
		return
	}
	defer v.Close()
	u := v.ups["u1"]
	sc := v.tcpClient(v.newTCPServer(1000, 100000*time.Second), vClientV4, vLocalV4)
	answer := true
	u.Auto = func(q *upQuery) *upResult {
		if !answer {
			return nil
		}
		return &upResult{wire: env.Answer(q.Msg, 1, 20).Encode(false)}
	}
	hsleep(300 * time.Millisecond)
	for i := 0; i < n; i++ {
		sc.SendMsg(refdns.Query(uint16(i), refdns.N(fmt.Sprintf("k%d", i), "example", "test"), 1, 1))
	}
	wait()
	if got := len(sc.Responses()); got != n {
		fail("setup", fmt.Sprintf("%d of %d initial responses", got, n))
		return
	}
	answer = false // the upstream becomes slow: refreshes stay pending
	hsleep(15500 * time.Millisecond)
	for i := 0; i < n; i++ {
		before := len(sc.Responses())
		sc.SendMsg(refdns.Query(uint16(1000+i), refdns.N(fmt.Sprintf("k%d", i), "example", "test"), 1, 1))
		wait()
		if len(sc.Responses()) != before+1 {
			fail("hit-delayed", fmt.Sprintf("hit #%d (of %d different questions whose refreshes are all pending against a slow upstream) was not answered at once", i, n))
			return
		}
	}
	if p := len(u.Pending()); p != n {
		rep.Note(fmt.Sprintf("many-keys: %d refreshes pending for %d keys", p, n))
	}
	// every key's refresh is in flight now; a second hit on each key is answered at once as well and starts no further refresh,
	// however many reservations the single-flight table holds at this moment
	pendBefore := len(u.Pending())
	for i := 0; i < n; i++ {
		before := len(sc.Responses())
		sc.SendMsg(refdns.Query(uint16(2000+i), refdns.N(fmt.Sprintf("k%d", i), "example", "test"), 1, 1))
		wait()
		if len(sc.Responses()) != before+1 {
			fail("hit-delayed", fmt.Sprintf("second hit #%d (of %d questions whose refreshes are all pending) was not answered at once", i, n))
			return
		}
	}
	if p := len(u.Pending()); p > pendBefore {
		fail("concurrent-refreshes", fmt.Sprintf("with %d refreshes in flight (one per key) a second hit on every key raised the upstream queries in flight to %d: a key got a second refresh while its first was still running", pendBefore, p))
	}
	v.Close()
	for _, x := range own.Audit() {
		fail("ownership", x)
	}
	rep.Eval(fmt.Sprintf("many-keys-%d", n))
}

func TestVerifC19(t *testing.T) {
	rep := report.New(map[bool]string{false: "C19 prefetch single-flight", true: "C07 cache keys under background refresh"}[c19AsC07])
	defer rep.Write()
	depth := report.ParamInt("DEPTH", 6)
	bound := report.ParamInt("FAULTS", 2)
	rep.Rule = fmt.Sprintf("E3: real router + otter cache + ip marker (2 groups) + ECS, scripted upstream, exact virtual clock; entries for both groups stored with ttl 20 / 40, clock advanced to 15.5 s / 30.9 s (last quarter); then all sequences of length <=%d over "+
		"{hit from client g1a / g1b (same group) / g2, refresh answered with ttl 40, refresh answered with ttl 3 (shorter than the old entry's remaining lifetime), refresh answered SERVFAIL / REFUSED / NOTIMP, refresh fails, refresh fails and the group's next hit arrives in the same instant, advance 1 s, advance 5.5 s (close to the refresh's own 6 s deadline / past the old entry's expiry)}; the second client of group g1 spells the name in other letter case with <=%d failed refreshes; oracle after every event: a hit on an entry with >1 s to live is answered in the same reaction, "+
		"never two refresh queries in flight per (question, group), hits show the renewed entry after a successful refresh and the old one after a failed refresh, ttl consistent with the entry's age", depth, bound, report.ParamInt("MANYKEYS", 100))
	bubble(t, func() {
		st := runExplore(t, rep, bound, func(c *choice.Ctx) { c19Scenario(c, rep, depth) })
		rep.Count("executions", st.Executions)
		if sh, _ := report.Shard(); sh == 0 && report.ReplayFile() == nil && !c19AsC07 {
			hmu.Lock()
			c19ManyKeys(rep, report.ParamInt("MANYKEYS", 100))
			hmu.Unlock()
		}
	})
	rep.Sample(map[string]any{"events": "hit(g1a) hit(g1b) hit(g2) refresh-error(g1) hit(g1a) refresh-ok(g1) hit(g1b)", "oracle": "second hit(g1a) starts a new refresh (the first is done); never 2 pending for g1"})
}
