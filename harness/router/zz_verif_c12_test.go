package router

// C12: EDNS0 ends at the proxy; ECS reveals only a truncated client prefix.

import (
	"fmt"
	"net"
	"net/http"
	"net/netip"
	"testing"
	"time"

	"github.com/IrineSistiana/mosproxy/internal/zzverif/choice"
	"github.com/IrineSistiana/mosproxy/internal/zzverif/env"
	"github.com/IrineSistiana/mosproxy/internal/zzverif/refdns"
	"github.com/IrineSistiana/mosproxy/internal/zzverif/report"
	"github.com/valyala/fasthttp"
)

type c12Opt struct {
	name          string
	rr            *refdns.RR
	before, after []refdns.RR // other additional records around the OPT (a query may carry e.g. a TSIG record after it)
}

func c12ClientOpts() []c12Opt {
	o := func(size uint16, ttl uint32, opts []byte) *refdns.RR { r := refdns.OPT(size, ttl, opts); return &r }
	return []c12Opt{
		{name: "absent", rr: nil},
		{name: "empty", rr: o(4096, 0, nil)},
		{name: "cookie", rr: o(1232, 0, refdns.Option(10, []byte{1, 2, 3, 4, 5, 6, 7, 8}))},
		{name: "client-ecs", rr: o(1232, 0, refdns.Option(8, []byte{0, 1, 32, 0, 9, 9, 9, 9}))},
		{name: "padding", rr: o(512, 0, refdns.Option(12, make([]byte, 31)))},
		{name: "do-bit", rr: o(4096, 0x00008000, nil)},
		{name: "extrcode+version", rr: o(4096, 0x01010000, nil)},
		{name: "tiny-size", rr: o(0, 0, nil)},
		{name: "opt-then-other-record", rr: o(1232, 0, nil), after: []refdns.RR{refdns.A(refdns.N("extra", "test"), 0, 1, 2, 3, 4)}},
		{name: "other-record-then-opt", rr: o(1232, 0, nil), before: []refdns.RR{refdns.A(refdns.N("extra", "test"), 0, 1, 2, 3, 4)}},
	}
}

func c12UpOpts() []c12Opt {
	o := func(size uint16, ttl uint32, opts []byte) *refdns.RR { r := refdns.OPT(size, ttl, opts); return &r }
	return []c12Opt{
		{name: "absent", rr: nil},
		{name: "empty", rr: o(1232, 0, nil)},
		{name: "ecs-scope", rr: o(1232, 0, refdns.Option(8, []byte{0, 1, 24, 24, 198, 51, 100}))},
		{name: "cookie", rr: o(1232, 0, refdns.Option(10, make([]byte, 24)))},
		{name: "padding+do", rr: o(4096, 0x8000, refdns.Option(12, make([]byte, 100)))},
		// a type-41 record whose owner is not the root (malformed, but it is what the upstream sent): not relayed either
		{name: "opt-with-owner-name", rr: func() *refdns.RR {
			r := refdns.OPT(1232, 0, refdns.Option(10, make([]byte, 8)))
			r.Owner = refdns.N("x")
			return &r
		}()},
		// no reply at all / a failed exchange: the proxy's own SERVFAIL follows the same rule
		{name: "silence", rr: nil},
		{name: "exchange-fails", rr: nil},
	}
}

type unknownAddr struct{}

func (unknownAddr) Network() string { return "unix" }
func (unknownAddr) String() string  { return "@verif" }

type c12Client struct {
	name string
	addr netip.Addr // invalid = unknown
}

func c12Clients() []c12Client {
	return []c12Client{
		{"v4", netip.MustParseAddr("198.51.100.77")},
		{"v6", netip.MustParseAddr("2001:db8:1234:5678:9abc:def0:1234:5678")},
		{"v4-mapped", netip.MustParseAddr("::ffff:198.51.100.77")},
		{"unknown", netip.Addr{}},
	}
}

// expected ECS option payload for an address, per the property: /24 or /56, scope 0, host bits absent
func c12ExpectECS(a netip.Addr) []byte {
	a = a.Unmap()
	if a.Is4() {
		b := a.As4()
		return []byte{0, 1, 24, 0, b[0], b[1], b[2]}
	}
	b := a.As16()
	return append([]byte{0, 2, 56, 0}, b[:7]...)
}

func c12ParseOptions(rdata []byte) (codes []uint16, datas [][]byte, ok bool) {
	for len(rdata) > 0 {
		if len(rdata) < 4 {
			return nil, nil, false
		}
		code := uint16(rdata[0])<<8 | uint16(rdata[1])
		l := int(rdata[2])<<8 | int(rdata[3])
		if len(rdata) < 4+l {
			return nil, nil, false
		}
		codes = append(codes, code)
		datas = append(datas, rdata[4:4+l])
		rdata = rdata[4+l:]
	}
	return codes, datas, true
}

func c12CheckUpstreamQuery(q *upQuery, ecs bool, addr netip.Addr) []string {
	var bad []string
	if q.Msg == nil {
		return []string{fmt.Sprintf("undecodable upstream query %x", q.Wire)}
	}
	opts := q.Msg.OPTs()
	if len(opts) != 1 || len(q.Msg.Ar) != 1 {
		return []string{fmt.Sprintf("upstream query has %d OPT records / %d additional records, want exactly one OPT", len(opts), len(q.Msg.Ar))}
	}
	codes, datas, ok := c12ParseOptions(opts[0].RData())
	if !ok {
		return []string{fmt.Sprintf("upstream OPT has malformed options %x", opts[0].RData())}
	}
	wantECS := ecs && addr.IsValid()
	if !wantECS {
		if len(codes) != 0 {
			bad = append(bad, fmt.Sprintf("upstream OPT carries options %v although ECS is disabled or the client address is unknown", codes))
		}
		return bad
	}
	if len(codes) != 1 || codes[0] != 8 {
		return append(bad, fmt.Sprintf("upstream OPT options %v, want exactly one ECS option", codes))
	}
	if want := c12ExpectECS(addr); string(datas[0]) != string(want) {
		bad = append(bad, fmt.Sprintf("ECS payload %x, want %x (client %s)", datas[0], want, addr))
	}
	if opts[0].TTL != 0 {
		bad = append(bad, fmt.Sprintf("upstream OPT ttl field %#x", opts[0].TTL))
	}
	return bad
}

func c12CheckResponse(q, r *refdns.Msg) []string {
	var bad []string
	had := len(q.OPTs()) > 0
	opts := r.OPTs()
	for _, s := range [][]refdns.RR{r.An, r.Ns} {
		for _, rr := range s {
			if rr.Type == refdns.TypeOPT {
				bad = append(bad, "OPT record outside the additional section")
			}
		}
	}
	if !had {
		if len(opts) != 0 {
			bad = append(bad, "response has an OPT record although the query had none")
		}
		return bad
	}
	if len(opts) != 1 {
		return append(bad, fmt.Sprintf("response has %d OPT records, query had one", len(opts)))
	}
	o := opts[0]
	if len(o.RData()) != 0 {
		bad = append(bad, fmt.Sprintf("response OPT relays options %x", o.RData()))
	}
	if o.Class != udpSize {
		bad = append(bad, fmt.Sprintf("response OPT advertises %d, proxy's own size is %d", o.Class, udpSize))
	}
	if o.TTL != 0 {
		bad = append(bad, fmt.Sprintf("response OPT ttl field %#x (ext-rcode/version/DO relayed)", o.TTL))
	}
	if len(o.Owner) != 0 {
		bad = append(bad, "response OPT owner is not the root")
	}
	return bad
}

func c12Scenario(c *choice.Ctx, rep *report.R) {
	own := env.InstallOwn(0xA5, vRace)
	defer env.UninstallOwn()
	copts, uopts, clients := c12ClientOpts(), c12UpOpts(), c12Clients()
	ecs := c.Choose(2, "ecs") == 1
	cli := clients[c.Choose(len(clients), "client")]
	rule := []string{"forward", "reject3", "no-rule"}[c.Choose(3, "rule")]
	co := copts[c.Choose(len(copts), "client-opt")]
	uo := uopts[0]
	if rule == "forward" {
		uo = uopts[c.Choose(len(uopts), "upstream-opt")]
	}
	desc := fmt.Sprintf("ecs=%v client=%s rule=%s clientOPT=%s upstreamOPT=%s", ecs, cli.name, rule, co.name, uo.name)
	fail := func(sig, msg string) {
		rep.Violate("C12:"+sig, msg+"\n  "+desc, map[string]any{"Choices": c.Choices()})
	}
	cfg := c03Config(rule)
	cfg.ECS.Enabled = ecs
	cfg.Cache.MemSize = 1 << 20
	v, err := vNewRouter(cfg, "u1")
	if err != nil {
		fail("router-start", err.Error())
		return
	}
	defer v.Close()
	u := v.ups["u1"]
	srv := v.newTCPServer(0, 300*time.Second)
	var remote net.Addr = unknownAddr{}
	if cli.addr.IsValid() {
		remote = net.TCPAddrFromAddrPort(netip.AddrPortFrom(cli.addr, 40000))
	}
	impl, _ := env.Pipe(zvTCPAddr(vLocalV4), remote)
	sc := &streamClient{impl: impl}
	v.closers = append(v.closers, func() { impl.PeerFIN() })
	go func() { srv.handleConn(impl); impl.Close() }()

	q := refdns.Query(0x1212, refdns.N("edns", "example", "test"), 1, 1)
	if co.rr != nil {
		q.Ar = append(append(append([]refdns.RR(nil), co.before...), *co.rr), co.after...)
	}
	nResp, nUp := 0, 0
	obs := ""
	step := func(label string, expectUpstream bool, replyTTL uint32) {
		sc.SendMsg(q)
		wait()
		qs := u.Queries()
		if expectUpstream && len(qs) != nUp+1 {
			fail("path", fmt.Sprintf("%s: expected an upstream query, saw %d new", label, len(qs)-nUp))
		}
		for _, uq := range qs[nUp:] {
			for _, b := range c12CheckUpstreamQuery(uq, ecs, cli.addr) {
				fail("upstream-query", label+": "+b)
			}
			if uo.name == "exchange-fails" && !uq.Answered && !uq.Gone {
				uq.Fail()
			} else if uo.name == "silence" {
				// nobody answers: the request deadline (6 s) produces the response
			} else if !uq.Answered && !uq.Gone && uq.Msg != nil {
				r := env.Answer(uq.Msg, byte(len(qs)), replyTTL)
				if uo.rr != nil {
					r.Ar = []refdns.RR{*uo.rr}
				}
				uq.Reply(r.Encode(false))
			}
		}
		nUp = len(qs)
		wait()
		if uo.name == "silence" && expectUpstream {
			hsleep(6100 * time.Millisecond)
			wait()
		}
		rs := sc.Responses()
		if len(rs) != nResp+1 || rs[nResp] == nil {
			fail("response-count", fmt.Sprintf("%s: %d new responses", label, len(rs)-nResp))
			nResp = len(rs)
			return
		}
		for _, b := range c12CheckResponse(q, rs[nResp]) {
			fail("response-opt", label+": "+b+"\n  response "+rs[nResp].Canon())
		}
		obs += fmt.Sprintf("%s:%d/%d;", label, rs[nResp].RCode(), len(rs[nResp].OPTs()))
		nResp = len(rs)
	}
	step("miss", rule == "forward", 60)
	if rule == "forward" && (uo.name == "silence" || uo.name == "exchange-fails") {
		step("miss-again", true, 60) // nothing was cached
	} else if rule == "forward" {
		hsleep(2 * time.Second)
		step("hit", false, 60)
		hsleep(50 * time.Second) // into the last quarter: hit + background refresh
		step("hit+refresh", true, 60)
		wait()
		hsleep(2 * time.Second)
		step("hit-after-refresh", false, 60)
	}
	sc.Close()
	v.Close()
	wait()
	for _, x := range own.Audit() {
		fail("ownership", x)
	}
	rep.Eval(desc + "=>" + obs)
	rep.State(desc)
}

// c12SourceScenario: which address each listener takes as "the client address". Every listener seam with its own peer address,
// and the two HTTP servers with client_addr_header {not configured, configured and present (single value / list), configured
// and absent}. The front-end's own address (the TCP peer when a header is configured) must never show up in ECS.
func c12SourceScenario(c *choice.Ctx, rep *report.R) {
	own := env.InstallOwn(0xA5, vRace)
	defer env.UninstallOwn()
	const hdr = "X-Real-Client"
	type src struct {
		name string
		want netip.Addr // the client address per the configuration; invalid = unknown
		send func(v *vRouter, wire []byte) func() (done bool, body []byte)
	}
	clients := c12Clients()
	var srcs []src
	for _, sm := range c03Seams {
		sm := sm
		want := vClientV4.Addr()
		if sm.name == "udp" {
			want = netip.MustParseAddr("127.0.0.1") // real loopback sockets
		}
		srcs = append(srcs, src{name: "seam:" + sm.name, want: want, send: func(v *vRouter, wire []byte) func() (bool, []byte) {
			cl := sm.open(v)
			m, _ := refdns.Decode(wire)
			cl.send(m)
			return func() (bool, []byte) {
				_, raws := cl.responses()
				if len(raws) == 0 {
					return false, nil
				}
				return true, raws[0]
			}
		}})
	}
	// a stream client whose peer address is not an IP address (a listener on a unix socket): the client address is unknown
	srcs = append(srcs, src{name: "tcp:peer-is-not-an-ip-address", want: netip.Addr{}, send: func(v *vRouter, wire []byte) func() (bool, []byte) {
		srv := v.newTCPServer(0, 300*time.Second)
		impl, _ := env.Pipe(zvTCPAddr(vLocalV4), unknownAddr{})
		v.closers = append(v.closers, func() { impl.PeerFIN() })
		go func() { srv.handleConn(impl); impl.Close() }()
		impl.Inject(refdns.Frame(wire))
		return func() (bool, []byte) {
			fs, _ := env.SplitFrames(impl.Written())
			if len(fs) == 0 {
				return false, nil
			}
			return true, fs[0]
		}
	}})
	for _, server := range []string{"http", "fasthttp"} {
		for _, method := range []string{"GET", "POST"} {
			for _, mode := range []string{"no-header-configured", "header-present", "header-list", "header-absent"} {
				for _, cli := range clients {
					if mode == "header-absent" && cli.name != "v4" {
						continue
					}
					if (mode == "header-present" || mode == "header-list") && !cli.addr.IsValid() {
						continue
					}
					server, method, mode, cli := server, method, mode, cli
					want := cli.addr
					peer := netip.MustParseAddrPort("203.0.113.9:443") // the front-end (reverse proxy)
					switch mode {
					case "no-header-configured":
						if cli.addr.IsValid() {
							peer = netip.AddrPortFrom(cli.addr, 40000)
						} else {
							peer = netip.AddrPort{}
						}
					case "header-absent":
						want = netip.Addr{}
					}
					val := cli.addr.String()
					if mode == "header-list" {
						val += ", 203.0.113.9, 10.0.0.1"
					}
					srcs = append(srcs, src{name: fmt.Sprintf("%s-%s:%s:client=%s", server, method, mode, cli.name), want: want, send: func(v *vRouter, wire []byte) func() (bool, []byte) {
						var res *httpResult
						if server == "http" {
							h := v.newHTTPHandler()
							if mode != "no-header-configured" {
								h.clientAddrHeader = hdr
							}
							remote := peer.String()
							if !peer.IsValid() {
								remote = "@" // e.g. a unix socket: not an ip:port
							}
							res = vDoHRequest(h, method, wire, remote, func(r *http.Request) {
								if mode == "header-present" || mode == "header-list" {
									r.Header.Set(hdr, val)
								}
							})
						} else {
							h := v.newFastHTTPHandler()
							if mode != "no-header-configured" {
								h.clientAddrHeader = hdr
							}
							res = vFastDoHRequest(h, method, wire, peer, func(r *fasthttp.Request) {
								if mode == "header-present" || mode == "header-list" {
									r.Header.Set(hdr, val)
								}
							})
						}
						return func() (bool, []byte) {
							return res.done, res.body // the harness goroutine holds hmu outside wait()
						}
					}})
				}
			}
		}
	}
	sr := srcs[c.Choose(len(srcs), "source")]
	cached := c.Choose(2, "refresh-too") == 1
	// non-initial state: another client with a known address was served just before (its request objects have been recycled)
	earlier := c.Choose(2, "a-known-client-was-served-before") == 1
	desc := fmt.Sprintf("ecs=on source=%s expected-client=%v earlier-known-client=%v", sr.name, sr.want, earlier)
	fail := func(sig, msg string) {
		rep.Violate("C12:client-address:"+sig, msg+"\n  "+desc, map[string]any{"Choices": c.Choices(), "Source": true})
	}
	cfg := c03Config("forward")
	cfg.ECS.Enabled = true
	cfg.Cache.MemSize = 1 << 20
	v, err := vNewRouter(cfg, "u1")
	if err != nil {
		fail("router-start", err.Error())
		return
	}
	defer v.Close()
	u := v.ups["u1"]
	nUp := 0
	u.Auto = nil
	q := refdns.Query(0x1213, refdns.N("src", "example", "test"), 1, 1)
	q.Ar = []refdns.RR{refdns.OPT(1232, 0, nil)}
	if earlier {
		pq := refdns.Query(0x1214, refdns.N("earlier", "example", "test"), 1, 1)
		pc := v.tcpClient(v.newTCPServer(0, 300*time.Second), netip.MustParseAddrPort("192.0.2.200:4000"), vLocalV4)
		pc.SendMsg(pq)
		wait()
		for _, uq := range u.Pending() {
			if uq.Msg != nil {
				uq.Reply(env.Answer(uq.Msg, 9, 60).Encode(false))
			}
		}
		wait()
		pc.Close()
		wait()
		nUp = len(u.Queries())
	}
	rounds := 1
	if cached {
		rounds = 2 // the second query arrives in the last quarter of the ttl: the background refresh must carry the same client prefix
	}
	obs := ""
	for round := 0; round < rounds; round++ {
		poll := sr.send(v, q.Encode(false))
		wait()
		qs := u.Queries()
		if len(qs) != nUp+1 {
			fail("path", fmt.Sprintf("round %d: %d upstream queries, want 1", round, len(qs)-nUp))
			return
		}
		for _, uq := range qs[nUp:] {
			for _, b := range c12CheckUpstreamQuery(uq, true, sr.want) {
				fail("upstream-query", fmt.Sprintf("round %d: %s", round, b))
			}
			if uq.Msg != nil && !uq.Answered && !uq.Gone {
				uq.Reply(env.Answer(uq.Msg, byte(round+1), 60).Encode(false))
			}
		}
		nUp = len(qs)
		wait()
		hsleep(100 * time.Millisecond)
		wait()
		done, body := poll()
		if !done || len(body) == 0 {
			fail("no-response", fmt.Sprintf("round %d: no response", round))
			return
		}
		obs += fmt.Sprintf("%d;", len(body))
		hsleep(50 * time.Second)
		wait()
	}
	v.Close()
	wait()
	for _, x := range own.Audit() {
		fail("ownership", x)
	}
	rep.Eval(desc + "=>" + obs)
	rep.State(desc)
}

// c12SizeScenario: the OPT rule under size limits. Every listener seam x client OPT {absent, advertising 0, 100, 512, 513, 1232}
// x upstream answer of about {100, 600, 1500, 3000} octets x upstream OPT {absent, present}; miss, then a hit from the cache.
// Whatever the listener has to omit to fit its limit, the response has exactly one option-less OPT iff the query had one.
func c12SizeScenario(c *choice.Ctx, rep *report.R) {
	own := env.InstallOwn(0xA5, vRace)
	defer env.UninstallOwn()
	sm := c03Seams[c.Choose(len(c03Seams), "seam")]
	adv := []int{-1, 0, 100, 512, 513, 1232}[c.Choose(6, "client-opt-size")]
	ntxt := []int{0, 2, 6, 12}[c.Choose(4, "answer-size")]
	upOpt := c.Choose(2, "upstream-opt") == 1
	// on the seam with a size limit that depends on the client (udp): a sweep of the last record's length, so that the records in
	// front of the OPT fill the message to every level just below, at and above the limit (max(512, advertised))
	lastTxt := -1
	if sm.name == "udp" && adv >= 0 && ntxt == 2 {
		if i := c.Choose(257, "last-record-length"); i > 0 {
			lastTxt = i - 1
			ntxt = 1
			if adv > 513 {
				ntxt = 4
			}
		}
	}
	desc := fmt.Sprintf("seam=%s client OPT size=%d (-1: no OPT) upstream answer with %d TXT records of 240 octets and one of %d (-1: none), upstream OPT=%v", sm.name, adv, ntxt, lastTxt, upOpt)
	fail := func(sig, msg string) {
		rep.Violate("C12:size:"+sig, msg+"\n  "+desc, map[string]any{"Choices": c.Choices(), "Size": true})
	}
	cfg := c03Config("forward")
	cfg.Cache.MemSize = 1 << 20
	v, err := vNewRouter(cfg, "u1")
	if err != nil {
		fail("router-start", err.Error())
		return
	}
	defer v.Close()
	u := v.ups["u1"]
	u.Auto = func(uq *upQuery) *upResult {
		if uq.Msg == nil {
			return &upResult{err: errScripted}
		}
		r := env.Answer(uq.Msg, 1, 60)
		for i := 0; i < ntxt; i++ {
			r.An = append(r.An, refdns.TXT(uq.Msg.Q[0].Name, 60, 240, byte('a'+i)))
		}
		if lastTxt >= 0 {
			r.An = append(r.An, refdns.TXT(uq.Msg.Q[0].Name, 60, lastTxt, 'z'))
		}
		if upOpt {
			r.Ar = []refdns.RR{refdns.OPT(1232, 0, refdns.Option(10, make([]byte, 16)))}
		}
		return &upResult{wire: r.Encode(false)}
	}
	q := refdns.Query(0x1215, refdns.N("size", "example", "test"), 1, 1)
	if lastTxt >= 0 {
		// a short owner name: the closer a record's compressed form is to its uncompressed length, the fuller a message can get
		q = refdns.Query(0x1215, refdns.N("s", "t"), 1, 1)
	}
	if adv >= 0 {
		q.Ar = []refdns.RR{refdns.OPT(uint16(adv), 0, nil)}
	}
	obs := ""
	for round := 0; round < 2; round++ {
		cl := sm.open(v)
		cl.send(q)
		wait()
		hsleep(100 * time.Millisecond)
		wait()
		ms, raws := cl.responses()
		if len(raws) != 1 || len(ms) != 1 || ms[0] == nil {
			fail("response-count", fmt.Sprintf("round %d: %d responses (%d decodable)", round, len(raws), len(ms)))
			return
		}
		for _, b := range c12CheckResponse(q, ms[0]) {
			fail("response-opt", fmt.Sprintf("round %d (%s): %s\n  response of %d octets: tc=%v an=%d ar=%d", round, []string{"miss", "hit"}[round], b, len(raws[0]), ms[0].Has(refdns.BitTC), len(ms[0].An), len(ms[0].Ar)))
		}
		obs += fmt.Sprintf("%d/%v/%d;", len(raws[0]), ms[0].Has(refdns.BitTC), len(ms[0].OPTs()))
		hsleep(time.Second)
		wait()
	}
	v.Close()
	wait()
	for _, x := range own.Audit() {
		fail("ownership", x)
	}
	rep.Eval(desc + "=>" + obs)
	rep.State(desc)
}

func TestVerifC12(t *testing.T) {
	rep := report.New("C12 EDNS0 / ECS")
	defer rep.Write()
	rep.Rule = "E3: real router+cache with scripted upstream in a synctest bubble; full product ECS on/off x client address {v4, v6, v4-mapped, unknown} x rule {forward, reject, none} x client OPT {absent, empty, cookie, client ECS, padding, DO, ext-rcode/version, size 0} " +
		"x upstream reply {no OPT, empty OPT, ECS scope, cookie, padding+DO, a type-41 record with an owner name, no reply at all (the proxy's own SERVFAIL at the 6 s deadline), failed exchange}; each forward case walks miss -> hit -> hit in the last TTL quarter (background refresh) -> hit after refresh; plus ECS encoding for every single-bit and all-ones address (v4: 33, v6: 129, v4-mapped: 33); " +
		"oracle: response has exactly one option-less OPT (size 1200, ttl field 0) iff the query had one; every upstream query (incl. refresh) has exactly one OPT with an ECS option iff enabled and address known, family/prefix 24|56, scope 0, 3|7 octets; " +
		"plus the client address each listener uses (ECS on, miss and background refresh): every listener seam with its own peer address, and the net/http and fasthttp DoH servers (GET and POST) with client_addr_header " +
		"{not configured: peer address v4/v6/v4-mapped/not an ip:port, configured and present: single value / comma list (first entry) for v4/v6/v4-mapped, configured but absent: unknown}; the front-end's own address never appears in ECS; " +
		"plus the OPT rule under size limits: every listener seam x client OPT {absent, advertising 0, 100, 512, 513, 1232} x upstream answer of about {100, 600, 1500, 3000} octets x upstream OPT {absent, present}, miss and cache hit; on udp additionally the last answer record's length swept over 0..255 so that the records ahead of the OPT fill the message to every level around the limit"
	if sh, _ := report.Shard(); report.ReplayFile() == nil && sh == 0 {
		// ECS encoder: masking is bitwise, so single-bit + all-ones addresses cover every possible leak. Every address is the peer
		// address of a tcp connection to the real router (ECS on); judged is the option in the upstream query it causes.
		bubble(t, func() {
			hmu.Lock()
			defer hmu.Unlock()
			cfg := c03Config("forward")
			cfg.ECS.Enabled = true
			v, err := vNewRouter(cfg, "u1")
			if err != nil {
				rep.Violate("C12:ecs-encoding:router-start", err.Error(), nil)
				return
			}
			defer v.Close()
			u := v.ups["u1"]
			u.Auto = func(q *upQuery) *upResult {
				if q.Msg == nil {
					return &upResult{err: errScripted}
				}
				return &upResult{wire: env.Answer(q.Msg, 1, 60).Encode(false)}
			}
			srv := v.newTCPServer(0, 300*time.Second)
			n := 0
			chk := func(a netip.Addr) {
				n++
				pc := v.tcpClient(srv, netip.AddrPortFrom(a, 4000), vLocalV4)
				pc.SendMsg(refdns.Query(uint16(n), refdns.N(fmt.Sprintf("enc%d", n), "example", "test"), 1, 1))
				wait()
				pc.Close()
				qs := u.Queries()
				var b []byte
				if len(qs) == n && qs[n-1].Msg != nil && len(qs[n-1].Msg.OPTs()) == 1 {
					b = qs[n-1].Msg.OPTs()[0].RData()
				}
				codes, datas, ok := c12ParseOptions(b)
				if !ok || len(codes) != 1 || codes[0] != 8 || string(datas[0]) != string(c12ExpectECS(a)) {
					rep.Violate("C12:ecs-encoding", fmt.Sprintf("ECS option for client %s is %x (%d upstream queries for %d clients), want payload %x", a, b, len(qs), n, c12ExpectECS(a)), nil)
				}
				rep.Eval("ecs:" + a.String())
			}
			for bit := 0; bit <= 32; bit++ {
				var v uint32 = 0xFFFFFFFF
				if bit < 32 {
					v = 1 << bit
				}
				a4 := netip.AddrFrom4([4]byte{byte(v >> 24), byte(v >> 16), byte(v >> 8), byte(v)})
				chk(a4)
				chk(netip.AddrFrom16(a4.As16()))
			}
			for bit := 0; bit <= 128; bit++ {
				var b [16]byte
				if bit == 128 {
					for i := range b {
						b[i] = 0xFF
					}
				} else {
					b[15-bit/8] = 1 << (bit % 8)
				}
				chk(netip.AddrFrom16(b))
			}
			wait()
		})
	}
	srcReplay, sizeReplay := false, false
	if rp := report.ReplayFile(); rp != nil {
		var x struct{ Source, Size bool }
		rp.Decode(&x)
		srcReplay, sizeReplay = x.Source, x.Size
	}
	if sizeReplay || report.ReplayFile() == nil {
		st := runExplore(t, rep, -1, func(c *choice.Ctx) { c12SizeScenario(c, rep) })
		rep.Count("executions_size_limits", st.Executions)
		if sizeReplay {
			return
		}
	}
	if srcReplay || report.ReplayFile() == nil {
		st := runExplore(t, rep, -1, func(c *choice.Ctx) { c12SourceScenario(c, rep) })
		rep.Count("executions_client_address", st.Executions)
		if srcReplay {
			return
		}
	}
	st := runExplore(t, rep, -1, func(c *choice.Ctx) { c12Scenario(c, rep) })
	rep.Count("executions", st.Executions)
	rep.Sample(map[string]any{"ecs": true, "client": "v4-mapped ::ffff:198.51.100.77", "clientOPT": "client-ecs 9.9.9.9/32", "upstreamOPT": "ecs-scope", "expect": "upstream sees ECS 198.51.100.0/24 only; client sees one empty OPT"})
}
