package router

// C09 (listener level): responses respect the transport size limit. Large
// upstream answers through every listener seam; UDP with every advertised
// payload size of the alphabet.

import (
	"fmt"
	"os"
	"testing"
	"time"

	"github.com/IrineSistiana/mosproxy/internal/zzverif/choice"
	"github.com/IrineSistiana/mosproxy/internal/zzverif/env"
	"github.com/IrineSistiana/mosproxy/internal/zzverif/refdns"
	"github.com/IrineSistiana/mosproxy/internal/zzverif/report"
)

const c09W = 6 // boundary mode: full response sizes limit-c09W .. limit+c09W, one by one

var c09Sizes = []int{0, 2, 4, 5, 16, 255, 256, 300, 520, -1} // -1: boundary mode, see c09Scenario; otherwise number of 255-byte TXT records in the upstream answer (the uncompressed size crosses 512, 1232, 4096 and 65535)

var c09Adv = []int{-1, 0, 100, 512, 1232, 4096, 65535}

// c09AsC13: the same exploration restricted to the stream listeners of C13 and to big responses (boundary mode and 300 records):
// every response must come out as one frame whose prefix equals its body length, also at the largest sizes.
var c09AsC13 = os.Getenv("VERIF_PROP") == "C13"

func c09Scenario(c *choice.Ctx, rep *report.R) {
	own := env.InstallOwn(0xA5, vRace)
	defer env.UninstallOwn()
	seams, sizes := c03Seams, c09Sizes
	if c09AsC13 {
		seams, sizes = nil, []int{-1, 300, 5}
		for _, sm := range c03Seams {
			if sm.name == "tcp" || sm.name == "gnet" || sm.name == "tls" {
				seams = append(seams, sm)
			}
		}
	}
	seam := seams[c.Choose(len(seams), "seam")]
	n := sizes[c.Choose(len(sizes), "records")]
	adv := -1
	if seam.name == "udp" {
		adv = c09Adv[c.Choose(len(c09Adv), "advertised")]
	} else if c.Choose(2, "client-opt") == 1 {
		adv = 1232
	}
	cached := c.Choose(2, "second-from-cache") == 1
	delta := 0
	if n < 0 {
		delta = c.Choose(2*c09W+1, "boundary-delta") - c09W
	}
	desc := fmt.Sprintf("seam=%s records=%d advertised=%d cached=%v", seam.name, n, adv, cached)
	if n < 0 {
		desc = fmt.Sprintf("seam=%s full-response-size=limit%+d advertised=%d cached=%v", seam.name, delta, adv, cached)
	}
	fail := func(sig, msg string) {
		if c09AsC13 {
			rep.Violate("C13:response-size:"+seam.name+":"+sig, msg+"\n  "+desc, map[string]any{"Choices": c.Choices()})
			return
		}
		rep.Violate("C09:listener:"+seam.name+":"+sig, msg+"\n  "+desc, map[string]any{"Choices": c.Choices()})
	}
	cfg := c03Config("forward")
	cfg.Cache.MemSize = 64 << 20
	v, err := vNewRouter(cfg, "u1")
	if err != nil {
		fail("router-start", err.Error())
		return
	}
	defer v.Close()
	var up *refdns.Msg
	txt, tail := 240, 0
	v.ups["u1"].Auto = func(q *upQuery) *upResult {
		up = c09AnswerT(q.Msg, n, txt, tail)
		return &upResult{wire: up.Encode(false)}
	}
	q := refdns.Query(0x0909, refdns.N("big", "example", "test"), 16, 1)
	if adv >= 0 {
		q.Ar = []refdns.RR{refdns.OPT(uint16(adv), 0, nil)}
	}
	if n < 0 {
		// boundary mode: the answer is composed so that the complete response, as this listener encodes it, is exactly
		// limit+delta octets. The encoding is measured, not assumed: two probe queries (same name length, 2 and 3 records,
		// big advertised size) through the same listener give the fixed part and the size of one record.
		lim := 65535
		if seam.name == "udp" {
			lim, txt = 512, 40
			if adv > 512 {
				lim = adv
			}
			if lim > 4096 {
				txt = 240
			}
		}
		var fixed, rec int
		var cerr string
		n, tail, fixed, rec, cerr = c03Compose(v, seam, adv >= 0, txt, lim+delta, func(k int) { n = k })
		if cerr != "" {
			fail("boundary-compose", cerr)
			return
		}
		desc += fmt.Sprintf(" (limit %d: %d records of %d + one root-owned record of %d text octets, measured fixed=%d rec=%d)", lim, n, txt, tail, fixed, rec)
	}
	rounds := 1
	if cached {
		rounds = 2
	}
	obs := ""
	for round := 0; round < rounds; round++ {
		cl := seam.open(v)
		cl.send(q)
		wait()
		hsleep(100 * time.Millisecond)
		wait()
		_, raws := cl.responses()
		if len(raws) == 0 && seam.name == "udp" && n >= 0 && tail > 0 && adv > 65507 && delta+adv > 65507 {
			// a response of more than 65507 octets cannot be sent as one UDP datagram: the query gets no response at all. That is C03's
			// subject (recorded there as a known finding), not a size-limit violation.
			rep.Count("udp_response_over_65507_not_sent", 1)
			cl.close()
			wait()
			break
		}
		if len(raws) != 1 {
			fail("response-count", fmt.Sprintf("%d responses", len(raws)))
			return
		}
		raw := raws[0]
		limit := 65535
		if seam.name == "udp" {
			limit = 512
			if adv > 512 {
				limit = adv
			}
		}
		if len(raw) > limit {
			fail("over-limit", fmt.Sprintf("response body has %d bytes, limit %d", len(raw), limit))
		}
		d, derr := refdns.Decode(raw)
		if derr != nil {
			fail("undecodable", fmt.Sprintf("response does not decode cleanly (%v), %d bytes", derr, len(raw)))
			return
		}
		if up == nil {
			fail("setup", "no upstream answer")
			return
		}
		omitted := (len(up.An) - len(d.An)) + (len(up.Ns) - len(d.Ns))
		if d.Has(refdns.BitTC) != (omitted > 0) {
			fail(fmt.Sprintf("tc-wrong:omitted=%v", omitted > 0), fmt.Sprintf("TC=%v with %d records omitted", d.Has(refdns.BitTC), omitted))
		}
		U := 12 + q.Q[0].Len()
		for _, s := range [][]refdns.RR{up.An, up.Ns} {
			for i := range s {
				U += s[i].Len()
			}
		}
		if adv >= 0 {
			U += 11
		}
		if U <= limit && omitted != 0 {
			fail("omitted-though-fits", fmt.Sprintf("%d records omitted although the uncompressed encoding (%d bytes) fits the limit %d", omitted, U, limit))
		}
		if len(d.Q) != 1 || !d.Q[0].Name.Equal(q.Q[0].Name) {
			fail("question-dropped", "question missing from the response")
		}
		if (adv >= 0) != (len(d.OPTs()) == 1) {
			fail("opt-dropped", fmt.Sprintf("query had OPT=%v, response has %d", adv >= 0, len(d.OPTs())))
		}
		sub := func(kept, orig []refdns.RR) bool {
			j := 0
			for i := range kept {
				for j < len(orig) && orig[j].CanonNoTTL() != kept[i].CanonNoTTL() {
					j++
				}
				if j == len(orig) {
					return false
				}
				j++
			}
			return true
		}
		if !sub(d.An, up.An) || !sub(d.Ns, up.Ns) {
			fail("records-reordered", "kept answer/authority records are not an in-order subsequence of the upstream's")
		}
		if t := own.Tainted(raw); t != "" {
			fail("tainted-response", "response contains "+t)
		}
		if tail > 0 {
			// self-check of the composition: for delta <= 0 the complete response must have been produced with exactly that size
			if delta <= 0 && omitted == 0 && len(raw) == limit+delta {
				rep.Count("boundary_exact_size_produced", 1)
			} else if delta > 0 && omitted > 0 {
				rep.Count("boundary_over_limit_truncated", 1)
			} else if delta <= 0 && omitted > 0 {
				// the complete response, as this very listener encodes it (measured by the two probes), is limit+delta <= limit octets
				// long: it fits, nothing may be left out
				fail("boundary:omitted-though-it-fits", fmt.Sprintf("the complete response is %d octets (limit %d) and fits, yet %d record(s) were left out and the response is %d octets", limit+delta, limit, omitted, len(raw)))
			} else {
				rep.Count("boundary_composition_off", 1)
				rep.Note(fmt.Sprintf("boundary composition off: %s => %d octets, %d omitted", desc, len(raw), omitted))
			}
		}
		obs += fmt.Sprintf("%d/%d;", len(raw), omitted)
		cl.close()
		wait()
		hsleep(2 * time.Second)
	}
	v.Close()
	for _, x := range own.Audit() {
		fail("ownership", x)
	}
	rep.Eval(desc + "=>" + obs)
	rep.State(desc)
}

// c09LocalReplies: responses the proxy builds itself (NOTIMP for unsupported queries, REFUSED without a rule, SERVFAIL for a
// failing upstream) and ordinary small answers, to queries that arrive with the TC bit (and other header bits) set: nothing is
// omitted from these few octets, so TC is clear.
func c09LocalReplies(c *choice.Ctx, rep *report.R) {
	own := env.InstallOwn(0xA5, vRace)
	defer env.UninstallOwn()
	seam := c03Seams[c.Choose(len(c03Seams), "seam")]
	kinds := []string{"rd0->NOTIMP", "opcode2->NOTIMP", "two-questions->NOTIMP", "no-rule->REFUSED", "upstream-fails->SERVFAIL", "answered"}
	kind := kinds[c.Choose(len(kinds), "kind")]
	bits := []uint16{refdns.BitTC, refdns.BitTC | refdns.BitAA | refdns.BitAD | refdns.BitCD}[c.Choose(2, "query-bits")]
	desc := fmt.Sprintf("seam=%s query with header bits %#04x, %s", seam.name, bits, kind)
	fail := func(sig, msg string) {
		rep.Violate("C09:listener:"+seam.name+":local-reply:"+sig, msg+"\n  "+desc, map[string]any{"Choices": c.Choices(), "Local": true})
	}
	rule := "forward"
	if kind == "no-rule->REFUSED" {
		rule = "no-rule"
	}
	v, err := vNewRouter(c03Config(rule), "u1")
	if err != nil {
		fail("router-start", err.Error())
		return
	}
	defer v.Close()
	v.ups["u1"].Auto = func(q *upQuery) *upResult {
		if kind == "upstream-fails->SERVFAIL" || q.Msg == nil {
			return &upResult{err: errScripted}
		}
		return &upResult{wire: env.Answer(q.Msg, 1, 60).Encode(false)}
	}
	q := refdns.Query(0x0955, refdns.N("tc", "example", "test"), 1, 1)
	q.Bits |= bits
	switch kind {
	case "rd0->NOTIMP":
		q.Bits &^= refdns.BitRD
	case "opcode2->NOTIMP":
		q.Bits |= 2 << 11
	case "two-questions->NOTIMP":
		q.Q = append(q.Q, refdns.Q{Name: refdns.N("other", "test"), Type: 1, Class: 1})
	}
	cl := seam.open(v)
	cl.send(q)
	wait()
	hsleep(100 * time.Millisecond)
	wait()
	msgs, raws := cl.responses()
	if len(raws) != 1 {
		fail("response-count", fmt.Sprintf("%d responses", len(raws)))
		return
	}
	if msgs[0] == nil {
		fail("undecodable", fmt.Sprintf("%x", raws[0]))
		return
	}
	if msgs[0].Has(refdns.BitTC) {
		fail("tc-set-on-complete-message", fmt.Sprintf("the %d octet response (rcode %s) has TC set although nothing was omitted", len(raws[0]), rcodeName(msgs[0].RCode())))
	}
	cl.close()
	v.Close()
	wait()
	for _, x := range own.Audit() {
		fail("ownership", x)
	}
	rep.Eval(desc + fmt.Sprintf("=>%d", msgs[0].RCode()))
	rep.State(desc)
}

func TestVerifC09Listeners(t *testing.T) {
	rep := report.New(map[bool]string{false: "C09 listener size limits", true: "C13 framing of the largest responses"}[c09AsC13])
	defer rep.Write()
	rep.Rule = fmt.Sprintf("E3: real router+cache, auto-answering upstream returning %v TXT records of 255 bytes (uncompressed sizes from 60 bytes to ~130 KiB) through every listener seam (udp, tcp, gnet, tls, http get/post, fasthttp get/post, quic), and (records=-1) answers composed so that the complete response is exactly limit-%d..limit+%d octets, one by one, with the listener's own encoding measured by two probe queries; "+
		"UDP x advertised payload size %v (-1 = no OPT); stream seams x client OPT on/off; first (relayed) and second (cached) response; oracle: body <= max(512, advertised) on UDP and <= 65535 elsewhere, decodes cleanly, TC iff records omitted, nothing omitted when the uncompressed encoding fits, question and OPT retained, kept records in order; plus, per seam, queries arriving with TC (and AA/AD/CD) set that are answered NOTIMP / REFUSED / SERVFAIL by the proxy itself or answered normally: TC clear in the response", c09Sizes, c09W, c09W, c09Adv)
	local := false
	if rp := report.ReplayFile(); rp != nil {
		var x struct{ Local bool }
		rp.Decode(&x)
		local = x.Local
	}
	if !local {
		st := runExplore(t, rep, -1, func(c *choice.Ctx) { c09Scenario(c, rep) })
		rep.Count("executions", st.Executions)
	}
	if (local || report.ReplayFile() == nil) && !c09AsC13 {
		st := runExplore(t, rep, -1, func(c *choice.Ctx) { c09LocalReplies(c, rep) })
		rep.Count("executions_local_replies", st.Executions)
	}
	rep.Sample(map[string]any{"seam": "tcp", "records": 300, "expect": "frame prefix == body length <= 65535, TC set, counts match"})
}
