package router

// C09 (listener level): responses respect the transport size limit. Large
// upstream answers through every listener seam; UDP with every advertised
// payload size of the alphabet.

import (
	"fmt"
	"testing"
	"time"

	"github.com/IrineSistiana/mosproxy/internal/zzverif/choice"
	"github.com/IrineSistiana/mosproxy/internal/zzverif/env"
	"github.com/IrineSistiana/mosproxy/internal/zzverif/refdns"
	"github.com/IrineSistiana/mosproxy/internal/zzverif/report"
)

var c09Sizes = []int{0, 2, 4, 5, 16, 255, 256, 300, 520} // number of 255-byte TXT records in the upstream answer (the uncompressed size crosses 512, 1232, 4096 and 65535)

var c09Adv = []int{-1, 0, 100, 512, 1232, 4096, 65535}

func c09Answer(q *refdns.Msg, n int) *refdns.Msg {
	m := env.Answer(q, 1, 60)
	for i := 0; i < n; i++ {
		r := refdns.TXT(q.Q[0].Name, uint32(100+i%50), 240, byte('a'+i%26))
		if i%3 == 2 {
			m.Ns = append(m.Ns, r)
		} else {
			m.An = append(m.An, r)
		}
	}
	return m
}

func c09Scenario(c *choice.Ctx, rep *report.R) {
	own := env.InstallOwn(0xA5, vRace)
	defer env.UninstallOwn()
	seam := c03Seams[c.Choose(len(c03Seams), "seam")]
	n := c09Sizes[c.Choose(len(c09Sizes), "records")]
	adv := -1
	if seam.name == "udp" {
		adv = c09Adv[c.Choose(len(c09Adv), "advertised")]
	} else if c.Choose(2, "client-opt") == 1 {
		adv = 1232
	}
	cached := c.Choose(2, "second-from-cache") == 1
	desc := fmt.Sprintf("seam=%s records=%d advertised=%d cached=%v", seam.name, n, adv, cached)
	fail := func(sig, msg string) {
		rep.Violate("C09:listener:"+seam.name+":"+sig, msg+"\n  "+desc, map[string]any{"Choices": c.Choices()})
	}
	cfg := c03Config("forward")
	cfg.Cache.MemSize = 64 << 20
	v, err := vNewRouter(cfg, "u1")
	if err != nil {
		fail("router-start", err.Error())
		return
	}
	defer v.Close()
	var up *refdns.Msg
	v.ups["u1"].Auto = func(q *upQuery) *upResult {
		up = c09Answer(q.Msg, n)
		return &upResult{wire: up.Encode(false)}
	}
	q := refdns.Query(0x0909, refdns.N("big", "example", "test"), 16, 1)
	if adv >= 0 {
		q.Ar = []refdns.RR{refdns.OPT(uint16(adv), 0, nil)}
	}
	rounds := 1
	if cached {
		rounds = 2
	}
	obs := ""
	for round := 0; round < rounds; round++ {
		cl := seam.open(v)
		cl.send(q)
		wait()
		hsleep(100 * time.Millisecond)
		wait()
		_, raws := cl.responses()
		if len(raws) != 1 {
			fail("response-count", fmt.Sprintf("%d responses", len(raws)))
			return
		}
		raw := raws[0]
		limit := 65535
		if seam.name == "udp" {
			limit = 512
			if adv > 512 {
				limit = adv
			}
		}
		if len(raw) > limit {
			fail("over-limit", fmt.Sprintf("response body has %d bytes, limit %d", len(raw), limit))
		}
		d, derr := refdns.Decode(raw)
		if derr != nil {
			fail("undecodable", fmt.Sprintf("response does not decode cleanly (%v), %d bytes", derr, len(raw)))
			return
		}
		if up == nil {
			fail("setup", "no upstream answer")
			return
		}
		omitted := (len(up.An) - len(d.An)) + (len(up.Ns) - len(d.Ns))
		if d.Has(refdns.BitTC) != (omitted > 0) {
			fail(fmt.Sprintf("tc-wrong:omitted=%v", omitted > 0), fmt.Sprintf("TC=%v with %d records omitted", d.Has(refdns.BitTC), omitted))
		}
		U := 12 + q.Q[0].Len()
		for _, s := range [][]refdns.RR{up.An, up.Ns} {
			for i := range s {
				U += s[i].Len()
			}
		}
		if adv >= 0 {
			U += 11
		}
		if U <= limit && omitted != 0 {
			fail("omitted-though-fits", fmt.Sprintf("%d records omitted although the uncompressed encoding (%d bytes) fits the limit %d", omitted, U, limit))
		}
		if len(d.Q) != 1 || !d.Q[0].Name.Equal(q.Q[0].Name) {
			fail("question-dropped", "question missing from the response")
		}
		if (adv >= 0) != (len(d.OPTs()) == 1) {
			fail("opt-dropped", fmt.Sprintf("query had OPT=%v, response has %d", adv >= 0, len(d.OPTs())))
		}
		sub := func(kept, orig []refdns.RR) bool {
			j := 0
			for i := range kept {
				for j < len(orig) && orig[j].CanonNoTTL() != kept[i].CanonNoTTL() {
					j++
				}
				if j == len(orig) {
					return false
				}
				j++
			}
			return true
		}
		if !sub(d.An, up.An) || !sub(d.Ns, up.Ns) {
			fail("records-reordered", "kept answer/authority records are not an in-order subsequence of the upstream's")
		}
		if t := own.Tainted(raw); t != "" {
			fail("tainted-response", "response contains "+t)
		}
		obs += fmt.Sprintf("%d/%d;", len(raw), omitted)
		cl.close()
		wait()
		hsleep(2 * time.Second)
	}
	v.Close()
	for _, x := range own.Audit() {
		fail("ownership", x)
	}
	rep.Eval(desc + "=>" + obs)
	rep.State(desc)
}

func TestVerifC09Listeners(t *testing.T) {
	rep := report.New("C09 listener size limits")
	defer rep.Write()
	rep.Rule = fmt.Sprintf("E3: real router+cache, auto-answering upstream returning %v TXT records of 255 bytes (uncompressed sizes from 60 bytes to ~130 KiB) through every listener seam (udp, tcp, gnet, tls, http get/post, fasthttp get/post, quic); "+
		"UDP x advertised payload size %v (-1 = no OPT); stream seams x client OPT on/off; first (relayed) and second (cached) response; oracle: body <= max(512, advertised) on UDP and <= 65535 elsewhere, decodes cleanly, TC iff records omitted, nothing omitted when the uncompressed encoding fits, question and OPT retained, kept records in order", c09Sizes, c09Adv)
	st := runExplore(t, rep, -1, func(c *choice.Ctx) { c09Scenario(c, rep) })
	rep.Count("executions", st.Executions)
	rep.Sample(map[string]any{"seam": "tcp", "records": 300, "expect": "frame prefix == body length <= 65535, TC set, counts match"})
}
