package router

// C01 (listeners, real stacks): the real router runs in a child process with
// one real listener of every kind on loopback; the parent sends malformed
// input over real sockets, then a valid query, and checks that the child is
// still alive and answers. This exercises the third-party stacks (gnet,
// fasthttp, net/http + h2, quic-go) that the in-bubble seams replace.

import (
	"bufio"
	"bytes"
	"context"
	"crypto/tls"
	"encoding/base64"
	"fmt"
	"io"
	"net"
	"net/http"
	"os"
	"os/exec"
	"strings"
	"sync"
	"testing"
	"time"

	"github.com/IrineSistiana/mosproxy/internal/zzverif/env"
	"github.com/IrineSistiana/mosproxy/internal/zzverif/refdns"
	"github.com/IrineSistiana/mosproxy/internal/zzverif/report"
	"github.com/quic-go/quic-go"
)

var c01Kinds = []string{"udp", "tcp", "gnet", "tls", "http", "https", "fasthttp", "quic"}

// TestVerifC01Child is the server side: only runs when re-executed by the parent.
func TestVerifC01Child(t *testing.T) {
	if os.Getenv("VERIF_C01_CHILD") == "" {
		return
	}
	cfg := c03Config("forward")
	// every query name is also rendered in its text form: by a regexp entry of a domain set that the first rule consults, and by the query log
	cfg.DomainSets = append(cfg.DomainSets, DomainSetConfig{Tag: "c01re", Files: []string{vTmpFile("c01_re.txt", "regexp:^never-matches-anything\\.invalid$\n")}})
	cfg.Rules = append([]RuleConfig{{Domain: "c01re", Reject: 3}}, cfg.Rules...)
	cfg.Log.Queries = true
	v, err := vNewRouter(cfg, "u1")
	if err != nil {
		fmt.Println("CHILD-ERROR", err)
		os.Exit(3)
	}
	v.ups["u1"].Auto = func(q *upQuery) *upResult {
		if q.Msg == nil {
			return &upResult{err: errScripted}
		}
		return &upResult{wire: env.Answer(q.Msg, 1, 60).Encode(false)}
	}
	var ports []string
	for _, k := range c01Kinds {
		sc := ServerConfig{Protocol: k, Listen: "127.0.0.1:0", IdleTimeout: 2}
		if k == "tls" || k == "https" || k == "quic" {
			sc.Tls.DebugUseTempCert = true
		}
		addr := ""
		switch k {
		case "udp":
			s, err := v.r.startUdpServer(&sc)
			if err == nil {
				addr = s.cs[0].c.LocalAddr().String()
			}
		case "tcp", "tls":
			s, err := v.r.startTcpServer(&sc, k == "tls")
			if err == nil {
				addr = s.l.Addr().String()
			}
		case "gnet", "fasthttp":
			// these servers do not expose their address: pick a free port first
			l, _ := net.Listen("tcp", "127.0.0.1:0")
			addr = l.Addr().String()
			l.Close()
			sc.Listen = addr
			var err error
			if k == "gnet" {
				_, err = v.r.startGnetServer(&sc)
			} else {
				_, err = v.r.startFastHttpServer(&sc)
			}
			if err != nil {
				addr = ""
			}
		case "http", "https":
			s, err := v.r.startHttpServer(&sc, k == "https")
			if err == nil {
				addr = s.Handler.(*httpHandler).localAddr.String()
			}
		case "quic":
			s, err := v.r.startQuicServer(&sc)
			if err == nil {
				addr = s.l.Addr().String()
			}
		}
		ports = append(ports, k+"="+addr)
	}
	fmt.Println("READY " + strings.Join(ports, " "))
	select {
	case f := <-v.r.fatalErr:
		fmt.Println("CHILD-FATAL", f.msg, f.err)
		os.Exit(4)
	case <-time.After(10 * time.Minute):
	}
}

func c01Malformed() [][]byte {
	q := refdns.Query(0x0101, refdns.N("c01", "example", "test"), 1, 1).Encode(false)
	loop := []byte{0, 1, 1, 0, 0, 1, 0, 0, 0, 0, 0, 0, 0xC0, 0x0C, 0, 1, 0, 1}
	hidden := []byte{0x12, 0x34, 0x01, 0x00, 0, 2, 0, 0, 0, 0, 0, 0, 4, 0xC0, 0x0F, 0xC0, 0x0D, 0, 0, 1, 0, 1, 0xC0, 0x0D, 0, 1, 0, 1}
	counts := append([]byte(nil), q...)
	counts[4], counts[5], counts[6], counts[7] = 0xFF, 0xFF, 0xFF, 0xFF
	rdlen := refdns.Query(2, refdns.N("a"), 1, 1)
	rdlen.Ar = []refdns.RR{refdns.OPT(1232, 0, []byte{0, 8, 0, 200, 1})}
	// well-formed but extreme: names of the maximum length made of octets that need escaping in the text form (\DDD, \., \\)
	long := func(fill byte) []byte {
		l := func(n int) string { return string(bytes.Repeat([]byte{fill}, n)) }
		return refdns.Query(0x0102, refdns.N(l(63), l(63), l(63), l(61)), 1, 1).Encode(false)
	}
	return [][]byte{
		long(0x01), long('.'), long('\\'), long(0xFF), long('a'),
		{}, {0}, q[:11], q[:len(q)-1], q[:len(q)-3], loop, hidden, counts, rdlen.Encode(false),
		bytes.Repeat([]byte{0xFF}, 100), bytes.Repeat([]byte{0x3F}, 600), append(append([]byte(nil), q[:12]...), bytes.Repeat([]byte{63, 'a'}, 200)...),
		bytes.Repeat([]byte{0}, 12), append(append([]byte(nil), q...), 1, 2, 3),
	}
}

func TestVerifC01Listeners(t *testing.T) {
	rep := report.New("C01 listeners (real stacks)")
	defer rep.Write()
	rep.Rule = fmt.Sprintf("real router in a child process with real listeners %v on loopback; for every listener: every malformed message of a 14-message corpus (empty, short, truncated, pointer loops incl. hidden ones, lying counts/RDLENGTH, garbage, over-long names, trailing bytes) and every framing lie "+
		"(declared length 0 / 1 / true-1 / true+1 / 65535 with a short body; invalid or oversized base64; missing parameter; wrong content type; POST without Content-Length; oversized body; garbage bytes instead of HTTP / TLS / QUIC) is sent over a real socket, followed by a valid query on the same listener; "+
		"oracle: the process is alive, the valid query is answered correctly, malformed input is never answered with a DNS success; distinct = distinct (listener, input)", c01Kinds)
	if sh, _ := report.Shard(); sh != 0 {
		rep.Eval("idle-shard")
		rep.Eval("idle-shard2")
		return
	}
	cmd := exec.Command(os.Args[0], "-test.run", "^TestVerifC01Child$", "-test.timeout", "15m")
	cmd.Env = append(os.Environ(), "VERIF_C01_CHILD=1", "VERIF_OUT=")
	var stderr bytes.Buffer
	cmd.Stderr = &stderr
	stdout, _ := cmd.StdoutPipe()
	if err := cmd.Start(); err != nil {
		t.Fatal(err)
	}
	exited := make(chan struct{})
	go func() { cmd.Wait(); close(exited) }()
	defer func() {
		cmd.Process.Kill()
		<-exited
	}()
	addrs := map[string]string{}
	sc := bufio.NewScanner(stdout)
	ready := make(chan bool, 1)
	go func() {
		for sc.Scan() {
			l := sc.Text()
			if strings.HasPrefix(l, "READY ") {
				for _, kv := range strings.Fields(l)[1:] {
					k, v, _ := strings.Cut(kv, "=")
					addrs[k] = v
				}
				ready <- true
			}
			if strings.HasPrefix(l, "CHILD-") {
				stderr.WriteString(l + "\n")
			}
		}
	}()
	select {
	case <-ready:
	case <-exited:
		t.Fatalf("child did not start: %s", stderr.String())
	case <-time.After(60 * time.Second):
		t.Fatalf("child did not become ready: %s", stderr.String())
	}
	alive := func() bool {
		select {
		case <-exited:
			return false
		default:
			return true
		}
	}
	valid := func(id uint16) []byte { return refdns.Query(id, refdns.N("ok", "example", "test"), 1, 1).Encode(false) }
	okResp := func(b []byte, id uint16) bool {
		m, err := refdns.Decode(b)
		return err == nil && m.ID == id && m.RCode() == 0 && len(m.An) == 1
	}
	insecure := &tls.Config{InsecureSkipVerify: true}
	// per listener: send(raw bytes as "one message") and ask(valid) implementations
	type lst struct {
		name string
		send func(msg []byte)     // deliver a (malformed) message the natural way of the transport
		raw  [][]byte             // extra raw byte strings written to the socket as they are (framing lies)
		ask  func(id uint16) bool // a valid query must be answered
	}
	streamAsk := func(dial func() (net.Conn, error)) func(id uint16) bool {
		return func(id uint16) bool {
			c, err := dial()
			if err != nil {
				return false
			}
			defer c.Close()
			c.SetDeadline(time.Now().Add(10 * time.Second))
			c.Write(refdns.Frame(valid(id)))
			hdr := make([]byte, 2)
			if _, err := io.ReadFull(c, hdr); err != nil {
				return false
			}
			b := make([]byte, int(hdr[0])<<8|int(hdr[1]))
			if _, err := io.ReadFull(c, b); err != nil {
				return false
			}
			return okResp(b, id)
		}
	}
	streamSend := func(dial func() (net.Conn, error), framed bool) func([]byte) {
		return func(msg []byte) {
			c, err := dial()
			if err != nil {
				return
			}
			defer c.Close()
			c.SetDeadline(time.Now().Add(400 * time.Millisecond))
			if framed {
				c.Write(refdns.Frame(msg))
			} else {
				c.Write(msg)
			}
			io.Copy(io.Discard, io.LimitReader(c, 70000)) // until the server closes or times out
		}
	}
	q := valid(0x0777)
	lies := [][]byte{
		{0, 0}, {0, 1, 7}, append([]byte{0, byte(len(q) - 1)}, q...), append([]byte{0, byte(len(q) + 1)}, q...), append([]byte{0xFF, 0xFF}, q...), {0}, bytes.Repeat([]byte{0xAA}, 5000),
		append(append(refdns.Frame(q[:12]), refdns.Frame(q)...), 0, 0), []byte("GET / HTTP/1.1\r\nHost: x\r\n\r\n"),
	}
	// a valid query with an undecodable frame right behind it in the same segment: the connection is closed while the
	// query is still in flight (its response is written, or fails to be written, afterwards)
	for _, m := range c01Malformed() {
		lies = append(lies, append(refdns.Frame(q), refdns.Frame(m)...))
	}
	lies = append(lies, append(append(refdns.Frame(q), refdns.Frame(q)...), 0xFF, 0xFF, 1, 2, 3))
	httpAsk := func(scheme, addr string, post bool) func(id uint16) bool {
		return func(id uint16) bool {
			tr := &http.Transport{TLSClientConfig: insecure, ForceAttemptHTTP2: true}
			defer tr.CloseIdleConnections()
			hc := &http.Client{Transport: tr, Timeout: 10 * time.Second}
			var req *http.Request
			if post {
				req, _ = http.NewRequest("POST", scheme+"://"+addr+"/dns-query", bytes.NewReader(valid(id)))
				req.Header.Set("Content-Type", "application/dns-message")
			} else {
				req, _ = http.NewRequest("GET", scheme+"://"+addr+"/dns-query?dns="+base64.RawURLEncoding.EncodeToString(valid(id)), nil)
				req.Header.Set("Accept", "application/dns-message")
			}
			resp, err := hc.Do(req)
			if err != nil {
				return false
			}
			defer resp.Body.Close()
			b, _ := io.ReadAll(resp.Body)
			return resp.StatusCode == 200 && okResp(b, id)
		}
	}
	httpRaw := func(addr string, useTLS bool) func([]byte) {
		return func(raw []byte) {
			var c net.Conn
			var err error
			if useTLS {
				c, err = tls.DialWithDialer(&net.Dialer{Timeout: 3 * time.Second}, "tcp", addr, &tls.Config{InsecureSkipVerify: true, NextProtos: []string{"http/1.1"}})
			} else {
				c, err = net.DialTimeout("tcp", addr, 3*time.Second)
			}
			if err != nil {
				return
			}
			defer c.Close()
			c.SetDeadline(time.Now().Add(400 * time.Millisecond))
			c.Write(raw)
			io.Copy(io.Discard, io.LimitReader(c, 70000))
		}
	}
	httpReqs := func(host string) [][]byte {
		body := valid(9)
		big := bytes.Repeat([]byte{1}, 70000)
		b64 := base64.RawURLEncoding.EncodeToString
		var out [][]byte
		add := func(s string, body []byte) { out = append(out, append([]byte(s), body...)) }
		add("GET /dns-query?dns=%%% HTTP/1.1\r\nHost: "+host+"\r\nAccept: application/dns-message\r\n\r\n", nil)
		add("GET /dns-query?dns=!!!! HTTP/1.1\r\nHost: "+host+"\r\nAccept: application/dns-message\r\n\r\n", nil)
		add("GET /dns-query?dns="+b64(big)+" HTTP/1.1\r\nHost: "+host+"\r\nAccept: application/dns-message\r\n\r\n", nil)
		add("GET /dns-query HTTP/1.1\r\nHost: "+host+"\r\nAccept: application/dns-message\r\n\r\n", nil)
		add("GET /dns-query?dns="+b64(body)+" HTTP/1.1\r\nHost: "+host+"\r\n\r\n", nil)
		add("POST /dns-query HTTP/1.1\r\nHost: "+host+"\r\nContent-Type: application/dns-message\r\n\r\n", nil) // no Content-Length
		add("POST /dns-query HTTP/1.1\r\nHost: "+host+"\r\nContent-Type: application/dns-message\r\nContent-Length: 0\r\n\r\n", nil)
		add("POST /dns-query HTTP/1.1\r\nHost: "+host+"\r\nContent-Type: text/plain\r\nContent-Length: 3\r\n\r\n", []byte("abc"))
		add(fmt.Sprintf("POST /dns-query HTTP/1.1\r\nHost: %s\r\nContent-Type: application/dns-message\r\nContent-Length: %d\r\n\r\n", host, len(big)), big)
		add("POST /dns-query HTTP/1.1\r\nHost: "+host+"\r\nContent-Type: application/dns-message\r\nTransfer-Encoding: chunked\r\n\r\n3\r\nabc\r\n0\r\n\r\n", nil)
		add("PUT /dns-query HTTP/1.1\r\nHost: "+host+"\r\nContent-Length: 0\r\n\r\n", nil)
		add("\x16\x03\x01\x02\x00garbage", nil)
		for _, m := range c01Malformed() {
			add("GET /dns-query?dns="+b64(m)+" HTTP/1.1\r\nHost: "+host+"\r\nAccept: application/dns-message\r\n\r\n", nil)
			add(fmt.Sprintf("POST /dns-query HTTP/1.1\r\nHost: %s\r\nContent-Type: application/dns-message\r\nContent-Length: %d\r\n\r\n", host, len(m)), m)
		}
		return out
	}
	var ls []lst
	dialTCP := func(a string) func() (net.Conn, error) {
		return func() (net.Conn, error) { return net.DialTimeout("tcp", a, 3*time.Second) }
	}
	dialTLS := func(a string) func() (net.Conn, error) {
		return func() (net.Conn, error) {
			return tls.DialWithDialer(&net.Dialer{Timeout: 3 * time.Second}, "tcp", a, insecure)
		}
	}
	for _, k := range c01Kinds {
		a := addrs[k]
		if a == "" {
			rep.Note("listener " + k + " could not be started in this sandbox; skipped")
			continue
		}
		switch k {
		case "udp":
			ls = append(ls, lst{name: k, send: func(msg []byte) {
				c, err := net.Dial("udp", a)
				if err == nil {
					c.Write(msg)
					c.Close()
				}
			}, ask: func(id uint16) bool {
				c, err := net.Dial("udp", a)
				if err != nil {
					return false
				}
				defer c.Close()
				for try := 0; try < 3; try++ {
					c.SetDeadline(time.Now().Add(4 * time.Second))
					c.Write(valid(id))
					b := make([]byte, 4096)
					if n, err := c.Read(b); err == nil && okResp(b[:n], id) {
						return true
					}
				}
				return false
			}})
		case "tcp", "gnet":
			ls = append(ls, lst{name: k, send: streamSend(dialTCP(a), true), raw: lies, ask: streamAsk(dialTCP(a))})
		case "tls":
			l := lst{name: k, send: streamSend(dialTLS(a), true), raw: lies, ask: streamAsk(dialTLS(a))}
			ls = append(ls, l)
			ls = append(ls, lst{name: "tls(raw tcp bytes)", send: streamSend(dialTCP(a), false), ask: streamAsk(dialTLS(a))})
		case "http", "fasthttp":
			ls = append(ls, lst{name: k, send: httpRaw(a, false), raw: httpReqs(a), ask: httpAsk("http", a, k == "http")})
		case "https":
			ls = append(ls, lst{name: k, send: httpRaw(a, true), raw: httpReqs(a), ask: httpAsk("https", a, false)})
		case "quic":
			ask := func(id uint16) bool {
				ctx, cancel := context.WithTimeout(context.Background(), 10*time.Second)
				defer cancel()
				conn, err := quic.DialAddr(ctx, a, &tls.Config{InsecureSkipVerify: true, NextProtos: []string{"doq"}}, &quic.Config{})
				if err != nil {
					return false
				}
				defer conn.CloseWithError(0, "")
				st, err := conn.OpenStreamSync(ctx)
				if err != nil {
					return false
				}
				st.SetDeadline(time.Now().Add(10 * time.Second))
				st.Write(refdns.Frame(valid(id)))
				st.Close()
				b, _ := io.ReadAll(st)
				fs, _ := env.SplitFrames(b)
				return len(fs) == 1 && okResp(fs[0], id)
			}
			send := func(msg []byte) {
				ctx, cancel := context.WithTimeout(context.Background(), 5*time.Second)
				defer cancel()
				conn, err := quic.DialAddr(ctx, a, &tls.Config{InsecureSkipVerify: true, NextProtos: []string{"doq"}}, &quic.Config{})
				if err != nil {
					return
				}
				defer conn.CloseWithError(0, "")
				st, err := conn.OpenStreamSync(ctx)
				if err != nil {
					return
				}
				st.SetDeadline(time.Now().Add(400 * time.Millisecond))
				st.Write(msg)
				st.Close()
				io.Copy(io.Discard, io.LimitReader(st, 70000))
			}
			var framed [][]byte
			for _, m := range c01Malformed() {
				framed = append(framed, refdns.Frame(m))
			}
			ls = append(ls, lst{name: k, send: func(msg []byte) { send(refdns.Frame(msg)) }, raw: append(framed, lies...), ask: ask})
			ls = append(ls, lst{name: "quic(raw udp garbage)", send: func(msg []byte) {
				c, err := net.Dial("udp", a)
				if err == nil {
					c.Write(append([]byte{0xC0, 0, 0, 0, 1}, msg...))
					c.Close()
				}
			}, ask: ask})
		}
	}
	var wg sync.WaitGroup
	// the listeners are driven concurrently and share the one process: its death is reported once, identified by the
	// place in the implementation where it died (from the child's stderr), with every input that was outstanding
	var diedOnce sync.Once
	var diedMu sync.Mutex
	var diedDescs []string
	died := func(name, desc string) {
		diedMu.Lock()
		diedDescs = append(diedDescs, desc)
		diedMu.Unlock()
		diedOnce.Do(func() {
			time.Sleep(500 * time.Millisecond) // let the other drivers notice and record their outstanding input
			where := "unknown"
			for _, ln := range strings.Split(stderr.String(), "\n") {
				if strings.HasPrefix(ln, "github.com/IrineSistiana/mosproxy/") && !strings.Contains(ln, "zzverif") {
					where = strings.TrimPrefix(ln, "github.com/IrineSistiana/mosproxy/")
					if i := strings.LastIndexByte(where, '('); i > 0 {
						where = where[:i]
					}
					break
				}
			}
			diedMu.Lock()
			all := strings.Join(diedDescs, "\n  ")
			diedMu.Unlock()
			rep.Violate("C01:listener:process-died@"+where, fmt.Sprintf("the proxy process died; inputs outstanding:\n  %s\n%s", all, tail(stderr.String(), 3000)), nil)
		})
	}
	var idmu sync.Mutex
	id := uint16(0x2000)
	nextID := func() uint16 { idmu.Lock(); defer idmu.Unlock(); id++; return id }
	for _, l := range ls {
		l := l
		wg.Add(1)
		go func() {
			defer wg.Done()
			inputs := c01Malformed()
			kinds := make([]string, len(inputs))
			for i := range kinds {
				kinds[i] = "message"
			}
			for _, r := range l.raw {
				inputs = append(inputs, r)
				kinds = append(kinds, "raw")
			}
			for i, in := range inputs {
				desc := fmt.Sprintf("%s %s #%d (%d bytes) %x", l.name, kinds[i], i, len(in), in[:min(len(in), 40)])
				rep.Eval(desc)
				if kinds[i] == "raw" && l.name != "quic" && !strings.HasPrefix(l.name, "tls(") {
					rawSend := l.send
					if l.name == "tcp" || l.name == "gnet" || l.name == "tls" {
						d := dialTCP(addrs[l.name])
						if l.name == "tls" {
							d = dialTLS(addrs["tls"])
						}
						rawSend = streamSend(d, false)
					}
					rawSend(in)
				} else if kinds[i] == "raw" && l.name == "quic" {
					// raw stream bytes
					func() {
						ctx, cancel := context.WithTimeout(context.Background(), 5*time.Second)
						defer cancel()
						conn, err := quic.DialAddr(ctx, addrs["quic"], &tls.Config{InsecureSkipVerify: true, NextProtos: []string{"doq"}}, &quic.Config{})
						if err != nil {
							return
						}
						defer conn.CloseWithError(0, "")
						st, err := conn.OpenStreamSync(ctx)
						if err != nil {
							return
						}
						st.SetDeadline(time.Now().Add(400 * time.Millisecond))
						st.Write(in)
						st.Close()
						io.Copy(io.Discard, io.LimitReader(st, 70000))
					}()
				} else {
					l.send(in)
				}
				if !alive() {
					died(l.name, desc)
					return
				}
				ok := false
				// (a plain TCP connection on loopback loses nothing: there the very first valid query after the malformed input must be
				// answered - a listener that recovers on the second connection has carried something over from the malformed one)
				tries := 3
				if l.name == "tcp" || l.name == "gnet" {
					tries = 1
				}
				for try := 0; try < tries && !ok; try++ {
					ok = l.ask(nextID())
				}
				if !ok {
					if !alive() {
						died(l.name, desc)
						return
					}
					rep.Violate("C01:listener:"+l.name+":stopped-serving", fmt.Sprintf("after %s a valid query on the same listener is no longer answered (%d attempt(s))", desc, tries), nil)
				}
			}
		}()
	}
	wg.Wait()
	// DoQ: many undecodable frames on ONE connection (each on its own stream, abandoned without a reset by the client), more than
	// the listener's stream limit (quic-go default 100): a valid query on the same connection is still answered afterwards
	if a := addrs["quic"]; a != "" && alive() {
		func() {
			ctx, cancel := context.WithTimeout(context.Background(), 60*time.Second)
			defer cancel()
			conn, err := quic.DialAddr(ctx, a, &tls.Config{InsecureSkipVerify: true, NextProtos: []string{"doq"}}, &quic.Config{})
			if err != nil {
				rep.Note("quic same-connection phase skipped: " + err.Error())
				return
			}
			defer conn.CloseWithError(0, "")
			bad := c01Malformed()
			desc := "quic: 130 undecodable frames on one connection, then a valid query on the same connection"
			rep.Eval(desc)
			for i := 0; i < 130; i++ {
				octx, ocancel := context.WithTimeout(ctx, 10*time.Second)
				st, err := conn.OpenStreamSync(octx)
				ocancel()
				if err != nil {
					if !alive() {
						died("quic", desc)
						return
					}
					rep.Violate("C01:listener:quic:stopped-serving:same-connection", fmt.Sprintf("after %d undecodable frames on one connection no further stream can be opened (%v): the listener never retires the streams of rejected frames", i, err), nil)
					return
				}
				st.Write(refdns.Frame(bad[i%len(bad)]))
				st.Close()
			}
			octx, ocancel := context.WithTimeout(ctx, 10*time.Second)
			st, err := conn.OpenStreamSync(octx)
			ocancel()
			ok := false
			if err == nil {
				q := valid(0)
				st.SetDeadline(time.Now().Add(10 * time.Second))
				st.Write(refdns.Frame(q))
				st.Close()
				b, _ := io.ReadAll(io.LimitReader(st, 70000))
				if len(b) > 2 {
					ok = okResp(b[2:], 0)
				}
			}
			if !ok {
				if !alive() {
					died("quic", desc)
					return
				}
				rep.Violate("C01:listener:quic:stopped-serving:same-connection", fmt.Sprintf("a valid query on a connection that carried 130 undecodable frames before is not answered (open stream error: %v)", err), nil)
			}
		}()
	}
	// DoQ: many VALID queries on one connection, more than the listener's stream limit, by a client that ends each stream only after
	// it has read the answer (the FIN is not in the frame that carries the query): every one is answered - the listener finishes
	// both directions of an answered stream, so its credit comes back
	if a := addrs["quic"]; a != "" && alive() {
		func() {
			ctx, cancel := context.WithTimeout(context.Background(), 90*time.Second)
			defer cancel()
			conn, err := quic.DialAddr(ctx, a, &tls.Config{InsecureSkipVerify: true, NextProtos: []string{"doq"}}, &quic.Config{})
			if err != nil {
				rep.Note("quic many-valid-queries phase skipped: " + err.Error())
				return
			}
			defer conn.CloseWithError(0, "")
			desc := "quic: 130 valid queries on one connection, each stream closed by the client after it has read the answer"
			rep.Eval(desc)
			for i := 0; i < 130; i++ {
				octx, ocancel := context.WithTimeout(ctx, 10*time.Second)
				st, err := conn.OpenStreamSync(octx)
				ocancel()
				ok := false
				if err == nil {
					st.SetDeadline(time.Now().Add(10 * time.Second))
					st.Write(refdns.Frame(valid(0)))
					hdr := make([]byte, 2)
					if _, e := io.ReadFull(st, hdr); e == nil {
						body := make([]byte, int(hdr[0])<<8|int(hdr[1]))
						if _, e := io.ReadFull(st, body); e == nil {
							ok = okResp(body, 0)
						}
					}
					st.Close()
				}
				if !ok {
					if !alive() {
						died("quic", desc)
						return
					}
					rep.Violate("C01:listener:quic:stopped-serving:many-valid-queries", fmt.Sprintf("valid query #%d on one connection is not answered (open stream error: %v): answered streams are not retired", i+1, err), nil)
					return
				}
			}
		}()
	}
	// DoQ: streams whose length prefix announces more octets than are ever sent, left open by the client (no FIN, no reset), more than
	// the listener's stream limit: the listener gives each up after its read timeout and hands the stream credit back, so further
	// streams - and a valid query - still get through on the same connection
	if a := addrs["quic"]; a != "" && alive() {
		func() {
			ctx, cancel := context.WithTimeout(context.Background(), 90*time.Second)
			defer cancel()
			conn, err := quic.DialAddr(ctx, a, &tls.Config{InsecureSkipVerify: true, NextProtos: []string{"doq"}}, &quic.Config{})
			if err != nil {
				rep.Note("quic lying-length phase skipped: " + err.Error())
				return
			}
			defer conn.CloseWithError(0, "")
			desc := "quic: 120 streams with a length prefix of 100 and 10 octets of body, left open, then a valid query on the same connection"
			rep.Eval(desc)
			for i := 0; i < 120; i++ {
				octx, ocancel := context.WithTimeout(ctx, 20*time.Second)
				st, err := conn.OpenStreamSync(octx)
				ocancel()
				if err != nil {
					if !alive() {
						died("quic", desc)
						return
					}
					rep.Violate("C01:listener:quic:stopped-serving:lying-length-streams", fmt.Sprintf("after %d streams whose announced length never arrives no further stream can be opened for 20 s (%v): the listener never gives the stalled streams up", i, err), nil)
					return
				}
				st.Write(append([]byte{0, 100}, make([]byte, 10)...))
			}
			octx, ocancel := context.WithTimeout(ctx, 20*time.Second)
			st, err := conn.OpenStreamSync(octx)
			ocancel()
			ok := false
			if err == nil {
				st.SetDeadline(time.Now().Add(10 * time.Second))
				st.Write(refdns.Frame(valid(0)))
				st.Close()
				b, _ := io.ReadAll(io.LimitReader(st, 70000))
				if len(b) > 2 {
					ok = okResp(b[2:], 0)
				}
			}
			if !ok {
				if !alive() {
					died("quic", desc)
					return
				}
				rep.Violate("C01:listener:quic:stopped-serving:lying-length-streams", fmt.Sprintf("a valid query on a connection that carried 120 stalled streams is not answered (open stream error: %v)", err), nil)
			}
		}()
	}
	rep.Sample(map[string]any{"listener": "fasthttp", "input": "POST /dns-query without Content-Length", "expect": "HTTP error status, process alive, next valid query answered"})
}

func tail(s string, n int) string {
	if len(s) > n {
		return s[len(s)-n:]
	}
	return s
}
