package router

// C17 (abstract unix sockets, real sockets): an upstream whose dial_addr starts with "@" is reached over an abstract unix socket,
// and a stream listener whose address starts with "@" listens on one - through the router's own socket control function, which
// sets TCP-only options and must leave a unix socket alone.

import (
	"fmt"
	"io"
	"net"
	"os"
	"testing"
	"time"

	"github.com/IrineSistiana/mosproxy/internal/zzverif/env"
	"github.com/IrineSistiana/mosproxy/internal/zzverif/refdns"
	"github.com/IrineSistiana/mosproxy/internal/zzverif/report"
)

func TestVerifC17Unix(t *testing.T) {
	rep := report.New("C17 abstract unix sockets")
	defer rep.Write()
	upKinds := []string{"tcp", "tcp+pipeline"}
	rep.Rule = fmt.Sprintf("real run(): for each upstream kind %v an upstream whose dial_addr is an abstract unix socket (@name) served by a harness DNS-over-stream server, behind a tcp listener that itself listens on an abstract unix socket; "+
		"a client connects to the listener's socket and sends one query; oracle: the router starts, the query reaches the harness server behind @name (and nothing else), the client gets that server's answer", upKinds)
	if sh, _ := report.Shard(); sh != 0 {
		rep.Eval("idle-shard")
		rep.Eval("idle-shard2")
		return
	}
	for i, kind := range upKinds {
		upName := fmt.Sprintf("@verif_c17_up_%d_%d", os.Getpid(), i)
		lName := fmt.Sprintf("@verif_c17_l_%d_%d", os.Getpid(), i)
		ul, err := net.Listen("unix", upName)
		if err != nil {
			rep.Note("abstract unix sockets unavailable: " + err.Error())
			rep.Cap("abstract unix sockets unavailable")
			rep.Eval("unavailable")
			rep.Eval("unavailable2")
			return
		}
		seen := make(chan string, 16)
		go func() {
			for {
				c, err := ul.Accept()
				if err != nil {
					return
				}
				go func() {
					defer c.Close()
					for {
						hdr := make([]byte, 2)
						if _, err := io.ReadFull(c, hdr); err != nil {
							return
						}
						b := make([]byte, int(hdr[0])<<8|int(hdr[1]))
						if _, err := io.ReadFull(c, b); err != nil {
							return
						}
						q, err := refdns.Decode(b)
						if err != nil || len(q.Q) != 1 {
							return
						}
						seen <- q.Q[0].Name.String()
						c.Write(refdns.Frame(env.Answer(q, 42, 60).Encode(false)))
					}
				}()
			}
		}()
		cfg := &Config{
			Servers:   []ServerConfig{{Protocol: "tcp", Listen: lName}},
			Upstreams: []UpstreamConfig{{Tag: "u", Addr: kind + "://upstream.invalid", DialAddr: upName}},
			Rules:     []RuleConfig{{Forward: "u"}},
		}
		desc := fmt.Sprintf("upstream %s://upstream.invalid dial_addr=%s, listener tcp on %s", kind, upName, lName)
		rep.Eval(desc)
		r, err := run(t.Context(), cfg)
		if err != nil {
			rep.Violate("C17:unix:router-start:"+kind, fmt.Sprintf("the router does not start with %s: %v", desc, err), nil)
			ul.Close()
			continue
		}
		func() {
			defer r.close(nil)
			defer ul.Close()
			c, err := net.DialTimeout("unix", lName, 5*time.Second)
			if err != nil {
				rep.Violate("C17:unix:listener-unreachable:"+kind, fmt.Sprintf("cannot connect to the listener's abstract unix socket: %v (%s)", err, desc), nil)
				return
			}
			defer c.Close()
			q := refdns.Query(0x1717, refdns.N("unix", "example", "test"), 1, 1)
			c.Write(refdns.Frame(q.Encode(false)))
			c.SetReadDeadline(time.Now().Add(10 * time.Second))
			hdr := make([]byte, 2)
			var resp *refdns.Msg
			if _, err := io.ReadFull(c, hdr); err == nil {
				b := make([]byte, int(hdr[0])<<8|int(hdr[1]))
				if _, err := io.ReadFull(c, b); err == nil {
					resp, _ = refdns.Decode(b)
				}
			}
			got := ""
			select {
			case got = <-seen:
			default:
			}
			_, s, ok := byte(0), byte(0), false
			if resp != nil {
				_, s, ok = env.AnswerKey(resp)
			}
			if got != "unix.example.test" || resp == nil || resp.RCode() != 0 || !ok || s != 42 {
				rep.Violate("C17:unix:upstream-not-reached:"+kind, fmt.Sprintf("the server behind %s saw %q and the client got %v: the upstream is not reached over its abstract unix socket (%s)", upName, got, resp, desc), nil)
			}
		}()
	}
	rep.Sample(map[string]any{"upstream": "tcp://upstream.invalid dial_addr=@name", "expect": "the query arrives at the unix socket server, its answer comes back"})
}
