package router

// C19 (lock level): prefetchCtl.reserve/done under the E2 scheduler (sync ->
// vsync in app/router/cache.go by import rewriting): never two holders per key.

import (
	"fmt"
	"strings"
	"testing"

	"github.com/IrineSistiana/mosproxy/internal/zzverif/choice"
	"github.com/IrineSistiana/mosproxy/internal/zzverif/report"
	"github.com/IrineSistiana/mosproxy/internal/zzverif/sched"
)

func c19E2Scenario(c *choice.Ctx, rep *report.R) {
	ctl := newPrefetchCtl()
	holders := map[uint64]int{}
	maxHolders := map[uint64]int{}
	started := map[uint64]int{}
	prog := func(keys ...uint64) func() {
		return func() {
			for _, k := range keys {
				if ctl.reserve(k) {
					holders[k]++
					started[k]++
					if holders[k] > maxHolders[k] {
						maxHolders[k] = holders[k]
					}
					sched.Point("refresh in flight") // the upstream exchange
					holders[k]--
					ctl.done(k)
				}
			}
		}
	}
	s := sched.Run(c, []string{"hit1", "hit2", "hit3"}, []func(){prog(1, 2), prog(1), prog(2, 1)})
	fail := func(sig, msg string) {
		rep.Violate("C19:ctl:"+sig, msg+"\n  schedule: "+strings.Join(s.Trace, " "), map[string]any{"Choices": c.Choices()})
	}
	if s.Deadlock {
		fail("deadlock", "no thread can proceed")
	}
	for _, p := range s.Panics() {
		fail("panic", p)
	}
	for k, n := range maxHolders {
		if n > 1 {
			fail("two-refreshes-in-flight", fmt.Sprintf("%d refreshes in flight for key %d", n, k))
		}
	}
	if len(ctl.queue) != 0 {
		fail("reservation-leaked", fmt.Sprintf("%d keys still reserved after every refresh finished", len(ctl.queue)))
	}
	if started[1] == 0 || started[2] == 0 {
		fail("refresh-never-started", "no refresh was started for a key although hits arrived")
	}
	rep.Eval(strings.Join(s.Trace, " "))
	rep.State(fmt.Sprintf("%v", started))
	rep.AddTransitions(int64(s.Steps))
}

func TestVerifC19E2(t *testing.T) {
	rep := report.New("C19 prefetchCtl under the controlled scheduler")
	defer rep.Write()
	bound := report.ParamInt("PREEMPTIONS", 4)
	rep.Rule = fmt.Sprintf("E2: real prefetchCtl (sync->vsync) with three hit handlers over two colliding keys, each 'if reserve(k) { refresh (scheduling point); done(k) }'; all interleavings with <=%d preemptions; oracle: never two holders of one key, no leaked reservation, no deadlock", bound)
	sh, n := report.Shard()
	if rp := report.ReplayFile(); rp != nil {
		var x struct{ Choices []int }
		rp.Decode(&x)
		choice.Replay(x.Choices, true, func(c *choice.Ctx) bool { c19E2Scenario(c, rep); return true })
		return
	}
	st := choice.Explore(choice.Options{Bound: bound, Shard: sh, NShards: n, ShardDepth: 4, Deadline: report.Deadline()}, func(c *choice.Ctx) bool {
		c19E2Scenario(c, rep)
		return rep.NViolations() < 20
	})
	if st.Capped {
		rep.Cap(st.CapReason)
	}
	rep.Sample(map[string]any{"threads": "reserve(1);done(1);reserve(2);done(2) | reserve(1);done(1) | reserve(2);done(2);reserve(1);done(1)"})
}
