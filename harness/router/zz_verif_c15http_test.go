package router

// C15 (DoH admission at accept time, real net/http listener on loopback): the connection cost is charged by a wrapper around the
// listener (app/router/limiter.go). A refused connection must cost only that client: the listener keeps accepting, clients of
// other subnets are served, and the refused client is served again once its bucket has refilled.

import (
	"bufio"
	"encoding/base64"
	"fmt"
	"net"
	"net/http"
	"testing"
	"time"

	"github.com/IrineSistiana/mosproxy/internal/zzverif/env"
	"github.com/IrineSistiana/mosproxy/internal/zzverif/refdns"
	"github.com/IrineSistiana/mosproxy/internal/zzverif/report"
)

// c15HTTPGet opens a connection from clientIP and sends one DoH GET on it: "answer", "status<N>", "refused" (closed before a reply).
func c15HTTPGet(server, clientIP string, id uint16) string {
	d := net.Dialer{LocalAddr: &net.TCPAddr{IP: net.ParseIP(clientIP)}, Timeout: 5 * time.Second}
	c, err := d.Dial("tcp4", server)
	if err != nil {
		return "dial-failed"
	}
	defer c.Close()
	c.SetDeadline(time.Now().Add(8 * time.Second))
	q := refdns.Query(id, refdns.N("doh", "example", "test"), 1, 1).Encode(false)
	fmt.Fprintf(c, "GET /dns-query?dns=%s HTTP/1.1\r\nHost: x\r\nAccept: application/dns-message\r\n\r\n", base64.RawURLEncoding.EncodeToString(q))
	resp, err := http.ReadResponse(bufio.NewReader(c), nil)
	if err != nil {
		return "refused"
	}
	defer resp.Body.Close()
	if resp.StatusCode != 200 {
		return fmt.Sprintf("status%d", resp.StatusCode)
	}
	return "answer"
}

func TestVerifC15HTTPAccept(t *testing.T) {
	rep := report.New("C15 DoH admission at accept time (real net/http)")
	defer rep.Write()
	rep.Rule = "real http and fasthttp listeners started by run() on 127.0.0.1 with client limiter rate 1/s burst 5 (one connection 3 + one query 2); script: connection+query from 127.1.1.7 (served), a second and third connection from 127.1.1.7 right away (the bucket is empty: not served), connection+query from 127.1.2.7 (fresh subnet: must be served whatever 127.1.1.7 did), " +
		"6 s later connection+query from 127.1.1.7 again (its bucket has refilled: must be served - the listener survived the refusals); oracle one-sided in time (waiting longer only adds tokens); distinct = distinct (client, outcome)"
	if sh, _ := report.Shard(); sh != 0 {
		rep.Eval("idle-shard")
		rep.Eval("idle-shard2")
		return
	}
	for ki, kind := range []string{"http", "fasthttp"} {
		c15HTTPAcceptKind(t, rep, kind, byte(10*(ki+1)))
	}
}

func c15HTTPAcceptKind(t *testing.T, rep *report.R, kind string, net3 byte) {
	l, err := net.Listen("tcp4", "127.0.0.1:0")
	if err != nil {
		t.Fatal(err)
	}
	addr := l.Addr().String()
	l.Close()
	ipA, ipB := fmt.Sprintf("127.%d.1.7", net3), fmt.Sprintf("127.%d.2.7", net3)
	cfg := c03Config("forward")
	cfg.Limiter.Client = ClientLimiterConfig{Limit: 1, Burst: costTCPConn + costHTTPQuery}
	cfg.Servers = []ServerConfig{{Protocol: kind, Listen: addr}}
	v, err := vNewRouter(cfg, "u1")
	if err != nil {
		rep.Violate("C15:"+kind+"-accept:router-start", err.Error(), nil)
		return
	}
	defer v.r.close(nil)
	v.ups["u1"].Auto = func(q *upQuery) *upResult { return &upResult{wire: env.Answer(q.Msg, 1, 60).Encode(false)} }
	if probe, err := net.ListenTCP("tcp4", &net.TCPAddr{IP: net.ParseIP(ipA)}); err != nil {
		rep.Note("loopback alias unavailable: " + err.Error())
		rep.Cap("loopback alias unavailable")
		rep.Eval("unavailable")
		rep.Eval("unavailable2")
		return
	} else {
		probe.Close()
	}
	a1 := c15HTTPGet(addr, ipA, 1)
	rep.Eval(kind + " A1:" + a1)
	a2 := c15HTTPGet(addr, ipA, 2)
	a3 := c15HTTPGet(addr, ipA, 3)
	rep.Eval(kind + " A2:" + a2 + " A3:" + a3)
	b := c15HTTPGet(addr, ipB, 4)
	rep.Eval(kind + " B:" + b)
	if a1 != "answer" {
		rep.Violate("C15:"+kind+"-accept:first-client-not-served", "the first DoH client (one connection, one query, burst exactly that) was not served: "+a1, nil)
	}
	// (the fasthttp listener charges nothing - its requests never reach the limiter -, so only the isolation clauses are judged there)
	if kind == "http" && a2 == "answer" && a3 == "answer" {
		rep.Violate("C15:"+kind+"-accept:bound-exceeded", "three connections with a query each from 127.1.1.7 within moments were all served: 15 charged against burst 5 + 1/s", nil)
	}
	if b != "answer" {
		rep.Violate("C15:"+kind+"-accept:fresh-subnet-refused", fmt.Sprintf("a DoH client from a fresh subnet (127.1.2.7) was not served (%s) after connections from 127.1.1.7 were refused: a refusal must cost only the refused client", b), nil)
	}
	time.Sleep(6 * time.Second)
	a4 := c15HTTPGet(addr, ipA, 5)
	rep.Eval(kind + " A4:" + a4)
	if a4 != "answer" {
		rep.Violate("C15:"+kind+"-accept:refused-within-budget", fmt.Sprintf("6 s after its last admitted request (bucket refilled to burst 5) 127.1.1.7 was not served (%s): the listener did not survive the refusals", a4), nil)
	}
	rep.Sample(map[string]any{"listener": kind, "A1": a1, "A2": a2, "A3": a3, "B": b, "A4": a4})
}
