package router

// C04: answers are never mixed up between concurrent queries. Real router with
// a real upstream transport (pipelined TCP / pipelined UDP / one-at-a-time TCP)
// over the scripted dialer, two clients on different listeners, cache off / on
// / tiny; all orders of query arrivals and upstream reply deliveries, from a fresh router and after an unsupported query.

import (
	"bytes"
	"encoding/base64"
	"fmt"
	"io"
	"net/http"
	"os"
	"strings"
	"sync"
	"testing"
	"time"

	"github.com/IrineSistiana/mosproxy/internal/upstream/transport"
	"github.com/IrineSistiana/mosproxy/internal/zzverif/choice"
	"github.com/IrineSistiana/mosproxy/internal/zzverif/env"
	"github.com/IrineSistiana/mosproxy/internal/zzverif/refdns"
	"github.com/IrineSistiana/mosproxy/internal/zzverif/report"
)

type c04Q struct {
	name       refdns.Name
	class, typ uint16
}

var c04Questions = []c04Q{
	{refdns.N("one", "example", "test"), 1, 1},
	{refdns.N("two", "example", "test"), 1, 1},
	{refdns.N("one", "example", "test"), 257, 1}, // other class (same low octet as IN: a key that keeps only part of the field collides)
	{refdns.N("one", "example", "test"), 1, 257}, // other type (CAA; same low octet as A)
	{refdns.N("ONE", "Example", "test"), 1, 1},   // same question, other case
}

// triples of question indexes (repetitions are the interesting part)
var c04Triples = [][3]int{{0, 1, 0}, {0, 0, 0}, {0, 2, 3}, {0, 4, 1}, {1, 0, 2}, {0, 3, 0}, {2, 0, 4}}

var c04Upstreams = []string{"pipeline-tcp", "pipeline-udp", "reuse-tcp", "doh"}
var c04Pairs = [][2]string{{"udp", "tcp"}, {"tcp", "gnet"}, {"http-post", "udp"}, {"gnet", "fasthttp-get"}, {"tls", "quic"}, {"tcp", "tcp"}}
var c04Caches = []int{0, 1 << 20, 200} // off, ample, tiny (evictions)

// c04RT is a scripted http.RoundTripper for the DoH transport. Like a real client it serialises the request only when it gets to
// send it (here: when the harness delivers the reply), so the server answers what the request's URL says at that moment.
type c04RT struct {
	mu      sync.Mutex
	pending []*c04Req
	closed  bool
}

type c04Req struct {
	req  *http.Request
	ch   chan *http.Response
	done bool
}

func (r *c04RT) RoundTrip(req *http.Request) (*http.Response, error) {
	p := &c04Req{req: req, ch: make(chan *http.Response, 1)}
	r.mu.Lock()
	if r.closed {
		r.mu.Unlock()
		return nil, errScripted
	}
	r.pending = append(r.pending, p)
	r.mu.Unlock()
	select {
	case resp := <-p.ch:
		if resp == nil {
			return nil, errScripted
		}
		return resp, nil
	case <-req.Context().Done():
		return nil, req.Context().Err()
	}
}

func (r *c04RT) Close() error {
	r.mu.Lock()
	defer r.mu.Unlock()
	r.closed = true
	for _, p := range r.pending {
		if !p.done {
			p.done = true
			p.ch <- nil
		}
	}
	return nil
}

// deliver answers pending request i with the answer to the question its URL carries now.
func (r *c04RT) deliver(i int, serial byte) {
	r.mu.Lock()
	p := r.pending[i]
	p.done = true
	r.mu.Unlock()
	var body []byte
	if b, err := base64.RawURLEncoding.DecodeString(p.req.URL.Query().Get("dns")); err == nil {
		if m, err := refdns.Decode(b); err == nil {
			body = env.Answer(m, serial, 60).Encode(false)
		}
	}
	h := http.Header{}
	h.Set("Content-Type", "application/dns-message")
	p.ch <- &http.Response{StatusCode: 200, Header: h, Body: io.NopCloser(bytes.NewReader(body)), ContentLength: int64(len(body)), Request: p.req}
}

func (r *c04RT) open() []int {
	r.mu.Lock()
	defer r.mu.Unlock()
	var out []int
	for i, p := range r.pending {
		if !p.done && p.req.Context().Err() == nil {
			out = append(out, i)
		}
	}
	return out
}

var c04AsC10 = os.Getenv("VERIF_PROP") == "C10"

func c04Scenario(c *choice.Ctx, rep *report.R, depth int) {
	own := env.InstallOwn(0xA5, vRace)
	defer env.UninstallOwn()
	seamIdle = 1000 * time.Second // the scenario lets up to ~100 s pass between two queries of one client
	defer func() { seamIdle = 30 * time.Second }()
	caches, pairs, triples := c04Caches, c04Pairs, c04Triples
	if !report.Thorough() { // the quick tier walks a third of the configuration product, the thorough tier all of it
		caches, pairs, triples = c04Caches[:2], c04Pairs[:3], c04Triples[:4]
	}
	upKind := c04Upstreams[c.Choose(len(c04Upstreams), "upstream")]
	cacheSize := caches[c.Choose(len(caches), "cache")]
	pair := pairs[c.Choose(len(pairs), "listeners")]
	triple := triples[c.Choose(len(triples), "questions")]
	var trace []string
	desc := fmt.Sprintf("upstream=%s cache=%d listeners=%v questions=%v", upKind, cacheSize, pair, triple)
	fail := func(sig, msg string) {
		if c04AsC10 {
			// as a part of C10: with queries in flight concurrently, every forwarded query still carries exactly the question that was
			// asked and the client gets the answer to it
			if sig != "foreign-question" && sig != "foreign-answer" && sig != "upstream-asked-foreign-question" {
				return
			}
			rep.Violate("C10:concurrent-queries:"+sig, msg+"\n  "+desc+" events: "+strings.Join(trace, " "), map[string]any{"Choices": c.Choices()})
			return
		}
		rep.Violate("C04:"+sig, msg+"\n  "+desc+" events: "+strings.Join(trace, " "), map[string]any{"Choices": c.Choices()})
	}
	cfg := c03Config("forward")
	cfg.Cache.MemSize = cacheSize
	v, err := vNewRouter(cfg, "u1")
	if err != nil {
		fail("router-start", err.Error())
		return
	}
	defer v.Close()
	tcp := upKind != "pipeline-udp"
	network := "tcp"
	if !tcp {
		network = "udp"
	}
	d := env.NewDialer(network)
	var tr transport.Transport
	var rt *c04RT
	switch upKind {
	case "pipeline-tcp":
		tr = transport.NewPipelineTransport(transport.PipelineOpts{DialContext: d.Dial, IsTCP: true, IdleTimeout: 10 * time.Second, MaxConcurrentQuery: 64})
	case "pipeline-udp":
		tr = transport.NewPipelineTransport(transport.PipelineOpts{DialContext: d.Dial, IsTCP: false, IdleTimeout: time.Minute, MaxConcurrentQuery: 4096})
	case "doh":
		rt = &c04RT{}
		dt, err := transport.NewDoHTransport(transport.DoHTransportOpts{EndPointUrl: "https://dns.example/dns-query", RoundTripper: rt, Closer: rt})
		if err != nil {
			panic(err)
		}
		tr = dt
	default:
		tr = transport.NewReuseConnTransport(transport.ReuseConnOpts{DialContext: d.Dial, IdleTimeout: 10 * time.Second})
	}
	v.r.upstreams["u1"].u = tr
	v.closers = append(v.closers, func() {
		for i := 0; i < d.NumConns(); i++ {
			d.ImplEnd(i).Abort()
		}
		if rt != nil {
			rt.Close()
		}
	})
	seamByName := func(n string) c03Seam {
		for _, s := range c03Seams {
			if s.name == n {
				return s
			}
		}
		panic(n)
	}
	// non-initial state: another client first sent a query the proxy answers itself (RD=0 -> NOTIMP, two questions -> NOTIMP): the
	// objects of that exchange have gone back to their pools before the concurrent queries start
	if pre := c.Choose(3, "prelude"); pre > 0 {
		pc := seamByName("tcp").open(v)
		pq := refdns.Query(0x04F0, refdns.N("prelude", "example", "test"), 1, 1)
		if pre == 1 {
			pq.Bits &^= refdns.BitRD
		} else {
			pq.Q = append(pq.Q, refdns.Q{Name: refdns.N("second", "example", "test"), Type: 1, Class: 1})
		}
		pc.send(pq)
		wait()
		if pc.count() != 1 {
			fail("prelude-unanswered", "the unsupported prelude query got no response")
		}
		pc.close()
		wait()
		trace = append(trace, fmt.Sprintf("prelude%d", pre))
	}
	clients := []c03Client{seamByName(pair[0]).open(v), seamByName(pair[1]).open(v)}
	owner := []int{0, 1, 0} // query i is sent by client owner[i]
	if pair[0] == "quic" || pair[1] == "quic" || strings.HasPrefix(pair[0], "http") || strings.HasPrefix(pair[1], "fasthttp") {
		// one-shot seams: open a fresh client per query
	}
	sent := 0
	type pendingReply struct {
		conn int
		idx  int
		q    env.PeerQuery
	}
	handled := map[int]int{}
	serial := byte(0)
	perClientSent := map[int][]int{}
	freshClient := func(i int) c03Client {
		// quic streams and http requests carry one query each
		name := pair[owner[i]]
		if name == "quic" {
			return seamByName(name).open(v)
		}
		return clients[owner[i]]
	}
	var qClients [3]c03Client
	checkResponses := func() {
		// every query the upstream receives must be for a question some client asked (fresh or as a refresh)
		for ci := 0; ci < d.NumConns(); ci++ {
			for _, uq := range env.QueriesOn(ci, d.ImplEnd(ci), tcp) {
				if uq.Msg == nil || len(uq.Msg.Q) != 1 {
					fail("garbled-upstream-query", fmt.Sprintf("%x", uq.Wire))
					continue
				}
				known := false
				for i := 0; i < sent; i++ {
					q := c04Questions[triple[i]]
					if uq.Msg.Q[0].Name.Equal(q.name.Lower()) && uq.Msg.Q[0].Class == q.class && uq.Msg.Q[0].Type == q.typ {
						known = true
					}
				}
				if !known {
					fail("upstream-asked-foreign-question", fmt.Sprintf("the upstream received a query for %s/%d/%d which no client asked: request data was lost or mixed up", uq.Msg.Q[0].Name, uq.Msg.Q[0].Class, uq.Msg.Q[0].Type))
				}
			}
		}
		for i := 0; i < sent; i++ {
			cl := qClients[i]
			msgs, raws := cl.responses()
			for k, m := range msgs {
				if m == nil {
					fail("undecodable-response", fmt.Sprintf("%x", raws[k]))
					continue
				}
				if t := own.Tainted(raws[k]); t != "" {
					fail("tainted-response", "response contains "+t)
				}
				if m.ID != uint16(0x0400+i) {
					continue // a response to another query of the same client
				}
				q := c04Questions[triple[i]]
				if m.RCode() == 2 {
					continue // SERVFAIL (upstream connection trouble) carries no answer
				}
				if len(m.Q) != 1 || !m.Q[0].Name.Lower().Equal(q.name.Lower()) || m.Q[0].Class != q.class || m.Q[0].Type != q.typ {
					fail("foreign-question", fmt.Sprintf("response to query %d (%s/%d/%d) carries question %v", i, q.name, q.class, q.typ, m.Q))
				}
				k3, _, ok := env.AnswerKey(m)
				if m.RCode() == 0 && (!ok || k3 != env.KeyIP(q.name, q.class, q.typ)) {
					fail("foreign-answer", fmt.Sprintf("the answer in the response to query %d (%s/%d/%d) was produced for a different question: %s", i, q.name, q.class, q.typ, m.Canon()))
				}
			}
		}
	}
	for step := 0; step < depth; step++ {
		var menu []event
		if sent < 3 {
			i := sent
			menu = append(menu, event{name: fmt.Sprintf("send%d(%s)", i, pair[owner[i]]), do: func() {
				q := c04Questions[triple[i]]
				qClients[i] = freshClient(i)
				qClients[i].send(refdns.Query(uint16(0x0400+i), q.name, q.typ, q.class))
				perClientSent[owner[i]] = append(perClientSent[owner[i]], i)
				sent++
			}})
		}
		for ci := 0; ci < d.NumConns(); ci++ {
			ci := ci
			impl := d.ImplEnd(ci)
			if impl.IsClosed() {
				continue
			}
			qs := env.QueriesOn(ci, impl, tcp)
			if upKind == "reuse-tcp" {
				if len(qs) > handled[ci] && qs[handled[ci]].Msg != nil {
					q := qs[handled[ci]]
					menu = append(menu, event{name: fmt.Sprintf("reply(c%d)", ci), do: func() {
						handled[ci]++
						serial++
						impl.Inject(refdns.Frame(env.Answer(q.Msg, serial, 60).Encode(false)))
					}})
				}
				continue
			}
			// pipelined: any outstanding query may be answered next
			for j := range qs {
				j := j
				if qs[j].Msg == nil || handled[ci*1000+j+1] != 0 {
					continue
				}
				menu = append(menu, event{name: fmt.Sprintf("reply(c%d#%d)", ci, j), do: func() {
					handled[ci*1000+j+1] = 1
					serial++
					b := env.Answer(qs[j].Msg, serial, 60).Encode(false)
					if tcp {
						b = refdns.Frame(b)
					}
					impl.Inject(b)
				}})
			}
		}
		if rt != nil {
			for _, ri := range rt.open() {
				ri := ri
				menu = append(menu, event{name: fmt.Sprintf("reply(doh#%d)", ri), do: func() {
					serial++
					rt.deliver(ri, serial)
				}})
			}
		}
		menu = append(menu, event{name: "advance1s", do: func() { hsleep(time.Second) }})
		// longer steps (request deadline / I-O deadline of the upstream; into the refresh window of a 60 s answer) cost one deviation each
		menu = append(menu, event{name: "advance6s", fault: true, do: func() { hsleep(6 * time.Second) }})
		menu = append(menu, event{name: "advance46s", fault: true, do: func() { hsleep(46 * time.Second) }})
		ev := pickEvent(c, menu)
		if ev == nil {
			break
		}
		trace = append(trace, ev.name)
		ev.do()
		wait()
		checkResponses()
	}
	if rt != nil {
		for guard := 0; guard < 8; guard++ {
			op := rt.open()
			if len(op) == 0 {
				break
			}
			serial++
			rt.deliver(op[0], serial)
			wait()
		}
	}
	// answer whatever is still outstanding, let deadlines pass, final check: every query got exactly one response
	for ci := 0; ci < d.NumConns(); ci++ {
		impl := d.ImplEnd(ci)
		for guard := 0; guard < 6 && !impl.IsClosed(); guard++ {
			qs := env.QueriesOn(ci, impl, tcp)
			progressed := false
			for j := range qs {
				key := ci*1000 + j + 1
				if upKind == "reuse-tcp" {
					if j < handled[ci] {
						continue
					}
					handled[ci] = j + 1
				} else if handled[key] != 0 {
					continue
				}
				handled[key] = 1
				if qs[j].Msg != nil {
					serial++
					b := env.Answer(qs[j].Msg, serial, 60).Encode(false)
					if tcp {
						b = refdns.Frame(b)
					}
					impl.Inject(b)
					progressed = true
					wait()
				}
			}
			if !progressed {
				break
			}
		}
	}
	hsleep(7 * time.Second)
	wait()
	checkResponses()
	for i := 0; i < sent; i++ {
		msgs, _ := qClients[i].responses()
		n := 0
		for _, m := range msgs {
			if m != nil && m.ID == uint16(0x0400+i) {
				n++
			}
		}
		if n != 1 {
			fail("response-count", fmt.Sprintf("query %d received %d responses", i, n))
		}
	}
	tr.Close()
	v.Close()
	for _, x := range own.Audit() {
		fail("ownership", x)
	}
	rep.Eval(desc + strings.Join(trace, ","))
	rep.State(fmt.Sprintf("%s|%d|%v|%d", upKind, cacheSize, triple, len(trace)))
}

func TestVerifC04(t *testing.T) {
	rep := report.New("C04 answers never mixed up")
	defer rep.Write()
	depth := report.ParamInt("DEPTH", 7)
	rep.Rule = fmt.Sprintf("E3: real router + real upstream transport %v over the scripted dialer + cache {off, ample, 200 bytes (evictions)}; start state {fresh router, after a query answered NOTIMP by the proxy itself (RD=0 / two questions)}; listener pairs %v; question triples %v over {one/IN/A, two/IN/A, one/class257/A, one/IN/CAA(257), ONE (case variant)}, query 0 and 2 from the first client, query 1 from the second; "+
		"all sequences of length <=%d over {send next query, deliver the reply to any outstanding upstream query (any order on pipelined transports), advance 1 s, advance 6 s / 46 s (bounded number per execution)}; then every outstanding reply is delivered; "+
		"oracle after every event: every client-visible response to query i carries i's own question and the answer the upstream produced for exactly that (name, class, type) - fresh or from cache -, no poison/uninit bytes; finally exactly one response per query",
		c04Upstreams, c04Pairs, c04Triples, depth)
	st := runExplore(t, rep, report.ParamInt("LONGSTEPS", 1), func(c *choice.Ctx) { c04Scenario(c, rep, depth) })
	rep.Count("executions", st.Executions)
	rep.Sample(map[string]any{"upstream": "pipeline-tcp", "cache": "ample", "listeners": "udp+tcp", "questions": "[one/IN/A, two/IN/A, one/IN/A]", "events": "send0 send1 reply(c0#1) send2 reply(c0#0) reply(c0#2)"})
}
