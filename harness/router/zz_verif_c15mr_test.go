package router

// C15 (real sockets, wildcard UDP listener with multi_routes): a query refused by
// the limiter is answered REFUSED - and the answer reaches the client, i.e. it
// comes from the address the query was sent to. Clients use connected UDP sockets
// (the kernel drops datagrams from any other source address) towards several
// local addresses of the wildcard listener; each sends more queries than its
// budget allows.

import (
	"context"
	"fmt"
	"net"
	"testing"
	"time"

	"github.com/IrineSistiana/mosproxy/internal/mlog"
	"github.com/IrineSistiana/mosproxy/internal/zzverif/refdns"
	"github.com/IrineSistiana/mosproxy/internal/zzverif/report"
	"github.com/rs/zerolog"
)

func TestVerifC15MultiRoute(t *testing.T) {
	mlog.SetLvl(zerolog.Disabled)
	rep := report.New("C15 refusals on a multi-route UDP listener")
	defer rep.Write()
	rep.Rule = "real router started from configuration: UDP listener on the IPv4 wildcard address with multi_routes {on, off} and on the dual-stack wildcard [::] with multi_routes on (IPv4 clients, IPv4-mapped there); query names of several lengths, client limiter rate 1/s burst 3, a reject rule (no upstream); clients with connected UDP sockets towards " +
		"127.0.0.1, 127.0.0.2 and 127.0.0.77 send 8 queries each, 30 ms apart; oracle (no timing): every query gets exactly one response on the connected socket within 3 s - NXDOMAIN (admitted) or REFUSED (over budget) -, at least one of each per client"
	if sh, _ := report.Shard(); sh != 0 {
		rep.Eval("idle-shard")
		rep.Eval("idle-shard2")
		return
	}
	type mode struct {
		multi   bool
		listen  string
		threads int
	}
	// (threads > 1: several sockets share the port, the kernel spreads the clients over them by their address and port - every one
	// of the sockets has to behave like the first)
	modes := []mode{{true, "0.0.0.0", 0}, {false, "0.0.0.0", 0}, {true, "0.0.0.0", 4}}
	if pc6, err := net.ListenPacket("udp", "[::]:0"); err == nil {
		pc6.Close()
		modes = append(modes, mode{true, "[::]", 0}) // dual-stack wildcard: IPv4 clients arrive with IPv4-mapped addresses
	} else {
		rep.Note("no IPv6 wildcard socket here: dual-stack mode skipped")
	}
	for _, md := range modes {
		multi := md.multi
		var r *router
		var port int
		var err error
		for try := 0; try < 3; try++ {
			pc, e := net.ListenPacket("udp", "127.0.0.1:0")
			if e != nil {
				t.Fatal(e)
			}
			port = pc.LocalAddr().(*net.UDPAddr).Port
			pc.Close()
			cfg := &Config{
				Servers: []ServerConfig{{Protocol: "udp", Listen: fmt.Sprintf("%s:%d", md.listen, port), Udp: UdpConfig{MultiRoutes: multi, Threads: md.threads}}},
				Rules:   []RuleConfig{{Reject: 3}},
				Limiter: LimiterConfig{Client: ClientLimiterConfig{Limit: 1, Burst: 3}},
			}
			r, err = run(context.Background(), cfg)
			if err == nil {
				break
			}
		}
		if err != nil {
			rep.Violate("C15:multi-route:router-start", err.Error(), nil)
			continue
		}
		if md.threads > 1 {
			// 12 clients (12 source ports), one query each, to a non-default local address: every client gets its response (REFUSED
			// counts: the subnet's burst is 3) on its connected socket, whichever of the listener's sockets the kernel gave it to
			desc := fmt.Sprintf("listen %s multi_routes=%v threads=%d, 12 clients -> 127.0.0.2:%d", md.listen, multi, md.threads, port)
			rep.Eval(desc)
			var cs []net.Conn
			for i := 0; i < 12; i++ {
				c, err := net.Dial("udp", fmt.Sprintf("127.0.0.2:%d", port))
				if err != nil {
					rep.Note("cannot reach 127.0.0.2: " + err.Error())
					break
				}
				cs = append(cs, c)
				c.Write(refdns.Query(uint16(0x1600+i), refdns.N("mr", "example", "test"), 1, 1).Encode(false))
			}
			silent := 0
			for i, c := range cs {
				c.SetReadDeadline(time.Now().Add(3 * time.Second))
				buf := make([]byte, 1500)
				k, err := c.Read(buf)
				if err != nil {
					silent++
				} else if m, derr := refdns.Decode(buf[:k]); derr != nil || m.ID != uint16(0x1600+i) {
					rep.Violate("C15:multi-route:threads:wrong-response", desc, nil)
				}
				c.Close()
			}
			if silent > 0 {
				rep.Violate("C15:multi-route:threads:no-response", fmt.Sprintf("%d of %d clients got no response from the address they asked: %s", silent, len(cs), desc), nil)
			}
			time.Sleep(3200 * time.Millisecond)
			r.close(nil)
			continue
		}
		for _, dst := range []string{"127.0.0.1", "127.0.0.2", "127.0.0.77"} {
			if !multi && dst != "127.0.0.1" {
				// without multi_routes the reply source is the kernel's choice; only the default address is promised to work
				continue
			}
			desc := fmt.Sprintf("listen %s multi_routes=%v client -> %s:%d", md.listen, multi, dst, port)
			rep.Eval(desc)
			c, err := net.Dial("udp", fmt.Sprintf("%s:%d", dst, port))
			if err != nil {
				rep.Note("cannot reach " + dst + ": " + err.Error())
				continue
			}
			const n = 8
			for i := 0; i < n; i++ {
				// (names of different lengths, also a very short one: response and control-message buffers of several size classes get
				// recycled between the replies)
				name := [][]string{{"mr", "example", "test"}, {"a", "io"}, {"a"}, {"mr", "example", "test"}}[i%4]
				c.Write(refdns.Query(uint16(0x1500+i), refdns.N(name...), 1, 1).Encode(false))
				time.Sleep(30 * time.Millisecond)
			}
			got := map[uint16]int{}
			rcodes := map[int]int{}
			c.SetReadDeadline(time.Now().Add(3 * time.Second))
			buf := make([]byte, 1500)
			for len(got) < n {
				k, err := c.Read(buf)
				if err != nil {
					break
				}
				m, derr := refdns.Decode(buf[:k])
				if derr != nil {
					rep.Violate("C15:multi-route:undecodable-response", desc, nil)
					continue
				}
				got[m.ID]++
				rcodes[m.RCode()]++
			}
			c.Close()
			for i := 0; i < n; i++ {
				switch got[uint16(0x1500+i)] {
				case 0:
					rep.Violate(fmt.Sprintf("C15:multi-route:no-response:multi_routes=%v", multi), fmt.Sprintf("query %d of %d got no response on the connected socket (admitted so far: %d NXDOMAIN, %d REFUSED received): %s", i, n, rcodes[3], rcodes[5], desc), nil)
				case 1:
				default:
					rep.Violate("C15:multi-route:duplicate-response", desc, nil)
				}
				if got[uint16(0x1500+i)] == 0 {
					break
				}
			}
			if rcodes[5] == 0 && len(got) == n {
				rep.Violate("C15:multi-route:nothing-refused", fmt.Sprintf("8 queries within 0.3 s with burst 3 and none was refused: %s", desc), nil)
			}
			for rc := range rcodes {
				if rc != 3 && rc != 5 {
					rep.Violate("C15:multi-route:unexpected-rcode", fmt.Sprintf("rcode %d: %s", rc, desc), nil)
				}
			}
			time.Sleep(3200 * time.Millisecond) // let the subnet's bucket refill before the next client (all are in 127.0.0.0/24)
		}
		r.close(nil)
	}
	rep.Sample(map[string]any{"client": "connected socket to 127.0.0.2", "expect": "3-4 NXDOMAIN, the rest REFUSED, all from 127.0.0.2"})
}
