package router

// C10 (configuration errors): the real binary is built from the current tree
// and run on generated YAML files: one good configuration and one variant per
// error kind x nesting level.

import (
	"bytes"
	"fmt"
	"os"
	"os/exec"
	"path/filepath"
	"strings"
	"testing"
	"time"

	"github.com/IrineSistiana/mosproxy/internal/zzverif/report"
)

const c10GoodYAML = `
servers:
  - tag: s1
    protocol: udp
    listen: 127.0.0.1:0
    idle_timeout: 10
    udp: {threads: 1}
    tcp: {max_concurrent_queries: 10}
    tls: {insecure_skip_verify: false}
    http: {path: /dns-query}
    quic: {max_streams: 10}
    socket: {so_reuseport: false}
  - tag: s2
    protocol: tcp
    listen: 127.0.0.1:0
upstreams:
  - tag: u1
    addr: tcp://127.0.0.1:53
    dial_addr: ""
    tls: {insecure_skip_verify: false}
    socket: {so_mark: 0}
  - tag: u2
    addr: udp://127.0.0.1:53
domain_sets:
  - tag: d1
    files: [%q]
  - tag: d2
    files: []
rules:
  - domain: d1
    reverse: false
    reject: 0
    forward: u1
  - forward: u2
log: {queries: false}
cache: {mem_size: 1048576, maximum_ttl: 60}
ecs: {enabled: true}
metrics: {addr: ""}
limiter:
  global_limit: 0
  client: {limit: 0, burst: 0, v4_mask: 24, v6_mask: 48}
`

type c10Edit struct {
	name string
	old  string
	new  string
}

func c10Edits() []c10Edit {
	return []c10Edit{
		{"unknown-key:top", "log: {queries: false}", "log: {queries: false}\nbogus_key: 1"},
		{"unknown-key:servers[]", "    protocol: tcp", "    protocol: tcp\n    bogus_key: 1"},
		{"unknown-key:servers[].udp", "udp: {threads: 1}", "udp: {threads: 1, bogus_key: 1}"},
		{"unknown-key:servers[].tcp", "tcp: {max_concurrent_queries: 10}", "tcp: {max_concurrent_queries: 10, bogus_key: 1}"},
		{"unknown-key:servers[].tls", "    tls: {insecure_skip_verify: false}\n    http", "    tls: {insecure_skip_verify: false, bogus_key: 1}\n    http"},
		{"unknown-key:servers[].http", "http: {path: /dns-query}", "http: {path: /dns-query, bogus_key: 1}"},
		{"unknown-key:servers[].quic", "quic: {max_streams: 10}", "quic: {max_streams: 10, bogus_key: 1}"},
		{"unknown-key:servers[].socket", "socket: {so_reuseport: false}", "socket: {so_reuseport: false, bogus_key: 1}"},
		{"unknown-key:upstreams[]", "    addr: udp://127.0.0.1:53", "    addr: udp://127.0.0.1:53\n    bogus_key: 1"},
		{"unknown-key:upstreams[].tls", "    tls: {insecure_skip_verify: false}\n    socket", "    tls: {insecure_skip_verify: false, bogus_key: 1}\n    socket"},
		{"unknown-key:upstreams[].socket", "socket: {so_mark: 0}", "socket: {so_mark: 0, bogus_key: 1}"},
		{"unknown-key:domain_sets[]", "  - tag: d2\n    files: []", "  - tag: d2\n    files: []\n    bogus_key: 1"},
		{"unknown-key:rules[]", "  - forward: u2", "  - forward: u2\n    bogus_key: 1"},
		{"unknown-key:log", "log: {queries: false}", "log: {queries: false, bogus_key: 1}"},
		{"unknown-key:cache", "maximum_ttl: 60}", "maximum_ttl: 60, bogus_key: 1}"},
		{"unknown-key:ecs", "ecs: {enabled: true}", "ecs: {enabled: true, bogus_key: 1}"},
		{"unknown-key:metrics", `metrics: {addr: ""}`, `metrics: {addr: "", bogus_key: 1}`},
		{"unknown-key:limiter", "  global_limit: 0", "  global_limit: 0\n  bogus_key: 1"},
		{"unknown-key:limiter.client", "v6_mask: 48}", "v6_mask: 48, bogus_key: 1}"},
		{"misspelled-key:rules[].forward", "  - forward: u2", "  - forwrad: u2"},
		{"unknown-upstream-tag", "  - forward: u2", "  - forward: u3"},
		{"unknown-domain-set-tag", "  - domain: d1", "  - domain: d9"},
		{"duplicate-upstream-tag", "  - tag: u2\n", "  - tag: u1\n"},
		{"duplicate-domain-set-tag", "  - tag: d2\n", "  - tag: d1\n"},
		{"missing-upstream-tag", "  - tag: u2\n    addr: udp", "  - addr: udp"},
		{"missing-domain-set-tag", "  - tag: d2\n    files: []", "  - files: []"},
		{"unknown-server-protocol", "    protocol: tcp", "    protocol: sctp"},
		{"unsupported-upstream-scheme", "addr: udp://127.0.0.1:53", "addr: gopher://127.0.0.1:53"},
		{"missing-domain-file", "    files: []", "    files: [/nonexistent/verif/file.txt]"},
	}
}

func TestVerifC10Config(t *testing.T) {
	rep := report.New("C10 configuration errors (real binary)")
	defer rep.Write()
	rep.Rule = "real binary built from the current tree, run as `mosproxy router -c file`: the good YAML must start (\"router is up and running\"), each of the error variants (unknown key at every nesting level, misspelled key, unknown/duplicate/missing tags, unknown protocol/scheme, missing file) and every rule shape {domain none/known/unknown} x reject {0,3} x forward {none/known/unknown} x reverse that names an unknown tag, placed first / between the good rules / last (behind the catch-all forward rule) / behind a catch-all reject rule, must exit non-zero with an error message and without panic/goroutine dump; distinct = distinct configurations"
	if sh, _ := report.Shard(); sh != 0 {
		rep.Eval("idle-shard")
		rep.Eval("idle-shard2")
		return
	}
	dir, err := os.MkdirTemp("", "verif_c10cfg_")
	if err != nil {
		t.Fatal(err)
	}
	defer os.RemoveAll(dir)
	bin := filepath.Join(dir, "mosproxy")
	repo := os.Getenv("VERIF_REPO")
	if repo == "" {
		repo = "/repo"
	}
	cmd := exec.Command("go", "build", "-o", bin, ".")
	cmd.Dir = repo
	if out, err := cmd.CombinedOutput(); err != nil {
		t.Fatalf("cannot build the binary: %v\n%s", err, out)
	}
	domFile := filepath.Join(dir, "d1.txt")
	os.WriteFile(domFile, []byte("example.test\n"), 0o644)
	good := fmt.Sprintf(c10GoodYAML, domFile)
	run := func(name, yaml string) (exit int, stderr string, up bool) {
		f := filepath.Join(dir, strings.NewReplacer(":", "_", "[", "_", "]", "_", ".", "_").Replace(name)+".yaml")
		os.WriteFile(f, []byte(yaml), 0o644)
		c := exec.Command(bin, "router", "-c", f)
		var eb bytes.Buffer
		c.Stderr = &eb
		c.Stdout = &eb
		c.Env = append(os.Environ(), "MOSPROXY_JSONLOGGER=true")
		if err := c.Start(); err != nil {
			return -1, err.Error(), false
		}
		doneCh := make(chan error, 1)
		go func() { doneCh <- c.Wait() }()
		deadline := time.After(20 * time.Second)
		tick := time.NewTicker(50 * time.Millisecond)
		defer tick.Stop()
		for {
			select {
			case <-doneCh:
				return c.ProcessState.ExitCode(), eb.String(), false
			case <-tick.C:
				if strings.Contains(eb.String(), "router is up and running") {
					c.Process.Kill()
					<-doneCh
					return 0, eb.String(), true
				}
			case <-deadline:
				c.Process.Kill()
				<-doneCh
				return -2, eb.String(), false
			}
		}
	}
	exit, stderr, up := run("good", good)
	rep.Eval("good")
	if !up {
		rep.Violate("C10:config:good-config-rejected", fmt.Sprintf("the good configuration did not start (exit %d): %s", exit, stderr), nil)
	}
	for _, e := range c10Edits() {
		if !strings.Contains(good, e.old) {
			t.Fatalf("harness: edit %s does not apply", e.name)
		}
		yaml := strings.Replace(good, e.old, e.new, 1)
		exit, stderr, up := run(e.name, yaml)
		rep.Eval(e.name)
		switch {
		case up:
			rep.Violate("C10:config:accepted:"+e.name, "the router started with a bad configuration ("+e.name+"); it was silently ignored", nil)
		case strings.Contains(stderr, "panic:") || strings.Contains(stderr, "goroutine "):
			rep.Violate("C10:config:panic:"+e.name, "start-up with "+e.name+" panicked:\n"+stderr, nil)
		case exit == 0 || exit == -2:
			rep.Violate("C10:config:no-error-exit:"+e.name, fmt.Sprintf("exit status %d for %s: %s", exit, e.name, stderr), nil)
		case !strings.Contains(stderr, "\"level\":\"fatal\"") && !strings.Contains(stderr, "rror"):
			rep.Violate("C10:config:no-error-message:"+e.name, "no error reported: "+stderr, nil)
		}
	}
	// every rule shape x every place a tag can be wrong: a rule naming an unknown domain set or upstream must be
	// rejected whatever its other fields are (e.g. a reject rule that also has a forward tag)
	for _, dom := range []string{"", "d1", "nosuchset"} {
		for _, rej := range []int{0, 3} {
			for _, fwd := range []string{"", "u1", "nosuchupstream"} {
				for _, rev := range []bool{false, true} {
					rule := "  - "
					var fs []string
					if dom != "" {
						fs = append(fs, "domain: "+dom)
					}
					if rej != 0 {
						fs = append(fs, fmt.Sprintf("reject: %d", rej))
					}
					if fwd != "" {
						fs = append(fs, "forward: "+fwd)
					}
					if rev {
						fs = append(fs, "reverse: true")
					}
					if len(fs) == 0 {
						fs = []string{"reject: 0"}
					}
					rule += strings.Join(fs, "\n    ")
					bad := dom == "nosuchset" || fwd == "nosuchupstream"
					// where the rule stands in the list: between the two good rules, first, last (behind the catch-all forward rule),
					// or behind a catch-all reject rule - a rule that can never be reached is still checked when the file is loaded
					places := []string{"middle"}
					if bad {
						places = []string{"middle", "first", "last", "behind-catch-all-reject"}
					}
					for _, place := range places {
						name := fmt.Sprintf("rule{domain=%q reject=%d forward=%q reverse=%v}@%s", dom, rej, fwd, rev, place)
						var yaml string
						switch place {
						case "middle":
							yaml = strings.Replace(good, "  - forward: u2", rule+"\n  - forward: u2", 1)
						case "first":
							yaml = strings.Replace(good, "rules:\n", "rules:\n"+rule+"\n", 1)
						case "last":
							yaml = strings.Replace(good, "  - forward: u2", "  - forward: u2\n"+rule, 1)
						default:
							yaml = strings.Replace(good, "  - forward: u2", "  - reject: 3\n"+rule, 1)
						}
						if yaml == good {
							t.Fatalf("harness: rule placement %s does not apply", place)
						}
						exit, stderr, up := run("rule", yaml)
						rep.Eval(name)
						switch {
						case strings.Contains(stderr, "panic:") || strings.Contains(stderr, "goroutine "):
							rep.Violate("C10:config:panic:rule", name+":\n"+stderr, nil)
						case bad && up:
							rep.Violate("C10:config:accepted:unknown-tag-in-"+name, "the router started although "+name+" names an unknown tag", nil)
						case bad && exit == 0:
							rep.Violate("C10:config:no-error-exit:"+name, stderr, nil)
						case !bad && !up:
							rep.Violate("C10:config:good-config-rejected:"+name, fmt.Sprintf("exit %d: %s", exit, stderr), nil)
						}
					}
				}
			}
		}
	}
	rep.Sample(map[string]any{"edit": "unknown-key:servers[].tcp", "yaml": "tcp: {max_concurrent_queries: 10, bogus_key: 1}", "expect": "exit != 0, error message, no panic"})
}
