package router

// C18 (start-up and router shutdown): a failing listener at every position of a
// 3-server configuration makes run() return an error (no panic) after releasing
// what was already started; closing a healthy router twice is harmless and
// releases every listening socket. Real loopback sockets, no timing oracle.

import (
	"context"
	"fmt"
	"io"
	"net"
	"os"
	"path/filepath"
	"runtime"
	"runtime/debug"
	"strings"
	"testing"
	"time"

	"github.com/IrineSistiana/mosproxy/internal/zzverif/report"
)

func c18FreePort() int {
	l, err := net.Listen("tcp", "127.0.0.1:0")
	if err != nil {
		panic(err)
	}
	p := l.Addr().(*net.TCPAddr).Port
	l.Close()
	return p
}

// c18CanBind reports whether this process no longer holds a listening (TCP: state LISTEN; UDP: any) socket on the port.
// (Trying to bind the port again is not a sound test: a connection socket lingering in FIN_WAIT2/TIME_WAIT without
// SO_REUSEADDR - gnet does not set it - blocks a new bind although no listening socket is left.)
func c18CanBind(proto string, port int) bool {
	udp := proto == "udp" || proto == "quic"
	for i := 0; i < 100; i++ {
		own := map[string]bool{}
		ents, _ := os.ReadDir("/proc/self/fd")
		for _, e := range ents {
			if l, err := os.Readlink("/proc/self/fd/" + e.Name()); err == nil && strings.HasPrefix(l, "socket:[") {
				own[strings.TrimSuffix(strings.TrimPrefix(l, "socket:["), "]")] = true
			}
		}
		held := false
		files := []string{"tcp", "tcp6"}
		if udp {
			files = []string{"udp", "udp6"}
		}
		for _, f := range files {
			b, _ := os.ReadFile("/proc/self/net/" + f)
			for _, l := range strings.Split(string(b), "\n") {
				fs := strings.Fields(l)
				if len(fs) < 10 || !strings.HasSuffix(fs[1], fmt.Sprintf(":%04X", port)) {
					continue
				}
				if !udp && fs[3] != "0A" {
					continue
				}
				if own[fs[9]] {
					held = true
				}
			}
		}
		if !held {
			return true
		}
		time.Sleep(50 * time.Millisecond)
	}
	return false
}

// c18OwnSockets: inodes of the sockets this process holds.
func c18OwnSockets() map[string]bool {
	own := map[string]bool{}
	ents, _ := os.ReadDir("/proc/self/fd")
	for _, e := range ents {
		if l, err := os.Readlink("/proc/self/fd/" + e.Name()); err == nil && strings.HasPrefix(l, "socket:[") {
			own[strings.TrimSuffix(strings.TrimPrefix(l, "socket:["), "]")] = true
		}
	}
	return own
}

func TestVerifC18Startup(t *testing.T) {
	rep := report.New("C18 start-up failure and router close")
	defer rep.Write()
	healthy := []string{"udp", "tcp", "gnet", "http", "fasthttp", "tls", "https", "quic"}
	failing := []string{"port-in-use", "port-in-use:gnet", "port-in-use:http", "port-in-use:fasthttp", "port-in-use:tls", "port-in-use:https", "port-in-use:udp", "port-in-use:quic",
		"missing-cert", "missing-cert:https", "missing-cert:quic", "unknown-protocol", "bad-listen-address",
		// not a listener at all: the configuration fails before / after the listeners, with a metrics endpoint configured
		"upstream-with-unknown-protocol", "missing-domain-set-file", "rule-names-unknown-upstream",
		// an upstream entry that is rejected after (or before) its transport was built: quic and h3 upstreams bind a UDP socket when they are made
		"duplicate-upstream-tag:quic", "duplicate-upstream-tag:h3", "duplicate-upstream-tag:tcp"}
	rep.Rule = fmt.Sprintf("real run() on loopback: 3-server configurations with one failing entry %v (the entries without a loadable certificate must not leave their own address bound either) at index 0,1,2 and the other two entries drawn (rotating) from the healthy kinds %v; plus every healthy kind alone, closed twice; "+
		"plus configurations whose failure is not a listener (upstream with an unknown protocol, missing domain-set file, rule naming an unknown upstream, a repeated upstream tag whose second entry is quic / h3 / tcp) with a metrics endpoint configured; oracle: after a failed start-up the process holds no socket it did not hold before (garbage collector off); run() returns an error without panicking, no listening socket of the healthy entries (nor the metrics endpoint) is left in the process afterwards (own-fd x /proc/net LISTEN/UDP check); a healthy router's close() is idempotent and frees its ports, also with a request in flight against a silent upstream (udp, tcp, gnet, http, fasthttp), where it returns without waiting for the request's deadline (fastest of 3 attempts under 3 s); distinct = distinct configurations", failing, healthy)
	if sh, _ := report.Shard(); sh != 0 {
		rep.Eval("idle-shard")
		rep.Eval("idle-shard2")
		return
	}
	dir, _ := os.MkdirTemp("", "verif_c18_")
	defer os.RemoveAll(dir)
	mkServer := func(kind string, port int) ServerConfig {
		sc := ServerConfig{Protocol: kind, Listen: fmt.Sprintf("127.0.0.1:%d", port)}
		if kind == "tls" || kind == "https" || kind == "quic" {
			sc.Tls.DebugUseTempCert = true
		}
		return sc
	}
	runCfg := func(cfg *Config) (r *router, err error, panicked any) {
		defer func() {
			if p := recover(); p != nil {
				panicked = p
			}
		}()
		r, err = run(context.Background(), cfg)
		return
	}
	// A listening socket that nothing refers to any more is closed by the garbage collector's finalizer - some time later, or never
	// in a process that allocates little. The collector is switched off while failed start-ups are judged, so that "lost" does not
	// look like "closed".
	gcWas := debug.SetGCPercent(-1)
	defer debug.SetGCPercent(gcWas)
	n := 0
	leakWait := 50 // x 100 ms
	leaks := 0
	for fi, fk := range failing {
		for idx := 0; idx < 3 && leaks < 8; idx++ { // (eight leaking configurations are evidence enough: the rest would only cost time)
			cfg := &Config{}
			type bound struct {
				kind string
				port int
			}
			var bounds []bound
			var blocker io.Closer
			if fk == "upstream-with-unknown-protocol" || fk == "missing-domain-set-file" || fk == "rule-names-unknown-upstream" || strings.HasPrefix(fk, "duplicate-upstream-tag") {
				mport := c18FreePort()
				cfg.Metrics.Addr = fmt.Sprintf("127.0.0.1:%d", mport)
				bounds = append(bounds, bound{"metrics", mport})
				cfg.Upstreams = []UpstreamConfig{{Tag: "u", Addr: "udp://127.0.0.1:53"}}
				switch fk {
				case "upstream-with-unknown-protocol":
					cfg.Upstreams = append(cfg.Upstreams, UpstreamConfig{Tag: "bad", Addr: "gopher://127.0.0.1"})
				case "missing-domain-set-file":
					cfg.DomainSets = []DomainSetConfig{{Tag: "d", Files: []string{filepath.Join(dir, "no-such-list.txt")}}}
				case "rule-names-unknown-upstream":
					cfg.Rules = []RuleConfig{{Forward: "nobody"}}
				case "duplicate-upstream-tag:quic":
					cfg.Upstreams = append(cfg.Upstreams, UpstreamConfig{Tag: "u", Addr: "quic://127.0.0.1:853"})
				case "duplicate-upstream-tag:h3":
					cfg.Upstreams = append(cfg.Upstreams, UpstreamConfig{Tag: "u", Addr: "h3://127.0.0.1/dns-query"})
				case "duplicate-upstream-tag:tcp":
					cfg.Upstreams = append(cfg.Upstreams, UpstreamConfig{Tag: "u", Addr: "tcp://127.0.0.1"})
				}
			}
			for i := 0; i < 3; i++ {
				if i == idx {
					switch fk {
					case "upstream-with-unknown-protocol", "missing-domain-set-file", "rule-names-unknown-upstream", "duplicate-upstream-tag:quic", "duplicate-upstream-tag:h3", "duplicate-upstream-tag:tcp":
						// all three server entries are healthy here
						kind := healthy[(n+i*3+fi)%len(healthy)]
						port := c18FreePort()
						bounds = append(bounds, bound{kind, port})
						cfg.Servers = append(cfg.Servers, mkServer(kind, port))
					case "port-in-use", "port-in-use:gnet", "port-in-use:http", "port-in-use:fasthttp", "port-in-use:tls", "port-in-use:https", "port-in-use:udp", "port-in-use:quic":
						proto := "tcp"
						if i := strings.IndexByte(fk, ':'); i > 0 {
							proto = fk[i+1:]
						}
						port := 0
						if proto == "udp" || proto == "quic" {
							pc, _ := net.ListenPacket("udp", "127.0.0.1:0")
							blocker, port = pc, pc.LocalAddr().(*net.UDPAddr).Port
						} else {
							l, _ := net.Listen("tcp", "127.0.0.1:0")
							blocker, port = l, l.Addr().(*net.TCPAddr).Port
						}
						cfg.Servers = append(cfg.Servers, mkServer(proto, port))
					case "missing-cert", "missing-cert:https", "missing-cert:quic":
						proto := "tls"
						if i := strings.IndexByte(fk, ':'); i > 0 {
							proto = fk[i+1:]
						}
						port := c18FreePort()
						sc := ServerConfig{Protocol: proto, Listen: fmt.Sprintf("127.0.0.1:%d", port)}
						sc.Tls.Cert, sc.Tls.Key = filepath.Join(dir, "nope.pem"), filepath.Join(dir, "nope.key")
						cfg.Servers = append(cfg.Servers, sc)
						// the entry that fails must not leave its own address bound either
						bounds = append(bounds, bound{proto, port})
					case "unknown-protocol":
						cfg.Servers = append(cfg.Servers, ServerConfig{Protocol: "sctp", Listen: "127.0.0.1:0"})
					case "bad-listen-address":
						cfg.Servers = append(cfg.Servers, ServerConfig{Protocol: "tcp", Listen: "999.999.999.999:99999"})
					}
					continue
				}
				kind := healthy[(n+i*3+fi)%len(healthy)]
				port := c18FreePort()
				bounds = append(bounds, bound{kind, port})
				cfg.Servers = append(cfg.Servers, mkServer(kind, port))
			}
			n++
			desc := fmt.Sprintf("failing=%s at index %d, healthy=%v", fk, idx, bounds)
			rep.Eval(desc)
			socksBefore := c18OwnSockets()
			r, err, p := runCfg(cfg)
			if err != nil && p == nil {
				// everything the failed start-up had opened is released: the process holds no socket it did not hold before (listeners,
				// upstream sockets made when the upstream was built, the metrics endpoint); closing may take a moment
				var extra []string
				for i := 0; i < leakWait; i++ {
					extra = extra[:0]
					for ino := range c18OwnSockets() {
						if !socksBefore[ino] {
							extra = append(extra, ino)
						}
					}
					if len(extra) == 0 {
						break
					}
					time.Sleep(100 * time.Millisecond)
				}
				if len(extra) > 0 {
					leakWait = 5 // a tree that leaks does so in many of the configurations: the patience is for the first one
					leaks++
					rep.Violate("C18:startup:socket-leaked:"+fk, fmt.Sprintf("after the failed start-up the process holds %d socket(s) it did not hold before (inodes %v): %s", len(extra), extra, desc), nil)
				}
			}
			if blocker != nil {
				blocker.Close()
			}
			switch {
			case p != nil:
				rep.Violate("C18:startup:panic:"+fk, fmt.Sprintf("run() panicked (%v): %s", p, desc), nil)
			case err == nil:
				rep.Violate("C18:startup:no-error:"+fk, "run() started a router although a listener cannot start: "+desc, nil)
				if r != nil {
					r.close(nil)
				}
			}
			for _, b := range bounds {
				if !c18CanBind(b.kind, b.port) {
					rep.Violate("C18:startup:port-leaked:"+b.kind, fmt.Sprintf("after the failed start-up the %s listener on port %d is still bound: %s", b.kind, b.port, desc), nil)
				}
			}
		}
	}
	// configurations that are odd rather than wrong (a server entry without a listen address, as a generated template has it; a
	// negative cache size): whether run() takes them or rejects them is its business, but it neither panics - nor does the close of
	// a router it did start - and nothing stays open afterwards
	for _, odd := range []string{"server-entry-without-listen", "server-entry-without-listen:first", "negative-mem-size", "zero-limits"} {
		cfg := &Config{Upstreams: []UpstreamConfig{{Tag: "u", Addr: "udp://127.0.0.1:53"}}}
		port := c18FreePort()
		switch odd {
		case "server-entry-without-listen":
			cfg.Servers = []ServerConfig{mkServer("tcp", port), {Protocol: "udp"}, {Protocol: "tcp"}}
		case "server-entry-without-listen:first":
			cfg.Servers = []ServerConfig{{Protocol: "tcp"}, mkServer("udp", port)}
		case "negative-mem-size":
			cfg.Servers = []ServerConfig{mkServer("udp", port)}
			cfg.Cache.MemSize = -1
		case "zero-limits":
			cfg.Servers = []ServerConfig{mkServer("tcp", port)}
			cfg.Limiter.Client = ClientLimiterConfig{Limit: 0, Burst: -1}
		}
		desc := "odd configuration: " + odd
		rep.Eval(desc)
		socksBefore := c18OwnSockets()
		r, err, p := runCfg(cfg)
		if p != nil {
			rep.Violate("C18:startup:panic:"+odd, fmt.Sprintf("run() panicked (%v): %s", p, desc), nil)
			continue
		}
		if err == nil && r != nil {
			done := make(chan any, 1)
			go func() {
				defer func() { done <- recover() }()
				r.close(nil)
				r.close(nil)
			}()
			select {
			case p := <-done:
				if p != nil {
					rep.Violate("C18:close:panic:"+odd, fmt.Sprintf("closing the router started from an %s panicked: %v", desc, p), nil)
					continue
				}
			case <-time.After(30 * time.Second):
				rep.Violate("C18:close:blocks:"+odd, "router close did not return within 30 s: "+desc, nil)
				continue
			}
		}
		var extra []string
		for i := 0; i < 50; i++ {
			extra = extra[:0]
			for ino := range c18OwnSockets() {
				if !socksBefore[ino] {
					extra = append(extra, ino)
				}
			}
			if len(extra) == 0 {
				break
			}
			time.Sleep(100 * time.Millisecond)
		}
		if len(extra) > 0 {
			rep.Violate("C18:startup:socket-leaked:"+odd, fmt.Sprintf("after %s (run error: %v) and close the process holds %d socket(s) it did not hold before", desc, err, len(extra)), nil)
		}
	}
	debug.SetGCPercent(gcWas)
	runtime.GC()
	// healthy routers: close twice, ports free again
	for _, kind := range healthy {
		port := c18FreePort()
		cfg := &Config{Servers: []ServerConfig{mkServer(kind, port)}, Upstreams: []UpstreamConfig{{Tag: "u", Addr: "udp://127.0.0.1:53"}, {Tag: "t", Addr: "tls+pipeline://127.0.0.1"}}}
		desc := "healthy " + kind
		rep.Eval(desc)
		r, err, p := runCfg(cfg)
		if p != nil || err != nil {
			rep.Violate("C18:startup:healthy-config-failed:"+kind, fmt.Sprintf("%v %v", err, p), nil)
			continue
		}
		done := make(chan any, 1)
		go func() {
			defer func() { done <- recover() }()
			r.close(nil)
			r.close(nil)
		}()
		select {
		case p := <-done:
			if p != nil {
				rep.Violate("C18:close:panic:"+kind, fmt.Sprint(p), nil)
			}
		case <-time.After(30 * time.Second):
			rep.Violate("C18:close:blocks:"+kind, "router close did not return within 30 s", nil)
			continue
		}
		if !c18CanBind(kind, port) {
			rep.Violate("C18:close:port-leaked:"+kind, fmt.Sprintf("after close the %s listener on port %d is still bound", kind, port), nil)
		}
	}
	// close while requests are in flight: a client has a query outstanding against an upstream that never answers
	silent, err := net.Listen("tcp", "127.0.0.1:0")
	if err == nil {
		defer silent.Close()
		go func() {
			for {
				c, err := silent.Accept()
				if err != nil {
					return
				}
				defer c.Close() // accept and stay silent
			}
		}()
		for _, kind := range []string{"udp", "tcp", "gnet", "http", "fasthttp"} {
			// "promptly": a close that fails the in-flight request returns in a fraction of a second; one that waits for the request
			// returns when the request's 6 s deadline fires. The measurement is repeated (up to 3 attempts) and the fastest counts,
			// so that a slow machine cannot turn into an alarm.
			fastest := time.Duration(-1)
			for attempt := 0; attempt < 3 && (fastest < 0 || fastest > 3*time.Second); attempt++ {
				port := c18FreePort()
				cfg := &Config{Servers: []ServerConfig{mkServer(kind, port)},
					Upstreams: []UpstreamConfig{{Tag: "u", Addr: "tcp://" + silent.Addr().String()}}, Rules: []RuleConfig{{Forward: "u"}}}
				desc := "close with a request in flight, listener " + kind
				rep.Eval(desc)
				r, err, p := runCfg(cfg)
				if p != nil || err != nil {
					rep.Violate("C18:startup:healthy-config-failed:"+kind, fmt.Sprintf("%v %v", err, p), nil)
					continue
				}
				q := []byte{0x12, 0x34, 1, 0, 0, 1, 0, 0, 0, 0, 0, 0, 1, 'a', 0, 0, 1, 0, 1}
				addr := fmt.Sprintf("127.0.0.1:%d", port)
				var cc net.Conn
				switch kind {
				case "udp":
					cc, _ = net.Dial("udp", addr)
					if cc != nil {
						cc.Write(q)
					}
				case "tcp", "gnet":
					cc, _ = net.DialTimeout("tcp", addr, 3*time.Second)
					if cc != nil {
						cc.Write(append([]byte{0, byte(len(q))}, q...))
					}
				default:
					cc, _ = net.DialTimeout("tcp", addr, 3*time.Second)
					if cc != nil {
						fmt.Fprintf(cc, "POST /dns-query HTTP/1.1\r\nHost: x\r\nContent-Type: application/dns-message\r\nContent-Length: %d\r\n\r\n%s", len(q), q)
					}
				}
				time.Sleep(300 * time.Millisecond) // the request is now waiting for the silent upstream
				done := make(chan any, 1)
				t0 := time.Now()
				go func() {
					defer func() { done <- recover() }()
					r.close(nil)
					r.close(nil)
				}()
				select {
				case p := <-done:
					if p != nil {
						rep.Violate("C18:close-inflight:panic:"+kind, fmt.Sprint(p), nil)
					}
					if d := time.Since(t0); fastest < 0 || d < fastest {
						fastest = d
					}
				case <-time.After(60 * time.Second):
					rep.Violate("C18:close-inflight:blocks:"+kind, "router close did not return within 60 s while a request was in flight", nil)
				}
				if cc != nil {
					cc.Close()
				}
				tb := time.Now()
				freed := false
				for i := 0; i < 8 && !freed; i++ { // up to ~40 s
					freed = c18CanBind(kind, port)
				}
				if !freed {
					rep.Violate("C18:close-inflight:port-leaked:"+kind, fmt.Sprintf("after close the %s listener on port %d is still bound (waited %v)", kind, port, time.Since(tb)), nil)
				} else if d := time.Since(tb); d > 3*time.Second {
					rep.Note(fmt.Sprintf("%s listener port was released %v after close returned", kind, d))
				}
			}
			if fastest > 3*time.Second {
				rep.Violate("C18:close-inflight:waits-for-request:"+kind, fmt.Sprintf("router close took %v (fastest of 3 attempts) with one request in flight against a silent upstream: it waits for the request to time out instead of failing it", fastest), nil)
			}
		}
	}
	rep.Sample(map[string]any{"servers": "[udp ok, tcp port-in-use, quic ok]", "expect": "run() returns an error; the udp port is free again"})
}
