package router

// C18 (start-up and router shutdown): a failing listener at every position of a
// 3-server configuration makes run() return an error (no panic) after releasing
// what was already started; closing a healthy router twice is harmless and
// releases every listening socket. Real loopback sockets, no timing oracle.

import (
	"context"
	"fmt"
	"net"
	"os"
	"path/filepath"
	"testing"
	"time"

	"github.com/IrineSistiana/mosproxy/internal/zzverif/report"
)

func c18FreePort() int {
	l, err := net.Listen("tcp", "127.0.0.1:0")
	if err != nil {
		panic(err)
	}
	p := l.Addr().(*net.TCPAddr).Port
	l.Close()
	return p
}

// canBind reports whether both the TCP and the UDP port are free again (retries briefly: closing is asynchronous in some servers).
func c18CanBind(proto string, port int) bool {
	for i := 0; i < 100; i++ {
		var err error
		if proto == "udp" || proto == "quic" {
			var c net.PacketConn
			c, err = net.ListenPacket("udp", fmt.Sprintf("127.0.0.1:%d", port))
			if err == nil {
				c.Close()
				return true
			}
		} else {
			var l net.Listener
			l, err = net.Listen("tcp", fmt.Sprintf("127.0.0.1:%d", port))
			if err == nil {
				l.Close()
				return true
			}
		}
		time.Sleep(50 * time.Millisecond)
	}
	return false
}

func TestVerifC18Startup(t *testing.T) {
	rep := report.New("C18 start-up failure and router close")
	defer rep.Write()
	healthy := []string{"udp", "tcp", "gnet", "http", "fasthttp", "tls", "https", "quic"}
	failing := []string{"port-in-use", "missing-cert", "unknown-protocol", "bad-listen-address"}
	rep.Rule = fmt.Sprintf("real run() on loopback: 3-server configurations with one failing entry %v at index 0,1,2 and the other two entries drawn (rotating) from the healthy kinds %v; plus every healthy kind alone, closed twice; "+
		"oracle: run() returns an error without panicking, every port bound by the healthy entries can be bound again afterwards; a healthy router's close() is idempotent and frees its ports; distinct = distinct configurations", failing, healthy)
	if sh, _ := report.Shard(); sh != 0 {
		rep.Eval("idle-shard")
		rep.Eval("idle-shard2")
		return
	}
	dir, _ := os.MkdirTemp("", "verif_c18_")
	defer os.RemoveAll(dir)
	mkServer := func(kind string, port int) ServerConfig {
		sc := ServerConfig{Protocol: kind, Listen: fmt.Sprintf("127.0.0.1:%d", port)}
		if kind == "tls" || kind == "https" || kind == "quic" {
			sc.Tls.DebugUseTempCert = true
		}
		return sc
	}
	runCfg := func(cfg *Config) (r *router, err error, panicked any) {
		defer func() {
			if p := recover(); p != nil {
				panicked = p
			}
		}()
		r, err = run(context.Background(), cfg)
		return
	}
	n := 0
	for fi, fk := range failing {
		for idx := 0; idx < 3; idx++ {
			cfg := &Config{}
			type bound struct {
				kind string
				port int
			}
			var bounds []bound
			var blocker net.Listener
			for i := 0; i < 3; i++ {
				if i == idx {
					switch fk {
					case "port-in-use":
						blocker, _ = net.Listen("tcp", "127.0.0.1:0")
						cfg.Servers = append(cfg.Servers, mkServer("tcp", blocker.Addr().(*net.TCPAddr).Port))
					case "missing-cert":
						sc := ServerConfig{Protocol: "tls", Listen: fmt.Sprintf("127.0.0.1:%d", c18FreePort())}
						sc.Tls.Cert, sc.Tls.Key = filepath.Join(dir, "nope.pem"), filepath.Join(dir, "nope.key")
						cfg.Servers = append(cfg.Servers, sc)
					case "unknown-protocol":
						cfg.Servers = append(cfg.Servers, ServerConfig{Protocol: "sctp", Listen: "127.0.0.1:0"})
					case "bad-listen-address":
						cfg.Servers = append(cfg.Servers, ServerConfig{Protocol: "tcp", Listen: "999.999.999.999:99999"})
					}
					continue
				}
				kind := healthy[(n+i*3+fi)%len(healthy)]
				port := c18FreePort()
				bounds = append(bounds, bound{kind, port})
				cfg.Servers = append(cfg.Servers, mkServer(kind, port))
			}
			n++
			desc := fmt.Sprintf("failing=%s at index %d, healthy=%v", fk, idx, bounds)
			rep.Eval(desc)
			r, err, p := runCfg(cfg)
			if blocker != nil {
				blocker.Close()
			}
			switch {
			case p != nil:
				rep.Violate("C18:startup:panic:"+fk, fmt.Sprintf("run() panicked (%v): %s", p, desc), nil)
			case err == nil:
				rep.Violate("C18:startup:no-error:"+fk, "run() started a router although a listener cannot start: "+desc, nil)
				if r != nil {
					r.close(nil)
				}
			}
			for _, b := range bounds {
				if !c18CanBind(b.kind, b.port) {
					rep.Violate("C18:startup:port-leaked:"+b.kind, fmt.Sprintf("after the failed start-up the %s listener on port %d is still bound: %s", b.kind, b.port, desc), nil)
				}
			}
		}
	}
	// healthy routers: close twice, ports free again
	for _, kind := range healthy {
		port := c18FreePort()
		cfg := &Config{Servers: []ServerConfig{mkServer(kind, port)}, Upstreams: []UpstreamConfig{{Tag: "u", Addr: "udp://127.0.0.1:53"}, {Tag: "t", Addr: "tls+pipeline://127.0.0.1"}}}
		desc := "healthy " + kind
		rep.Eval(desc)
		r, err, p := runCfg(cfg)
		if p != nil || err != nil {
			rep.Violate("C18:startup:healthy-config-failed:"+kind, fmt.Sprintf("%v %v", err, p), nil)
			continue
		}
		done := make(chan any, 1)
		go func() {
			defer func() { done <- recover() }()
			r.close(nil)
			r.close(nil)
		}()
		select {
		case p := <-done:
			if p != nil {
				rep.Violate("C18:close:panic:"+kind, fmt.Sprint(p), nil)
			}
		case <-time.After(30 * time.Second):
			rep.Violate("C18:close:blocks:"+kind, "router close did not return within 30 s", nil)
			continue
		}
		if !c18CanBind(kind, port) {
			rep.Violate("C18:close:port-leaked:"+kind, fmt.Sprintf("after close the %s listener on port %d is still bound", kind, port), nil)
		}
	}
	rep.Sample(map[string]any{"servers": "[udp ok, tcp port-in-use, quic ok]", "expect": "run() returns an error; the udp port is free again"})
}
