package router

// C17 (b): peers are authenticated exactly as configured. Real crypto/tls
// handshakes on loopback with harness-minted chains: upstream side (DoT, DoH)
// x URL host form x peer certificate kind x TLS options, and listener side
// (DoT, DoH, DoQ) x client certificate kind x verify_client_cert.

import (
	"bytes"
	"context"
	"crypto/ecdsa"
	"crypto/elliptic"
	"crypto/rand"
	"crypto/tls"
	"crypto/x509"
	"crypto/x509/pkix"
	"encoding/base64"
	"encoding/pem"
	"fmt"
	"io"
	"log"
	"math/big"
	"net"
	"net/http"
	"os"
	"path/filepath"
	"strings"
	"sync"
	"testing"
	"time"

	"github.com/IrineSistiana/mosproxy/internal/mlog"
	"github.com/IrineSistiana/mosproxy/internal/zzverif/env"
	"github.com/IrineSistiana/mosproxy/internal/zzverif/refdns"
	"github.com/IrineSistiana/mosproxy/internal/zzverif/report"
	"github.com/quic-go/quic-go"
	"github.com/quic-go/quic-go/http3"
	"github.com/rs/zerolog"
)

type c17CA struct {
	cert *x509.Certificate
	key  *ecdsa.PrivateKey
	pem  []byte
}

func c17NewCA(cn string) *c17CA {
	key, _ := ecdsa.GenerateKey(elliptic.P256(), rand.Reader)
	tpl := &x509.Certificate{SerialNumber: big.NewInt(time.Now().UnixNano()), Subject: pkix.Name{CommonName: cn}, NotBefore: time.Now().Add(-time.Hour), NotAfter: time.Now().Add(24 * time.Hour),
		IsCA: true, KeyUsage: x509.KeyUsageCertSign | x509.KeyUsageDigitalSignature, BasicConstraintsValid: true}
	der, err := x509.CreateCertificate(rand.Reader, tpl, tpl, &key.PublicKey, key)
	if err != nil {
		panic(err)
	}
	c, _ := x509.ParseCertificate(der)
	return &c17CA{cert: c, key: key, pem: pem.EncodeToMemory(&pem.Block{Type: "CERTIFICATE", Bytes: der})}
}

// issue creates a leaf; ca == nil means self-signed.
func (ca *c17CA) issue(cn string, dns []string, ips []net.IP, expired, client bool) (tls.Certificate, []byte, []byte) {
	key, _ := ecdsa.GenerateKey(elliptic.P256(), rand.Reader)
	tpl := &x509.Certificate{SerialNumber: big.NewInt(time.Now().UnixNano()), Subject: pkix.Name{CommonName: cn}, DNSNames: dns, IPAddresses: ips,
		NotBefore: time.Now().Add(-2 * time.Hour), NotAfter: time.Now().Add(12 * time.Hour), KeyUsage: x509.KeyUsageDigitalSignature,
		ExtKeyUsage: []x509.ExtKeyUsage{x509.ExtKeyUsageServerAuth, x509.ExtKeyUsageClientAuth}, BasicConstraintsValid: true}
	if expired {
		tpl.NotAfter = time.Now().Add(-time.Hour)
	}
	parent, signer := tpl, key
	if ca != nil {
		parent, signer = ca.cert, ca.key
	}
	der, err := x509.CreateCertificate(rand.Reader, tpl, parent, &key.PublicKey, signer)
	if err != nil {
		panic(err)
	}
	kb, _ := x509.MarshalPKCS8PrivateKey(key)
	certPEM := pem.EncodeToMemory(&pem.Block{Type: "CERTIFICATE", Bytes: der})
	keyPEM := pem.EncodeToMemory(&pem.Block{Type: "PRIVATE KEY", Bytes: kb})
	c, err := tls.X509KeyPair(certPEM, keyPEM)
	if err != nil {
		panic(err)
	}
	return c, certPEM, keyPEM
}

type c17Server struct {
	mu   sync.Mutex
	sni  []string
	host []string
	cert tls.Certificate
}

func (s *c17Server) tlsConfig(protos ...string) *tls.Config {
	return &tls.Config{NextProtos: protos, GetConfigForClient: func(chi *tls.ClientHelloInfo) (*tls.Config, error) {
		s.mu.Lock()
		s.sni = append(s.sni, chi.ServerName)
		c := s.cert
		s.mu.Unlock()
		return &tls.Config{Certificates: []tls.Certificate{c}, NextProtos: protos}, nil
	}}
}

func c17Answer(wire []byte) []byte {
	m, err := refdns.Decode(wire)
	if err != nil {
		return nil
	}
	return env.Answer(m, 7, 60).Encode(false)
}

// c17FreeAddr returns a loopback address that was free a moment ago (the servers are started from configuration, by address).
func c17FreeAddr(udp bool) string {
	if udp {
		c, err := net.ListenPacket("udp", "127.0.0.1:0")
		if err != nil {
			panic(err)
		}
		defer c.Close()
		return c.LocalAddr().String()
	}
	l, err := net.Listen("tcp", "127.0.0.1:0")
	if err != nil {
		panic(err)
	}
	defer l.Close()
	return l.Addr().String()
}

// c17Run starts a router from configuration (retrying when a port picked by c17FreeAddr was taken meanwhile).
func c17Run(mk func() *Config) (*router, *Config, error) {
	var err error
	for try := 0; try < 3; try++ {
		cfg := mk()
		var r *router
		r, err = run(context.Background(), cfg)
		if err == nil {
			return r, cfg, nil
		}
	}
	return nil, nil, err
}

func TestVerifC17TLS(t *testing.T) {
	mlog.SetLvl(zerolog.Disabled)
	rep := report.New("C17 TLS authentication")
	defer rep.Write()
	rep.Rule = "E1 full matrix with real crypto/tls on loopback, built with the repository's own Go toolchain, every router started from configuration by run(): " +
		"(upstream) kind {tls, https, quic, h3} x URL host {dot.example, 1.2.3.4, [::1], [2001:db8::53]} (dialled via dial_addr to a local server) x server certificate {valid for all hosts, wrong name, unknown CA, expired, self-signed, chaining to a root of the system trust store (SSL_CERT_FILE) but not to the configured ca} x " +
		"tls options in the order {ca configured, another ca configured, no ca, ca again, insecure_skip_verify, another ca again} against the same server instance and name (earlier upstreams leave their traces in the process: session tickets, caches); " +
		"oracle: exchange succeeds iff verification is disabled or the certificate is valid for the host and chains to the configured ca; SNI equals the URL host for names (none for IP literals) and the HTTP Host header equals the URL host; " +
		"(listener) one router with, per kind {tls, https, quic}, a listener that verifies client certificates and one that does not, sharing the same cert/key/ca files, in every start order {verifying first, non-verifying first, an upstream using the same files for mutual TLS first}, " +
		"and verification on without a ca (system roots) x client certificate {none, signed by the configured CA, signed by another CA, expired, chaining to a system root}; oracle: a verifying listener answers a query only for the certificate chaining to the configured CA, a non-verifying one answers everybody"
	if sh, _ := report.Shard(); sh != 0 {
		rep.Eval("idle-shard")
		rep.Eval("idle-shard2")
		return
	}
	dir, err := os.MkdirTemp("", "verif_c17_")
	if err != nil {
		t.Fatal(err)
	}
	defer os.RemoveAll(dir)
	ca, other := c17NewCA("verif CA"), c17NewCA("other CA")
	// a root of the *system* trust store (the store is read lazily, on first use, from SSL_CERT_FILE): a peer certificate that chains
	// to it is valid for the public at large, but not for an upstream or listener that was given its own ca
	sysCA := c17NewCA("system root")
	sysFile := filepath.Join(dir, "system_roots.pem")
	os.WriteFile(sysFile, sysCA.pem, 0o644)
	emptyDir := filepath.Join(dir, "empty_certs")
	os.Mkdir(emptyDir, 0o755)
	os.Setenv("SSL_CERT_FILE", sysFile)
	os.Setenv("SSL_CERT_DIR", emptyDir)
	caFile := filepath.Join(dir, "ca.pem")
	os.WriteFile(caFile, ca.pem, 0o644)
	otherCAFile := filepath.Join(dir, "other_ca.pem")
	os.WriteFile(otherCAFile, other.pem, 0o644)
	allDNS := []string{"dot.example", "localhost", "test.test"}
	allIPs := []net.IP{net.ParseIP("1.2.3.4"), net.ParseIP("::1"), net.ParseIP("2001:db8::53"), net.ParseIP("127.0.0.1")}
	type certKind struct {
		name  string
		cert  tls.Certificate
		valid bool
	}
	mk := func(c tls.Certificate, _, _ []byte) tls.Certificate { return c }
	kinds := []certKind{
		{"valid", mk(ca.issue("srv", allDNS, allIPs, false, false)), true},
		{"wrong-name", mk(ca.issue("srv", []string{"other.example"}, []net.IP{net.ParseIP("9.9.9.9")}, false, false)), false},
		{"unknown-ca", mk(other.issue("srv", allDNS, allIPs, false, false)), false},
		{"expired", mk(ca.issue("srv", allDNS, allIPs, true, false)), false},
		{"self-signed", mk((*c17CA)(nil).issue("srv", allDNS, allIPs, false, false)), false},
		{"system-root", mk(sysCA.issue("srv", allDNS, allIPs, false, false)), false},
	}
	// ---- upstream side
	srv := &c17Server{}
	dotL, err := tls.Listen("tcp", "127.0.0.1:0", srv.tlsConfig())
	if err != nil {
		t.Fatal(err)
	}
	defer dotL.Close()
	go func() {
		for {
			c, err := dotL.Accept()
			if err != nil {
				return
			}
			go func() {
				defer c.Close()
				c.SetDeadline(time.Now().Add(5 * time.Second))
				hdr := make([]byte, 2)
				if _, err := io.ReadFull(c, hdr); err != nil {
					return
				}
				b := make([]byte, int(hdr[0])<<8|int(hdr[1]))
				if _, err := io.ReadFull(c, b); err != nil {
					return
				}
				c.Write(refdns.Frame(c17Answer(b)))
			}()
		}
	}()
	dohL, err := tls.Listen("tcp", "127.0.0.1:0", srv.tlsConfig("h2", "http/1.1"))
	if err != nil {
		t.Fatal(err)
	}
	defer dohL.Close()
	hs := &http.Server{Handler: http.HandlerFunc(func(w http.ResponseWriter, r *http.Request) {
		srv.mu.Lock()
		srv.host = append(srv.host, r.Host)
		srv.mu.Unlock()
		q := r.URL.Query().Get("dns")
		b := make([]byte, len(q))
		n, _ := decodeB64(b, q)
		w.Header().Set("Content-Type", "application/dns-message")
		w.Write(c17Answer(b[:n]))
	}), ErrorLog: nil}
	hs.ErrorLog = quietLog()
	go hs.Serve(dohL)
	defer hs.Close()

	// DoQ and DoH3 servers (quic-go) with the same certificate switchboard
	doqL, err := quic.ListenAddr("127.0.0.1:0", srv.tlsConfig("doq"), &quic.Config{})
	if err != nil {
		t.Fatal(err)
	}
	defer doqL.Close()
	go func() {
		for {
			c, err := doqL.Accept(context.Background())
			if err != nil {
				return
			}
			go func() {
				for {
					st, err := c.AcceptStream(context.Background())
					if err != nil {
						return
					}
					go func() {
						defer st.Close()
						b, _ := io.ReadAll(st)
						if fs, _ := env.SplitFrames(b); len(fs) == 1 {
							st.Write(refdns.Frame(c17Answer(fs[0])))
						}
					}()
				}
			}()
		}
	}()
	h3c, err := net.ListenPacket("udp", "127.0.0.1:0")
	if err != nil {
		t.Fatal(err)
	}
	h3s := &http3.Server{Handler: hs.Handler, TLSConfig: srv.tlsConfig("h3")}
	go h3s.Serve(h3c)
	defer h3s.Close()

	hosts := []struct{ url, sni, name string }{{"dot.example", "dot.example", "dot.example"}, {"1.2.3.4", "", "1.2.3.4"}, {"[::1]", "", "[::1]"}, {"[2001:db8::53]", "", "[2001:db8::53]"}}
	query := refdns.Query(0x1717, refdns.N("auth", "example", "test"), 1, 1).Encode(false)
	for _, kind := range []string{"tls", "https", "quic", "h3"} {
		for _, h := range hosts {
			for _, ck := range kinds {
				// the order matters: an upstream with the trusting CA talks to the server (same name, same server instance) before the
				// ones that must reject it, so that anything the first one leaves behind in the process (session tickets, cached
				// configurations or connections) is there to be misused
				for oi, opt := range []string{"ca", "other-ca", "no-ca", "ca", "insecure", "other-ca"} {
					srv.mu.Lock()
					srv.cert, srv.sni, srv.host = ck.cert, nil, nil
					srv.mu.Unlock()
					tc := TlsConfig{}
					switch opt {
					case "ca":
						tc.CA = caFile
					case "other-ca":
						tc.CA = otherCAFile
					case "insecure":
						tc.InsecureSkipVerify = true
					}
					desc := fmt.Sprintf("%s://%s server-cert=%s options#%d=%s", kind, h.url, ck.name, oi, opt)
					rep.Eval(desc)
					dial := dotL.Addr().String()
					addr := "tls://" + h.url
					switch kind {
					case "https":
						dial = dohL.Addr().String()
						addr = "https://" + h.url + "/dns-query"
					case "quic":
						dial = doqL.Addr().String()
						addr = "quic://" + h.url
					case "h3":
						dial = h3c.LocalAddr().String()
						addr = "h3://" + h.url + "/dns-query"
					}
					r, err := run(context.Background(), &Config{
						Upstreams: []UpstreamConfig{{Tag: "u", Addr: addr, DialAddr: dial, Tls: tc}},
						Rules:     []RuleConfig{{Forward: "u"}},
					})
					if err != nil {
						rep.Violate("C17:tls:router-start", err.Error()+" "+desc, nil)
						continue
					}
					ctx, cancel := context.WithTimeout(context.Background(), 5*time.Second)
					m, xerr := r.upstreams["u"].u.ExchangeContext(ctx, query)
					cancel()
					r.close(nil)
					ok := m != nil && xerr == nil
					want := opt == "insecure" || (opt == "ca" && ck.valid) || (opt == "other-ca" && ck.name == "unknown-ca") || (opt == "no-ca" && ck.name == "system-root")
					if ok != want {
						sig := "accepted-bad-peer"
						if want {
							sig = "rejected-good-peer"
						}
						rep.Violate(fmt.Sprintf("C17:tls:%s:%s:host=%s:cert=%s:opt=%s", sig, kind, h.url, ck.name, opt), fmt.Sprintf("exchange success=%v (err %v), expected %v: %s", ok, xerr, want, desc), nil)
					}
					srv.mu.Lock()
					snis, hostsSeen := append([]string(nil), srv.sni...), append([]string(nil), srv.host...)
					srv.mu.Unlock()
					for _, s := range snis {
						if s != h.sni {
							rep.Violate(fmt.Sprintf("C17:tls:sni:%s:host=%s", kind, h.url), fmt.Sprintf("server saw SNI %q, URL host implies %q: %s", s, h.sni, desc), nil)
						}
					}
					for _, s := range hostsSeen {
						if s != h.name {
							rep.Violate(fmt.Sprintf("C17:tls:http-host:host=%s", h.url), fmt.Sprintf("server saw Host %q, URL host is %q: %s", s, h.name, desc), nil)
						}
					}
					if ok && len(snis) == 0 {
						rep.Violate("C17:tls:no-handshake-seen", desc, nil)
					}
				}
			}
		}
	}

	// ---- several upstream entries of ONE router point at the same server with different tls options: each entry is authenticated by
	// its own options, in whatever order the entries stand (an entry never inherits a connection, a session or a transport from another)
	for _, kind := range []string{"tls", "https", "quic"} {
		for _, order := range [][]string{{"insecure", "other-ca", "ca"}, {"ca", "other-ca"}, {"other-ca", "insecure"}, {"insecure", "no-ca"}} {
			var valid *certKind
			for i := range kinds {
				if kinds[i].valid && kinds[i].name != "system-root" {
					valid = &kinds[i]
					break
				}
			}
			if valid == nil {
				break
			}
			srv.mu.Lock()
			srv.cert, srv.sni, srv.host = valid.cert, nil, nil
			srv.mu.Unlock()
			dial, addr := dotL.Addr().String(), "tls://dot.example"
			switch kind {
			case "https":
				dial, addr = dohL.Addr().String(), "https://dot.example/dns-query"
			case "quic":
				dial, addr = doqL.Addr().String(), "quic://dot.example"
			}
			cfg := &Config{}
			for i, opt := range order {
				tc := TlsConfig{}
				switch opt {
				case "ca":
					tc.CA = caFile
				case "other-ca":
					tc.CA = otherCAFile
				case "insecure":
					tc.InsecureSkipVerify = true
				}
				cfg.Upstreams = append(cfg.Upstreams, UpstreamConfig{Tag: fmt.Sprintf("u%d", i), Addr: addr, DialAddr: dial, Tls: tc})
			}
			desc := fmt.Sprintf("one router, %s upstream entries to the same server with options %v", kind, order)
			rep.Eval(desc)
			r, err := run(context.Background(), cfg)
			if err != nil {
				rep.Violate("C17:tls:router-start", err.Error()+" "+desc, nil)
				continue
			}
			for round := 0; round < 2; round++ {
				for i, opt := range order {
					ctx, cancel := context.WithTimeout(context.Background(), 5*time.Second)
					m, xerr := r.upstreams[fmt.Sprintf("u%d", i)].u.ExchangeContext(ctx, query)
					cancel()
					ok := m != nil && xerr == nil
					want := opt == "insecure" || opt == "ca"
					if ok != want {
						sig := "accepted-bad-peer"
						if want {
							sig = "rejected-good-peer"
						}
						rep.Violate(fmt.Sprintf("C17:tls:%s:%s:entries=%v:entry=%d", sig, kind, order, i), fmt.Sprintf("entry #%d (%s): exchange success=%v (err %v), expected %v: %s", i, opt, ok, xerr, want, desc), nil)
					}
				}
			}
			r.close(nil)
		}
	}

	// ---- listener side
	_, srvCertPEM, srvKeyPEM := ca.issue("listener", allDNS, allIPs, false, false)
	certFile, keyFile := filepath.Join(dir, "srv.pem"), filepath.Join(dir, "srv.key")
	os.WriteFile(certFile, srvCertPEM, 0o644)
	os.WriteFile(keyFile, srvKeyPEM, 0o600)
	clientCerts := []struct {
		name string
		cert *tls.Certificate
		good bool
	}{
		{"none", nil, false},
		{"signed-by-configured-ca", func() *tls.Certificate { c, _, _ := ca.issue("client", nil, nil, false, true); return &c }(), true},
		{"signed-by-other-ca", func() *tls.Certificate { c, _, _ := other.issue("client", nil, nil, false, true); return &c }(), false},
		{"expired", func() *tls.Certificate { c, _, _ := ca.issue("client", nil, nil, true, true); return &c }(), false},
		{"signed-by-system-root", func() *tls.Certificate { c, _, _ := sysCA.issue("client", nil, nil, false, true); return &c }(), false},
	}
	type lst struct {
		kind, addr string
		verify     bool
		withCA     bool
	}
	for _, order := range []string{"verifying-first", "non-verifying-first", "mutual-tls-upstream-first", "verifying-without-ca"} {
		var ls []lst
		r, _, err := c17Run(func() *Config {
			ls = nil
			cfg := &Config{Rules: []RuleConfig{{Reject: 3}}}
			add := func(kind string, verify, withCA bool) {
				tc := TlsConfig{Cert: certFile, Key: keyFile, VerifyClientCert: verify}
				if withCA {
					tc.CA = caFile
				}
				a := c17FreeAddr(kind == "quic")
				ls = append(ls, lst{kind, a, verify, withCA})
				cfg.Servers = append(cfg.Servers, ServerConfig{Tag: fmt.Sprintf("%s-%d", kind, len(ls)), Protocol: kind, Listen: a, Tls: tc})
			}
			for _, kind := range []string{"tls", "https", "quic"} {
				switch order {
				case "verifying-first":
					add(kind, true, true)
					add(kind, false, true)
				case "non-verifying-first":
					add(kind, false, true)
					add(kind, true, true)
				case "mutual-tls-upstream-first":
					add(kind, true, true)
				case "verifying-without-ca":
					add(kind, true, false) // system roots: none of the harness-minted client certificates chains to them
				}
			}
			if order == "mutual-tls-upstream-first" {
				// upstreams are initialised before the listeners: this one presents the node's certificate (same files) to its server
				cfg.Upstreams = []UpstreamConfig{{Tag: "m", Addr: "tls://localhost", DialAddr: "127.0.0.1:1", Tls: TlsConfig{Cert: certFile, Key: keyFile, CA: caFile}}}
			}
			return cfg
		})
		if err != nil {
			rep.Violate("C17:listener:start", fmt.Sprintf("%s: %v", order, err), nil)
			continue
		}
		for _, l := range ls {
			for _, cc := range clientCerts {
				ccfg := &tls.Config{RootCAs: x509.NewCertPool(), ServerName: "localhost"}
				ccfg.RootCAs.AddCert(ca.cert)
				if cc.cert != nil {
					ccfg.Certificates = []tls.Certificate{*cc.cert}
				}
				if cc.name == "signed-by-system-root" && l.verify && !l.withCA {
					continue // verification against the system roots: that certificate is then acceptable, nothing to judge
				}
				want := !l.verify || (cc.good && l.withCA)
				desc := fmt.Sprintf("start-order=%s listener=%s verify_client_cert=%v ca=%v client-cert=%s", order, l.kind, l.verify, l.withCA, cc.name)
				rep.Eval(desc)
				served, detail := c17Ask(l.kind, l.addr, ccfg, query)
				if served && !want {
					rep.Violate(fmt.Sprintf("C17:listener:served-unauthenticated-client:%s:cert=%s", l.kind, cc.name), "a query was served to a client without an acceptable certificate: "+desc, nil)
				}
				if !served && want {
					rep.Violate(fmt.Sprintf("C17:listener:refused-acceptable-client:%s:cert=%s", l.kind, cc.name), "query not served ("+detail+"): "+desc, nil)
				}
			}
		}
		r.close(nil)
		time.Sleep(200 * time.Millisecond)
	}
	// ---- listener side, client histories: one client (one TLS session cache, as every real TLS client library keeps) visits
	// listeners of the same node that share certificate and name but differ in what they demand of clients. What a listener
	// demands must not depend on where the client has been before (session resumption).
	for _, kind := range []string{"tls", "https", "quic"} {
		type hl struct {
			name, addr, ca string
			verify         bool
		}
		var hls []hl
		r, _, err := c17Run(func() *Config {
			hls = nil
			cfg := &Config{Rules: []RuleConfig{{Reject: 3}}}
			for _, l := range []hl{{name: "open"}, {name: "verify-A", ca: caFile, verify: true}, {name: "verify-B", ca: otherCAFile, verify: true}} {
				l.addr = c17FreeAddr(kind == "quic")
				hls = append(hls, l)
				cfg.Servers = append(cfg.Servers, ServerConfig{Tag: l.name, Protocol: kind, Listen: l.addr, Tls: TlsConfig{Cert: certFile, Key: keyFile, CA: l.ca, VerifyClientCert: l.verify}})
			}
			return cfg
		})
		if err != nil {
			rep.Violate("C17:listener:start", fmt.Sprintf("client-histories %s: %v", kind, err), nil)
			continue
		}
		for _, cc := range clientCerts[:3] {
			ccfg := &tls.Config{RootCAs: x509.NewCertPool(), ServerName: "localhost", ClientSessionCache: tls.NewLRUClientSessionCache(8)}
			ccfg.RootCAs.AddCert(ca.cert)
			if cc.cert != nil {
				ccfg.Certificates = []tls.Certificate{*cc.cert}
			}
			hist := ""
			for _, li := range []int{0, 1, 2, 0, 2, 1, 1, 2, 2} {
				l := hls[li]
				want := !l.verify || (l.name == "verify-A" && cc.name == "signed-by-configured-ca") || (l.name == "verify-B" && cc.name == "signed-by-other-ca")
				desc := fmt.Sprintf("client-history kind=%s client-cert=%s visited-before=[%s] now=%s", kind, cc.name, strings.TrimSpace(hist), l.name)
				rep.Eval(desc)
				served, detail := c17Ask(kind, l.addr, ccfg, query) // Clone() inside keeps the session cache shared
				if served && !want {
					rep.Violate(fmt.Sprintf("C17:listener:served-unauthenticated-client:%s:cert=%s:after-other-listener", kind, cc.name), "a query was served to a client whose certificate does not chain to this listener's CA (the same client, with its TLS session cache, had visited other listeners of the node before): "+desc, nil)
				}
				if !served && want {
					rep.Violate(fmt.Sprintf("C17:listener:refused-acceptable-client:%s:cert=%s:after-other-listener", kind, cc.name), "query not served ("+detail+"): "+desc, nil)
				}
				hist += " " + l.name
			}
		}
		r.close(nil)
		time.Sleep(200 * time.Millisecond)
	}
	rep.Sample(map[string]any{"upstream": "tls://[2001:db8::53] server-cert=valid options=ca", "expect": "success, no SNI, certificate verified for the IP"})
}

// c17Ask sends one query to a listener with the given client TLS configuration; served = a DNS response came back.
func c17Ask(kind, addr string, ccfg *tls.Config, query []byte) (served bool, detail string) {
	switch kind {
	case "tls":
		c, err := tls.DialWithDialer(&net.Dialer{Timeout: 3 * time.Second}, "tcp", addr, ccfg)
		if err != nil {
			return false, err.Error()
		}
		defer c.Close()
		c.SetDeadline(time.Now().Add(5 * time.Second))
		c.Write(refdns.Frame(query))
		hdr := make([]byte, 2)
		if _, err := io.ReadFull(c, hdr); err != nil {
			return false, err.Error()
		}
		return true, ""
	case "https":
		tr := &http.Transport{TLSClientConfig: ccfg.Clone(), ForceAttemptHTTP2: true}
		defer tr.CloseIdleConnections()
		hc := &http.Client{Transport: tr, Timeout: 5 * time.Second}
		req, _ := http.NewRequest("POST", "https://"+addr+"/dns-query", bytes.NewReader(query))
		req.Header.Set("Content-Type", "application/dns-message")
		resp, err := hc.Do(req)
		if err != nil {
			return false, err.Error()
		}
		defer resp.Body.Close()
		b, _ := io.ReadAll(resp.Body)
		_, derr := refdns.Decode(b)
		return resp.StatusCode == 200 && derr == nil, fmt.Sprint(resp.StatusCode)
	default:
		qc := ccfg.Clone()
		qc.NextProtos = []string{"doq"}
		ctx, cancel := context.WithTimeout(context.Background(), 5*time.Second)
		defer cancel()
		conn, err := quic.DialAddr(ctx, addr, qc, &quic.Config{})
		if err != nil {
			return false, err.Error()
		}
		defer conn.CloseWithError(0, "")
		st, err := conn.OpenStreamSync(ctx)
		if err != nil {
			return false, err.Error()
		}
		st.SetDeadline(time.Now().Add(5 * time.Second))
		q0 := append([]byte(nil), query...)
		q0[0], q0[1] = 0, 0
		st.Write(refdns.Frame(q0))
		st.Close()
		b, _ := io.ReadAll(st)
		fs, _ := env.SplitFrames(b)
		return len(fs) == 1, fmt.Sprintf("%d frames", len(fs))
	}
}

func decodeB64(dst []byte, s string) (int, error) {
	return base64.RawURLEncoding.Decode(dst, []byte(s))
}

func quietLog() *log.Logger { return log.New(io.Discard, "", 0) }
