package router

// C17 (b): peers are authenticated exactly as configured. Real crypto/tls
// handshakes on loopback with harness-minted chains: upstream side (DoT, DoH)
// x URL host form x peer certificate kind x TLS options, and listener side
// (DoT, DoH, DoQ) x client certificate kind x verify_client_cert.

import (
	"bytes"
	"context"
	"crypto/ecdsa"
	"crypto/elliptic"
	"crypto/rand"
	"crypto/tls"
	"crypto/x509"
	"crypto/x509/pkix"
	"encoding/base64"
	"encoding/pem"
	"fmt"
	"io"
	"log"
	"math/big"
	"net"
	"net/http"
	"os"
	"path/filepath"
	"sync"
	"testing"
	"time"

	"github.com/IrineSistiana/mosproxy/internal/upstream"
	"github.com/IrineSistiana/mosproxy/internal/zzverif/env"
	"github.com/IrineSistiana/mosproxy/internal/zzverif/refdns"
	"github.com/IrineSistiana/mosproxy/internal/zzverif/report"
	"github.com/quic-go/quic-go"
)

type c17CA struct {
	cert *x509.Certificate
	key  *ecdsa.PrivateKey
	pem  []byte
}

func c17NewCA(cn string) *c17CA {
	key, _ := ecdsa.GenerateKey(elliptic.P256(), rand.Reader)
	tpl := &x509.Certificate{SerialNumber: big.NewInt(time.Now().UnixNano()), Subject: pkix.Name{CommonName: cn}, NotBefore: time.Now().Add(-time.Hour), NotAfter: time.Now().Add(24 * time.Hour),
		IsCA: true, KeyUsage: x509.KeyUsageCertSign | x509.KeyUsageDigitalSignature, BasicConstraintsValid: true}
	der, err := x509.CreateCertificate(rand.Reader, tpl, tpl, &key.PublicKey, key)
	if err != nil {
		panic(err)
	}
	c, _ := x509.ParseCertificate(der)
	return &c17CA{cert: c, key: key, pem: pem.EncodeToMemory(&pem.Block{Type: "CERTIFICATE", Bytes: der})}
}

// issue creates a leaf; ca == nil means self-signed.
func (ca *c17CA) issue(cn string, dns []string, ips []net.IP, expired, client bool) (tls.Certificate, []byte, []byte) {
	key, _ := ecdsa.GenerateKey(elliptic.P256(), rand.Reader)
	tpl := &x509.Certificate{SerialNumber: big.NewInt(time.Now().UnixNano()), Subject: pkix.Name{CommonName: cn}, DNSNames: dns, IPAddresses: ips,
		NotBefore: time.Now().Add(-2 * time.Hour), NotAfter: time.Now().Add(12 * time.Hour), KeyUsage: x509.KeyUsageDigitalSignature,
		ExtKeyUsage: []x509.ExtKeyUsage{x509.ExtKeyUsageServerAuth, x509.ExtKeyUsageClientAuth}, BasicConstraintsValid: true}
	if expired {
		tpl.NotAfter = time.Now().Add(-time.Hour)
	}
	parent, signer := tpl, key
	if ca != nil {
		parent, signer = ca.cert, ca.key
	}
	der, err := x509.CreateCertificate(rand.Reader, tpl, parent, &key.PublicKey, signer)
	if err != nil {
		panic(err)
	}
	kb, _ := x509.MarshalPKCS8PrivateKey(key)
	certPEM := pem.EncodeToMemory(&pem.Block{Type: "CERTIFICATE", Bytes: der})
	keyPEM := pem.EncodeToMemory(&pem.Block{Type: "PRIVATE KEY", Bytes: kb})
	c, err := tls.X509KeyPair(certPEM, keyPEM)
	if err != nil {
		panic(err)
	}
	return c, certPEM, keyPEM
}

type c17Server struct {
	mu   sync.Mutex
	sni  []string
	host []string
	cert tls.Certificate
}

func (s *c17Server) tlsConfig(protos ...string) *tls.Config {
	return &tls.Config{NextProtos: protos, GetConfigForClient: func(chi *tls.ClientHelloInfo) (*tls.Config, error) {
		s.mu.Lock()
		s.sni = append(s.sni, chi.ServerName)
		c := s.cert
		s.mu.Unlock()
		return &tls.Config{Certificates: []tls.Certificate{c}, NextProtos: protos}, nil
	}}
}

func c17Answer(wire []byte) []byte {
	m, err := refdns.Decode(wire)
	if err != nil {
		return nil
	}
	return env.Answer(m, 7, 60).Encode(false)
}

func TestVerifC17TLS(t *testing.T) {
	rep := report.New("C17 TLS authentication")
	defer rep.Write()
	rep.Rule = "E1 full matrix with real crypto/tls on loopback: (upstream) kind {tls, https} x URL host {dot.example, 1.2.3.4, [::1], [2001:db8::53]} (dialled via dial_addr to a local server) x server certificate {valid for all hosts, wrong name, unknown CA, expired, self-signed} x options {ca configured, no ca, insecure_skip_verify} built by the real makeTlsConfig; " +
		"oracle: exchange succeeds iff verification is disabled or (ca configured and certificate valid); SNI equals the URL host for names (none for IP literals) and the HTTP Host header equals the URL host; " +
		"(listener) kind {tls, https, quic} started by the real start*Server with cert/key/ca files x verify_client_cert {off, on with ca, on without ca (system roots)} x client certificate {none, signed by the configured CA, signed by another CA, expired}; oracle: with verification on a query is answered only for the certificate chaining to the configured CA"
	if sh, _ := report.Shard(); sh != 0 {
		rep.Eval("idle-shard")
		rep.Eval("idle-shard2")
		return
	}
	dir, err := os.MkdirTemp("", "verif_c17_")
	if err != nil {
		t.Fatal(err)
	}
	defer os.RemoveAll(dir)
	ca, other := c17NewCA("verif CA"), c17NewCA("other CA")
	caFile := filepath.Join(dir, "ca.pem")
	os.WriteFile(caFile, ca.pem, 0o644)
	allDNS := []string{"dot.example", "localhost", "test.test"}
	allIPs := []net.IP{net.ParseIP("1.2.3.4"), net.ParseIP("::1"), net.ParseIP("2001:db8::53"), net.ParseIP("127.0.0.1")}
	type certKind struct {
		name  string
		cert  tls.Certificate
		valid bool
	}
	mk := func(c tls.Certificate, _, _ []byte) tls.Certificate { return c }
	kinds := []certKind{
		{"valid", mk(ca.issue("srv", allDNS, allIPs, false, false)), true},
		{"wrong-name", mk(ca.issue("srv", []string{"other.example"}, []net.IP{net.ParseIP("9.9.9.9")}, false, false)), false},
		{"unknown-ca", mk(other.issue("srv", allDNS, allIPs, false, false)), false},
		{"expired", mk(ca.issue("srv", allDNS, allIPs, true, false)), false},
		{"self-signed", mk((*c17CA)(nil).issue("srv", allDNS, allIPs, false, false)), false},
	}
	// ---- upstream side
	srv := &c17Server{}
	dotL, err := tls.Listen("tcp", "127.0.0.1:0", srv.tlsConfig())
	if err != nil {
		t.Fatal(err)
	}
	defer dotL.Close()
	go func() {
		for {
			c, err := dotL.Accept()
			if err != nil {
				return
			}
			go func() {
				defer c.Close()
				c.SetDeadline(time.Now().Add(5 * time.Second))
				hdr := make([]byte, 2)
				if _, err := io.ReadFull(c, hdr); err != nil {
					return
				}
				b := make([]byte, int(hdr[0])<<8|int(hdr[1]))
				if _, err := io.ReadFull(c, b); err != nil {
					return
				}
				c.Write(refdns.Frame(c17Answer(b)))
			}()
		}
	}()
	dohL, err := tls.Listen("tcp", "127.0.0.1:0", srv.tlsConfig("h2", "http/1.1"))
	if err != nil {
		t.Fatal(err)
	}
	defer dohL.Close()
	hs := &http.Server{Handler: http.HandlerFunc(func(w http.ResponseWriter, r *http.Request) {
		srv.mu.Lock()
		srv.host = append(srv.host, r.Host)
		srv.mu.Unlock()
		q := r.URL.Query().Get("dns")
		b := make([]byte, len(q))
		n, _ := decodeB64(b, q)
		w.Header().Set("Content-Type", "application/dns-message")
		w.Write(c17Answer(b[:n]))
	}), ErrorLog: nil}
	hs.ErrorLog = quietLog()
	go hs.Serve(dohL)
	defer hs.Close()

	hosts := []struct{ url, sni, name string }{{"dot.example", "dot.example", "dot.example"}, {"1.2.3.4", "", "1.2.3.4"}, {"[::1]", "", "[::1]"}, {"[2001:db8::53]", "", "[2001:db8::53]"}}
	query := refdns.Query(0x1717, refdns.N("auth", "example", "test"), 1, 1).Encode(false)
	for _, kind := range []string{"tls", "https"} {
		for _, h := range hosts {
			for _, ck := range kinds {
				for _, opt := range []string{"ca", "no-ca", "insecure"} {
					srv.mu.Lock()
					srv.cert, srv.sni, srv.host = ck.cert, nil, nil
					srv.mu.Unlock()
					tc := TlsConfig{}
					switch opt {
					case "ca":
						tc.CA = caFile
					case "insecure":
						tc.InsecureSkipVerify = true
					}
					cfg, err := makeTlsConfig(&tc, false)
					desc := fmt.Sprintf("%s://%s server-cert=%s options=%s", kind, h.url, ck.name, opt)
					rep.Eval(desc)
					if err != nil {
						rep.Violate("C17:tls:config", err.Error()+" "+desc, nil)
						continue
					}
					l := dotL
					addr := "tls://" + h.url
					if kind == "https" {
						l = dohL
						addr = "https://" + h.url + "/dns-query"
					}
					u, err := upstream.NewUpstream(addr, upstream.Opt{DialAddr: l.Addr().String(), TLSConfig: cfg})
					if err != nil {
						rep.Violate("C17:tls:new-upstream", err.Error()+" "+desc, nil)
						continue
					}
					ctx, cancel := context.WithTimeout(context.Background(), 5*time.Second)
					m, xerr := u.ExchangeContext(ctx, query)
					cancel()
					u.Close()
					ok := m != nil && xerr == nil
					want := opt == "insecure" || (opt == "ca" && ck.valid)
					if ok != want {
						sig := "accepted-bad-peer"
						if want {
							sig = "rejected-good-peer"
						}
						rep.Violate(fmt.Sprintf("C17:tls:%s:%s:host=%s:cert=%s:opt=%s", sig, kind, h.url, ck.name, opt), fmt.Sprintf("exchange success=%v (err %v), expected %v: %s", ok, xerr, want, desc), nil)
					}
					srv.mu.Lock()
					snis, hostsSeen := append([]string(nil), srv.sni...), append([]string(nil), srv.host...)
					srv.mu.Unlock()
					for _, s := range snis {
						if s != h.sni {
							rep.Violate(fmt.Sprintf("C17:tls:sni:%s:host=%s", kind, h.url), fmt.Sprintf("server saw SNI %q, URL host implies %q: %s", s, h.sni, desc), nil)
						}
					}
					for _, s := range hostsSeen {
						if s != h.name {
							rep.Violate(fmt.Sprintf("C17:tls:http-host:host=%s", h.url), fmt.Sprintf("server saw Host %q, URL host is %q: %s", s, h.name, desc), nil)
						}
					}
					if ok && len(snis) == 0 {
						rep.Violate("C17:tls:no-handshake-seen", desc, nil)
					}
				}
			}
		}
	}

	// ---- listener side
	_, srvCertPEM, srvKeyPEM := ca.issue("listener", allDNS, allIPs, false, false)
	certFile, keyFile := filepath.Join(dir, "srv.pem"), filepath.Join(dir, "srv.key")
	os.WriteFile(certFile, srvCertPEM, 0o644)
	os.WriteFile(keyFile, srvKeyPEM, 0o600)
	clientCerts := []struct {
		name string
		cert *tls.Certificate
		good bool
	}{
		{"none", nil, false},
		{"signed-by-configured-ca", func() *tls.Certificate { c, _, _ := ca.issue("client", nil, nil, false, true); return &c }(), true},
		{"signed-by-other-ca", func() *tls.Certificate { c, _, _ := other.issue("client", nil, nil, false, true); return &c }(), false},
		{"expired", func() *tls.Certificate { c, _, _ := ca.issue("client", nil, nil, true, true); return &c }(), false},
	}
	for _, mode := range []string{"verify-off", "verify-on+ca", "verify-on-no-ca"} {
		verify := mode != "verify-off"
		cfgR := c03Config("forward")
		v, err := vNewRouter(cfgR, "u1")
		if err != nil {
			t.Fatal(err)
		}
		v.ups["u1"].Auto = func(q *upQuery) *upResult { return &upResult{wire: env.Answer(q.Msg, 1, 60).Encode(false)} }
		tlsCfg := TlsConfig{Cert: certFile, Key: keyFile, CA: caFile, VerifyClientCert: verify}
		if mode == "verify-on-no-ca" {
			tlsCfg.CA = "" // system roots: none of the harness-minted client certificates chains to them
		}
		tcpS, err1 := v.r.startTcpServer(&ServerConfig{Protocol: "tls", Listen: "127.0.0.1:0", Tls: tlsCfg}, true)
		httpS, err2 := v.r.startHttpServer(&ServerConfig{Protocol: "https", Listen: "127.0.0.1:0", Tls: tlsCfg}, true)
		quicS, err3 := v.r.startQuicServer(&ServerConfig{Protocol: "quic", Listen: "127.0.0.1:0", Tls: tlsCfg})
		if err1 != nil || err2 != nil {
			rep.Violate("C17:listener:start", fmt.Sprint(err1, err2), nil)
			v.r.close(nil)
			continue
		}
		for _, cc := range clientCerts {
			ccfg := &tls.Config{RootCAs: x509.NewCertPool(), ServerName: "localhost"}
			ccfg.RootCAs.AddCert(ca.cert)
			if cc.cert != nil {
				ccfg.Certificates = []tls.Certificate{*cc.cert}
			}
			want := !verify || (cc.good && mode == "verify-on+ca")
			judge := func(kind string, served bool, detail string) {
				desc := fmt.Sprintf("listener=%s %s client-cert=%s", kind, mode, cc.name)
				rep.Eval(desc)
				if served && !want {
					rep.Violate(fmt.Sprintf("C17:listener:served-unauthenticated-client:%s:cert=%s", kind, cc.name), "a query was served to a client without an acceptable certificate: "+desc, nil)
				}
				if !served && want {
					rep.Violate(fmt.Sprintf("C17:listener:refused-acceptable-client:%s:cert=%s", kind, cc.name), "query not served ("+detail+"): "+desc, nil)
				}
			}
			// DoT
			func() {
				c, err := tls.DialWithDialer(&net.Dialer{Timeout: 3 * time.Second}, "tcp", tcpS.l.Addr().String(), ccfg)
				if err != nil {
					judge("tls", false, err.Error())
					return
				}
				defer c.Close()
				c.SetDeadline(time.Now().Add(5 * time.Second))
				c.Write(refdns.Frame(query))
				hdr := make([]byte, 2)
				if _, err := io.ReadFull(c, hdr); err != nil {
					judge("tls", false, err.Error())
					return
				}
				judge("tls", true, "")
			}()
			// DoH
			func() {
				tr := &http.Transport{TLSClientConfig: ccfg.Clone(), ForceAttemptHTTP2: true}
				defer tr.CloseIdleConnections()
				hc := &http.Client{Transport: tr, Timeout: 5 * time.Second}
				req, _ := http.NewRequest("POST", "https://"+httpS.Handler.(*httpHandler).localAddr.String()+"/dns-query", bytes.NewReader(query))
				req.Header.Set("Content-Type", "application/dns-message")
				resp, err := hc.Do(req)
				if err != nil {
					judge("https", false, err.Error())
					return
				}
				defer resp.Body.Close()
				b, _ := io.ReadAll(resp.Body)
				_, derr := refdns.Decode(b)
				judge("https", resp.StatusCode == 200 && derr == nil, fmt.Sprint(resp.StatusCode))
			}()
			// DoQ
			if err3 == nil {
				func() {
					qc := ccfg.Clone()
					qc.NextProtos = []string{"doq"}
					ctx, cancel := context.WithTimeout(context.Background(), 5*time.Second)
					defer cancel()
					conn, err := quic.DialAddr(ctx, quicS.l.Addr().String(), qc, &quic.Config{})
					if err != nil {
						judge("quic", false, err.Error())
						return
					}
					defer conn.CloseWithError(0, "")
					st, err := conn.OpenStreamSync(ctx)
					if err != nil {
						judge("quic", false, err.Error())
						return
					}
					st.SetDeadline(time.Now().Add(5 * time.Second))
					q0 := append([]byte(nil), query...)
					q0[0], q0[1] = 0, 0
					st.Write(refdns.Frame(q0))
					st.Close()
					b, _ := io.ReadAll(st)
					fs, _ := env.SplitFrames(b)
					judge("quic", len(fs) == 1, fmt.Sprintf("%d frames", len(fs)))
				}()
			}
		}
		if err3 == nil {
			quicS.Close()
		}
		v.r.close(nil)
	}
	rep.Sample(map[string]any{"upstream": "tls://[2001:db8::53] server-cert=valid options=ca", "expect": "success, no SNI, certificate verified for the IP"})
}

func decodeB64(dst []byte, s string) (int, error) {
	return base64.RawURLEncoding.Decode(dst, []byte(s))
}

func quietLog() *log.Logger { return log.New(io.Discard, "", 0) }
