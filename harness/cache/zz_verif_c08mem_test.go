package cache

// C08 (memory cache level): nothing is handed out once its lifetime has elapsed,
// whatever stored-time the entry carries (an entry promoted from the second-level
// cache is stored with a stored-time in the past). Exhaustive enumeration of short
// timed histories of Store / advance-clock on the real MemoryCache (real otter)
// in a synctest bubble, with a lookup after every step.

import (
	"fmt"
	"strings"
	"testing"
	"testing/synctest"
	"time"

	poolpkg "github.com/IrineSistiana/mosproxy/internal/pool"
	"github.com/IrineSistiana/mosproxy/internal/zzverif/choice"
	"github.com/IrineSistiana/mosproxy/internal/zzverif/report"
)

type c08Cand struct {
	val            string
	stored, expire time.Time
}

func c08MemScenario(c *choice.Ctx, rep *report.R, depth int) {
	mc, err := NewMemoryCache(1 << 20)
	if err != nil {
		panic(err)
	}
	defer mc.Close()
	var trace []string
	fail := func(sig, msg string) {
		rep.Violate("C08:mem-lifetime:"+sig, msg+"\n  history: "+strings.Join(trace, " "), map[string]any{"Choices": c.Choices()})
	}
	t0 := time.Now()
	at := func() string { return fmt.Sprintf("t=%v", time.Since(t0)) }
	ages := []time.Duration{0, 4 * time.Second, 30 * time.Second}
	rems := []time.Duration{2 * time.Second, 6 * time.Second, 20 * time.Second}
	steps := []time.Duration{time.Second, 3 * time.Second, 7 * time.Second}
	var cands []c08Cand // entries the cache may hold for the key (a set-if-absent store may or may not replace an expired, unswept entry)
	serial := 0
	key := []byte("k")
	lookup := func() {
		v, st, ex := mc.Get(key)
		if v == nil {
			trace = append(trace, "get=miss")
			return
		}
		defer poolpkg.ReleaseBuf(v)
		now := time.Now()
		var m *c08Cand
		for i := range cands {
			if cands[i].val == string(v) {
				m = &cands[i]
			}
		}
		trace = append(trace, fmt.Sprintf("get=%s(%s)", string(v), at()))
		switch {
		case m == nil:
			fail("foreign-value", fmt.Sprintf("Get returned %q which cannot be in the cache", string(v)))
		case !st.Equal(m.stored) || !ex.Equal(m.expire):
			fail("times-altered", fmt.Sprintf("Get returned stored/expire %v/%v, the entry was stored with %v/%v", st.Sub(t0), ex.Sub(t0), m.stored.Sub(t0), m.expire.Sub(t0)))
		case !now.Before(m.expire.Add(2 * time.Second)):
			fail("served-after-lifetime", fmt.Sprintf("at %s the cache still hands out %q whose lifetime ended at t=%v (stored-time t=%v)", at(), string(v), m.expire.Sub(t0), m.stored.Sub(t0)))
		}
	}
	nOps := 1 + c.Choose(depth, "ops")
	for i := 0; i < nOps; i++ {
		if i == 0 || c.Choose(2, "op") == 0 {
			age := ages[c.Choose(len(ages), "stored-time-age")]
			rem := rems[c.Choose(len(rems), "remaining-lifetime")]
			nx := c.Choose(2, "set-if-absent") == 1
			serial++
			now := time.Now()
			e := c08Cand{val: fmt.Sprintf("v%d", serial), stored: now.Add(-age), expire: now.Add(rem)}
			mc.Store(key, e.stored, e.expire, []byte(e.val), nx)
			trace = append(trace, fmt.Sprintf("store(%s age=%v remaining=%v nx=%v)", e.val, age, rem, nx))
			if !nx {
				cands = []c08Cand{e}
			} else {
				allLive := len(cands) > 0
				for _, x := range cands {
					if !now.Before(x.expire) {
						allLive = false
					}
				}
				if !allLive {
					cands = append(cands, e)
				}
			}
		} else {
			d := steps[c.Choose(len(steps), "advance")]
			time.Sleep(d)
			synctest.Wait()
			trace = append(trace, fmt.Sprintf("+%v", d))
		}
		synctest.Wait()
		lookup()
	}
	// run out the clock second by second
	for i := 0; i < 24; i++ {
		time.Sleep(time.Second)
		synctest.Wait()
		lookup()
	}
	rep.Eval(strings.Join(trace, " "))
	rep.State(fmt.Sprintf("%d|%d", serial, len(cands)))
	report.Progress()
}

func TestVerifC08Mem(t *testing.T) {
	rep := report.New("C08 memory cache lifetimes")
	defer rep.Write()
	depth := report.ParamInt("DEPTH", 3)
	rep.Rule = fmt.Sprintf("E3: real MemoryCache (real otter) in a synctest bubble; every history of 1..%d steps from {Store(stored-time now / 4 s ago / 30 s ago, remaining lifetime 2/6/20 s, plain or set-if-absent), advance the clock by 1/3/7 s}, "+
		"a lookup after every step and then every second for 24 s; oracle: a returned value is one the cache can hold, with the stored/expire times it was stored with, and never at or after its expire time + 2 s", depth)
	sh, n := report.Shard()
	opt := choice.Options{Bound: -1, Shard: sh, NShards: n, ShardDepth: 3, Deadline: report.Deadline()}
	synctest.Test(t, func(t *testing.T) {
		// closed caches' sweeper goroutines notice the close at their next 1 s tick: let them exit before the bubble ends
		defer func() { time.Sleep(3 * time.Second); synctest.Wait() }()
		if rp := report.ReplayFile(); rp != nil {
			var x struct{ Choices []int }
			rp.Decode(&x)
			choice.Replay(x.Choices, true, func(c *choice.Ctx) bool { c08MemScenario(c, rep, depth); return true })
			return
		}
		st := choice.Explore(opt, func(c *choice.Ctx) bool {
			report.SetCurrent(c)
			c08MemScenario(c, rep, depth)
			report.FlushCurrent()
			return rep.NViolations() < 30
		})
		rep.AddTransitions(st.ChoicePoints)
		if st.Capped {
			rep.Cap(st.CapReason)
		}
		rep.Count("executions", st.Executions)
	})
	rep.Sample(map[string]any{"history": "store(v1 age=30s remaining=6s) +7s get", "expect": "miss (or v1 only before t=8s)"})
}
