package cache

// C07 (d) / C20: the memory cache under concurrent Get / Store / eviction.
// The real mem.go (sync -> vsync, otter -> votter by import rewriting) is run
// under the E2 scheduler: all interleavings at lock / pool / backend operations
// up to a preemption bound, with an adversarial LIFO entry pool and the
// buffer-ownership hook.

import (
	"bytes"
	"fmt"
	poolpkg "github.com/IrineSistiana/mosproxy/internal/pool"
	"os"
	"strings"
	"testing"
	"time"

	"github.com/IrineSistiana/mosproxy/internal/zzverif/choice"
	"github.com/IrineSistiana/mosproxy/internal/zzverif/env"
	"github.com/IrineSistiana/mosproxy/internal/zzverif/report"
	"github.com/IrineSistiana/mosproxy/internal/zzverif/sched"
	"github.com/IrineSistiana/mosproxy/internal/zzverif/votter"
)

func c07Val(key string, serial int) []byte {
	return []byte(fmt.Sprintf("%s#%d#%s", key, serial, strings.Repeat(key, 6)))
}

func c07MemScenario(c *choice.Ctx, rep *report.R, variant int) {
	own := env.InstallOwn(0xA5, false)
	defer env.UninstallOwn()
	mc, err := NewMemoryCache(1 << 20)
	if err != nil {
		panic(err)
	}
	now := time.Now()
	exp := now.Add(time.Hour)
	stored := map[string][]string{} // key -> values ever stored
	store := func(k string, serial int, nx bool) {
		v := c07Val(k, serial)
		stored[k] = append(stored[k], string(v))
		// the key and value buffers are the caller's: they go back to its pool and are overwritten as soon as Store returned
		kb, vb := []byte(k), append([]byte(nil), v...)
		mc.Store(kb, now, exp, vb, nx)
		for i := range kb {
			kb[i] = env.Poison
		}
		for i := range vb {
			vb[i] = env.Poison
		}
	}
	// initial content (set up outside the scheduled run)
	store("k1", 1, false)
	if variant >= 2 {
		store("k2", 1, false)
	}
	var results []string
	bad := func(sig, msg string, s *sched.Sched) {
		tr := ""
		if s != nil {
			tr = strings.Join(s.Trace, " ")
		}
		rep.Violate(c07MemProp()+":mem:"+sig, fmt.Sprintf("%s\n  variant %d schedule: %s", msg, variant, tr), map[string]any{"Choices": c.Choices(), "Variant": variant})
	}
	get := func(k string) {
		v, _, _ := mc.Get([]byte(k))
		if v == nil {
			results = append(results, k+"=miss")
			return
		}
		ok := false
		for _, s := range stored[k] {
			if s == string(v) {
				ok = true
			}
		}
		switch {
		case own.Tainted(v) != "":
			results = append(results, fmt.Sprintf("%s=POISON %x", k, []byte(v)))
		case !ok:
			results = append(results, fmt.Sprintf("%s=FOREIGN %q", k, []byte(v)))
		default:
			results = append(results, k+"=hit")
		}
		poolRelease(v)
	}
	evict := func(k string) {
		votter.Evict(mc.backend, k)
	}
	var names []string
	var bodies []func()
	add := func(n string, f func()) { names = append(names, n); bodies = append(bodies, f) }
	switch variant {
	case 0: // lookup vs eviction vs a store that recycles the entry
		add("get(k1)", func() { get("k1") })
		add("store(k2)+get(k2)", func() { store("k2", 2, false); get("k2") })
		add("evict(k1)", func() { evict("k1") })
	case 1: // replacement of the looked-up key (Set hands the old entry to the listener)
		add("get(k1)", func() { get("k1") })
		add("store(k1')", func() { store("k1", 2, false) })
		add("store(k3)", func() { store("k3", 1, true) })
	case 2: // two evictions, two lookups
		add("get(k1)+get(k2)", func() { get("k1"); get("k2") })
		add("evict(k1)+store(k3)", func() { evict("k1"); store("k3", 1, false) })
		add("evict(k2)+store(k4)", func() { evict("k2"); store("k4", 1, true) })
	case 3: // negative store (SetIfAbsent) racing with a positive one and a lookup
		add("get(k1)", func() { get("k1") })
		add("storeNX(k1)", func() { store("k1", 3, true) })
		add("evict(k1)+store(k1'')", func() { evict("k1"); store("k1", 4, false) })
		add("get(k2)", func() { get("k2") })
	}
	finalWant := ""
	mustHit := false
	switch variant {
	case 4: // C08: a negative answer (SetIfAbsent) racing with a positive one for a key that is not cached yet
		add("storeNX(k5 negative)", func() { store("k5", 1, true) })
		add("store(k5 positive)", func() { store("k5", 2, false) })
		add("get(k1)", func() { get("k1") })
		finalWant = "k5#2#"
	case 5: // C08: a negative answer arriving while the positive entry is live and being read / refreshed
		add("storeNX(k1 negative)", func() { store("k1", 3, true) })
		add("get(k1)", func() { get("k1") })
		add("store(k2)", func() { store("k2", 2, false) })
		finalWant = "k1#1#"
	case 6: // C07 (hit guarantee): two lookups of the same live entry overlap; nothing evicts or replaces it
		add("get(k1)", func() { get("k1") })
		add("get(k1)'", func() { get("k1") })
		add("store(k2)", func() { store("k2", 2, false) })
		mustHit = true
	}
	s := sched.Run(c, names, bodies)
	if finalWant != "" {
		// in every linearization the positive entry is what the cache holds afterwards (nothing was evicted)
		k := strings.SplitN(finalWant, "#", 2)[0]
		v, _, _ := mc.Get([]byte(k))
		if v == nil || !strings.HasPrefix(string(v), finalWant) {
			bad("negative-displaced-positive", fmt.Sprintf("after a positive store and a negative (set-if-absent) store of %s both completed, the cache holds %q, want the positive value %q...", k, []byte(v), finalWant), s)
		}
		if v != nil {
			poolRelease(v)
		}
	}
	if s.Deadlock {
		bad("deadlock", "no thread can proceed", s)
	}
	if s.Livelock {
		bad("livelock", "step limit reached", s)
	}
	for _, p := range s.Panics() {
		bad("panic", p, s)
	}
	if mustHit && c07MemProp() == "C07" {
		for _, r := range results {
			if strings.HasSuffix(r, "=miss") {
				bad("live-entry-missed", "a lookup of a live entry that nobody evicts or replaces missed because another lookup of the same entry was in progress: "+r, s)
			}
		}
	}
	for _, r := range results {
		if strings.Contains(r, "POISON") {
			bad("lookup-returned-released-memory", "Get returned bytes of a released buffer: "+r, s)
		} else if strings.Contains(r, "FOREIGN") {
			bad("lookup-returned-other-keys-data", "Get returned data that was never stored under that key: "+r, s)
		}
	}
	for _, v := range own.Audit() {
		bad("ownership", v, s)
	}
	for _, k := range votter.Keys(mc.backend) {
		if strings.IndexByte(k, env.Poison) >= 0 {
			bad("ownership:key-aliases-callers-buffer", fmt.Sprintf("the cache holds the key %q: it kept the caller's key buffer instead of a copy, and the caller has reused that buffer since", k), s)
		}
	}
	rep.Eval(fmt.Sprintf("%d|%s|%v", variant, strings.Join(s.Trace, " "), results))
	rep.State(fmt.Sprintf("%d|%v", variant, results))
	rep.AddTransitions(int64(s.Steps))
}

var _ = bytes.Equal

func TestVerifC07Mem(t *testing.T) {
	rep := report.New("C07/C20 memory cache under the controlled scheduler")
	defer rep.Write()
	bound := report.ParamInt("PREEMPTIONS", 2)
	rep.Rule = fmt.Sprintf("E2: real internal/cache/mem.go with sync->vsync (LIFO always-reusing Pool, scheduled Mutex/RWMutex incl. TryRLock) and otter->votter (linearizable map whose removal and deletion-listener call are separate steps); 7 thread programs "+
		"{get(k1) | store(k2);get(k2) | evict(k1)}, {get(k1) | store(k1') | storeNX(k3)}, {get(k1);get(k2) | evict(k1);store(k3) | evict(k2);storeNX(k4)}, {get(k1) | storeNX(k1) | evict(k1);store(k1'') | get(k2)}, {storeNX(k5 negative) | store(k5 positive) | get(k1)}, {storeNX(k1 negative) | get(k1) | store(k2)}, {get(k1) | get(k1) | store(k2)} (C07: both lookups hit); all interleavings at lock/pool/backend operations with <=%d preemptions; "+
		"oracle: Get(k) returns nil or a value ever stored under k, never poison; no double/foreign release, no write after release (ownership hook), no deadlock, no panic; after programs 5 and 6 the cache holds the positive value (a set-if-absent store never displaces it); states = distinct result vectors", bound)
	sh, n := report.Shard()
	for variant := 0; variant < 7; variant++ {
		variant := variant
		if rp := report.ReplayFile(); rp != nil {
			var x struct {
				Choices []int
				Variant int
			}
			rp.Decode(&x)
			if x.Variant == variant {
				choice.Replay(x.Choices, true, func(c *choice.Ctx) bool { c07MemScenario(c, rep, variant); return true })
			}
			continue
		}
		st := choice.Explore(choice.Options{Bound: bound, Shard: sh, NShards: n, ShardDepth: 4, Deadline: report.Deadline()}, func(c *choice.Ctx) bool {
			c07MemScenario(c, rep, variant)
			return rep.NViolations() < 30
		})
		if st.Capped {
			rep.Cap(st.CapReason)
		}
		rep.Count(fmt.Sprintf("executions_variant%d", variant), st.Executions)
	}
	rep.Sample(map[string]any{"threads": "get(k1) | store(k2);get(k2) | evict(k1)", "schedule": "get(k1):otter.Get evict(k1):otter.evict.remove evict(k1):otter.evict.listener ... store(k2):Pool.Get(reuses k1's entry) ... get(k1):TryRLock", "oracle": "get(k1) is a miss or k1's bytes"})
}

func poolRelease(b []byte) { poolpkg.ReleaseBuf(b) }

// the same exploration serves C07 (d), C04 (eviction pressure) and C20 (recycled memory): the orchestrator names the property
func c07MemProp() string {
	if p := os.Getenv("VERIF_PROP"); p != "" {
		return p
	}
	return "C07"
}
