package cache

// RedisCache as an object (C18, C07): every sequence of up to N operations over {Get, AsyncStore, AsyncStore NX, Close} on the real
// RedisCache connected to a harness-made RESP2 server on loopback; a second instance reads what the first one stored.
// Oracles: no operation panics in any state (in particular after Close, where a late store of an in-flight request lands), Close is
// idempotent and returns, and a value read back equals the value stored under that key with its two timestamps.

import (
	"bufio"
	"bytes"
	"context"
	"fmt"
	"io"
	"net"
	"strconv"
	"strings"
	"sync"
	"testing"
	"time"

	"github.com/IrineSistiana/mosproxy/internal/zzverif/report"
)

type vredisEntry struct {
	v      []byte
	expire time.Time
}

type vredisSet struct {
	key string
	nx  bool
	px  int64
	at  time.Time
}

type vredis struct {
	l    net.Listener
	mu   sync.Mutex
	kv   map[string]vredisEntry
	sets []vredisSet
	gets int
	// getDelay: every GET is answered this much later
	getDelay time.Duration
	getLog   []vredisGet
}

type vredisGet struct {
	recv, replied time.Time
}

func newVRedis() (*vredis, error) {
	l, err := net.Listen("tcp", "127.0.0.1:0")
	if err != nil {
		return nil, err
	}
	s := &vredis{l: l, kv: map[string]vredisEntry{}}
	go func() {
		for {
			c, err := l.Accept()
			if err != nil {
				return
			}
			go s.serve(c)
		}
	}()
	return s, nil
}

func vredisRead(br *bufio.Reader) ([]string, error) {
	line, err := br.ReadString('\n')
	if err != nil {
		return nil, err
	}
	line = strings.TrimRight(line, "\r\n")
	if len(line) == 0 || line[0] != '*' {
		return nil, fmt.Errorf("not an array: %q", line)
	}
	n, err := strconv.Atoi(line[1:])
	if err != nil {
		return nil, err
	}
	var args []string
	for i := 0; i < n; i++ {
		h, err := br.ReadString('\n')
		if err != nil {
			return nil, err
		}
		h = strings.TrimRight(h, "\r\n")
		if len(h) == 0 || h[0] != '$' {
			return nil, fmt.Errorf("not a bulk string: %q", h)
		}
		l, err := strconv.Atoi(h[1:])
		if err != nil {
			return nil, err
		}
		b := make([]byte, l+2)
		if _, err := io.ReadFull(br, b); err != nil {
			return nil, err
		}
		args = append(args, string(b[:l]))
	}
	return args, nil
}

func (s *vredis) serve(c net.Conn) {
	defer c.Close()
	br := bufio.NewReader(c)
	for {
		a, err := vredisRead(br)
		if err != nil || len(a) == 0 {
			return
		}
		out := ""
		switch strings.ToUpper(a[0]) {
		case "PING":
			out = "+PONG\r\n"
		case "CLIENT", "SELECT", "AUTH":
			out = "+OK\r\n"
		case "HELLO":
			out = "-ERR unknown command 'HELLO'\r\n"
		case "CLUSTER":
			out = "-ERR This instance has cluster support disabled\r\n"
		case "GET":
			s.mu.Lock()
			d := s.getDelay
			s.mu.Unlock()
			recv := time.Now()
			if d > 0 {
				time.Sleep(d)
			}
			s.mu.Lock()
			s.gets++
			s.getLog = append(s.getLog, vredisGet{recv, time.Now()})
			e, ok := s.kv[a[1]]
			if ok && !time.Now().Before(e.expire) {
				delete(s.kv, a[1])
				ok = false
			}
			s.mu.Unlock()
			if ok {
				out = fmt.Sprintf("$%d\r\n%s\r\n", len(e.v), e.v)
			} else {
				out = "$-1\r\n"
			}
		case "SET":
			set := vredisSet{key: a[1], px: -1, at: time.Now()}
			for i := 3; i < len(a); i++ {
				switch strings.ToUpper(a[i]) {
				case "NX":
					set.nx = true
				case "PX":
					i++
					set.px, _ = strconv.ParseInt(a[i], 10, 64)
				case "EX":
					i++
					sec, _ := strconv.ParseInt(a[i], 10, 64)
					set.px = sec * 1000
				}
			}
			s.mu.Lock()
			s.sets = append(s.sets, set)
			old, live := s.kv[a[1]]
			live = live && time.Now().Before(old.expire)
			if set.nx && live {
				out = "$-1\r\n"
			} else {
				exp := time.Now().Add(1000 * time.Hour)
				if set.px >= 0 {
					exp = time.Now().Add(time.Duration(set.px) * time.Millisecond)
				}
				s.kv[a[1]] = vredisEntry{v: []byte(a[2]), expire: exp}
				out = "+OK\r\n"
			}
			s.mu.Unlock()
		default:
			out = "-ERR unknown command '" + a[0] + "'\r\n"
		}
		if _, err := c.Write([]byte(out)); err != nil {
			return
		}
	}
}

var _ = io.EOF

func TestVerifRedisAPI(t *testing.T) {
	rep := report.New("C18 RedisCache operation sequences")
	defer rep.Write()
	maxLen := report.ParamInt("MAXLEN", 4)
	ops := []string{"get", "store", "store-nx", "close", "get-other-key"}
	rep.Rule = fmt.Sprintf("real RedisCache (rueidis client) against a harness-made RESP2 server on loopback, marked connected (the state after the first ping); every sequence of length <=%d over %v, then Close twice; "+
		"oracle: no operation panics in any state (a store after Close is what a request still in flight does when the router is closed), Close returns and is idempotent, a Get that returns a value returns a value that was stored under that key (stores are asynchronous: not necessarily the latest), unchanged, with its timestamps (whole seconds)", maxLen, ops)
	rd, err := newVRedis()
	if err != nil {
		t.Fatal(err)
	}
	defer rd.l.Close()
	idx := 0
	var seq []int
	var rec func()
	run := func() {
		idx++
		if !report.Owns(idx) {
			return
		}
		var names []string
		for _, o := range seq {
			names = append(names, ops[o])
		}
		desc := strings.Join(names, ",")
		rep.Eval(desc)
		c, err := NewRedisCache("redis://"+rd.l.Addr().String()+"?protocol=2&client_cache=0", nil)
		if err != nil {
			rep.Violate("C18:redis-api:new", err.Error(), nil)
			return
		}
		go c.pingLoop()
		go c.setLoop()
		c.connected.Store(true)
		key := []byte(fmt.Sprintf("k-%d", idx))
		other := []byte(fmt.Sprintf("other-%d", idx))
		var stored []byte
		// (stores are asynchronous: a Get may see any of the values stored under the key so far, not necessarily the latest)
		var allStored [][]byte
		wasStored := func(v []byte) bool {
			for _, x := range allStored {
				if bytes.Equal(x, v) {
					return true
				}
			}
			return false
		}
		now := time.Now()
		closed := false
		step := func(name string, f func()) (ok bool) {
			done := make(chan any, 1)
			go func() {
				defer func() { done <- recover() }()
				f()
			}()
			select {
			case p := <-done:
				if p != nil {
					rep.Violate("C18:redis-api:panic:"+name, fmt.Sprintf("%s panicked (%v) in the sequence %s", name, p, desc), map[string]any{"Seq": seq})
					return false
				}
				return true
			case <-time.After(20 * time.Second):
				rep.Violate("C18:redis-api:blocks:"+name, fmt.Sprintf("%s did not return within 20 s in the sequence %s", name, desc), map[string]any{"Seq": seq})
				return false
			}
		}
		for i, o := range seq {
			switch ops[o] {
			case "get", "get-other-key":
				k := key
				if ops[o] == "get-other-key" {
					k = other
				}
				var st, ex time.Time
				var v []byte
				if !step("Get", func() { st, ex, v = c.Get(context.Background(), k) }) {
					return
				}
				if v != nil && !closed {
					if ops[o] == "get-other-key" {
						rep.Violate("C07:redis-api:value-of-another-key", fmt.Sprintf("Get of a key that was never stored returned %q in %s", v, desc), nil)
					} else if !wasStored(v) || st.Unix() != now.Unix() || ex.Unix() != now.Add(5*time.Second).Unix() {
						rep.Violate("C07:redis-api:value-changed", fmt.Sprintf("Get returned %q (%v..%v), stored %q (%v..%v) in %s", v, st.Unix(), ex.Unix(), stored, now.Unix(), now.Add(5*time.Second).Unix(), desc), nil)
					}
				}
			case "store", "store-nx":
				v := []byte(fmt.Sprintf("value-%d-%d\x00\xff", idx, i))
				if !step("AsyncStore", func() { c.AsyncStore(key, now, now.Add(5*time.Second), v, ops[o] == "store-nx") }) {
					return
				}
				if !closed {
					allStored = append(allStored, v)
					stored = v
				}
				time.Sleep(15 * time.Millisecond) // let the set loop send it
			case "close":
				if !step("Close", func() { c.Close() }) {
					return
				}
				closed = true
			}
		}
		step("Close", func() { c.Close(); c.Close() })
	}
	rec = func() {
		if len(seq) > 0 {
			run()
		}
		if len(seq) == maxLen {
			return
		}
		for o := range ops {
			seq = append(seq, o)
			rec()
			seq = seq[:len(seq)-1]
		}
	}
	rec()
	rep.Sample(map[string]any{"sequence": "store,close,store,get", "expect": "no panic; the get after Close returns nothing"})
}
