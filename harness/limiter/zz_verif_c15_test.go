package limiter

// C15 (limiter core): per-client-subnet token bucket. All arrival sequences up
// to a length bound over (address, delay, cost) under the virtual clock (the
// real gc ticker runs), checked against the property's two inequalities.

import (
	"fmt"
	"math"
	"net/netip"
	"strings"
	"testing"
	"testing/synctest"
	"time"

	"github.com/IrineSistiana/mosproxy/internal/zzverif/choice"
	"github.com/IrineSistiana/mosproxy/internal/zzverif/report"
)

type c15Cfg struct {
	limit  float64
	burst  int
	v4, v6 int // 0 = default
}

func (c c15Cfg) eff() (limit float64, burst int, v4, v6 int) {
	limit, burst, v4, v6 = c.limit, c.burst, c.v4, c.v6
	if burst <= 0 {
		burst = int(limit)
	}
	if v4 <= 0 || v4 > 32 {
		v4 = 24
	}
	if v6 <= 0 || v6 > 128 {
		v6 = 48
	}
	return
}

// subnet per the property: v4 (incl. v4-mapped) masked to /v4, v6 to /v6
func c15Subnet(a netip.Addr, v4, v6 int) string {
	a = a.Unmap()
	if a.Is4() {
		p, _ := a.Prefix(v4)
		return p.String()
	}
	p, _ := a.Prefix(v6)
	return p.String()
}

type c15Admit struct {
	at   time.Duration
	cost int
}

var c15Addrs = []netip.Addr{
	netip.MustParseAddr("198.51.100.7"), netip.MustParseAddr("198.51.100.200"), netip.MustParseAddr("198.51.101.7"), netip.MustParseAddr("::ffff:198.51.100.9"),
	netip.MustParseAddr("2001:db8:1:1::7"), netip.MustParseAddr("2001:db8:1:ffff::8"), netip.MustParseAddr("2001:db8:2::7"), netip.MustParseAddr("198.60.0.1"),
}

var c15Delays = []time.Duration{0, 0, time.Second, 61 * time.Second, 121 * time.Second} // index 1 is replaced by 1/limit
var c15Costs = []int{1, 3, 15, -1}                                                      // -1 stands for "exactly the burst size" (a run of admitted requests compressed into one)

func c15Run(c *choice.Ctx, rep *report.R, cfg c15Cfg, addrs []netip.Addr, maxLen int, tag string) {
	limit, burst, v4, v6 := cfg.eff()
	cl := NewClientLimiter(ClientLimiterOpts{Limit: cfg.limit, Burst: cfg.burst, V4Mask: cfg.v4, V6Mask: cfg.v6})
	defer func() {
		cl.Close()
		synctest.Wait()
	}()
	start := time.Now()
	admitted := map[string][]c15Admit{} // per subnet
	var trace []string
	n := 1 + c.Choose(maxLen, "len")
	// The caller supplies the time stamp (resourceLimiter reads the clock before it takes the entry's lock): two requests of one
	// subnet may arrive with their stamps in the wrong order. At most one arrival of a history (not the first) carries a stamp
	// 1 ms older than the clock; golang.org/x/time/rate then credits that millisecond twice, which the bound allows for.
	back := c.Choose(n, "stamp-1ms-in-the-past")
	const backStep = time.Millisecond
	fail := func(sig, msg string) {
		rep.Violate("C15:limiter:"+sig, fmt.Sprintf("%s\n  config limit=%v burst=%d v4_mask=%d v6_mask=%d (0 = omitted); arrivals: %s", msg, cfg.limit, cfg.burst, cfg.v4, cfg.v6, strings.Join(trace, " ")),
			map[string]any{"Choices": c.Choices(), "Tag": tag})
	}
	for i := 0; i < n; i++ {
		a := addrs[c.Choose(len(addrs), "addr")]
		di := c.Choose(len(c15Delays), "delay")
		d := c15Delays[di]
		if di == 1 {
			d = time.Duration(float64(time.Second) / limit)
		}
		cost := c15Costs[c.Choose(len(c15Costs), "cost")]
		if cost < 0 {
			cost = burst
		}
		if d > 0 {
			time.Sleep(d)
			synctest.Wait()
		}
		stamp := time.Now()
		if back > 0 && i == back {
			stamp = stamp.Add(-backStep)
		}
		now := stamp.Sub(start)
		ok := cl.AllowN(a, stamp, cost)
		sn := c15Subnet(a, v4, v6)
		trace = append(trace, fmt.Sprintf("+%v %s cost%d=%v", d, a, cost, ok))
		if back > 0 && i == back {
			trace[len(trace)-1] += "(stamp 1ms in the past)"
		}
		slack := 0.0
		if back > 0 && i >= back {
			slack = limit * backStep.Seconds()
		}
		if ok {
			admitted[sn] = append(admitted[sn], c15Admit{now, cost})
			// (i) over every window ending now, admitted cost of this subnet <= burst + rate*window
			sum := 0
			ad := admitted[sn]
			for j := len(ad) - 1; j >= 0; j-- {
				sum += ad[j].cost
				w := (now - ad[j].at).Seconds()
				if w < 0 {
					w = 0
				}
				if float64(sum) > float64(burst)+limit*w+slack+1e-6 {
					fail("bound-exceeded", fmt.Sprintf("subnet %s: cost %d admitted within a %.3fs window, bound burst+rate*window = %.3f", sn, sum, w, float64(burst)+limit*w+slack))
					break
				}
			}
		} else if back == 0 || i < back {
			// (ii) a subnet within its own budget must not be refused: reference bucket fed only with this subnet's admitted traffic
			tokens := float64(burst)
			last := time.Duration(0)
			for _, x := range admitted[sn] {
				tokens = math.Min(float64(burst), tokens+(x.at-last).Seconds()*limit)
				tokens -= float64(x.cost)
				last = x.at
			}
			tokens = math.Min(float64(burst), tokens+(now-last).Seconds()*limit)
			if len(admitted[sn]) == 0 && cost <= burst {
				// nothing was ever admitted for this subnet: its bucket is full, whatever other subnets did
				fail("fresh-subnet-refused", fmt.Sprintf("the first request ever of subnet %s (cost %d <= burst %d, from %s) was refused: traffic of another subnet was charged to it", sn, cost, burst, a))
			} else if float64(cost) <= tokens-1e-6 && cost <= burst {
				fail("refused-within-budget", fmt.Sprintf("subnet %s has %.3f tokens by its own traffic but a request of cost %d from %s was refused", sn, tokens, cost, a))
			}
		}
	}
	rep.Eval(tag + fmt.Sprintf("%+v", cfg) + strings.Join(trace, ";"))
}

// c15PhaseSweep: drain / silence / return histories on a quarter-second grid, so that the return falls at every phase relative to
// the limiter's periodic clean-up, for configurations whose burst is and is not a multiple of the rate. History: the subnet spends
// its whole burst at time T, is silent for I, then asks for its whole burst again (and once more 0.25 s later); T in 0..Tmax,
// I in 0.25..Imax. Oracle: the same window bound and within-budget rule as c15Run.
func c15PhaseSweep(t *testing.T, rep *report.R, tmaxQ, imaxQ int) {
	cfgs := []c15Cfg{{20, 50, 0, 0}, {20, 0, 0, 0}, {3, 10, 0, 0}, {7, 10, 0, 0}, {1, 5, 0, 0}, {0.5, 3, 0, 0}}
	idx := 0
	synctest.Test(t, func(t *testing.T) {
		for ci, cfg := range cfgs {
			limit, burst, _, _ := cfg.eff()
			for tq := 0; tq <= tmaxQ; tq++ {
				idx++
				if !report.Owns(idx) {
					continue
				}
				for iq := 1; iq <= imaxQ; iq++ {
					T, I := time.Duration(tq)*250*time.Millisecond, time.Duration(iq)*250*time.Millisecond
					cl := NewClientLimiter(ClientLimiterOpts{Limit: cfg.limit, Burst: cfg.burst})
					a := c15Addrs[0]
					start := time.Now()
					var adm []c15Admit
					var trace []string
					ask := func(cost int) {
						now := time.Since(start)
						ok := cl.AllowN(a, time.Now(), cost)
						trace = append(trace, fmt.Sprintf("t=%v cost%d=%v", now, cost, ok))
						if !ok {
							return
						}
						adm = append(adm, c15Admit{now, cost})
						sum := 0
						for j := len(adm) - 1; j >= 0; j-- {
							sum += adm[j].cost
							w := (now - adm[j].at).Seconds()
							if float64(sum) > float64(burst)+limit*w+1e-6 {
								rep.Violate("C15:limiter:bound-exceeded:after-idle", fmt.Sprintf("cost %d admitted within a %.3fs window, bound burst+rate*window = %.3f\n  config limit=%v burst=%d; history: %s",
									sum, w, float64(burst)+limit*w, cfg.limit, cfg.burst, strings.Join(trace, " ")), map[string]any{"Phase": true, "Cfg": ci, "T": tq, "I": iq})
								return
							}
						}
					}
					time.Sleep(T)
					synctest.Wait()
					ask(burst)
					time.Sleep(I)
					synctest.Wait()
					ask(burst)
					time.Sleep(250 * time.Millisecond)
					synctest.Wait()
					ask(burst)
					ask(1)
					cl.Close()
					synctest.Wait()
					rep.Eval(fmt.Sprintf("phase|%d|%d|%d|%d", ci, tq, iq, len(adm)))
				}
				report.Progress()
			}
		}
	})
}

// c15LateDrain: histories in which the moment a subnet was last *seen* and the moment its bucket was last *drained* differ, for
// configurations whose burst takes minutes to refill (burst/rate of 120 s and 200 s): first contact (cost 1) at T0 (7, 22, 37, 52 s after the limiter was made: the clean-up
// runs once a minute), the rest of the bucket spent D seconds later, silence for R seconds, then the whole burst is asked for again (and once more 1 s later).
// D in {1, 15, 29, 31, 45, 59} s, R on a 5 s grid up to burst/rate + 35 s, so that the return falls before and after every run
// of the periodic clean-up that could discard the bucket. Same window bound as c15Run.
func c15LateDrain(t *testing.T, rep *report.R) {
	cfgs := []c15Cfg{{1, 120, 0, 0}, {1, 200, 0, 0}, {0.5, 90, 0, 0}}
	idx := 0
	synctest.Test(t, func(t *testing.T) {
		for ci, cfg := range cfgs {
			limit, burst, _, _ := cfg.eff()
			for _, TD := range [][2]int{{7, 1}, {7, 15}, {7, 29}, {7, 31}, {7, 45}, {7, 59}, {22, 15}, {22, 29}, {22, 45}, {37, 1}, {37, 15}, {37, 29}, {37, 31}, {52, 15}, {52, 29}, {52, 45}, {52, 59}} {
				T0, D := TD[0], TD[1]
				idx++
				if !report.Owns(idx) {
					continue
				}
				for R := 5; R <= int(float64(burst)/limit)+35; R += 5 {
					cl := NewClientLimiter(ClientLimiterOpts{Limit: cfg.limit, Burst: cfg.burst})
					a := c15Addrs[0]
					start := time.Now()
					var adm []c15Admit
					var trace []string
					ask := func(cost int) {
						now := time.Since(start)
						ok := cl.AllowN(a, time.Now(), cost)
						trace = append(trace, fmt.Sprintf("t=%v cost%d=%v", now, cost, ok))
						if !ok {
							return
						}
						adm = append(adm, c15Admit{now, cost})
						sum := 0
						for j := len(adm) - 1; j >= 0; j-- {
							sum += adm[j].cost
							w := (now - adm[j].at).Seconds()
							if float64(sum) > float64(burst)+limit*w+1e-6 {
								rep.Violate("C15:limiter:bound-exceeded:late-drain", fmt.Sprintf("cost %d admitted within a %.3fs window, bound burst+rate*window = %.3f\n  config limit=%v burst=%d; history: %s",
									sum, w, float64(burst)+limit*w, cfg.limit, cfg.burst, strings.Join(trace, " ")), map[string]any{"LateDrain": true})
								return
							}
						}
					}
					time.Sleep(time.Duration(T0) * time.Second) // phase of the first contact relative to the clean-up ticker (one run a minute)
					synctest.Wait()
					ask(1)
					time.Sleep(time.Duration(D) * time.Second)
					synctest.Wait()
					ask(burst - 1)
					ask(int(float64(D) * limit)) // what has been refilled meanwhile
					time.Sleep(time.Duration(R) * time.Second)
					synctest.Wait()
					ask(burst)
					time.Sleep(time.Second)
					synctest.Wait()
					ask(burst)
					ask(1)
					cl.Close()
					synctest.Wait()
					rep.Eval(fmt.Sprintf("late-drain|%d|%d|%d|%d|%d", ci, T0, D, R, len(adm)))
				}
				report.Progress()
			}
		}
	})
}

// c15ManySubnets: isolation does not depend on how many subnets the limiter has seen. n distinct subnets (v4 and v6) each spend
// their whole burst in the same instant; every one of them is admitted (it is that subnet's first request), and so are the first
// requests of fresh subnets afterwards.
// c15FarClock: a limiter that has been up for a long time - 1 day, 2^31 ms, 2^32 ms (49.7 days) give or take a second, 2^33 ms,
// 400 days on the virtual clock, with the periodic clean-up running all along - still holds a subnet to its burst at one
// instant, refills at its rate, and admits a fresh subnet.
func c15FarClock(t *testing.T, rep *report.R) {
	for _, up := range []time.Duration{24 * time.Hour, (1<<31 - 1000) * time.Millisecond, (1<<31 + 1000) * time.Millisecond, (1<<32 - 1000) * time.Millisecond,
		(1<<32 + 1000) * time.Millisecond, (1<<33 + 1000) * time.Millisecond, 400 * 24 * time.Hour} {
		synctest.Test(t, func(t *testing.T) {
			const burst = 10
			cl := NewClientLimiter(ClientLimiterOpts{Limit: 1, Burst: burst})
			defer func() { cl.Close(); synctest.Wait() }()
			a := netip.MustParseAddr("198.51.100.7")
			cl.AllowN(a, time.Now(), 1) // known before the long wait
			time.Sleep(up)
			synctest.Wait()
			desc := fmt.Sprintf("limiter up for %v (limit 1/s, burst %d)", up, burst)
			rep.Eval("far-clock|" + up.String())
			for _, addr := range []netip.Addr{a, netip.MustParseAddr("203.0.113.9")} {
				now := time.Now()
				admitted := 0
				for i := 0; i < 5*burst; i++ {
					if cl.AllowN(addr, now, 1) {
						admitted++
					}
				}
				if admitted != burst {
					rep.Violate("C15:limiter:far-clock:burst", fmt.Sprintf("%d of %d requests of %s admitted at one instant, the burst is %d: %s", admitted, 5*burst, addr, burst, desc), map[string]any{"Phase": true})
				}
				time.Sleep(3 * time.Second)
				synctest.Wait()
				now = time.Now()
				admitted = 0
				for i := 0; i < 5*burst; i++ {
					if cl.AllowN(addr, now, 1) {
						admitted++
					}
				}
				if admitted != 3 {
					rep.Violate("C15:limiter:far-clock:refill", fmt.Sprintf("3 s after its bucket was emptied %d requests of %s are admitted at one instant (rate 1/s): %s", admitted, addr, desc), map[string]any{"Phase": true})
				}
			}
		})
	}
}

func c15ManySubnets(t *testing.T, rep *report.R, n int) {
	synctest.Test(t, func(t *testing.T) {
		cl := NewClientLimiter(ClientLimiterOpts{Limit: 1, Burst: 3})
		defer func() { cl.Close(); synctest.Wait() }()
		now := time.Now()
		for i := 0; i < n; i++ {
			var a netip.Addr
			if i%2 == 0 {
				a = netip.AddrFrom4([4]byte{byte(16 + (i>>16)&0x7F), byte(i >> 8), byte(i), 7}) // a distinct /24 per i
			} else {
				a = netip.AddrFrom16([16]byte{0x20, 0x01, byte(i >> 24), byte(i >> 16), byte(i >> 8), byte(i), 0, 0, 0, 0, 0, 0, 0, 0, 0, 9}) // distinct /48
			}
			if !cl.AllowN(a, now, 3) {
				rep.Violate("C15:limiter:many-subnets:fresh-subnet-refused", fmt.Sprintf("the first request of subnet number %d (%s, cost 3 = burst) was refused after %d other subnets had been seen", i+1, a, i), map[string]any{"Phase": true, "Many": n})
				return
			}
			if i%4096 == 0 {
				report.Progress()
			}
		}
		rep.Eval(fmt.Sprintf("many-subnets|%d", n))
	})
}

func TestVerifC15(t *testing.T) {
	rep := report.New("C15 client limiter")
	defer rep.Write()
	maxLen := report.ParamInt("MAXLEN", 3)
	var cfgs []c15Cfg
	for _, l := range []float64{1, 20} {
		for _, b := range []int{0, 1, 5, 200} {
			cfgs = append(cfgs, c15Cfg{l, b, 0, 0})
		}
	}
	maskCfgs := []c15Cfg{}
	for _, v4 := range []int{0, 16, 21, 24, 25, 27, 32} {
		for _, v6 := range []int{0, 48, 50, 53, 64} {
			maskCfgs = append(maskCfgs, c15Cfg{1, 1, v4, v6})
		}
	}
	// addresses that differ from a base address in exactly one bit around the mask boundaries
	var maskAddrs []netip.Addr
	base4 := netip.MustParseAddr("198.51.100.0").As4()
	maskAddrs = append(maskAddrs, netip.AddrFrom4(base4), netip.AddrFrom16(netip.AddrFrom4(base4).As16()))
	for _, bit := range []int{14, 15, 16, 20, 21, 22, 23, 24, 25, 26, 27, 31} { // bit index from the left, 0-based
		b := base4
		b[bit/8] ^= 0x80 >> (bit % 8)
		maskAddrs = append(maskAddrs, netip.AddrFrom4(b))
	}
	// cross-family aliases: the v6 address whose leading octets are the octets of a v4 address (and the v4 address made of the leading
	// octets of the v6 base): buckets are per (family, prefix), never per leading octets alone
	for _, a4 := range [][4]byte{base4, {198, 51, 100, 77}} {
		var b16 [16]byte
		copy(b16[:], a4[:])
		maskAddrs = append(maskAddrs, netip.AddrFrom16(b16))
	}
	maskAddrs = append(maskAddrs, netip.AddrFrom4([4]byte{0x20, 0x01, 0x0d, 0xb8}), netip.MustParseAddr("2001:db8::"))
	base6 := netip.MustParseAddr("2001:db8:1::").As16()
	maskAddrs = append(maskAddrs, netip.AddrFrom16(base6))
	for _, bit := range []int{46, 47, 48, 49, 50, 52, 53, 63, 64, 127} {
		b := base6
		b[bit/8] ^= 0x80 >> (bit % 8)
		maskAddrs = append(maskAddrs, netip.AddrFrom16(b))
	}
	rep.Rule = fmt.Sprintf("E3 (virtual clock, real gc ticker): (buckets) configs limit{1,20} x burst{omitted,1,5,200} with default masks x all arrival sequences of length <=%d over 3 addresses in 2 subnets x delay {0, 1/limit, 1s, 61s, 121s} x cost {1,3,15,burst}; "+
		"(masks) v4_mask {omitted,16,21,24,25,27,32} x v6_mask {omitted,48,50,53,64} with limit=burst=1 x all ordered pairs over 30 addresses (a v4 base, its v4-mapped form and a v6 base, each with one bit flipped at positions around every mask boundary, plus cross-family aliases: v6 addresses whose leading octets equal a v4 address and vice versa) at one instant; "+
		"oracle: over every window the admitted cost per property-defined subnet <= burst + rate*window; a request within the budget left by its own subnet's traffic is never refused; "+
		"(phases) configs (rate,burst) {(20,50),(20,default),(3,10),(7,10),(1,5),(0.5,3)}: spend the whole burst at T, stay silent for I, ask for the whole burst again (twice) for every T in 0..%ds and I in 0.25..%ds on a 0.25 s grid, i.e. at every phase of the periodic clean-up; (late drain) configs (rate,burst) {(1,120),(1,200),(0.5,90)}: first contact at phase {7,22,37,52} s of the once-a-minute clean-up, rest of the bucket spent D in {1,15,29,31,45,59} s later, silence R on a 5 s grid up to burst/rate+35 s, whole burst asked again; (many subnets) %d distinct subnets (v4 /24 and v6 /48 alternating) each spend their burst in one instant: every first request is admitted", maxLen, report.ParamInt("PHASE_T", 260)/4, report.ParamInt("PHASE_I", 40)/4, report.ParamInt("SUBNETS", 140000))
	if rp := report.ReplayFile(); rp != nil {
		var x struct{ Phase bool }
		rp.Decode(&x)
		var z struct{ LateDrain bool }
		rp.Decode(&z)
		if z.LateDrain {
			c15LateDrain(t, rep)
			return
		}
		var y struct{ Many int }
		rp.Decode(&y)
		if y.Many > 0 {
			c15ManySubnets(t, rep, y.Many)
			return
		}
		if x.Phase {
			c15PhaseSweep(t, rep, report.ParamInt("PHASE_T", 260), report.ParamInt("PHASE_I", 40))
			return
		}
	}
	sh, nsh := report.Shard()
	run := func(tag string, cfg c15Cfg, addrs []netip.Addr, ml int, delays bool) {
		opt := choice.Options{Bound: -1, Shard: sh, NShards: nsh, ShardDepth: 3, Deadline: report.Deadline()}
		if rp := report.ReplayFile(); rp != nil {
			var x struct {
				Choices []int
				Tag     string
			}
			rp.Decode(&x)
			if x.Tag != tag {
				return
			}
			choice.Replay(x.Choices, true, func(c *choice.Ctx) bool {
				synctest.Test(t, func(t *testing.T) { c15Run(c, rep, cfg, addrs, ml, tag) })
				return true
			})
			return
		}
		var st choice.Stats
		// one bubble for the whole exploration (the early abort of another worker's subtree unwinds through Explore)
		synctest.Test(t, func(t *testing.T) {
			st = choice.Explore(opt, func(c *choice.Ctx) bool {
				c15Run(c, rep, cfg, addrs, ml, tag)
				return rep.NViolations() < 30
			})
		})
		rep.AddTransitions(st.ChoicePoints)
		if st.Capped {
			rep.Cap(st.CapReason)
		}
	}
	for i, cfg := range cfgs {
		run(fmt.Sprintf("bucket%d", i), cfg, c15Addrs[:3], maxLen, true)
	}
	saved := c15Delays
	c15Delays = []time.Duration{0}
	c15Costs = []int{1}
	for i, cfg := range maskCfgs {
		run(fmt.Sprintf("mask%d", i), cfg, maskAddrs, 2, false)
	}
	c15Delays = saved
	if rp := report.ReplayFile(); rp == nil {
		c15LateDrain(t, rep)
		c15FarClock(t, rep)
		c15PhaseSweep(t, rep, report.ParamInt("PHASE_T", 260), report.ParamInt("PHASE_I", 40))
		if sh, _ := report.Shard(); sh == 0 {
			c15ManySubnets(t, rep, report.ParamInt("SUBNETS", 140000))
		}
	}
	rep.Sample(map[string]any{"config": "limit=1 burst=200 masks omitted", "arrivals": "+0 198.51.100.7 cost15 ... ; +121s 198.51.100.7 cost15", "oracle": "admitted cost in any window <= 200 + 1*window"})
}
