package limiter

// Free-running pass for the client limiter (C15, C20): AllowN is called by every listener goroutine and the clean-up runs beside
// them. -race build: the Go race detector decides
// whether the calls and the clean-up share unsynchronized state.

import (
	"fmt"
	"net/netip"
	"sync"
	"sync/atomic"
	"testing"
	"time"

	"github.com/IrineSistiana/mosproxy/internal/zzverif/report"
)

func TestVerifC15Race(t *testing.T) {
	rep := report.New("C15 concurrent AllowN and clean-up")
	defer rep.Write()
	const G = 4
	rounds := report.ParamInt("ROUNDS", 2000)
	rep.Rule = fmt.Sprintf("free-running pass: %d goroutines x %d rounds call AllowN (cost 1) for two subnets (each subnet from two addresses) on one limiter (rate 1000/s, burst 50) while another goroutine runs the clean-up pass in a loop; "+
		"-race build: a data race reported by the Go race detector is a violation", G, rounds)
	cl := NewClientLimiter(ClientLimiterOpts{Limit: 1000, Burst: 50})
	defer cl.Close()
	addrs := []netip.Addr{netip.MustParseAddr("198.51.100.7"), netip.MustParseAddr("198.51.100.200"), netip.MustParseAddr("2001:db8:1::7"), netip.MustParseAddr("2001:db8:1:ffff::8")}
	var admitted [2]atomic.Int64
	start := time.Now()
	stop := make(chan struct{})
	var gcwg sync.WaitGroup
	gcwg.Add(1)
	go func() {
		defer gcwg.Done()
		for {
			select {
			case <-stop:
				return
			default:
				cl.gc()
			}
		}
	}()
	var wg sync.WaitGroup
	for g := 0; g < G; g++ {
		wg.Add(1)
		go func(g int) {
			defer wg.Done()
			for r := 0; r < rounds; r++ {
				i := (g + r) % len(addrs)
				if cl.AllowN(addrs[i], time.Now(), 1) {
					admitted[i/2].Add(1)
				}
			}
		}(g)
	}
	wg.Wait()
	close(stop)
	gcwg.Wait()
	// (No bound is judged here: each caller passes its own time.Now(), and callers that overtake each other between reading the
	// clock and reaching the bucket make the bucket's clock step back, which credits the overtaken interval twice - an effect of the
	// caller-supplied timestamps that is proportional to the scheduling delay. The bound is decided under consistent timestamps by
	// the limiter and concurrent-e2 parts; this pass is for the race detector.)
	_ = start
	for s := 0; s < 2; s++ {
		rep.Eval(fmt.Sprintf("subnet%d admitted=%v", s, admitted[s].Load() > 0))
	}
}
