package limiter

// C15 (concurrency): concurrent admissions for the same and different subnets
// under the E2 scheduler (sync -> vsync, xsync -> vxsync by import rewriting).

import (
	"fmt"
	"net/netip"
	"strings"
	"testing"
	"time"

	"github.com/IrineSistiana/mosproxy/internal/zzverif/choice"
	"github.com/IrineSistiana/mosproxy/internal/zzverif/report"
	"github.com/IrineSistiana/mosproxy/internal/zzverif/sched"
)

func c15E2Scenario(c *choice.Ctx, rep *report.R, variant int) {
	burst := 2
	cl := NewClientLimiter(ClientLimiterOpts{Limit: 1, Burst: burst})
	defer cl.Close()
	now := time.Now()
	type req struct {
		addr netip.Addr
		cost int
		ok   bool
	}
	a1, a2, b1 := netip.MustParseAddr("198.51.100.7"), netip.MustParseAddr("198.51.100.99"), netip.MustParseAddr("198.51.101.7")
	var progs [][]*req
	switch variant {
	case 0:
		progs = [][]*req{{{addr: a1, cost: 2}}, {{addr: a2, cost: 2}}, {{addr: b1, cost: 2}}}
	case 1:
		progs = [][]*req{{{addr: a1, cost: 1}, {addr: a1, cost: 1}}, {{addr: a2, cost: 1}, {addr: a2, cost: 1}}, {{addr: a1, cost: 1}}}
	case 2: // an already known subnet plus a new one
		cl.AllowN(a1, now, 1)
		progs = [][]*req{{{addr: a1, cost: 1}}, {{addr: a2, cost: 1}}, {{addr: b1, cost: 1}, {addr: b1, cost: 2}}}
	}
	var names []string
	var bodies []func()
	for i, p := range progs {
		p := p
		names = append(names, fmt.Sprintf("T%d", i))
		bodies = append(bodies, func() {
			for _, r := range p {
				r.ok = cl.AllowN(r.addr, now, r.cost)
			}
		})
	}
	s := sched.Run(c, names, bodies)
	fail := func(sig, msg string) {
		rep.Violate("C15:concurrent:"+sig, fmt.Sprintf("%s\n  variant %d schedule: %s", msg, variant, strings.Join(s.Trace, " ")), map[string]any{"Choices": c.Choices(), "Variant": variant})
	}
	if s.Deadlock {
		fail("deadlock", "no thread can proceed")
	}
	for _, p := range s.Panics() {
		fail("panic", p)
	}
	admitted := map[string]int{}
	if variant == 2 {
		admitted["a"] = 1
	}
	var obs []string
	for _, p := range progs {
		for _, r := range p {
			sn := "a"
			if r.addr == b1 {
				sn = "b"
			}
			if r.ok {
				admitted[sn] += r.cost
			}
			obs = append(obs, fmt.Sprintf("%s:%d=%v", sn, r.cost, r.ok))
		}
	}
	for sn, n := range admitted {
		if n > burst {
			fail("bound-exceeded", fmt.Sprintf("subnet %s: cost %d admitted at one instant with burst %d (%v)", sn, n, burst, obs))
		}
	}
	// isolation: subnet b is never refused while within its own budget
	if variant == 0 {
		for _, r := range progs[2] {
			if !r.ok {
				fail("refused-within-budget", fmt.Sprintf("the only request of subnet b was refused (%v)", obs))
			}
		}
	}
	rep.Eval(fmt.Sprintf("%d|%s", variant, strings.Join(s.Trace, " ")))
	rep.State(fmt.Sprintf("%d|%v", variant, obs))
	rep.AddTransitions(int64(s.Steps))
}

func TestVerifC15E2(t *testing.T) {
	rep := report.New("C15 concurrent admissions (E2)")
	defer rep.Write()
	bound := report.ParamInt("PREEMPTIONS", 3)
	rep.Rule = fmt.Sprintf("E2: real client_limiter.go with sync->vsync and xsync->vxsync (map operations are atomic steps separated by scheduling points); 3 thread programs over addresses in the same /24 and another /24 at one instant (rate 1, burst 2); "+
		"all interleavings with <=%d preemptions; oracle: admitted cost per subnet <= burst, a fresh subnet is not refused", bound)
	sh, n := report.Shard()
	for variant := 0; variant < 3; variant++ {
		variant := variant
		if rp := report.ReplayFile(); rp != nil {
			var x struct {
				Choices []int
				Variant int
			}
			rp.Decode(&x)
			if x.Variant == variant {
				choice.Replay(x.Choices, true, func(c *choice.Ctx) bool { c15E2Scenario(c, rep, variant); return true })
			}
			continue
		}
		st := choice.Explore(choice.Options{Bound: bound, Shard: sh, NShards: n, ShardDepth: 4, Deadline: report.Deadline()}, func(c *choice.Ctx) bool {
			c15E2Scenario(c, rep, variant)
			return rep.NViolations() < 30
		})
		if st.Capped {
			rep.Cap(st.CapReason)
		}
	}
	rep.Sample(map[string]any{"threads": "AllowN(198.51.100.7,2) | AllowN(198.51.100.99,2) | AllowN(198.51.101.7,2)", "oracle": "subnet 198.51.100.0/24 admits at most cost 2"})
}
