#!/usr/bin/env python3
"""Prints the tables of DESIGN.md that are derived from files: `parts` (per property, from verifspec.py) and
`seeds <round>` (from seeded/*/meta.json)."""
import glob, json, sys


OVERRIDE = {"listeners@C01": "real: child process with every listener kind", "quic@C15": "real quic-go", "startup@C18": "real", "concurrent-match": "free-running pass, plain + -race",
            "domain-condition-concurrent": "free-running pass, plain + -race"}


def kind(p, pid=""):
    if p["name"] + "@" + pid in OVERRIDE:
        return OVERRIDE[p["name"] + "@" + pid]
    if p["name"] in OVERRIDE:
        return OVERRIDE[p["name"]]
    f = " ".join(p.get("files", {}).keys()) + p.get("run", "")
    if p.get("go") == "go" and "E2" not in p.get("run", "") and "e2" not in p["name"]:
        eng = "real" if ("real" in p["name"] or p["name"] in ("tls", "redis", "redis-slow", "udp-source", "udp-multi-route", "doh-replies", "listeners", "startup", "quic", "sockets")) else "E1"
    elif "e2" in p["name"] or "E2" in p.get("run", ""):
        eng = "E2"
    elif p.get("go") == "go1.26" and "preempt" in p["name"]:
        eng = "E3+E4"
    elif p.get("go") == "go1.26":
        eng = "E3"
    else:
        eng = "E1"
    if p["name"] == "sockets":
        eng = "real"
    if p.get("race") or p.get("race_only"):
        eng += ", +race"
    return eng


def parts():
    import verifspec
    print("| property | parts |\n|---|---|")
    for pid in sorted(verifspec.SPECS):
        ps = verifspec.SPECS[pid]["parts"]
        print("| %s | %s |" % (pid, ", ".join("`%s` (%s)" % (p["name"], kind(p, pid)) for p in ps)))


def seeds(rnd):
    print("| seed | prop | needs to manifest | caught by |\n|---|---|---|---|")
    for f in sorted(glob.glob("seeded/*/meta.json")):
        m = json.load(open(f))
        if str(m.get("round", 1)) != rnd:
            continue
        by = "; ".join(m.get("caught_by", []))
        print("| `%s` | %s | %s | %s |" % (m["name"], m["property"], (lambda t: t if len(t) <= 420 else t[:417] + "...")(" ".join(m.get("needs_to_manifest", "").split())).replace("|", "\\|"), by.replace("|", "\\|")))


if __name__ == "__main__":
    if sys.argv[1] == "parts":
        parts()
    else:
        seeds(sys.argv[2])
