package env

import (
	"bytes"
	"fmt"
	"math/bits"
	"sync"
	"sync/atomic"
	"unsafe"

	"github.com/IrineSistiana/mosproxy/internal/pool"
	"github.com/IrineSistiana/mosproxy/internal/zzverif/sched"
)

// Buffer-ownership hook (installed into internal/pool via the verif build tag).
//
//   - GetBuf returns a fresh slice with bytespool's capacity classes, filled with
//     an "uninitialised" pattern.
//   - ReleaseBuf checks live / released once / released by base pointer, fills the
//     buffer with poison and parks it in a quarantine that is audited at the end
//     of every execution (a changed poison byte = write after release).
//   - poison showing up in any observable output = read after release.
//
// In race builds the hook keeps no shared bookkeeping (it would add
// happens-before edges): it only poisons on release and drops the buffer.

const (
	Poison = 0xDB
)

type Own struct {
	mu             sync.Mutex
	Uninit         byte
	live           map[*byte]int // base pointer -> alloc id
	quarantine     [][]byte
	nextID         int
	Violations     []string
	race           bool
	Gets, Releases int
}

func capClass(size int) int {
	switch {
	case size <= 0:
		return 0
	case size <= 256:
		return 1 << bits.Len(uint(size-1))
	default:
		b := bits.Len(uint(size - 1))
		l := ((size - 1) >> (b - 3)) & 0b11
		h := b - 9
		return 1<<(h+8) + (l+1)<<(h+6)
	}
}

// InstallOwn installs the hook. uninit is the fill pattern for fresh buffers.
func InstallOwn(uninit byte, race bool) *Own {
	o := &Own{Uninit: uninit, live: map[*byte]int{}, race: race}
	curOwn.Store(o)
	pool.VerifGetBuf = o.get
	pool.VerifReleaseBuf = o.release
	pool.VerifGo = func(fn func()) bool { go fn(); return true }
	return o
}

var curOwn atomic.Pointer[Own]

// OwnNote records an ownership violation found by a harness-side probe (e.g. a message handed to a caller that is at the
// same time in the free list) with the installed hook, so that the scenario's Audit reports it.
func OwnNote(s string) {
	if o := curOwn.Load(); o != nil {
		o.mu.Lock()
		o.violate(s)
		o.mu.Unlock()
	}
}

func UninstallOwn() {
	curOwn.Store(nil)
	pool.VerifGetBuf = nil
	pool.VerifReleaseBuf = nil
	pool.VerifGo = nil
}

func (o *Own) get(size int) pool.Buffer {
	sched.Point("GetBuf") // buffer operations are scheduling points in E2 runs (no-op elsewhere)
	if size <= 0 {
		return []byte{}
	}
	c := capClass(size)
	b := make([]byte, c)
	for i := range b {
		b[i] = o.Uninit
	}
	if !o.race {
		o.mu.Lock()
		o.nextID++
		o.Gets++
		o.live[unsafe.SliceData(b)] = o.nextID
		o.mu.Unlock()
	}
	return b[:size]
}

func (o *Own) violate(s string) {
	o.Violations = append(o.Violations, s)
}

func (o *Own) release(b pool.Buffer) bool {
	sched.Point("ReleaseBuf")
	if b == nil {
		if !o.race {
			o.mu.Lock()
			o.violate("release of nil buffer")
			o.mu.Unlock()
		}
		return true
	}
	if cap(b) == 0 {
		return true
	}
	full := b[:cap(b)]
	if o.race {
		for i := range full {
			full[i] = Poison
		}
		return true
	}
	base := unsafe.SliceData(full)
	o.mu.Lock()
	defer o.mu.Unlock()
	o.Releases++
	if _, ok := o.live[base]; !ok {
		// not live: either a double release, a foreign slice, or a buffer that predates the hook
		if cap(b) != capClass(cap(b)) {
			o.violate(fmt.Sprintf("release of a slice that is not a pool buffer (cap %d)", cap(b)))
			return true
		}
		for _, q := range o.quarantine {
			if unsafe.SliceData(q) == base {
				o.violate(fmt.Sprintf("double release of a %d-byte buffer", cap(b)))
				return true
			}
		}
		return true // allocated before the hook was installed (or by another execution)
	}
	delete(o.live, base)
	for i := range full {
		full[i] = Poison
	}
	o.quarantine = append(o.quarantine, full)
	return true
}

// Audit checks the quarantine for writes after release and resets it.
func (o *Own) Audit() []string {
	if o == nil {
		return nil
	}
	o.mu.Lock()
	defer o.mu.Unlock()
	for _, q := range o.quarantine {
		for i, c := range q {
			if c != Poison {
				o.violate(fmt.Sprintf("write after release: byte %d of a released %d-byte buffer changed to %#x", i, len(q), c))
				break
			}
		}
	}
	v := o.Violations
	o.Violations = nil
	o.quarantine = nil
	o.live = map[*byte]int{}
	return v
}

// Tainted reports whether b contains a run of >=4 poison or uninit bytes.
func (o *Own) Tainted(b []byte) string {
	if o == nil {
		return "" // the scenario runs without the hook (recycled buffers keep their content, as in production)
	}
	if bytes.Contains(b, []byte{Poison, Poison, Poison, Poison}) {
		return "poison (released memory)"
	}
	u := o.Uninit
	if bytes.Contains(b, []byte{u, u, u, u}) {
		return "uninitialised pool memory"
	}
	return ""
}
