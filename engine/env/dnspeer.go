package env

import (
	"fmt"
	"hash/fnv"

	"github.com/IrineSistiana/mosproxy/internal/zzverif/refdns"
)

// KeyIP is the keyed function F(name, class, type) every scripted upstream uses
// for its answers: a 3-byte hash of the (lower-cased) question. The 4th byte of
// an answer address is a per-reply serial, so duplicated / stale / mixed-up
// replies are distinguishable.
func KeyIP(name refdns.Name, class, typ uint16) [3]byte {
	h := fnv.New32a()
	h.Write(name.Lower().Wire())
	h.Write([]byte{0, byte(class >> 8), byte(class), byte(typ >> 8), byte(typ)})
	v := h.Sum32()
	return [3]byte{byte(v >> 16), byte(v >> 8), byte(v)}
}

// Answer builds the scripted upstream's reply to query q (as received on the wire).
// The answer record is always an A-shaped 4-byte record owned by the question name and
// carrying the question's class and type unless that type has a fixed layout the proxy parses.
func Answer(q *refdns.Msg, serial byte, ttl uint32) *refdns.Msg {
	r := &refdns.Msg{ID: q.ID, Bits: refdns.BitQR | refdns.BitRA | (q.Bits & refdns.BitRD)}
	r.Q = append(r.Q, q.Q...)
	if len(q.Q) > 0 {
		k := KeyIP(q.Q[0].Name, q.Q[0].Class, q.Q[0].Type)
		rr := refdns.RR{Owner: q.Q[0].Name, Type: refdns.TypeA, Class: q.Q[0].Class, TTL: ttl,
			Parts: []refdns.Part{refdns.Raw(k[0], k[1], k[2], serial)}}
		r.An = append(r.An, rr)
	}
	return r
}

// AnswerKey extracts (key, serial) from a response built by Answer (first answer record).
func AnswerKey(m *refdns.Msg) (key [3]byte, serial byte, ok bool) {
	if len(m.An) == 0 {
		return
	}
	d := m.An[0].RData()
	if len(d) != 4 {
		return
	}
	return [3]byte{d[0], d[1], d[2]}, d[3], true
}

func RCodeReply(q *refdns.Msg, rcode uint16) *refdns.Msg {
	r := &refdns.Msg{ID: q.ID, Bits: refdns.BitQR | refdns.BitRA | (q.Bits & refdns.BitRD) | (rcode & 0xF)}
	r.Q = append(r.Q, q.Q...)
	return r
}

// PeerQuery is one query the scripted server received.
type PeerQuery struct {
	Conn   int
	Index  int // per connection
	Wire   []byte
	Msg    *refdns.Msg // nil if undecodable
	WireID uint16
}

func (p PeerQuery) String() string {
	if p.Msg == nil || len(p.Msg.Q) == 0 {
		return fmt.Sprintf("c%d#%d<undecodable %x>", p.Conn, p.Index, p.Wire)
	}
	return fmt.Sprintf("c%d#%d id=%d %s/%d/%d", p.Conn, p.Index, p.WireID, p.Msg.Q[0].Name, p.Msg.Q[0].Class, p.Msg.Q[0].Type)
}

// QueriesOn parses what the implementation wrote on connection end b (peer side view: b.Peer() is the impl end).
func QueriesOn(connIdx int, impl *End, tcp bool) []PeerQuery {
	var frames [][]byte
	if tcp {
		frames, _ = SplitFrames(impl.Written())
	} else {
		for _, w := range impl.Writes() {
			frames = append(frames, w.Data)
		}
	}
	var out []PeerQuery
	for i, f := range frames {
		pq := PeerQuery{Conn: connIdx, Index: i, Wire: f}
		if m, err := refdns.Decode(f); err == nil {
			pq.Msg = m
			pq.WireID = m.ID
		} else if len(f) >= 2 {
			pq.WireID = uint16(f[0])<<8 | uint16(f[1])
		}
		out = append(out, pq)
	}
	return out
}
