// Package env is the scripted environment for the E3 explorer: in-memory
// connections whose every blocking point is a channel operation (so that
// testing/synctest sees them as durably blocked), a scripted dialer, a DNS
// peer helper and the buffer-ownership hook.
package env

import (
	"errors"
	"io"
	"net"
	"os"
	"sync"
	"syscall"
	"time"
)

// deadline is copied in spirit from net/pipe.go.
type deadline struct {
	mu     sync.Mutex
	timer  *time.Timer
	cancel chan struct{}
}

func makeDeadline() deadline { return deadline{cancel: make(chan struct{})} }

func (d *deadline) set(t time.Time) {
	d.mu.Lock()
	defer d.mu.Unlock()
	if d.timer != nil && !d.timer.Stop() {
		<-d.cancel // wait for the timer callback to finish and close cancel
	}
	d.timer = nil
	closed := isClosedChan(d.cancel)
	if t.IsZero() {
		if closed {
			d.cancel = make(chan struct{})
		}
		return
	}
	if dur := time.Until(t); dur > 0 {
		if closed {
			d.cancel = make(chan struct{})
		}
		d.timer = time.AfterFunc(dur, func() { close(d.cancel) })
		return
	}
	if !closed {
		close(d.cancel)
	}
}

func (d *deadline) wait() chan struct{} {
	d.mu.Lock()
	defer d.mu.Unlock()
	return d.cancel
}

func isClosedChan(c <-chan struct{}) bool {
	select {
	case <-c:
		return true
	default:
		return false
	}
}

type pendWrite struct {
	ch   chan struct{}
	size int
}

// WriteRec is one Write call as observed by the other side.
type WriteRec struct {
	Data []byte
	At   time.Time
}

// End is one end of an in-memory duplex connection.
type End struct {
	EOFWithLastData bool // the Read that drains the inbox after the peer closed its side returns the data together with io.EOF
	Name            string
	peer            *End
	local           net.Addr
	remote          net.Addr

	mu                  sync.Mutex
	inbox               [][]byte      // segments waiting to be Read by this end
	cond                chan struct{} // closed and replaced on every state change (broadcast)
	eof                 bool          // peer closed (FIN): Read returns EOF after the inbox drains
	reset               error         // connection aborted: Read/Write fail at once
	closed              bool          // this end called Close
	stall               bool          // Writes by this end block until Commit
	gate                chan struct{} // closed by Commit
	taps                []WriteRec    // everything this end wrote (observation for the other side)
	nWrites             int
	pendingWrites       int // writes currently blocked in a stall
	rdl, wdl            deadline
	CloseCount          int
	MaxDatagram         int    // >0: Writes longer than this fail with EMSGSIZE (UDP sockets: 65507)
	OnAddr              func() // one-shot hook run by the next LocalAddr call
	werr                error  // writes fail with this error (AbortWrites)
	wclosed             bool   // CloseWrite was called
	closeGate           chan struct{}
	closesParked        int
	wroteAfterPeerClose bool // the one write a socket accepts after its peer has closed was made
	stallEach           bool // every Write blocks until the harness commits it individually
	pend                []*pendWrite
}

// Pipe returns two connected ends. a is usually handed to the implementation.
func Pipe(aLocal, aRemote net.Addr) (a, b *End) {
	a = &End{Name: "impl", local: aLocal, remote: aRemote, cond: make(chan struct{}), gate: make(chan struct{}), rdl: makeDeadline(), wdl: makeDeadline()}
	b = &End{Name: "peer", local: aRemote, remote: aLocal, cond: make(chan struct{}), gate: make(chan struct{}), rdl: makeDeadline(), wdl: makeDeadline()}
	a.peer, b.peer = b, a
	return
}

// signal must be called with e.mu held.
func (e *End) signal() {
	close(e.cond)
	e.cond = make(chan struct{})
}

func (e *End) Read(b []byte) (int, error) {
	for {
		e.mu.Lock()
		switch {
		case e.closed:
			e.mu.Unlock()
			return 0, net.ErrClosed
		case e.reset != nil:
			err := e.reset
			e.mu.Unlock()
			return 0, err
		case len(e.inbox) > 0:
			if len(b) == 0 {
				e.mu.Unlock()
				return 0, nil
			}
			n := copy(b, e.inbox[0])
			if n < len(e.inbox[0]) && e.MaxDatagram == 0 {
				e.inbox[0] = e.inbox[0][n:]
			} else {
				e.inbox = e.inbox[1:] // a datagram socket hands out one datagram per read; what does not fit the buffer is lost
			}
			if e.EOFWithLastData && len(e.inbox) == 0 && e.eof {
				e.mu.Unlock()
				return n, io.EOF // as a quic-go stream does when the FIN is already known: the last octets and io.EOF in one Read
			}
			e.mu.Unlock()
			return n, nil
		case e.eof:
			e.mu.Unlock()
			return 0, io.EOF
		}
		cond := e.cond
		e.mu.Unlock()
		if isClosedChan(e.rdl.wait()) {
			return 0, os.ErrDeadlineExceeded
		}
		select {
		case <-cond:
		case <-e.rdl.wait():
			return 0, os.ErrDeadlineExceeded
		}
	}
}

func (e *End) Write(b []byte) (n int, err error) {
	if e.MaxDatagram > 0 && len(b) > e.MaxDatagram {
		// like a UDP socket: the datagram is refused when the (possibly delayed) send is attempted
		e.mu.Lock()
		stalled := e.stall
		gate := e.gate
		e.mu.Unlock()
		if stalled {
			<-gate
		}
		return 0, &net.OpError{Op: "write", Net: "udp", Err: syscall.EMSGSIZE}
	}
	first := true
	for {
		if first && isClosedChan(e.wdl.wait()) {
			// like a socket: a write attempted after the write deadline has passed fails at once
			return 0, os.ErrDeadlineExceeded
		}
		e.mu.Lock()
		switch {
		case e.closed:
			if !first {
				e.pendingWrites--
			}
			e.mu.Unlock()
			return 0, net.ErrClosed
		case e.reset != nil:
			err := e.reset
			if !first {
				e.pendingWrites--
			}
			e.mu.Unlock()
			return 0, err
		case e.werr != nil:
			err := e.werr
			if !first {
				e.pendingWrites--
			}
			e.mu.Unlock()
			return 0, &net.OpError{Op: "write", Net: "udp", Err: err}
		}
		if e.stallEach && first {
			// park this write until the harness commits it (write completion is an event)
			pw := &pendWrite{ch: make(chan struct{}), size: len(b)}
			e.pend = append(e.pend, pw)
			cond := e.cond
			e.mu.Unlock()
		parked:
			select {
			case <-pw.ch:
			case <-cond:
				// some state change of this end (data arrived, closed, reset): only a close / reset ends the parked write, anything
				// else leaves it parked (and committable)
				e.mu.Lock()
				bad := e.closed || e.reset != nil
				if bad {
					for i, x := range e.pend {
						if x == pw {
							e.pend = append(e.pend[:i], e.pend[i+1:]...)
							break
						}
					}
					e.mu.Unlock()
					return 0, net.ErrClosed
				}
				cond = e.cond
				e.mu.Unlock()
				goto parked
			case <-e.wdl.wait():
				e.mu.Lock()
				for i, x := range e.pend {
					if x == pw {
						e.pend = append(e.pend[:i], e.pend[i+1:]...)
					}
				}
				e.mu.Unlock()
				return 0, os.ErrDeadlineExceeded
			}
			e.mu.Lock()
			if e.closed {
				e.mu.Unlock()
				return 0, net.ErrClosed
			}
			data := append([]byte(nil), b...)
			e.taps = append(e.taps, WriteRec{Data: data, At: time.Now()})
			e.nWrites++
			e.mu.Unlock()
			p := e.peer
			p.mu.Lock()
			if !p.closed {
				p.inbox = append(p.inbox, data)
				p.signal()
			}
			p.mu.Unlock()
			return len(b), nil
		}
		if !e.stall {
			if !first {
				e.pendingWrites--
			}
			// commit: the bytes are copied *now* (a buffer recycled while the write was stalled shows up here)
			data := append([]byte(nil), b...)
			e.taps = append(e.taps, WriteRec{Data: data, At: time.Now()})
			e.nWrites++
			e.mu.Unlock()
			p := e.peer
			p.mu.Lock()
			broken := p.closed
			if !broken {
				p.inbox = append(p.inbox, data)
				p.signal()
			}
			p.mu.Unlock()
			if broken {
				// like a TCP socket whose peer has closed: the first write still succeeds (the kernel takes the bytes, the
				// peer answers with a reset), only later writes fail; the pending FIN makes the next Read return EOF
				e.mu.Lock()
				firstAfter := !e.wroteAfterPeerClose && e.MaxDatagram == 0
				e.wroteAfterPeerClose = true
				e.mu.Unlock()
				if firstAfter {
					return len(b), nil
				}
				return 0, syscall.EPIPE
			}
			return len(b), nil
		}
		gate := e.gate
		cond := e.cond
		if first {
			e.pendingWrites++
			first = false
		}
		e.mu.Unlock()
		if isClosedChan(e.wdl.wait()) {
			e.mu.Lock()
			e.pendingWrites--
			e.mu.Unlock()
			return 0, os.ErrDeadlineExceeded
		}
		select {
		case <-gate:
		case <-cond: // closed / reset
		case <-e.wdl.wait():
			e.mu.Lock()
			e.pendingWrites--
			e.mu.Unlock()
			return 0, os.ErrDeadlineExceeded
		}
	}
}

// StallClose makes Close park (after marking nothing) until ReleaseClose: a socket close that takes time.
func (e *End) StallClose() {
	e.mu.Lock()
	e.closeGate = make(chan struct{})
	e.mu.Unlock()
}

// ReleaseClose lets a parked Close proceed.
func (e *End) ReleaseClose() {
	e.mu.Lock()
	g := e.closeGate
	e.closeGate = nil
	e.mu.Unlock()
	if g != nil {
		close(g)
	}
}

// ClosesParked reports whether a Close call is currently parked.
func (e *End) ClosesParked() int { e.mu.Lock(); defer e.mu.Unlock(); return e.closesParked }

func (e *End) Close() error {
	e.mu.Lock()
	if g := e.closeGate; g != nil {
		e.closesParked++
		e.mu.Unlock()
		<-g
		e.mu.Lock()
		e.closesParked--
	}
	e.CloseCount++
	if e.closed {
		e.mu.Unlock()
		return net.ErrClosed
	}
	e.closed = true
	e.signal()
	g := e.gate
	e.gate = make(chan struct{})
	e.mu.Unlock()
	close(g)
	p := e.peer
	p.mu.Lock()
	p.eof = true
	p.signal()
	p.mu.Unlock()
	return nil
}

// LocalAddr runs the one-shot OnAddr hook first: the moment the implementation inspects a new connection is a
// point at which the harness may let something else happen (a preemption point inside connection set-up).
func (e *End) LocalAddr() net.Addr {
	e.mu.Lock()
	h := e.OnAddr
	e.OnAddr = nil
	e.mu.Unlock()
	if h != nil {
		h()
	}
	return e.local
}
func (e *End) RemoteAddr() net.Addr { return e.remote }

func (e *End) SetDeadline(t time.Time) error {
	if e.IsClosed() {
		return net.ErrClosed
	}
	e.rdl.set(t)
	e.wdl.set(t)
	return nil
}
func (e *End) SetReadDeadline(t time.Time) error {
	if e.IsClosed() {
		return net.ErrClosed
	}
	e.rdl.set(t)
	return nil
}
func (e *End) SetWriteDeadline(t time.Time) error {
	if e.IsClosed() {
		return net.ErrClosed
	}
	e.wdl.set(t)
	return nil
}

// ---- harness-side controls -------------------------------------------------

// IsClosed reports whether this end called Close.
func (e *End) IsClosed() bool { e.mu.Lock(); defer e.mu.Unlock(); return e.closed }

// Inject queues segments for this end to Read, as if the peer had written them. Never blocks.
func (e *End) Inject(segments ...[]byte) {
	e.mu.Lock()
	for _, s := range segments {
		if len(s) > 0 {
			e.inbox = append(e.inbox, append([]byte(nil), s...))
		}
	}
	e.signal()
	e.mu.Unlock()
}

// PeerFIN closes the other side: this end's Read returns EOF after the inbox
// drains; its first Write afterwards still succeeds (as on a TCP socket), later ones fail with EPIPE.
func (e *End) PeerFIN() { e.peer.Close() }

// CloseWrite half-closes: the peer's Read returns EOF after its inbox drains; this end can still read.
func (e *End) CloseWrite() {
	p := e.peer
	p.mu.Lock()
	p.eof = true
	p.signal()
	p.mu.Unlock()
	e.mu.Lock()
	e.wclosed = true
	e.mu.Unlock()
}

// Abort resets the connection: pending and future Read/Write on this end fail with ECONNRESET.
func (e *End) Abort() {
	e.mu.Lock()
	e.reset = syscall.ECONNRESET
	e.signal()
	g := e.gate
	e.gate = make(chan struct{})
	e.mu.Unlock()
	close(g)
}

// AbortWrites makes every later Write by this end fail with ENETUNREACH while reads keep waiting (a socket whose route went away).
func (e *End) AbortWrites() { e.mu.Lock(); e.werr = syscall.ENETUNREACH; e.mu.Unlock() }

// Stall makes subsequent Writes by this end block until Commit.
func (e *End) Stall() { e.mu.Lock(); e.stall = true; e.mu.Unlock() }

// Commit releases stalled writes and stops stalling.
func (e *End) Commit() {
	e.mu.Lock()
	e.stall = false
	g := e.gate
	e.gate = make(chan struct{})
	e.mu.Unlock()
	close(g)
}

// StallEach makes every Write by this end park until CommitOne releases it.
func (e *End) StallEach() { e.mu.Lock(); e.stallEach = true; e.mu.Unlock() }

// Parked returns the sizes of the parked writes in arrival order.
func (e *End) Parked() []int {
	e.mu.Lock()
	defer e.mu.Unlock()
	var out []int
	for _, p := range e.pend {
		out = append(out, p.size)
	}
	return out
}

// CommitOne lets the i-th parked write complete.
func (e *End) CommitOne(i int) {
	e.mu.Lock()
	pw := e.pend[i]
	e.pend = append(e.pend[:i:i], e.pend[i+1:]...)
	e.mu.Unlock()
	close(pw.ch)
}

// StalledWrites is the number of Write calls currently blocked.
func (e *End) StalledWrites() int { e.mu.Lock(); defer e.mu.Unlock(); return e.pendingWrites }

// Writes returns a snapshot of everything this end has written so far.
func (e *End) Writes() []WriteRec {
	e.mu.Lock()
	defer e.mu.Unlock()
	return append([]WriteRec(nil), e.taps...)
}

// Written returns the concatenation of all writes.
func (e *End) Written() []byte {
	var b []byte
	for _, w := range e.Writes() {
		b = append(b, w.Data...)
	}
	return b
}

// LastWrite returns the data of the most recent write (nil if none).
func (e *End) LastWrite() []byte {
	e.mu.Lock()
	defer e.mu.Unlock()
	if len(e.taps) == 0 {
		return nil
	}
	return e.taps[len(e.taps)-1].Data
}

// TakeWritten returns everything written since the last call and forgets it (long runs must not keep every byte).
func (e *End) TakeWritten() []byte {
	e.mu.Lock()
	defer e.mu.Unlock()
	var b []byte
	for _, w := range e.taps {
		b = append(b, w.Data...)
	}
	e.taps = e.taps[:0]
	return b
}

// Unread is the number of bytes waiting in this end's inbox.
func (e *End) Unread() int {
	e.mu.Lock()
	defer e.mu.Unlock()
	n := 0
	for _, s := range e.inbox {
		n += len(s)
	}
	return n
}

// Peer returns the other end.
func (e *End) Peer() *End { return e.peer }

var _ net.Conn = (*End)(nil)
var ErrRefused = &net.OpError{Op: "dial", Net: "tcp", Err: errors.New("connection refused")}

// SplitFrames parses a TCP byte stream of 2-byte length prefixed frames.
// It returns complete frames and the number of trailing bytes.
func SplitFrames(b []byte) (frames [][]byte, rest int) {
	for len(b) >= 2 {
		l := int(b[0])<<8 | int(b[1])
		if len(b) < 2+l {
			break
		}
		frames = append(frames, b[2:2+l])
		b = b[2+l:]
	}
	return frames, len(b)
}
