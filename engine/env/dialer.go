package env

import (
	"context"
	"net"
	"sync"
	"time"
)

// DialOutcome scripts the answer to one dial.
type DialOutcome int

const (
	DialConnect   DialOutcome = iota // connect at once (default)
	DialRefuse                       // fail at once with "connection refused"
	DialHang                         // never completes: returns when the dial context ends
	DialLate                         // stays pending until the harness calls Release
	DialLateForce                    // like DialLate, but the dial function ignores its context: it completes even after the context ended
)

type pendingDial struct {
	ctx     context.Context
	release chan bool // true: connect, false: refuse
}

// Dialer is handed to the transports as their DialContext.
type Dialer struct {
	Network string // "tcp" or "udp": decides the address types of the pipes
	mu      sync.Mutex
	script  []DialOutcome
	Conns   []*End // peer (harness) side of every connection ever produced, in dial order
	Impl    []*End // implementation side of the same connections
	Dials   int    // number of dial attempts started
	DialAt  []time.Time
	pending []*pendingDial
	hanging int
	OnConn  func(impl, peer *End) // optional: called for every new connection (e.g. to start a TLS server on peer)
}

func NewDialer(network string) *Dialer { return &Dialer{Network: network} }

// Script appends outcomes for the next dials; unscripted dials connect.
func (d *Dialer) Script(o ...DialOutcome) {
	d.mu.Lock()
	d.script = append(d.script, o...)
	d.mu.Unlock()
}

// ClearScript drops dial outcomes that were scripted but not consumed.
func (d *Dialer) ClearScript() {
	d.mu.Lock()
	d.script = nil
	d.mu.Unlock()
}

func (d *Dialer) addrs(i int) (net.Addr, net.Addr) {
	if d.Network == "udp" {
		return &net.UDPAddr{IP: net.IPv4(127, 0, 0, 1), Port: 40000 + i}, &net.UDPAddr{IP: net.IPv4(192, 0, 2, 53), Port: 53}
	}
	return &net.TCPAddr{IP: net.IPv4(127, 0, 0, 1), Port: 40000 + i}, &net.TCPAddr{IP: net.IPv4(192, 0, 2, 53), Port: 53}
}

func (d *Dialer) connect() net.Conn {
	d.mu.Lock()
	l, r := d.addrs(len(d.Conns))
	a, b := Pipe(l, r)
	if d.Network == "udp" {
		a.MaxDatagram = 65507
	}
	d.Conns = append(d.Conns, b)
	d.Impl = append(d.Impl, a)
	cb := d.OnConn
	d.mu.Unlock()
	if cb != nil {
		cb(a, b)
	}
	return a
}

// Dial implements func(ctx) (net.Conn, error).
func (d *Dialer) Dial(ctx context.Context) (net.Conn, error) {
	d.mu.Lock()
	d.Dials++
	d.DialAt = append(d.DialAt, time.Now())
	o := DialConnect
	if len(d.script) > 0 {
		o = d.script[0]
		d.script = d.script[1:]
	}
	var p *pendingDial
	if o == DialLate || o == DialLateForce {
		p = &pendingDial{ctx: ctx, release: make(chan bool, 1)}
		d.pending = append(d.pending, p)
	}
	d.mu.Unlock()
	switch o {
	case DialRefuse:
		return nil, ErrRefused
	case DialHang:
		d.mu.Lock()
		d.hanging++
		d.mu.Unlock()
		<-ctx.Done()
		d.mu.Lock()
		d.hanging--
		d.mu.Unlock()
		return nil, context.Cause(ctx)
	case DialLateForce:
		if ok := <-p.release; !ok {
			return nil, ErrRefused
		}
		return d.connect(), nil
	case DialLate:
		select {
		case ok := <-p.release:
			if !ok {
				return nil, ErrRefused
			}
			// Like net.Dialer: a connection that completes after the context ended is discarded by the dialer.
			if ctx.Err() != nil {
				return nil, context.Cause(ctx)
			}
			return d.connect(), nil
		case <-ctx.Done():
			return nil, context.Cause(ctx)
		}
	}
	return d.connect(), nil
}

// Pending is the number of DialLate dials still waiting.
func (d *Dialer) Pending() int {
	d.mu.Lock()
	defer d.mu.Unlock()
	n := 0
	for _, p := range d.pending {
		if p != nil {
			n++
		}
	}
	return n
}

// Release completes the oldest pending DialLate dial.
func (d *Dialer) Release(connect bool) {
	d.mu.Lock()
	var p *pendingDial
	for i, q := range d.pending {
		if q != nil {
			p = q
			d.pending[i] = nil
			break
		}
	}
	d.mu.Unlock()
	if p != nil {
		p.release <- connect
	}
}

// Hanging is the number of dials currently stuck in a scripted DialHang.
func (d *Dialer) Hanging() int { d.mu.Lock(); defer d.mu.Unlock(); return d.hanging }

func (d *Dialer) NumDials() int { d.mu.Lock(); defer d.mu.Unlock(); return d.Dials }

func (d *Dialer) NumConns() int { d.mu.Lock(); defer d.mu.Unlock(); return len(d.Conns) }

func (d *Dialer) Conn(i int) *End { d.mu.Lock(); defer d.mu.Unlock(); return d.Conns[i] }

func (d *Dialer) ImplEnd(i int) *End { d.mu.Lock(); defer d.mu.Unlock(); return d.Impl[i] }

// OpenImplConns counts implementation-side ends that were never closed by the implementation.
func (d *Dialer) OpenImplConns() []int {
	d.mu.Lock()
	defer d.mu.Unlock()
	var open []int
	for i, a := range d.Impl {
		if !a.IsClosed() {
			open = append(open, i)
		}
	}
	return open
}
