package env

import (
	"context"
	"errors"
	"net"
	"sync"
	"time"

	"github.com/quic-go/quic-go"
)

// FakeStream implements quic.Stream over an in-memory End. Close() only ends
// the send direction (STREAM FIN), CancelRead/CancelWrite abort one direction.
type FakeStream struct {
	E        *End // implementation side
	id       quic.StreamID
	mu       sync.Mutex
	rCancel  bool
	wCancel  bool
	closed   bool
	ctx      context.Context
	cancel   context.CancelFunc
	Closes   int
	RCancels int
	WCancels int
}

var errStreamCanceled = errors.New("fake quic: stream canceled")

func NewFakeStream(id int, local, remote net.Addr) (*FakeStream, *End) {
	a, b := Pipe(local, remote)
	ctx, cancel := context.WithCancel(context.Background())
	return &FakeStream{E: a, id: quic.StreamID(id), ctx: ctx, cancel: cancel}, b
}

func (s *FakeStream) StreamID() quic.StreamID { return s.id }
func (s *FakeStream) Read(p []byte) (int, error) {
	s.mu.Lock()
	c := s.rCancel
	s.mu.Unlock()
	if c {
		return 0, errStreamCanceled
	}
	n, err := s.E.Read(p)
	if err != nil {
		s.mu.Lock()
		if s.rCancel {
			err = errStreamCanceled
		}
		s.mu.Unlock()
	}
	return n, err
}
func (s *FakeStream) CancelRead(quic.StreamErrorCode) {
	s.mu.Lock()
	s.rCancel = true
	s.RCancels++
	s.mu.Unlock()
	s.E.rdl.set(time.Unix(1, 0)) // unblock a pending Read
}
func (s *FakeStream) SetReadDeadline(t time.Time) error {
	s.mu.Lock()
	c := s.rCancel
	s.mu.Unlock()
	if c {
		return nil
	}
	s.E.rdl.set(t)
	return nil
}
func (s *FakeStream) Write(p []byte) (int, error) {
	s.mu.Lock()
	bad := s.wCancel || s.closed
	s.mu.Unlock()
	if bad {
		return 0, errStreamCanceled
	}
	return s.E.Write(p)
}
func (s *FakeStream) Close() error {
	s.mu.Lock()
	s.Closes++
	if s.closed || s.wCancel {
		s.mu.Unlock()
		return errStreamCanceled
	}
	s.closed = true
	s.mu.Unlock()
	s.E.CloseWrite()
	s.cancel()
	return nil
}
func (s *FakeStream) CancelWrite(quic.StreamErrorCode) {
	s.mu.Lock()
	s.wCancel = true
	s.WCancels++
	s.mu.Unlock()
	s.E.wdl.set(time.Unix(1, 0))
	s.cancel()
}
func (s *FakeStream) Context() context.Context           { return s.ctx }
func (s *FakeStream) SetWriteDeadline(t time.Time) error { s.E.wdl.set(t); return nil }
func (s *FakeStream) SetDeadline(t time.Time) error {
	s.SetReadDeadline(t)
	s.E.wdl.set(t)
	return nil
}

// kill aborts both directions (connection closed).
func (s *FakeStream) kill() {
	s.E.Abort()
	s.cancel()
}

// FakeQuicConn implements the part of quic.Connection the repository uses.
type FakeQuicConn struct {
	quic.Connection // nil: any other method panics, which would reveal an unexpected dependency
	local, remote   net.Addr
	mu              sync.Mutex
	ctx             context.Context
	cancel          context.CancelCauseFunc
	Streams         []*FakeStream // streams opened by the implementation (client role)
	Peers           []*End        // harness side of those streams
	accept          chan *FakeStream
	OpenErr         error // if set, OpenStream fails
	Closed          int
	StallNext       bool // the next opened stream has its writes stalled
}

func NewFakeQuicConn(local, remote net.Addr) *FakeQuicConn {
	ctx, cancel := context.WithCancelCause(context.Background())
	return &FakeQuicConn{local: local, remote: remote, ctx: ctx, cancel: cancel, accept: make(chan *FakeStream, 64)}
}

func (c *FakeQuicConn) LocalAddr() net.Addr      { return c.local }
func (c *FakeQuicConn) RemoteAddr() net.Addr     { return c.remote }
func (c *FakeQuicConn) Context() context.Context { return c.ctx }

func (c *FakeQuicConn) OpenStream() (quic.Stream, error) {
	c.mu.Lock()
	defer c.mu.Unlock()
	if c.ctx.Err() != nil {
		return nil, context.Cause(c.ctx)
	}
	if c.OpenErr != nil {
		return nil, c.OpenErr
	}
	s, peer := NewFakeStream(len(c.Streams)*4, c.local, c.remote)
	if c.StallNext {
		s.E.Stall()
		c.StallNext = false
	}
	c.Streams = append(c.Streams, s)
	c.Peers = append(c.Peers, peer)
	return s, nil
}

// AcceptStream serves the server role: streams pushed with PushStream are returned.
func (c *FakeQuicConn) AcceptStream(ctx context.Context) (quic.Stream, error) {
	select {
	case s := <-c.accept:
		return s, nil
	case <-ctx.Done():
		return nil, context.Cause(ctx)
	case <-c.ctx.Done():
		return nil, context.Cause(c.ctx)
	}
}

func (c *FakeQuicConn) PushStream(s *FakeStream) { c.accept <- s }

func (c *FakeQuicConn) CloseWithError(quic.ApplicationErrorCode, string) error {
	c.mu.Lock()
	c.Closed++
	ss := append([]*FakeStream(nil), c.Streams...)
	c.mu.Unlock()
	c.cancel(errors.New("fake quic: connection closed locally"))
	for _, s := range ss {
		s.kill()
	}
	return nil
}

// Die simulates the peer/network killing the connection.
func (c *FakeQuicConn) Die() {
	c.mu.Lock()
	ss := append([]*FakeStream(nil), c.Streams...)
	c.mu.Unlock()
	c.cancel(errors.New("fake quic: connection lost"))
	for _, s := range ss {
		s.kill()
	}
}

func (c *FakeQuicConn) NumStreams() int { c.mu.Lock(); defer c.mu.Unlock(); return len(c.Streams) }
func (c *FakeQuicConn) Stream(i int) (*FakeStream, *End) {
	c.mu.Lock()
	defer c.mu.Unlock()
	return c.Streams[i], c.Peers[i]
}
func (c *FakeQuicConn) IsClosed() bool { return c.ctx.Err() != nil }
