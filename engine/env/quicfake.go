package env

import (
	"context"
	"errors"
	"io"
	"net"
	"os"
	"sync"
	"time"

	"github.com/quic-go/quic-go"
)

// FakeStream implements quic.Stream over an in-memory End. Close() only ends
// the send direction (STREAM FIN), CancelRead/CancelWrite abort one direction.
type FakeStream struct {
	E        *End // implementation side
	id       quic.StreamID
	mu       sync.Mutex
	rCancel  bool
	wCancel  bool
	closed   bool
	ctx      context.Context
	cancel   context.CancelFunc
	Closes   int
	RCancels int
	WCancels int
	deadErr  error // set when the connection is gone: what Read and Write report from then on (quic-go reports the connection's error on its streams)
}

var errStreamCanceled = errors.New("fake quic: stream canceled")

func NewFakeStream(id int, local, remote net.Addr) (*FakeStream, *End) {
	a, b := Pipe(local, remote)
	ctx, cancel := context.WithCancel(context.Background())
	return &FakeStream{E: a, id: quic.StreamID(id), ctx: ctx, cancel: cancel}, b
}

func (s *FakeStream) StreamID() quic.StreamID { return s.id }
func (s *FakeStream) Read(p []byte) (int, error) {
	s.mu.Lock()
	c := s.rCancel
	s.mu.Unlock()
	if c {
		return 0, errStreamCanceled
	}
	n, err := s.E.Read(p)
	if err != nil {
		s.mu.Lock()
		if s.rCancel {
			err = errStreamCanceled
		} else if s.deadErr != nil && err != io.EOF && !errors.Is(err, os.ErrDeadlineExceeded) {
			err = s.deadErr
		}
		s.mu.Unlock()
	}
	return n, err
}
func (s *FakeStream) CancelRead(quic.StreamErrorCode) {
	s.mu.Lock()
	s.rCancel = true
	s.RCancels++
	s.mu.Unlock()
	s.E.rdl.set(time.Unix(1, 0)) // unblock a pending Read
}
func (s *FakeStream) SetReadDeadline(t time.Time) error {
	s.mu.Lock()
	c := s.rCancel
	s.mu.Unlock()
	if c {
		return nil
	}
	s.E.rdl.set(t)
	return nil
}
func (s *FakeStream) Write(p []byte) (int, error) {
	s.mu.Lock()
	bad := s.wCancel || s.closed
	s.mu.Unlock()
	if bad {
		return 0, errStreamCanceled
	}
	n, err := s.E.Write(p)
	if err != nil {
		s.mu.Lock()
		if s.deadErr != nil && !errors.Is(err, os.ErrDeadlineExceeded) {
			err = s.deadErr
		}
		s.mu.Unlock()
	}
	return n, err
}
func (s *FakeStream) Close() error {
	s.mu.Lock()
	s.Closes++
	if s.closed || s.wCancel {
		s.mu.Unlock()
		return errStreamCanceled
	}
	s.closed = true
	s.mu.Unlock()
	s.E.CloseWrite()
	s.cancel()
	return nil
}
func (s *FakeStream) CancelWrite(quic.StreamErrorCode) {
	s.mu.Lock()
	s.wCancel = true
	s.WCancels++
	s.mu.Unlock()
	s.E.wdl.set(time.Unix(1, 0))
	s.cancel()
}
func (s *FakeStream) Context() context.Context           { return s.ctx }
func (s *FakeStream) SetWriteDeadline(t time.Time) error { s.E.wdl.set(t); return nil }
func (s *FakeStream) SetDeadline(t time.Time) error {
	s.SetReadDeadline(t)
	s.E.wdl.set(t)
	return nil
}

// kill aborts both directions (connection closed); the stream reports err from then on.
func (s *FakeStream) kill(err error) {
	s.mu.Lock()
	if s.deadErr == nil {
		s.deadErr = err
	}
	s.mu.Unlock()
	s.E.Abort()
	s.cancel()
}

// FakeQuicConn implements the part of quic.Connection the repository uses.
type FakeQuicConn struct {
	quic.Connection // nil: any other method panics, which would reveal an unexpected dependency
	local, remote   net.Addr
	mu              sync.Mutex
	ctx             context.Context
	cancel          context.CancelCauseFunc
	Streams         []*FakeStream // streams opened by the implementation (client role)
	Peers           []*End        // harness side of those streams
	accept          chan *FakeStream
	OpenErr         error // if set, OpenStream fails
	Closed          int
	StallNext       bool          // the next opened stream has its writes stalled
	Died            bool          // the environment killed the connection (Die, DieExcept)
	pushed          []*FakeStream // streams the peer opened (server role): they die with the connection too
}

func NewFakeQuicConn(local, remote net.Addr) *FakeQuicConn {
	ctx, cancel := context.WithCancelCause(context.Background())
	return &FakeQuicConn{local: local, remote: remote, ctx: ctx, cancel: cancel, accept: make(chan *FakeStream, 64)}
}

func (c *FakeQuicConn) LocalAddr() net.Addr      { return c.local }
func (c *FakeQuicConn) RemoteAddr() net.Addr     { return c.remote }
func (c *FakeQuicConn) Context() context.Context { return c.ctx }

func (c *FakeQuicConn) OpenStream() (quic.Stream, error) {
	c.mu.Lock()
	defer c.mu.Unlock()
	if c.ctx.Err() != nil {
		return nil, context.Cause(c.ctx)
	}
	if c.OpenErr != nil {
		return nil, c.OpenErr
	}
	s, peer := NewFakeStream(len(c.Streams)*4, c.local, c.remote)
	if c.StallNext {
		s.E.Stall()
		c.StallNext = false
	}
	c.Streams = append(c.Streams, s)
	c.Peers = append(c.Peers, peer)
	return s, nil
}

// AcceptStream serves the server role: streams pushed with PushStream are returned.
func (c *FakeQuicConn) AcceptStream(ctx context.Context) (quic.Stream, error) {
	select {
	case s := <-c.accept:
		return s, nil
	case <-ctx.Done():
		return nil, context.Cause(ctx)
	case <-c.ctx.Done():
		return nil, context.Cause(c.ctx)
	}
}

func (c *FakeQuicConn) PushStream(s *FakeStream) {
	c.mu.Lock()
	c.pushed = append(c.pushed, s)
	dead := c.ctx.Err() != nil
	c.mu.Unlock()
	if dead {
		s.kill(context.Cause(c.ctx))
		return
	}
	c.accept <- s
}

func (c *FakeQuicConn) CloseWithError(quic.ApplicationErrorCode, string) error {
	c.mu.Lock()
	c.Closed++
	ss := append(append([]*FakeStream(nil), c.Streams...), c.pushed...)
	c.mu.Unlock()
	err := &quic.ApplicationError{Remote: false, ErrorCode: 0, ErrorMessage: "fake quic: connection closed locally"}
	c.cancel(err)
	for _, s := range ss {
		s.kill(err)
	}
	return nil
}

// Die simulates the peer/network killing the connection.
func (c *FakeQuicConn) Die() { c.DieExcept(-1) }

// DieExcept kills the connection like Die, but the stream with index late (if any) learns of it only when KillStream is
// called: quic-go fails the streams of a closed connection one after the other, and the goroutines blocked on them run in
// any order, so one exchange may see the connection's error arbitrarily later than the others.
func (c *FakeQuicConn) DieExcept(late int) {
	c.mu.Lock()
	ss := append([]*FakeStream(nil), c.Streams...)
	c.Died = true
	c.mu.Unlock()
	c.cancel(fakeConnLost)
	for i, s := range ss {
		if i != late {
			s.kill(fakeConnLost)
		}
	}
	c.mu.Lock()
	ps := append([]*FakeStream(nil), c.pushed...)
	c.mu.Unlock()
	for _, s := range ps {
		s.kill(fakeConnLost)
	}
}

// KillStream delivers the connection's error to a stream DieExcept spared.
func (c *FakeQuicConn) KillStream(i int) {
	c.mu.Lock()
	s := c.Streams[i]
	c.mu.Unlock()
	s.kill(fakeConnLost)
}

// what quic-go reports after the peer closed the connection
var fakeConnLost error = &quic.ApplicationError{Remote: true, ErrorCode: 0, ErrorMessage: "fake quic: connection lost"}

func (c *FakeQuicConn) NumStreams() int { c.mu.Lock(); defer c.mu.Unlock(); return len(c.Streams) }
func (c *FakeQuicConn) Stream(i int) (*FakeStream, *End) {
	c.mu.Lock()
	defer c.mu.Unlock()
	return c.Streams[i], c.Peers[i]
}
func (c *FakeQuicConn) IsClosed() bool { return c.ctx.Err() != nil }
