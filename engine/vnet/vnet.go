// Package vnet replaces "net" (by import swap in an overlay copy, tools_instr -swap net=vnet) in
// internal/upstream/upstream.go, so that the dial closures the real NewUpstream builds end in the scripted dialer of
// the E3 environment instead of the kernel. Everything else is the real package.
package vnet

import (
	"context"
	"net"
	"syscall"
	"time"
)

type (
	Conn         = net.Conn
	PacketConn   = net.PacketConn
	Addr         = net.Addr
	UDPAddr      = net.UDPAddr
	TCPAddr      = net.TCPAddr
	UnixAddr     = net.UnixAddr
	IP           = net.IP
	Error        = net.Error
	OpError      = net.OpError
	ListenConfig = net.ListenConfig
	Resolver     = net.Resolver
	UDPConn      = net.UDPConn
	TCPConn      = net.TCPConn
	Listener     = net.Listener
)

var (
	ResolveUDPAddr = net.ResolveUDPAddr
	ResolveTCPAddr = net.ResolveTCPAddr
	JoinHostPort   = net.JoinHostPort
	SplitHostPort  = net.SplitHostPort
	ParseIP        = net.ParseIP
	ErrClosed      = net.ErrClosed
)

// DialHook, when set, answers every DialContext of a vnet.Dialer.
var DialHook func(ctx context.Context, network, address string) (net.Conn, error)

// Dialer has net.Dialer's fields; DialContext goes to DialHook.
type Dialer struct {
	Timeout         time.Duration
	Deadline        time.Time
	LocalAddr       net.Addr
	DualStack       bool
	FallbackDelay   time.Duration
	KeepAlive       time.Duration
	KeepAliveConfig net.KeepAliveConfig
	Resolver        *net.Resolver
	Cancel          <-chan struct{}
	Control         func(network, address string, c syscall.RawConn) error
	ControlContext  func(ctx context.Context, network, address string, c syscall.RawConn) error
}

func (d *Dialer) real() *net.Dialer {
	return &net.Dialer{Timeout: d.Timeout, Deadline: d.Deadline, LocalAddr: d.LocalAddr, FallbackDelay: d.FallbackDelay, KeepAlive: d.KeepAlive,
		KeepAliveConfig: d.KeepAliveConfig, Resolver: d.Resolver, Control: d.Control, ControlContext: d.ControlContext}
}

func (d *Dialer) DialContext(ctx context.Context, network, address string) (net.Conn, error) {
	if h := DialHook; h != nil {
		if d.Timeout > 0 {
			var cancel context.CancelFunc
			ctx, cancel = context.WithTimeout(ctx, d.Timeout)
			defer cancel()
		}
		return h(ctx, network, address)
	}
	return d.real().DialContext(ctx, network, address)
}

func (d *Dialer) Dial(network, address string) (net.Conn, error) {
	return d.DialContext(context.Background(), network, address)
}
