// Package choice is the stateless search core shared by all explorers.
//
// A scenario body is re-run from scratch for every path through its choice
// tree. ctx.Choose(n) is a free choice; ctx.Deviate(n) is a choice whose
// non-zero answers each cost one unit of the deviation budget (preemption,
// fault, non-default environment answer). Explore walks the tree depth-first,
// replaying a prefix and answering 0 afterwards, exactly like the idiom in the
// brief. A mismatch while replaying a prefix is a hard internal error.
package choice

import (
	"fmt"
	"hash/fnv"
	"os"
	"strconv"
	"strings"
	"syscall"
	"time"
)

type point struct {
	n     int
	pick  int
	dev   bool
	label uint32
}

// Ctx is handed to the scenario body for one execution.
type Ctx struct {
	prefix []int
	pts    []point
	labels []string // only kept when Trace is on
	trace  bool
	// replay check: labels/arity recorded for the prefix by the previous run
	expect   []point
	diverged string
	// sharding: an execution whose first `depth` choices belong to another worker is abandoned at once
	depth, shard, nshards int
}

type unownedAbort struct{}

// IsUnowned reports whether a recovered panic value is the search core's "this subtree belongs to another worker" signal.
func IsUnowned(r any) bool { _, ok := r.(unownedAbort); return ok }

// AbortUnowned raises that signal (for a choice point that was reached on another goroutine than the one Explore runs on).
func AbortUnowned() { panic(unownedAbort{}) }

func lab(s string) uint32 {
	h := fnv.New32a()
	h.Write([]byte(s))
	return h.Sum32()
}

func (c *Ctx) choose(n int, label string, dev bool) int {
	if n <= 0 {
		panic("choice: n<=0 at " + label)
	}
	i := len(c.pts)
	pick := 0
	if i < len(c.prefix) {
		pick = c.prefix[i]
		if pick >= n {
			c.diverged = fmt.Sprintf("replay divergence at point %d (%s): pick %d >= n %d", i, label, pick, n)
			pick = 0
		}
		if i < len(c.expect) {
			e := c.expect[i]
			if e.n != n || e.label != lab(label) || e.dev != dev {
				c.diverged = fmt.Sprintf("replay divergence at point %d (%s): arity/label changed (%d vs %d)", i, label, e.n, n)
			}
		}
	}
	c.pts = append(c.pts, point{n: n, pick: pick, dev: dev, label: lab(label)})
	if c.trace {
		c.labels = append(c.labels, label+"="+strconv.Itoa(pick))
	}
	if c.nshards > 1 && len(c.pts) == c.depth && !owns(c.Choices(), c.depth, c.shard, c.nshards) {
		panic(unownedAbort{}) // recovered by Explore: this subtree is another worker's
	}
	return pick
}

// Choose returns a value in [0,n); all values are explored.
func (c *Ctx) Choose(n int, label string) int { return c.choose(n, label, false) }

// Deviate is Choose where each non-zero answer costs one deviation.
func (c *Ctx) Deviate(n int, label string) int { return c.choose(n, label, true) }

// Choices returns the choice list taken so far (a replay artefact).
func (c *Ctx) Choices() []int {
	out := make([]int, len(c.pts))
	for i, p := range c.pts {
		out[i] = p.pick
	}
	return out
}

// Trace returns "label=pick" strings when tracing is enabled.
func (c *Ctx) Trace() []string { return c.labels }

// Deviations used so far in this execution.
func (c *Ctx) Deviations() int {
	d := 0
	for _, p := range c.pts {
		if p.dev && p.pick != 0 {
			d++
		}
	}
	return d
}

// RealNow is the wall clock even inside a testing/synctest bubble (where time.Now is virtual).
func RealNow() time.Time {
	var tv syscall.Timeval
	if err := syscall.Gettimeofday(&tv); err != nil {
		return time.Now()
	}
	return time.Unix(tv.Sec, int64(tv.Usec)*1000)
}

type Options struct {
	Bound      int       // max deviations per execution (<0: unlimited)
	Shard      int       // this worker
	NShards    int       // total workers (0/1: no sharding)
	ShardDepth int       // choice depth at which subtrees are assigned to shards (default 2)
	Deadline   time.Time // zero: none. When hit, Stats.Capped is set.
	MaxExec    int64     // 0: none
	Strict     bool      // replay divergence is a hard error (for harnesses that own all nondeterminism)
	Trace      bool
}

type Stats struct {
	Executions        int64 // executions owned by this shard (oracle evaluated)
	Discovery         int64 // executions run only to discover tree shape (not owned)
	ChoicePoints      int64 // sum of choice points over owned executions (= transitions)
	MaxDepth          int
	Capped            bool
	CapReason         string
	Divergences       int64 // replays that did not reproduce the recorded choice points (re-run)
	DivergentAccepted int64 // executions accepted although they never matched the recorded prefix
}

func owns(choices []int, depth, shard, n int) bool {
	if n <= 1 {
		return true
	}
	h := fnv.New32a()
	var b [4]byte
	for i := 0; i < depth; i++ {
		v := 0
		if i < len(choices) {
			v = choices[i]
		}
		b[0], b[1], b[2], b[3] = byte(v), byte(v>>8), byte(v>>16), byte(i)
		h.Write(b[:])
	}
	return int(h.Sum32()%uint32(n)) == shard
}

// Explore runs body for every path within the bound. body must be
// deterministic given its choices (or tolerate its own nondeterminism).
// The callback returns false to stop the search early (e.g. too many violations).
func Explore(opt Options, body func(c *Ctx) bool) Stats {
	var st Stats
	depth := opt.ShardDepth
	if depth <= 0 {
		depth = 2
	}
	var prefix []int
	var expect []point
	for {
		if !opt.Deadline.IsZero() && RealNow().After(opt.Deadline) {
			st.Capped, st.CapReason = true, "deadline"
			return st
		}
		if opt.MaxExec > 0 && st.Executions >= opt.MaxExec {
			st.Capped, st.CapReason = true, "max_exec"
			return st
		}
		// A prefix at least as long as the shard depth that we do not own can be
		// skipped without running: every n up to its last position is known.
		skip := len(prefix) >= depth && !owns(prefix, depth, opt.Shard, opt.NShards)
		var pts []point
		if skip {
			pts = append([]point(nil), expect[:depth]...)
			for i := range pts {
				pts[i].pick = prefix[i]
			}
		} else {
			var c *Ctx
			cont := true
			owned := true
			// The implementation may contain nondeterminism the harness does not own (map
			// iteration order, select among ready cases). If replaying the prefix does not
			// reproduce the recorded choice points, the run is repeated; if it never does,
			// the divergent run is accepted as an execution in its own right and counted.
			for attempt := 0; ; attempt++ {
				c = &Ctx{prefix: prefix, expect: expect, trace: opt.Trace, depth: depth, shard: opt.Shard, nshards: opt.NShards}
				func() {
					defer func() {
						if r := recover(); r != nil {
							if _, ok := r.(unownedAbort); !ok {
								panic(r)
							}
						}
					}()
					cont = body(c)
				}()
				if c.diverged == "" || !cont {
					break
				}
				st.Divergences++
				if opt.Strict {
					fmt.Fprintln(os.Stderr, "HARNESS-ERROR:", c.diverged)
					panic("choice: " + c.diverged)
				}
				if attempt >= 40 {
					st.DivergentAccepted++
					break
				}
			}
			pts = c.pts
			owned = owns(c.Choices(), depth, opt.Shard, opt.NShards)
			if owned {
				st.Executions++
				st.ChoicePoints += int64(len(pts))
				if len(pts) > st.MaxDepth {
					st.MaxDepth = len(pts)
				}
			} else {
				st.Discovery++
				if len(pts) > depth {
					pts = pts[:depth] // the whole depth-level subtree is unowned
				}
			}
			if !cont {
				st.Capped, st.CapReason = true, "stopped by scenario"
				return st
			}
		}
		// advance odometer
		next := -1
		for i := len(pts) - 1; i >= 0; i-- {
			if pts[i].pick+1 >= pts[i].n {
				continue
			}
			if opt.Bound >= 0 && pts[i].dev {
				cost := 1
				for j := 0; j < i; j++ {
					if pts[j].dev && pts[j].pick != 0 {
						cost++
					}
				}
				if cost > opt.Bound {
					continue
				}
			}
			next = i
			break
		}
		if next < 0 {
			return st
		}
		prefix = make([]int, next+1)
		for j := 0; j < next; j++ {
			prefix[j] = pts[j].pick
		}
		prefix[next] = pts[next].pick + 1
		expect = append([]point(nil), pts[:next+1]...)
	}
}

// Replay runs body once with the given choice list.
func Replay(choices []int, trace bool, body func(c *Ctx) bool) *Ctx {
	c := &Ctx{prefix: choices, trace: trace}
	body(c)
	return c
}

// ParseChoices parses "1,0,2".
func ParseChoices(s string) []int {
	if strings.TrimSpace(s) == "" {
		return nil
	}
	var out []int
	for _, f := range strings.Split(s, ",") {
		v, err := strconv.Atoi(strings.TrimSpace(f))
		if err != nil {
			panic(err)
		}
		out = append(out, v)
	}
	return out
}
