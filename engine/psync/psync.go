// Package psync replaces "sync" in files instrumented for the E4 pause-point explorer: real locks that count how many
// are held, so that no goroutine is parked inside a critical section (a parked lock holder would leave the others
// blocked on a mutex, which is not a durable block: the bubble would never become quiescent).
package psync

import (
	"sync"

	"github.com/IrineSistiana/mosproxy/internal/zzverif/pause"
)

type (
	Locker    = sync.Locker
	WaitGroup = sync.WaitGroup
	Pool      = sync.Pool
	Map       = sync.Map
	Cond      = sync.Cond
)

func NewCond(l Locker) *Cond { return sync.NewCond(l) }

func OnceFunc(f func()) func() { return sync.OnceFunc(f) }

type Mutex struct{ m sync.Mutex }

func (m *Mutex) Lock() { m.m.Lock(); pause.Held(1) }
func (m *Mutex) TryLock() bool {
	if m.m.TryLock() {
		pause.Held(1)
		return true
	}
	return false
}
func (m *Mutex) Unlock() { pause.Held(-1); m.m.Unlock() }

type RWMutex struct{ m sync.RWMutex }

func (m *RWMutex) Lock() { m.m.Lock(); pause.Held(1) }
func (m *RWMutex) TryLock() bool {
	if m.m.TryLock() {
		pause.Held(1)
		return true
	}
	return false
}
func (m *RWMutex) Unlock() { pause.Held(-1); m.m.Unlock() }
func (m *RWMutex) RLock()  { m.m.RLock(); pause.Held(1) }
func (m *RWMutex) TryRLock() bool {
	if m.m.TryRLock() {
		pause.Held(1)
		return true
	}
	return false
}
func (m *RWMutex) RUnlock()        { pause.Held(-1); m.m.RUnlock() }
func (m *RWMutex) RLocker() Locker { return (*rlocker)(m) }

type rlocker RWMutex

func (r *rlocker) Lock()   { (*RWMutex)(r).RLock() }
func (r *rlocker) Unlock() { (*RWMutex)(r).RUnlock() }

type Once struct{ o sync.Once }

func (o *Once) Do(f func()) {
	o.o.Do(func() {
		pause.Held(1)
		defer pause.Held(-1)
		f()
	})
}
