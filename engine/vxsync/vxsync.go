// Package vxsync replaces github.com/puzpuzpuz/xsync/v3 in E2 runs: a map whose
// operations are atomic steps separated by scheduling points.
package vxsync

import "github.com/IrineSistiana/mosproxy/internal/zzverif/sched"

type MapOf[K comparable, V any] struct {
	m     map[K]V
	order []K
}

func NewMapOf[K comparable, V any]() *MapOf[K, V] { return &MapOf[K, V]{m: map[K]V{}} }

func (m *MapOf[K, V]) Load(k K) (V, bool) {
	sched.Point("Map.Load")
	v, ok := m.m[k]
	return v, ok
}
func (m *MapOf[K, V]) Store(k K, v V) {
	sched.Point("Map.Store")
	if _, ok := m.m[k]; !ok {
		m.order = append(m.order, k)
	}
	m.m[k] = v
}
func (m *MapOf[K, V]) LoadOrCompute(k K, f func() V) (V, bool) {
	sched.Point("Map.LoadOrCompute")
	if v, ok := m.m[k]; ok {
		return v, true
	}
	v := f()
	m.m[k] = v
	m.order = append(m.order, k)
	return v, false
}
func (m *MapOf[K, V]) LoadOrStore(k K, v V) (V, bool) {
	sched.Point("Map.LoadOrStore")
	if old, ok := m.m[k]; ok {
		return old, true
	}
	m.m[k] = v
	m.order = append(m.order, k)
	return v, false
}
func (m *MapOf[K, V]) Delete(k K) {
	sched.Point("Map.Delete")
	delete(m.m, k)
}
func (m *MapOf[K, V]) Range(f func(K, V) bool) {
	for _, k := range append([]K(nil), m.order...) {
		sched.Point("Map.Range.next")
		v, ok := m.m[k]
		if !ok {
			continue
		}
		if !f(k, v) {
			return
		}
	}
}
func (m *MapOf[K, V]) Size() int { return len(m.m) }
