// Package report collects what one worker process covered and writes it as
// JSON for the orchestrator (/verif/check), which merges shards into
// /verif/evidence/<id>.json.
package report

import (
	"encoding/binary"
	"encoding/json"
	"fmt"
	"hash/fnv"
	"os"
	"runtime"
	"sort"
	"strconv"
	"strings"
	"sync"
	"sync/atomic"
	"syscall"
	"time"
)

type Violation struct {
	Sig    string `json:"sig"`    // stable signature used for known-findings matching
	Detail string `json:"detail"` // human readable: failing input / schedule / history
	Replay any    `json:"replay,omitempty"`
}

type R struct {
	mu          sync.Mutex
	Scenario    string           `json:"scenario"`
	Evals       int64            `json:"evaluations"`
	Transitions int64            `json:"transitions"`
	States      int64            `json:"states"`
	Traces      int64            `json:"traces_validated_against_impl"`
	Counters    map[string]int64 `json:"counters"`
	Samples     []any            `json:"samples"`
	Violations  []Violation      `json:"violations"`
	ViolTotal   int64            `json:"violations_total"`
	Exhaustive  bool             `json:"exhaustive"`
	Caps        []string         `json:"caps"`
	Notes       []string         `json:"notes"`
	Rule        string           `json:"rule"`
	WallS       float64          `json:"wall_s"`

	distinct   map[uint64]struct{}
	states     map[uint64]struct{}
	sigSeen    map[string]int
	start      time.Time
	maxSamples int
}

var wdOnce sync.Once

func New(scenario string) *R {
	r := newR(scenario)
	wdOnce.Do(func() { StartWatchdog(r, strings.SplitN(scenario, " ", 2)[0], 90*time.Second) })
	return r
}

func newR(scenario string) *R {
	return &R{Scenario: scenario, Counters: map[string]int64{}, distinct: map[uint64]struct{}{},
		states: map[uint64]struct{}{}, sigSeen: map[string]int{}, start: time.Now(), Exhaustive: true, maxSamples: 5}
}

func h64(s string) uint64 {
	h := fnv.New64a()
	h.Write([]byte(s))
	return h.Sum64()
}

// Eval counts one evaluated case; obs is its observation (distinct ones are counted).
func (r *R) Eval(obs string) {
	r.mu.Lock()
	r.Evals++
	if obs != "" && len(r.distinct) < 4_000_000 {
		r.distinct[h64(obs)] = struct{}{}
	}
	r.mu.Unlock()
}

// State records a visited state digest.
func (r *R) State(digest string) {
	r.mu.Lock()
	if len(r.states) < 4_000_000 {
		r.states[h64(digest)] = struct{}{}
	}
	r.mu.Unlock()
}

func (r *R) AddTransitions(n int64)  { r.mu.Lock(); r.Transitions += n; r.mu.Unlock() }
func (r *R) AddTraces(n int64)       { r.mu.Lock(); r.Traces += n; r.mu.Unlock() }
func (r *R) Count(k string, n int64) { r.mu.Lock(); r.Counters[k] += n; r.mu.Unlock() }

func (r *R) Sample(s any) {
	r.mu.Lock()
	if len(r.Samples) < r.maxSamples {
		r.Samples = append(r.Samples, s)
	}
	r.mu.Unlock()
}

func (r *R) Note(s string) { r.mu.Lock(); r.Notes = append(r.Notes, s); r.mu.Unlock() }

func (r *R) Cap(reason string) {
	r.mu.Lock()
	r.Exhaustive = false
	r.Caps = append(r.Caps, reason)
	r.mu.Unlock()
}

// Violate records a violation. At most 3 per signature are kept in full.
func (r *R) Violate(sig, detail string, replay any) {
	if os.Getenv("VERIF_ONLY_OWNERSHIP") == "1" {
		// run on behalf of C20: only memory-ownership oracles count here; the functional oracles belong to the owning property
		if !strings.Contains(sig, ":ownership") && !strings.Contains(sig, ":tainted") && !strings.Contains(sig, ":panic") && !strings.Contains(sig, ":deadlock") && !strings.Contains(sig, ":recycled-state") {
			return
		}
		if i := strings.IndexByte(sig, ':'); i > 0 {
			sig = "C20:" + sig[:i] + sig[i:]
		}
	}
	r.mu.Lock()
	r.ViolTotal++
	r.sigSeen[sig]++
	if r.sigSeen[sig] <= 3 && len(r.Violations) < 200 {
		r.Violations = append(r.Violations, Violation{Sig: sig, Detail: detail, Replay: replay})
	}
	r.mu.Unlock()
}

func (r *R) NViolations() int64 { r.mu.Lock(); defer r.mu.Unlock(); return r.ViolTotal }

// Write dumps the report to $VERIF_OUT (JSON) and $VERIF_OUT.distinct / .states (8-byte hashes).
func (r *R) Write() {
	r.mu.Lock()
	defer r.mu.Unlock()
	r.WallS = time.Since(r.start).Seconds()
	r.States = int64(len(r.states))
	out := os.Getenv("VERIF_OUT")
	if out == "" {
		b, _ := json.MarshalIndent(r, "", " ")
		fmt.Println(string(b))
		fmt.Println("distinct:", len(r.distinct), "states:", len(r.states))
		return
	}
	b, err := json.Marshal(r)
	if err != nil {
		panic(err)
	}
	if err := os.WriteFile(out, b, 0o644); err != nil {
		panic(err)
	}
	dump := func(path string, m map[uint64]struct{}) {
		ks := make([]uint64, 0, len(m))
		for k := range m {
			ks = append(ks, k)
		}
		sort.Slice(ks, func(i, j int) bool { return ks[i] < ks[j] })
		buf := make([]byte, 8*len(ks))
		for i, k := range ks {
			binary.LittleEndian.PutUint64(buf[8*i:], k)
		}
		os.WriteFile(path, buf, 0o644)
	}
	dump(out+".distinct", r.distinct)
	dump(out+".states", r.states)
}

// Env helpers shared by all harnesses.

func Tier() string {
	if t := os.Getenv("VERIF_TIER"); t != "" {
		return t
	}
	return "quick"
}

func Thorough() bool { return Tier() == "thorough" }

// Shard returns (index, total).
func Shard() (int, int) {
	s := os.Getenv("VERIF_SHARD")
	if s == "" {
		return 0, 1
	}
	a, b, _ := strings.Cut(s, "/")
	i, _ := strconv.Atoi(a)
	n, _ := strconv.Atoi(b)
	if n <= 0 {
		return 0, 1
	}
	return i, n
}

func Owns(i int) bool {
	s, n := Shard()
	return i%n == s
}

// Deadline returns the wall-clock budget for this worker (from VERIF_BUDGET_S), or zero.
var (
	deadlineOnce sync.Once
	deadlineVal  time.Time
)

// Deadline is fixed at its first call: all explorations of one worker process share one budget.
func Deadline() time.Time {
	deadlineOnce.Do(func() { deadlineVal = deadline() })
	return deadlineVal
}

func deadline() time.Time {
	if s := os.Getenv("VERIF_BUDGET_S"); s != "" {
		if f, err := strconv.ParseFloat(s, 64); err == nil && f > 0 {
			var tv syscall.Timeval
			syscall.Gettimeofday(&tv) // wall clock even inside a synctest bubble
			return time.Unix(tv.Sec, int64(tv.Usec)*1000).Add(time.Duration(f * float64(time.Second)))
		}
	}
	return time.Time{}
}

func Param(name, def string) string {
	if v := os.Getenv("VERIF_P_" + name); v != "" {
		return v
	}
	return def
}

func ParamInt(name string, def int) int {
	if v := os.Getenv("VERIF_P_" + name); v != "" {
		if i, err := strconv.Atoi(v); err == nil {
			return i
		}
	}
	return def
}

// Replay support: VERIF_REPLAY points at a JSON file {"part":..,"replay":{...}}.
type ReplayData struct{ raw json.RawMessage }

func ReplayFile() *ReplayData {
	p := os.Getenv("VERIF_REPLAY")
	if p == "" {
		return nil
	}
	b, err := os.ReadFile(p)
	if err != nil {
		panic(err)
	}
	var x struct {
		Replay json.RawMessage `json:"replay"`
	}
	if err := json.Unmarshal(b, &x); err != nil {
		panic(err)
	}
	return &ReplayData{raw: x.Replay}
}

func (r *ReplayData) Decode(v any) {
	if err := json.Unmarshal(r.raw, v); err != nil {
		panic(err)
	}
}

// SetCurrent remembers the execution in progress so that a crash of the worker
// (a panic in an implementation goroutine cannot be recovered by the harness)
// still leaves a replayable choice list behind in $VERIF_OUT.current.
type chooser interface{ Choices() []int }

var (
	curFile *os.File
	curC    chooser
)

func SetCurrent(c chooser) {
	curC = c
}

// FlushCurrent writes the choices taken so far by the current execution.
func FlushCurrent() {
	out := os.Getenv("VERIF_OUT")
	if out == "" || curC == nil {
		return
	}
	if curFile == nil {
		f, err := os.OpenFile(out+".current", os.O_CREATE|os.O_RDWR|os.O_TRUNC, 0o644)
		if err != nil {
			return
		}
		curFile = f
	}
	b, _ := json.Marshal(curC.Choices())
	b = append(b, '\n')
	curFile.Truncate(0)
	curFile.WriteAt(b, 0)
}

// ---- watchdog: an implementation deadlock on a mutex blocks synctest.Wait forever --------------------------

var progress atomic.Int64

// Progress is called by the harness whenever the execution under test reached quiescence.
func Progress() { progress.Add(1) }

// StartWatchdog must be called outside any synctest bubble. If the harness makes no progress for
// `limit` of wall-clock time it dumps all goroutines; when one of them is blocked on a mutex inside
// implementation code the hang is reported as a violation of prop (with the current choice list as
// replay), otherwise the process exits with status 2 (harness problem).
func StartWatchdog(r *R, prop string, limit time.Duration) {
	go func() {
		last, lastT := int64(-1), time.Now()
		for {
			time.Sleep(2 * time.Second)
			p := progress.Load()
			if p == 0 {
				lastT = time.Now() // not armed: this process does not run bubble executions (yet)
				continue
			}
			if p != last {
				last, lastT = p, time.Now()
				continue
			}
			if time.Since(lastT) < limit {
				continue
			}
			buf := make([]byte, 4<<20)
			buf = buf[:runtime.Stack(buf, true)]
			culprit := ""
			for _, g := range strings.Split(string(buf), "\n\n") {
				if !strings.Contains(g, "sync.(*Mutex).Lock") && !strings.Contains(g, "sync.(*RWMutex).") && !strings.Contains(g, "sync.(*WaitGroup).Wait") && !strings.Contains(g, "sync.(*Cond).Wait") {
					continue
				}
				for _, l := range strings.Split(g, "\n") {
					if strings.HasPrefix(l, "github.com/IrineSistiana/mosproxy/") && !strings.Contains(l, "zzverif") {
						fn := l[strings.LastIndex(l, "/")+1:]
						if i := strings.Index(fn, "("); i > 0 && !strings.HasPrefix(fn, "transport.c") && !strings.HasPrefix(fn, "router.c") {
							culprit = strings.TrimSpace(fn[:strings.LastIndex(fn, "(")])
							r.Violate(prop+":deadlock:"+culprit, "the implementation stopped making progress (a goroutine is blocked on a lock and the execution never reaches quiescence):\n"+trimStack(g), currentReplay())
							break
						}
					}
				}
				if culprit != "" {
					break
				}
			}
			if culprit == "" {
				// nobody is blocked on a lock, yet the bubble never became quiescent: some goroutine keeps running. The harness goroutine
				// itself sits in synctest.Wait, so a goroutine that is runnable/running in implementation code for the whole
				// watchdog period is spinning (a loop that neither blocks nor ends).
				for _, g := range strings.Split(string(buf), "\n\n") {
					head := g
					if i := strings.IndexByte(g, '\n'); i > 0 {
						head = g[:i]
					}
					if !strings.Contains(head, "[runnable") && !strings.Contains(head, "[running") {
						continue
					}
					if strings.Contains(g, "StartWatchdog") || strings.Contains(g, "synctest.Wait") {
						continue
					}
					inHarness := false
					for _, l := range strings.Split(g, "\n") {
						if strings.HasPrefix(l, "\t") && strings.Contains(l, "zz_verif") {
							inHarness = true // a harness loop (or harness code on the stack above the implementation): not the implementation's
						}
					}
					if inHarness {
						continue
					}
					lines := strings.Split(g, "\n")
					for li, l := range lines {
						if strings.HasPrefix(l, "created by ") {
							break
						}
						if strings.HasPrefix(l, "github.com/IrineSistiana/mosproxy/") && !strings.Contains(l, "zzverif") && li+1 < len(lines) && !strings.Contains(lines[li+1], "zz_verif") {
							fn := l[strings.LastIndex(l, "/")+1:]
							if i := strings.LastIndex(fn, "("); i > 0 {
								culprit = strings.TrimSpace(fn[:i]) // keep going: the outermost implementation frame (the loop's home) names the finding
							}
						}
					}
					if culprit != "" {
						r.Violate(prop+":livelock:"+culprit, "the implementation keeps running without ever blocking or finishing (no quiescence for "+limit.String()+"):\n"+trimStack(g), currentReplay())
						break
					}
				}
			}
			r.Cap("watchdog: no progress for " + limit.String())
			r.Write()
			if culprit != "" {
				os.Exit(1)
			}
			os.Stderr.Write(buf)
			os.Exit(2)
		}
	}()
}

func trimStack(g string) string {
	if len(g) > 2500 {
		return g[:2500]
	}
	return g
}

func currentReplay() any {
	if curC == nil {
		return nil
	}
	return map[string]any{"Choices": curC.Choices()}
}
