// Package sched is the E2 controlled cooperative scheduler: the threads of a
// scenario are real goroutines, but exactly one runs at a time and control
// changes hands only at scheduling points (the operations of the vsync /
// vxsync / votter shims). Which enabled thread continues at each point is a
// choice of the search core; continuing the running thread is free, switching
// away from a thread that could continue costs one preemption.
package sched

import (
	"fmt"
	"runtime"
	"strings"

	"github.com/IrineSistiana/mosproxy/internal/zzverif/choice"
)

type thread struct {
	id      int
	name    string
	resume  chan struct{}
	cond    func() bool // nil: enabled
	op      string
	done    bool
	started bool
	pan     any
}

type Sched struct {
	c        *choice.Ctx
	threads  []*thread
	cur      *thread
	yield    chan *thread // a thread reports it reached a point (or finished)
	Trace    []string
	Deadlock bool
	Steps    int
	MaxSteps int
	Livelock bool
}

var current *Sched

// Cur returns the scheduler of the execution in progress (nil outside E2 runs: shims then behave like no-ops).
func Cur() *Sched { return current }

// Point is a scheduling point before an operation that never blocks.
func Point(op string) {
	if s := current; s != nil {
		s.wait(op, nil)
	}
}

// Wait is a scheduling point for an operation that can only proceed when cond holds.
func Wait(op string, cond func() bool) {
	if s := current; s != nil {
		s.wait(op, cond)
	} else if cond != nil && !cond() {
		panic("sched: blocking operation outside a scheduled run: " + op)
	}
}

func (s *Sched) wait(op string, cond func() bool) {
	t := s.cur
	if t == nil {
		// called from the harness goroutine (setup code): no scheduling
		if cond != nil && !cond() {
			panic("sched: harness goroutine would block on " + op)
		}
		return
	}
	t.cond, t.op = cond, op
	s.yield <- t
	<-t.resume
}

// Run executes the thread bodies under the control of the search core and
// returns a panic value per thread (nil if none).
func Run(c *choice.Ctx, names []string, bodies []func()) *Sched {
	s := &Sched{c: c, yield: make(chan *thread), MaxSteps: 5000}
	current = s
	defer func() { current = nil }()
	for i, b := range bodies {
		t := &thread{id: i, name: names[i], resume: make(chan struct{})}
		s.threads = append(s.threads, t)
		b := b
		go func() {
			<-t.resume
			defer func() {
				if r := recover(); r != nil {
					buf := make([]byte, 2048)
					buf = buf[:runtime.Stack(buf, false)]
					t.pan = fmt.Sprintf("%v\n%s", r, buf)
				}
				t.done = true
				s.yield <- t
			}()
			b()
		}()
	}
	var running *thread
	for {
		var enabled []*thread
		alive := 0
		for _, t := range s.threads {
			if t.done {
				continue
			}
			alive++
			if t.cond == nil || t.cond() {
				enabled = append(enabled, t)
			}
		}
		if alive == 0 {
			return s
		}
		if len(enabled) == 0 {
			s.Deadlock = true
			var w []string
			for _, t := range s.threads {
				if !t.done {
					w = append(w, t.name+" blocked at "+t.op)
				}
			}
			s.Trace = append(s.Trace, "DEADLOCK: "+strings.Join(w, "; "))
			return s // blocked goroutines are abandoned (they hold no OS resources)
		}
		s.Steps++
		if s.Steps > s.MaxSteps {
			s.Livelock = true
			return s
		}
		// canonical order: the running thread first if still enabled, then ascending ids
		order := enabled
		runningEnabled := false
		if running != nil {
			for i, t := range enabled {
				if t == running {
					runningEnabled = true
					order = append([]*thread{t}, append(append([]*thread{}, enabled[:i]...), enabled[i+1:]...)...)
				}
			}
		}
		pick := 0
		if len(order) > 1 {
			lbl := "sched"
			if runningEnabled {
				pick = c.Deviate(len(order), lbl) // leaving a runnable thread is a preemption
			} else {
				pick = c.Choose(len(order), lbl)
			}
		}
		t := order[pick]
		running = t
		s.cur = t
		if t.started {
			s.Trace = append(s.Trace, t.name+":"+t.op)
		} else {
			t.started = true
			s.Trace = append(s.Trace, t.name+":start")
		}
		t.cond = nil
		t.resume <- struct{}{}
		<-s.yield // the thread reached its next point or finished
		s.cur = nil
	}
}

// Panics returns "thread: panic" strings.
func (s *Sched) Panics() []string {
	var out []string
	for _, t := range s.threads {
		if t.pan != nil {
			out = append(out, fmt.Sprintf("%s: %v", t.name, t.pan))
		}
	}
	return out
}
