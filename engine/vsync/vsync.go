// Package vsync replaces "sync" (by import rewriting in an overlay copy) in the
// cores explored by the E2 scheduler. Every operation is a scheduling point.
package vsync

import (
	"fmt"

	"github.com/IrineSistiana/mosproxy/internal/zzverif/sched"
)

type Locker interface {
	Lock()
	Unlock()
}

type Mutex struct {
	locked bool
	name   string
}

func (m *Mutex) Lock() {
	sched.Wait(fmt.Sprintf("Lock(%p)", m), func() bool { return !m.locked })
	m.locked = true
}
func (m *Mutex) TryLock() bool {
	sched.Point(fmt.Sprintf("TryLock(%p)", m))
	if m.locked {
		return false
	}
	m.locked = true
	return true
}
func (m *Mutex) Unlock() {
	sched.Point(fmt.Sprintf("Unlock(%p)", m))
	if !m.locked {
		panic("vsync: unlock of unlocked mutex")
	}
	m.locked = false
}

type RWMutex struct {
	writer  bool
	readers int
}

func (m *RWMutex) Lock() {
	sched.Wait(fmt.Sprintf("WLock(%p)", m), func() bool { return !m.writer && m.readers == 0 })
	m.writer = true
}
func (m *RWMutex) TryLock() bool {
	sched.Point(fmt.Sprintf("TryWLock(%p)", m))
	if m.writer || m.readers > 0 {
		return false
	}
	m.writer = true
	return true
}
func (m *RWMutex) Unlock() {
	sched.Point(fmt.Sprintf("WUnlock(%p)", m))
	if !m.writer {
		panic("vsync: unlock of unlocked RWMutex")
	}
	m.writer = false
}
func (m *RWMutex) RLock() {
	sched.Wait(fmt.Sprintf("RLock(%p)", m), func() bool { return !m.writer })
	m.readers++
}
func (m *RWMutex) TryRLock() bool {
	sched.Point(fmt.Sprintf("TryRLock(%p)", m))
	if m.writer {
		return false
	}
	m.readers++
	return true
}
func (m *RWMutex) RUnlock() {
	sched.Point(fmt.Sprintf("RUnlock(%p)", m))
	if m.readers <= 0 {
		panic("vsync: RUnlock of unlocked RWMutex")
	}
	m.readers--
}
func (m *RWMutex) RLocker() Locker { return (*rlocker)(m) }

type rlocker RWMutex

func (r *rlocker) Lock()   { (*RWMutex)(r).RLock() }
func (r *rlocker) Unlock() { (*RWMutex)(r).RUnlock() }

type Once struct {
	done, running bool
}

func (o *Once) Do(f func()) {
	sched.Wait(fmt.Sprintf("Once(%p)", o), func() bool { return !o.running })
	if o.done {
		return
	}
	o.running = true
	f()
	o.running = false
	o.done = true
}

// Pool is LIFO and always reuses: the most adversarial recycling policy.
type Pool struct {
	New   func() any
	items []any
}

func (p *Pool) Get() any {
	sched.Point(fmt.Sprintf("Pool.Get(%p)", p))
	if n := len(p.items); n > 0 {
		x := p.items[n-1]
		p.items = p.items[:n-1]
		return x
	}
	if p.New != nil {
		return p.New()
	}
	return nil
}
func (p *Pool) Put(x any) {
	sched.Point(fmt.Sprintf("Pool.Put(%p)", p))
	p.items = append(p.items, x)
}

type WaitGroup struct{ n int }

func (w *WaitGroup) Add(d int) { sched.Point("WG.Add"); w.n += d }
func (w *WaitGroup) Done()     { sched.Point("WG.Done"); w.n-- }
func (w *WaitGroup) Wait()     { sched.Wait("WG.Wait", func() bool { return w.n <= 0 }) }
