// Package refdns is an independent, deliberately boring DNS wire encoder and
// decoder used as the reference model by the harnesses. It shares no code with
// internal/dnsmsg.
package refdns

import (
	"encoding/binary"
	"errors"
	"fmt"
	"strings"
)

const (
	TypeA     = 1
	TypeNS    = 2
	TypeCNAME = 5
	TypeSOA   = 6
	TypePTR   = 12
	TypeMX    = 15
	TypeTXT   = 16
	TypeAAAA  = 28
	TypeSRV   = 33
	TypeOPT   = 41
)

// Header bit masks (in the 16-bit flags word).
const (
	BitQR = 1 << 15
	BitAA = 1 << 10
	BitTC = 1 << 9
	BitRD = 1 << 8
	BitRA = 1 << 7
	BitAD = 1 << 5
	BitCD = 1 << 4
)

// Name is a sequence of labels (arbitrary octets, 1..63 each); nil is the root.
type Name [][]byte

func N(labels ...string) Name {
	var n Name
	for _, l := range labels {
		n = append(n, []byte(l))
	}
	return n
}

// ParseDotted splits "a.b.c" on dots (no escapes). "" or "." is the root.
func ParseDotted(s string) Name {
	s = strings.TrimSuffix(s, ".")
	if s == "" {
		return nil
	}
	return N(strings.Split(s, ".")...)
}

func (n Name) Wire() []byte { // without terminating zero (the form internal/dnsmsg uses)
	var b []byte
	for _, l := range n {
		b = append(b, byte(len(l)))
		b = append(b, l...)
	}
	return b
}

func (n Name) WireLen() int { return len(n.Wire()) + 1 }

func (n Name) String() string {
	if len(n) == 0 {
		return "."
	}
	var sb strings.Builder
	for i, l := range n {
		if i > 0 {
			sb.WriteByte('.')
		}
		for _, c := range l {
			if ('a' <= c && c <= 'z') || ('A' <= c && c <= 'Z') || ('0' <= c && c <= '9') || c == '-' || c == '_' {
				sb.WriteByte(c)
			} else {
				fmt.Fprintf(&sb, "\\%03d", c)
			}
		}
	}
	return sb.String()
}

func (n Name) Equal(o Name) bool { return string(n.Wire()) == string(o.Wire()) }

func (n Name) Lower() Name {
	var o Name
	for _, l := range n {
		b := make([]byte, len(l))
		for i, c := range l {
			if 'A' <= c && c <= 'Z' {
				c += 32
			}
			b[i] = c
		}
		o = append(o, b)
	}
	return o
}

// Part is a piece of RDATA: raw bytes or a domain name.
type Part struct {
	IsName bool
	Raw    []byte
	Name   Name
}

func Raw(b ...byte) Part   { return Part{Raw: b} }
func RawS(s string) Part   { return Part{Raw: []byte(s)} }
func NamePart(n Name) Part { return Part{IsName: true, Name: n} }
func U16(v uint16) Part    { return Part{Raw: []byte{byte(v >> 8), byte(v)}} }
func U32(v uint32) Part    { return Part{Raw: binary.BigEndian.AppendUint32(nil, v)} }

type RR struct {
	Owner Name
	Type  uint16
	Class uint16
	TTL   uint32
	Parts []Part
}

type Q struct {
	Name  Name
	Type  uint16
	Class uint16
}

type Msg struct {
	ID   uint16
	Bits uint16
	Q    []Q
	An   []RR
	Ns   []RR
	Ar   []RR
}

func (m *Msg) RCode() int          { return int(m.Bits & 0xF) }
func (m *Msg) OpCode() int         { return int(m.Bits>>11) & 0xF }
func (m *Msg) Has(bit uint16) bool { return m.Bits&bit != 0 }

// RData returns the uncompressed RDATA bytes.
func (r *RR) RData() []byte {
	var b []byte
	for _, p := range r.Parts {
		if p.IsName {
			b = append(b, p.Name.Wire()...)
			b = append(b, 0)
		} else {
			b = append(b, p.Raw...)
		}
	}
	return b
}

// UncompressedLen of the whole RR.
func (r *RR) Len() int { return r.Owner.WireLen() + 10 + len(r.RData()) }

func (q *Q) Len() int { return q.Name.WireLen() + 4 }

func (m *Msg) Len() int {
	l := 12
	for i := range m.Q {
		l += m.Q[i].Len()
	}
	for _, s := range [][]RR{m.An, m.Ns, m.Ar} {
		for i := range s {
			l += s[i].Len()
		}
	}
	return l
}

type encoder struct {
	b        []byte
	compress bool
	table    map[string]int // suffix wire (with length octets) -> offset
}

func (e *encoder) name(n Name, allowPtr bool) {
	for i := range n {
		suffix := string(Name(n[i:]).Wire())
		if e.compress && allowPtr {
			if off, ok := e.table[suffix]; ok {
				e.b = append(e.b, 0xC0|byte(off>>8), byte(off))
				return
			}
		}
		if e.compress && len(e.b) < 0x4000 {
			if _, ok := e.table[suffix]; !ok {
				e.table[suffix] = len(e.b)
			}
		}
		e.b = append(e.b, byte(len(n[i])))
		e.b = append(e.b, n[i]...)
	}
	e.b = append(e.b, 0)
}

func (e *encoder) rr(r *RR) {
	e.name(r.Owner, true)
	e.b = binary.BigEndian.AppendUint16(e.b, r.Type)
	e.b = binary.BigEndian.AppendUint16(e.b, r.Class)
	e.b = binary.BigEndian.AppendUint32(e.b, r.TTL)
	lenOff := len(e.b)
	e.b = append(e.b, 0, 0)
	for _, p := range r.Parts {
		if p.IsName {
			// RFC 3597: only the well-known types may carry compressed names; SRV target must not be compressed.
			e.name(p.Name, r.Type != TypeSRV && nameBearing(r.Type))
		} else {
			e.b = append(e.b, p.Raw...)
		}
	}
	binary.BigEndian.PutUint16(e.b[lenOff:], uint16(len(e.b)-lenOff-2))
}

func nameBearing(t uint16) bool {
	switch t {
	case TypeNS, TypeCNAME, TypePTR, TypeMX, TypeSOA, TypeSRV:
		return true
	}
	return false
}

// Encode serialises m. With compress, every name that may legally be compressed
// uses a pointer to the earliest identical suffix.
func (m *Msg) Encode(compress bool) []byte {
	e := &encoder{compress: compress, table: map[string]int{}}
	e.b = make([]byte, 12, 512)
	binary.BigEndian.PutUint16(e.b[0:], m.ID)
	binary.BigEndian.PutUint16(e.b[2:], m.Bits)
	binary.BigEndian.PutUint16(e.b[4:], uint16(len(m.Q)))
	binary.BigEndian.PutUint16(e.b[6:], uint16(len(m.An)))
	binary.BigEndian.PutUint16(e.b[8:], uint16(len(m.Ns)))
	binary.BigEndian.PutUint16(e.b[10:], uint16(len(m.Ar)))
	for i := range m.Q {
		e.name(m.Q[i].Name, true)
		e.b = binary.BigEndian.AppendUint16(e.b, m.Q[i].Type)
		e.b = binary.BigEndian.AppendUint16(e.b, m.Q[i].Class)
	}
	for _, s := range [][]RR{m.An, m.Ns, m.Ar} {
		for i := range s {
			e.rr(&s[i])
		}
	}
	return e.b
}

var (
	ErrShort = errors.New("refdns: short message")
	ErrPtr   = errors.New("refdns: bad pointer")
	ErrLabel = errors.New("refdns: bad label")
	ErrLong  = errors.New("refdns: name too long")
	ErrRDLen = errors.New("refdns: rdata length mismatch")
	ErrTrail = errors.New("refdns: trailing bytes")
)

func readName(b []byte, off int) (Name, int, error) {
	var n Name
	end := -1
	hops := 0
	total := 0
	for {
		if off >= len(b) {
			return nil, 0, ErrShort
		}
		c := int(b[off])
		switch c & 0xC0 {
		case 0:
			if c == 0 {
				if end < 0 {
					end = off + 1
				}
				return n, end, nil
			}
			if off+1+c > len(b) {
				return nil, 0, ErrShort
			}
			total += c + 1
			if total+1 > 255 {
				return nil, 0, ErrLong
			}
			n = append(n, append([]byte(nil), b[off+1:off+1+c]...))
			off += 1 + c
		case 0xC0:
			if off+1 >= len(b) {
				return nil, 0, ErrShort
			}
			if end < 0 {
				end = off + 2
			}
			off = (c&0x3F)<<8 | int(b[off+1])
			hops++
			if hops > 127 {
				return nil, 0, ErrPtr
			}
		default:
			return nil, 0, ErrLabel
		}
	}
}

func readRR(b []byte, off int) (RR, int, error) {
	var r RR
	var err error
	r.Owner, off, err = readName(b, off)
	if err != nil {
		return r, 0, err
	}
	if off+10 > len(b) {
		return r, 0, ErrShort
	}
	r.Type = binary.BigEndian.Uint16(b[off:])
	r.Class = binary.BigEndian.Uint16(b[off+2:])
	r.TTL = binary.BigEndian.Uint32(b[off+4:])
	rdl := int(binary.BigEndian.Uint16(b[off+8:]))
	off += 10
	if off+rdl > len(b) {
		return r, 0, ErrShort
	}
	endRD := off + rdl
	take := func(k int) error {
		if off+k > endRD {
			return ErrRDLen
		}
		r.Parts = append(r.Parts, Part{Raw: append([]byte(nil), b[off:off+k]...)})
		off += k
		return nil
	}
	name := func() error {
		n, o, err := readName(b, off)
		if err != nil {
			return err
		}
		if o > endRD {
			return ErrRDLen
		}
		r.Parts = append(r.Parts, NamePart(n))
		off = o
		return nil
	}
	switch r.Type {
	case TypeNS, TypeCNAME, TypePTR:
		err = name()
	case TypeMX:
		if err = take(2); err == nil {
			err = name()
		}
	case TypeSRV:
		if err = take(6); err == nil {
			err = name()
		}
	case TypeSOA:
		if err = name(); err == nil {
			if err = name(); err == nil {
				err = take(20)
			}
		}
	default:
		err = take(rdl)
	}
	if err != nil {
		return r, 0, err
	}
	if off != endRD {
		return r, 0, ErrRDLen
	}
	return r, off, nil
}

// Decode parses a complete message; trailing bytes are an error unless allowTrailing.
func Decode(b []byte) (*Msg, error) { return decode(b, false) }

func DecodeLoose(b []byte) (*Msg, error) { return decode(b, true) }

func decode(b []byte, allowTrailing bool) (*Msg, error) {
	if len(b) < 12 {
		return nil, ErrShort
	}
	m := &Msg{ID: binary.BigEndian.Uint16(b), Bits: binary.BigEndian.Uint16(b[2:])}
	qd := int(binary.BigEndian.Uint16(b[4:]))
	cnt := [3]int{int(binary.BigEndian.Uint16(b[6:])), int(binary.BigEndian.Uint16(b[8:])), int(binary.BigEndian.Uint16(b[10:]))}
	off := 12
	for i := 0; i < qd; i++ {
		n, o, err := readName(b, off)
		if err != nil {
			return nil, fmt.Errorf("question %d: %w", i, err)
		}
		if o+4 > len(b) {
			return nil, ErrShort
		}
		m.Q = append(m.Q, Q{Name: n, Type: binary.BigEndian.Uint16(b[o:]), Class: binary.BigEndian.Uint16(b[o+2:])})
		off = o + 4
	}
	secs := [3]*[]RR{&m.An, &m.Ns, &m.Ar}
	for s := 0; s < 3; s++ {
		for i := 0; i < cnt[s]; i++ {
			r, o, err := readRR(b, off)
			if err != nil {
				return nil, fmt.Errorf("section %d rr %d: %w", s, i, err)
			}
			*secs[s] = append(*secs[s], r)
			off = o
		}
	}
	if off != len(b) && !allowTrailing {
		return nil, ErrTrail
	}
	return m, nil
}

// Canon renders the message content canonically (names decompressed, octet exact).
func (m *Msg) Canon() string {
	var sb strings.Builder
	fmt.Fprintf(&sb, "id=%d bits=%04x", m.ID, m.Bits)
	for _, q := range m.Q {
		fmt.Fprintf(&sb, " Q(%x %d %d)", q.Name.Wire(), q.Type, q.Class)
	}
	for si, s := range [][]RR{m.An, m.Ns, m.Ar} {
		for i := range s {
			fmt.Fprintf(&sb, " S%d(%s)", si, s[i].Canon())
		}
	}
	return sb.String()
}

func (r *RR) Canon() string {
	return fmt.Sprintf("%x %d %d %d %x", r.Owner.Wire(), r.Type, r.Class, r.TTL, r.RData())
}

// CanonNoTTL is Canon without TTL (for cache comparisons).
func (r *RR) CanonNoTTL() string {
	return fmt.Sprintf("%x %d %d %x", r.Owner.Wire(), r.Type, r.Class, r.RData())
}

// Convenience constructors.
func A(owner Name, ttl uint32, a, b, c, d byte) RR {
	return RR{Owner: owner, Type: TypeA, Class: 1, TTL: ttl, Parts: []Part{Raw(a, b, c, d)}}
}
func AAAA(owner Name, ttl uint32, last byte) RR {
	ip := make([]byte, 16)
	ip[0], ip[1], ip[15] = 0x20, 0x01, last
	return RR{Owner: owner, Type: TypeAAAA, Class: 1, TTL: ttl, Parts: []Part{{Raw: ip}}}
}
func NameRR(t uint16, owner Name, ttl uint32, target Name) RR {
	return RR{Owner: owner, Type: t, Class: 1, TTL: ttl, Parts: []Part{NamePart(target)}}
}
func MX(owner Name, ttl uint32, pref uint16, target Name) RR {
	return RR{Owner: owner, Type: TypeMX, Class: 1, TTL: ttl, Parts: []Part{U16(pref), NamePart(target)}}
}
func SOA(owner Name, ttl uint32, ns, mbox Name, serial uint32) RR {
	raw := binary.BigEndian.AppendUint32(nil, serial)
	raw = binary.BigEndian.AppendUint32(raw, 7200)
	raw = binary.BigEndian.AppendUint32(raw, 3600)
	raw = binary.BigEndian.AppendUint32(raw, 1209600)
	raw = binary.BigEndian.AppendUint32(raw, 300)
	return RR{Owner: owner, Type: TypeSOA, Class: 1, TTL: ttl, Parts: []Part{NamePart(ns), NamePart(mbox), {Raw: raw}}}
}
func SRV(owner Name, ttl uint32, prio, weight, port uint16, target Name) RR {
	raw := []byte{byte(prio >> 8), byte(prio), byte(weight >> 8), byte(weight), byte(port >> 8), byte(port)}
	return RR{Owner: owner, Type: TypeSRV, Class: 1, TTL: ttl, Parts: []Part{{Raw: raw}, NamePart(target)}}
}
func TXT(owner Name, ttl uint32, n int, fill byte) RR {
	var raw []byte
	for n > 0 {
		k := n
		if k > 255 {
			k = 255
		}
		raw = append(raw, byte(k))
		for i := 0; i < k; i++ {
			raw = append(raw, fill)
		}
		n -= k
	}
	return RR{Owner: owner, Type: TypeTXT, Class: 1, TTL: ttl, Parts: []Part{{Raw: raw}}}
}
func Unknown(owner Name, t uint16, ttl uint32, data []byte) RR {
	return RR{Owner: owner, Type: t, Class: 1, TTL: ttl, Parts: []Part{{Raw: data}}}
}

// OPT builds an EDNS0 pseudo record; ttl carries ext-rcode/version/DO.
func OPT(udpSize uint16, ttl uint32, options []byte) RR {
	return RR{Owner: nil, Type: TypeOPT, Class: udpSize, TTL: ttl, Parts: []Part{{Raw: options}}}
}

// Option encodes one EDNS option.
func Option(code uint16, data []byte) []byte {
	b := []byte{byte(code >> 8), byte(code), byte(len(data) >> 8), byte(len(data))}
	return append(b, data...)
}

// Query builds a standard query.
func Query(id uint16, name Name, typ, class uint16) *Msg {
	return &Msg{ID: id, Bits: BitRD, Q: []Q{{Name: name, Type: typ, Class: class}}}
}

// FindOPT returns the OPT records in the additional section.
func (m *Msg) OPTs() []RR {
	var o []RR
	for _, r := range m.Ar {
		if r.Type == TypeOPT {
			o = append(o, r)
		}
	}
	return o
}

// Frame prepends the 2-byte length.
func Frame(b []byte) []byte {
	return append([]byte{byte(len(b) >> 8), byte(len(b))}, b...)
}
