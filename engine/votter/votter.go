// Package votter stands in for github.com/maypok86/otter in E2 runs of
// internal/cache/mem.go: a linearizable map with the same builder chain whose
// removal and deletion-listener call are separate scheduled steps (in otter the
// listener runs later, on another goroutine).
package votter

import (
	"time"

	"github.com/IrineSistiana/mosproxy/internal/zzverif/sched"
)

type DeletionCause int

const (
	Explicit DeletionCause = iota
	Replaced
	Size
	Expired
)

// Stats mirrors the accessor surface of otter.Stats (all zero: the model keeps no statistics).
type Stats struct{}

func (Stats) Hits() int64         { return 0 }
func (Stats) Misses() int64       { return 0 }
func (Stats) Ratio() float64      { return 0 }
func (Stats) RejectedSets() int64 { return 0 }
func (Stats) EvictedCount() int64 { return 0 }
func (Stats) EvictedCost() int64  { return 0 }

type Builder[K comparable, V any] struct {
	cost     func(K, V) uint32
	listener func(K, V, DeletionCause)
}

func NewBuilder[K comparable, V any](size int) (*Builder[K, V], error) { return &Builder[K, V]{}, nil }
func (b *Builder[K, V]) WithVariableTTL() *Builder[K, V]               { return b }
func (b *Builder[K, V]) Cost(f func(K, V) uint32) *Builder[K, V]       { b.cost = f; return b }
func (b *Builder[K, V]) CollectStats() *Builder[K, V]                  { return b }
func (b *Builder[K, V]) InitialCapacity(int) *Builder[K, V]            { return b }
func (b *Builder[K, V]) DeletionListener(f func(K, V, DeletionCause)) *Builder[K, V] {
	b.listener = f
	return b
}
func (b *Builder[K, V]) Build() (CacheWithVariableTTL[K, V], error) {
	c := &cache[K, V]{m: map[K]V{}, listener: b.listener}
	Last = c
	return CacheWithVariableTTL[K, V]{c}, nil
}

// Last is the most recently built cache (the harness drives evictions through it).
var Last any

type cache[K comparable, V any] struct {
	m        map[K]V
	listener func(K, V, DeletionCause)
}

type CacheWithVariableTTL[K comparable, V any] struct{ c *cache[K, V] }

func (c CacheWithVariableTTL[K, V]) Get(k K) (V, bool) {
	sched.Point("otter.Get")
	v, ok := c.c.m[k]
	return v, ok
}

// Set replaces; the displaced value is handed to the listener in a later step.
func (c CacheWithVariableTTL[K, V]) Set(k K, v V, ttl time.Duration) bool {
	sched.Point("otter.Set")
	old, had := c.c.m[k]
	c.c.m[k] = v
	if had && c.c.listener != nil {
		sched.Point("otter.listener(replaced)")
		c.c.listener(k, old, 0)
	}
	return true
}
func (c CacheWithVariableTTL[K, V]) SetIfAbsent(k K, v V, ttl time.Duration) bool {
	sched.Point("otter.SetIfAbsent")
	if _, had := c.c.m[k]; had {
		return false // like otter: the rejected value is simply dropped
	}
	c.c.m[k] = v
	return true
}

// The rest of otter's cache API, so that a change of the implementation to another otter call still builds and is explored.
func (c CacheWithVariableTTL[K, V]) Has(k K) bool {
	sched.Point("otter.Has")
	_, ok := c.c.m[k]
	return ok
}
func (c CacheWithVariableTTL[K, V]) Delete(k K) {
	sched.Point("otter.Delete")
	v, ok := c.c.m[k]
	if !ok {
		return
	}
	delete(c.c.m, k)
	if c.c.listener != nil {
		sched.Point("otter.listener(deleted)")
		c.c.listener(k, v, Explicit)
	}
}
func (c CacheWithVariableTTL[K, V]) DeleteByFunc(f func(K, V) bool) {
	sched.Point("otter.DeleteByFunc")
	var ks []K
	for k, v := range c.c.m {
		if f(k, v) {
			ks = append(ks, k)
		}
	}
	for _, k := range ks {
		c.Delete(k)
	}
}
func (c CacheWithVariableTTL[K, V]) Range(f func(K, V) bool) {
	sched.Point("otter.Range")
	for k, v := range c.c.m {
		if !f(k, v) {
			return
		}
	}
}
func (c CacheWithVariableTTL[K, V]) Clear() {
	sched.Point("otter.Clear")
	for k := range c.c.m {
		delete(c.c.m, k)
	}
}
func (c CacheWithVariableTTL[K, V]) Capacity() int { return 1 << 30 }
func (c CacheWithVariableTTL[K, V]) Stats() Stats  { return Stats{} }
func (c CacheWithVariableTTL[K, V]) Size() int     { return len(c.c.m) }
func (c CacheWithVariableTTL[K, V]) Close()        {}

// Evict removes k (one step) and calls the deletion listener (a later step), like expiry/eviction does.
// Keys lists the keys the cache holds (harness-side inspection, not a scheduling point).
func Keys[K comparable, V any](cc CacheWithVariableTTL[K, V]) []K {
	var ks []K
	for k := range cc.c.m {
		ks = append(ks, k)
	}
	return ks
}

func Evict[K comparable, V any](cc CacheWithVariableTTL[K, V], k K) {
	sched.Point("otter.evict.remove")
	v, ok := cc.c.m[k]
	if !ok {
		return
	}
	delete(cc.c.m, k)
	if cc.c.listener != nil {
		sched.Point("otter.evict.listener")
		cc.c.listener(k, v, 1)
	}
}
