// Package pause is the run-time side of the E4 pause-point explorer (DESIGN 9.13).
//
// An overlay copy of an implementation file calls At("<file>:<line>") before every statement. When the harness
// has enabled pausing, a hit on a goroutine that (a) holds none of the instrumented locks, (b) is not the harness
// goroutine and (c) was not called back from third-party code (which may hold its own locks) is handed to Hook, which
// may park the goroutine on a channel of the bubble - a durable block, so the bubble becomes quiescent and the
// harness can apply further events while this goroutine stands still between two statements: a preemption at
// statement granularity, placed by exhaustive enumeration instead of by the Go scheduler.
package pause

import (
	"runtime"
	"strings"
	"sync"
	"sync/atomic"
	"unsafe"
)

var (
	enabled atomic.Int32
	held    atomic.Int32 // instrumented locks currently held (any goroutine)

	// Hook is installed by the harness; it decides (as a choice point) whether the goroutine stops here.
	Hook func(id string)

	mu      sync.Mutex
	verdict = map[uint64]bool{} // call stack (hash of its pcs) -> may be parked
)

func Enable(on bool) {
	if on {
		enabled.Store(1)
	} else {
		enabled.Store(0)
	}
}

func Enabled() bool { return enabled.Load() != 0 }

// Held is called by the psync shim on every lock acquisition (+1) and release (-1).
func Held(d int32) { held.Add(d) }

func HeldNow() int32 { return held.Load() }

func At(id string) {
	if enabled.Load() == 0 {
		return
	}
	if held.Load() > 0 {
		return
	}
	h := Hook
	if h == nil || !stackOK() {
		return
	}
	h(id)
}

const module = "github.com/IrineSistiana/mosproxy/"

// classify: 1 = fine, 2 = the harness goroutine, 3 = third-party or scripted-environment code (may hold its own locks)
func classify(name string) uint8 {
	if strings.HasPrefix(name, module) {
		rest := name[len(module):]
		if strings.HasPrefix(rest, "internal/zzverif/choice.") {
			return 2
		}
		if strings.HasPrefix(rest, "internal/zzverif/") && !strings.HasPrefix(rest, "internal/zzverif/pause.") {
			return 3
		}
		return 1
	}
	i := strings.IndexByte(name, '/')
	if i < 0 {
		// "pkg.Func" of the standard library (runtime.goexit, sync.(*Once).Do, testing.tRunner ...)
		if strings.HasPrefix(name, "testing.") {
			return 2
		}
		return 1
	}
	if strings.Contains(name[:i], ".") {
		return 3 // module path with a domain name: not the standard library
	}
	return 1
}

// stackOK reports whether the calling goroutine may be parked: not the harness goroutine, and no frame of third-party
// code between its root and the pause point. The verdict is cached per call stack.
func stackOK() bool {
	var pcs [96]uintptr
	n := runtime.Callers(3, pcs[:])
	var key uint64 = 1469598103934665603
	for _, pc := range pcs[:n] {
		key = (key ^ uint64(pc)) * 1099511628211
	}
	mu.Lock()
	defer mu.Unlock()
	if v, ok := verdict[key]; ok {
		return v
	}
	ok := true
	frames := runtime.CallersFrames(pcs[:n])
	for {
		fr, more := frames.Next()
		if classify(fr.Function) != 1 {
			ok = false
			break
		}
		if !more {
			break
		}
	}
	verdict[key] = ok
	return ok
}

// ---- owned selects. An overlay copy asks Sel before every blocking receive-only select with several cases which of
// the ready cases is to be taken (tools_instr, ownSelect); the Go runtime would draw a random number there. SelHook is
// installed by the harness; it is asked only when at least two cases are ready, gets their indices and returns the one
// to take.

var SelHook func(id string, ready []int) int

var SelSeen atomic.Int64 // selects that had several ready cases

func Sel(id string, ready ...bool) int {
	h := SelHook
	if h == nil {
		return -1
	}
	var idx []int
	for i, r := range ready {
		if r {
			idx = append(idx, i)
		}
	}
	if len(idx) < 2 {
		return -1
	}
	SelSeen.Add(1)
	return h(id, idx)
}

// hchan is the head of runtime.hchan of go1.26 (checked by selfTest before the first use).
type hchan struct {
	qcount   uint
	dataqsiz uint
	buf      unsafe.Pointer
	elemsize uint16
	closed   uint32
	timer    unsafe.Pointer
	elemtype unsafe.Pointer
	sendx    uint
	recvx    uint
	recvqF   unsafe.Pointer
	recvqL   unsafe.Pointer
	sendqF   unsafe.Pointer
	sendqL   unsafe.Pointer
}

func ready(p unsafe.Pointer) bool {
	if p == nil {
		return false
	}
	c := (*hchan)(p)
	if c.timer != nil {
		return false // a timer channel is filled lazily by the receive itself: not judged, its select stays the runtime's
	}
	return c.qcount > 0 || c.closed != 0 || c.sendqF != nil
}

// Rdy reports whether a receive from ch would not block right now. Only meaningful while no other goroutine runs
// (GOMAXPROCS=1 in a bubble); false whenever no SelHook is installed.
func Rdy[T any](ch <-chan T) bool {
	if SelHook == nil {
		return false
	}
	selfTestOnce.Do(selfTest)
	return ready(*(*unsafe.Pointer)(unsafe.Pointer(&ch)))
}

var selfTestOnce sync.Once

func selfTest() {
	p := func(ch chan int) unsafe.Pointer { return *(*unsafe.Pointer)(unsafe.Pointer(&ch)) }
	a, b, c, d := make(chan int), make(chan int, 2), make(chan int), make(chan struct{})
	b <- 1
	close(c)
	var e chan int
	ok := !ready(p(a)) && ready(p(b)) && ready(p(c)) && !ready(p(e)) && (*hchan)(p(b)).dataqsiz == 2 && (*hchan)(p(b)).elemsize == 8
	<-b
	ok = ok && !ready(p(b))
	close(d)
	ok = ok && ready(*(*unsafe.Pointer)(unsafe.Pointer(&d)))
	if !ok {
		panic("zzverif/pause: runtime.hchan does not have the layout this build assumes")
	}
}
