#!/bin/bash
# usage: tools_regress.sh <logfile> <seed-name-regexp>   -- re-runs the property's quick check against every kept seeded change
# (in a scratch worktree) and logs CAUGHT / MISSED / STALE (patch no longer applies to HEAD) per seed.
log=$1; re=$2
M=${MUTREPO:-/tmp/mutrepo_regress}
head=$(git -C /repo rev-parse HEAD)
[ -d $M ] || git -C /repo worktree add -q --detach $M $head
cd /verif
for d in $(ls seeded | grep -E "$re"); do
  p=seeded/$d/patch.diff
  [ -f seeded/$d/patch_ported_to_head.diff ] && p=seeded/$d/patch_ported_to_head.diff
  prop=$(python3 -c "import json;print(json.load(open('seeded/$d/meta.json'))['property'])")
  git -C $M checkout -q --detach $head && git -C $M checkout -q -- . && git -C $M clean -fdq
  if git -C $M apply --check $PWD/$p 2>/dev/null; then git -C $M apply $PWD/$p
  elif git -C $M apply -3 $PWD/$p >/dev/null 2>&1 && ! git -C $M diff --name-only --diff-filter=U | grep -q .; then git -C $M reset -q
  else git -C $M checkout -q -- . 2>/dev/null; git -C $M reset -q --hard; echo "$d STALE" >> $log; continue; fi
  out=$(VERIF_REPO=$M ./check $prop --no-evidence 2>&1)
  if echo "$out" | grep -q "^VIOLATION"; then echo "$d CAUGHT $(echo "$out" | grep -o 'sig=[^ ]*' | sort -u | head -3 | tr '\n' ' ')" >> $log
  else echo "$d MISSED $(echo "$out" | grep -E "HARNESS|^$prop " | tail -2 | tr '\n' ' ' | cut -c1-300)" >> $log; fi
done
git -C $M checkout -q -- . ; git -C $M clean -fdq
echo DONE >> $log
