#!/usr/bin/env python3
"""Round-13 helper: verify a sub-agent's seeded change (tools_keep_seed.py), run the property's check against it, record the outcome.
usage: tools_round10.py Rxx sN [extra check ids...]   (expects /tmp/seeds7/Cxx.out/sN/{patch.diff,zz_seed7_demo_test.go,README.md})"""
import json, os, re, subprocess, sys
grp, sn = sys.argv[1], sys.argv[2]
extra = sys.argv[3:]
seed = "/tmp/seeds13/%s.out/%s" % (grp, sn)
wt = "/tmp/seeds13/%s" % grp
readme = open(os.path.join(seed, "README.md")).read()
mp = re.search(r"## Property\s*\**\s*(C\d\d)", readme)
assert mp, "no property id in README"
prop = mp.group(1)
m = re.search(r"go test[^\n`]*-run\s+(\S+)\s+(\./\S+)", readme)
assert m, "no go test command in README"
run, pkg = m.group(1).strip("'\""), m.group(2).rstrip("`").rstrip("/")
kind = "needs-a-long-history-or-a-large-number"
name = "%s-r13-%s%s" % (prop, grp, sn)
demos = [f for f in os.listdir(seed) if f.endswith(".go")]
pairs = ",".join("%s:%s/%s" % (f, pkg[2:], f) for f in demos)
files = re.findall(r"^\+\+\+ b/(\S+)", open(os.path.join(seed, "patch.diff")).read(), re.M)
print("patch touches:", files)
r = subprocess.run(["python3", "tools_keep_seed.py", name, prop, wt, seed, pairs, "-timeout", "600s", "-run", run, pkg + "/"], capture_output=True, text=True)
print(r.stdout[-1500:], r.stderr[-500:])
if "KEPT" not in r.stdout:
    sys.exit(1)
needs = re.search(r"## What it needs to manifest\s*(.*?)\n## ", readme, re.S)
meta_p = "/verif/seeded/%s/meta.json" % name
meta = json.load(open(meta_p))
meta["needs_to_manifest"] = (needs.group(1).strip() if needs else "")[:1200]
meta["round"] = 13
meta["kind"] = kind
meta["files_touched"] = files
meta["source"] = "independent sub-agent given only the property text and a scratch worktree (round 13: bugs that need a long history, a large count or a large size before they show)"
caught = []
for cid in [prop] + extra:
    env = dict(os.environ, MUTREPO="/tmp/mutrepo_" + grp)
    rr = subprocess.run(["./tools_seed.sh", os.path.join(seed, "patch.diff"), cid], capture_output=True, text=True, env=env)
    out = rr.stdout + rr.stderr
    sigs = sorted(set(re.findall(r"^  sig=(\S+)", out, re.M)))
    summ = [l for l in out.splitlines() if l.startswith(cid + " ")]
    print(cid, "sigs:", sigs[:8], "|", (summ[-1] if summ else out[-300:])[:200])
    harness = [l for l in out.splitlines() if "HARNESS" in l]
    if harness:
        print("  ", harness[:3])
    if sigs:
        caught.append("%s check as it stood: %s" % (cid, ", ".join(sigs[:6])))
meta["caught_by"] = caught or ["NOT CAUGHT as the checks stood"]
meta["caught"] = bool(caught)
meta["check_strengthened_for_this_seed"] = False
json.dump(meta, open(meta_p, "w"), indent=1)
print("RESULT", name, "CAUGHT" if caught else "MISSED")
