"""Per-property check specifications used by ./check.

Each part: name, pkg (repo package the harness is overlaid into), files {verif-relative src: repo-relative dst},
run (test name), go ("go" = default 1.23 toolchain, "go1.26" for testing/synctest), engines (virtual packages
needed), params per tier (exported to the harness as VERIF_P_<k>), budget seconds per tier (soft deadline inside
the harness: hitting it yields exhaustive:false, never a failure).
"""

E3ENV = {"GODEBUG": "asynctimerchan=0"}

SPECS = {}

DNSMSG_COMMON = {"harness/dnsmsg/zz_verif_common_test.go": "internal/dnsmsg/zz_verif_common_test.go"}

TRANSPORT_COMMON = {"harness/transport/zz_verif_common_test.go": "internal/upstream/transport/zz_verif_common_test.go"}
E3ENGINES = ("choice", "report", "refdns", "env", "sched", "pause", "psync")

UPSTREAM_COMMON = {"harness/upstream/zz_verif_common_test.go": "internal/upstream/zz_verif_common_test.go"}

ROUTER_COMMON = {"harness/router/zz_verif_common_test.go": "app/router/zz_verif_common_test.go",
                 "harness/router/zz_verif_seams_test.go": "app/router/zz_verif_seams_test.go"}

def rewrite_imports(src_rel, mapping):
    """Return a generate() callback: copies <repo>/<src_rel> from the current working tree with import paths rewritten (E2 shims)."""
    def gen(scratch, repo):
        import os, re
        txt = open(os.path.join(repo, src_rel)).read()
        for old, (alias, new) in mapping.items():
            pat = re.compile(r'^(\s*)(?:\w+\s+)?"%s"\s*$' % re.escape(old), re.M)
            if not pat.search(txt):
                raise SystemExit("HARNESS-ERROR: import %s not found in %s" % (old, src_rel))
            txt = pat.sub(lambda m: '%s%s "github.com/IrineSistiana/mosproxy/internal/zzverif/%s"' % (m.group(1), alias, new), txt)
        out = os.path.join(scratch, "rewritten_" + src_rel.replace("/", "_"))
        open(out, "w").write(txt)
        return {src_rel: out}
    return gen


import threading as _threading
_INSTR_LOCK = _threading.Lock()


def instrument(files, skip="", also=None, swap="", selonly=False):
    """generate() callback for the E4 pause-point explorer: overlay copies of <files> (repo-relative, read from the current
    working tree) with a pause point before every statement and "sync" swapped for the lock-counting shim (tools_instr)."""
    def gen(scratch, repo):
        import os, subprocess
        tool = os.path.join(scratch, "instr_tool")
        with _INSTR_LOCK:  # parts of one check are built by several threads: one of them builds the tool, the others wait
          if not os.path.exists(tool):
              env = dict(os.environ, GOPROXY="off", GOSUMDB="off", GOTOOLCHAIN="local", GOFLAGS="")
              r = subprocess.run(["go", "build", "-o", tool, "."], cwd=os.path.join(os.path.dirname(os.path.abspath(__file__)), "tools_instr"),
                                 env=env, capture_output=True, text=True)
              if r.returncode != 0:
                  raise SystemExit("HARNESS-ERROR: cannot build tools_instr: " + r.stderr)
        out = {}
        import tempfile
        sub = tempfile.mkdtemp(prefix="instr_", dir=scratch)  # one directory per call: no two builds write the same copy
        for rel in files:
            src = os.path.join(repo, rel)
            if not os.path.exists(src):
                raise SystemExit("HARNESS-ERROR: %s not found" % rel)
            dst = os.path.join(sub, ("instrsel_" if selonly else "instr_") + (__import__("hashlib").md5(repr((skip, swap)).encode()).hexdigest()[:6] + "_") + rel.replace("/", "_"))  # one copy per flavour: the parts of a check share the scratch directory
            r = subprocess.run([tool, "-out", dst, "-skip", skip, "-swap", (swap.get(rel, "") if isinstance(swap, dict) else swap)] + (["-selonly"] if selonly else []) + [src], capture_output=True, text=True)
            if r.returncode != 0:
                raise SystemExit("HARNESS-ERROR: instrumenting %s failed: %s" % (rel, r.stderr))
            out[rel] = dst
        if also:
            out.update(also(scratch, repo))
        return out
    return gen


E4ENGINES = ("choice", "report", "refdns", "env", "sched", "pause", "psync", "vnet")

E2ENGINES = ("choice", "report", "refdns", "env", "sched", "vsync", "vxsync", "votter")


def router_part(name, run, files, **kw):
    d = dict(name=name, pkg="app/router", run=run, go="go1.26", env=E3ENV, gomaxprocs=1, engines=E3ENGINES,
             files=dict(ROUTER_COMMON, **{"harness/router/" + f: "app/router/" + f for f in files}),
             budget={"quick": 90, "thorough": 600})
    d.update(kw)
    return d


SPECS["C11"] = dict(
    level="model_checking",
    engine="E1 enum",
    technique="bounded exhaustive enumeration of entry sequences x query names on the real matcher vs a set-based reference model",
    claim="Every entry list of length <=3 (quick) / <=5 (thorough), in every order and with duplicates, over a 21-entry alphabet "
          "(parents, children, duplicates, case variants, root, 25/63-octet labels, NUL-containing labels, full:, regexp: incl. \\DDD forms), loaded "
          "through the real file loader in several file layouts, gives exactly the set-based reference verdict on 28 query names; "
          "order-independence and monotonicity follow because the reference depends only on the entry set.",
    trusted="Go regexp package; the reference matcher (60 lines) in harness/C11; alphabet limits listed in the evidence rule.",
    state_based=False,
    rule="E1 small-scope enumeration: every entry sequence (all orders, repetitions) up to a length bound over an entry "
         "alphabet built from parent/child/duplicate/case-variant/root/long-label/regexp entries, each rendered into 1-2 files "
         "with comments and blank lines, x a fixed set of query names; oracle = declarative set-based reference matcher",
    assumptions=["entry alphabet and query names are listed in harness/C11; entries outside it (labels with '.', ':' or '#') are not covered",
                 "regexp entries are lower-case patterns (the property does not define case folding of patterns)"],
    parts=[dict(name="matcher", pkg="internal/domain_matcher", run="TestVerifC11",
                files={"harness/C11/zz_verif_c11_test.go": "internal/domain_matcher/zz_verif_c11_test.go"},
                params={"quick": {"MAXLEN": 3, "VARIANTS": 2, "MAXLINE": 9000}, "thorough": {"MAXLEN": 5, "VARIANTS": 2, "MAXLINE": 60000}}),
           dict(name="concurrent-match", pkg="internal/domain_matcher", run="TestVerifC11Concurrent", race=True, shards=1, gomaxprocs=4,
                files={"harness/C11/zz_verif_c11_test.go": "internal/domain_matcher/zz_verif_c11_test.go"},
                params={"quick": {"ROUNDS": 200}, "thorough": {"ROUNDS": 5000}})],
)


SPECS["C02"] = dict(
    level="model_checking",
    engine="E1 enum",
    technique="bounded exhaustive enumeration of a message grammar through the real Unpack/Pack, decoded by 3 independent decoders and compared with the abstract message",
    claim="For every message of the grammar (all header bit/opcode/rcode combinations; all record sequences up to the bound over a 22-record "
          "alphabet in every section assignment with 0..2 questions; all assignments of a 14-name collision alphabet to the name slots; names beyond "
          "offset 0x4000; input with and without compression pointers) the proxy's re-encoding with and without compression decodes - by the "
          "proxy, a reference decoder, miekg/dns and x/net dnsmessage - to the same content, the uncompressed length equals Len(), and Pack never fails.",
    trusted="reference encoder/decoder engine/refdns (independent of internal/dnsmsg); miekg/dns v1.1.58 and x/net dnsmessage v0.22 as independent "
            "decoders (x/net skipped for labels containing '.', which it cannot represent); the reserved Z header bit is outside the alphabet.",
    rule="see evidence rule written by the harness",
    assumptions=["record/name alphabets listed in harness/dnsmsg/zz_verif_c02_test.go", "Z header bit not enumerated (the proxy's header model has no such field)"],
    parts=[dict(name="codec", pkg="internal/dnsmsg", run="TestVerifC02", engines=("choice", "report", "refdns"),
                files=dict(DNSMSG_COMMON, **{"harness/dnsmsg/zz_verif_c02_test.go": "internal/dnsmsg/zz_verif_c02_test.go"}),
                params={"quick": {"MAXREC": 2, "SLOTS": 3}, "thorough": {"MAXREC": 3, "SLOTS": 5}})],
)

SPECS["C09"] = dict(
    level="model_checking",
    engine="E1 enum",
    technique="bounded exhaustive enumeration of response messages x size limits x compression through the real Pack, output decoded by independent decoders and compared with the input",
    claim="For every response of the grammar (record sequences up to the bound over 5 size classes, every section assignment, OPT absent or at any "
          "additional position, pre-set TC) and every limit in {0, 512, 513, 1232, 4096, 65535, U-1, U, U+1, +-2 around each record boundary} with "
          "compression on and off: the output is within max(512, limit), decodes cleanly with counts matching, TC is set iff something was omitted, nothing is "
          "omitted when the uncompressed encoding fits, question and OPT survive, and kept answer/authority records are an in-order byte-equal subsequence. "
          "Listener-level caps (UDP advertised size, 65535 on streams) are checked through the real response packing helpers.",
    trusted="reference codec engine/refdns; miekg/dns and x/net as extra decoders; limits 1..511 other than 100 are not enumerated (Pack documents 512 as the minimum).",
    rule="see evidence rule written by the harness",
    assumptions=["at most one OPT per message (RFC 6891)", "record size classes and limits listed in harness/dnsmsg/zz_verif_c09_test.go"],
    parts=[dict(name="pack", pkg="internal/dnsmsg", run="TestVerifC09", engines=("choice", "report", "refdns"),
                files=dict(DNSMSG_COMMON, **{"harness/dnsmsg/zz_verif_c09_test.go": "internal/dnsmsg/zz_verif_c09_test.go",
                                              "harness/dnsmsg/zz_verif_c02_test.go": "internal/dnsmsg/zz_verif_c02_test.go"}),
                params={"quick": {"MAXREC": 4}, "thorough": {"MAXREC": 5}}),
           router_part("listeners", "TestVerifC09Listeners", ["zz_verif_c09_test.go", "zz_verif_c03_test.go"], params={"quick": {"SHARDDEPTH": 3}, "thorough": {"SHARDDEPTH": 3}})],
)

SPECS["C01"] = dict(
    level="model_checking",
    engine="E1 enum (+E3 for listeners and upstream reply paths)",
    technique="bounded exhaustive enumeration of malformed inputs (all short strings, all <=2-byte deviations from a seed corpus, all pointer retargets) on the real decoder, "
              "of framing lies (also a valid query with an undecodable frame right behind it) on every real listener followed by a valid query, and of reply programs "
              "(valid/repeated/unsolicited/malformed replies, framing lies; one segment or one by one) on the real upstream transports followed by valid exchanges",
    claim="No input in the enumerated space (all strings of length <=2 after 6 header templates, all class-alphabet strings up to the bound at every name "
          "position, every prefix / single-byte substitution / deletion / duplication / pointer retarget of 27 seed messages, pairs of substitutions in the "
          "thorough tier) makes the decoder panic or loop, and every accepted message re-packs and re-decodes.",
    trusted="Go runtime bounds checks turn out-of-bounds reads into panics, which the harness catches; 65535-byte inputs are represented by structure, not enumerated.",
    rule="see evidence rule written by the harness",
    assumptions=["inputs beyond 2 deviations from the seed corpus are not covered", "hang detection uses a 10 s no-progress watchdog confirmed by 5 re-runs"],
    parts=[dict(name="decoder", pkg="internal/dnsmsg", run="TestVerifC01Decoder", engines=("choice", "report", "refdns", "env", "sched"),
                files=dict(DNSMSG_COMMON, **{"harness/dnsmsg/zz_verif_c01_test.go": "internal/dnsmsg/zz_verif_c01_test.go"}),
                params={"quick": {"CLASSLEN": 5, "PAIRS": 0}, "thorough": {"CLASSLEN": 6, "PAIRS": 1}}),
           dict(name="upstream-replies", pkg="internal/upstream/transport", run="TestVerifC01Upstream", go="go1.26", env=E3ENV, gomaxprocs=1, engines=E3ENGINES,
                files=dict(TRANSPORT_COMMON, **{"harness/transport/zz_verif_c14_test.go": "internal/upstream/transport/zz_verif_c14_test.go",
                                                "harness/transport/zz_verif_c01up_test.go": "internal/upstream/transport/zz_verif_c01up_test.go"}),
                params={"quick": {"PROGLEN": 2}, "thorough": {"PROGLEN": 3}},
                budget={"quick": 60, "thorough": 900}),
           dict(name="doh-replies", pkg="internal/upstream", run="TestVerifC01DoH", go="go", engines=("report", "refdns", "env", "sched", "choice"), shards=1, gomaxprocs=4,
                files={"harness/upstream/zz_verif_c01doh_test.go": "internal/upstream/zz_verif_c01doh_test.go"}, budget={"quick": 120, "thorough": 120}),
           dict(name="udp-fallback", pkg="internal/upstream", run="TestVerifC16", go="go1.26", env=E3ENV, gomaxprocs=1, engines=E3ENGINES, shards=4,
                files=dict(UPSTREAM_COMMON, **{"harness/upstream/zz_verif_c16_test.go": "internal/upstream/zz_verif_c16_test.go"}),
                budget={"quick": 60, "thorough": 300}),
           router_part("listeners", "TestVerifC01Listeners", ["zz_verif_c01_test.go", "zz_verif_c03_test.go"], shards=1, gomaxprocs=8, budget={"quick": 300, "thorough": 300})],
)


SPECS["C05"] = dict(
    level="model_checking",
    engine="E3 evx",
    state_based=True,
    technique="exhaustive exploration of environment-event orders (stateless DFS, fault-bounded) on the real PipelineTransport in a virtual-time bubble",
    claim="For 3 concurrent exchanges on the real pipelined transport (TCP and UDP framing), every order of starts, out-of-order/duplicated/unsolicited replies, "
          "cancellations, server close and deadline expiry up to the depth and fault bounds - also with the connection's id counter at the end of its life - "
          "a returned message is one the server sent for that exchange's own frame with the caller's id restored, no reply satisfies two exchanges, and wire ids are never reused on a connection.",
    trusted="scripted in-memory connections replace the kernel; goroutine order inside one reaction is the Go runtime's (GOMAXPROCS=1); connpool is exercised as-is.",
    rule="see evidence rule written by the harness",
    assumptions=["exchanges are symmetric, so they are started in index order", "reply alphabet: well-formed replies echoing the question they answer"],
    parts=[dict(name="pipeline", pkg="internal/upstream/transport", run="TestVerifC05", go="go1.26", env=E3ENV, gomaxprocs=1, engines=E3ENGINES,
                files=dict(TRANSPORT_COMMON, **{"harness/transport/zz_verif_c05_test.go": "internal/upstream/transport/zz_verif_c05_test.go"}),
                params={"quick": {"DEPTH": 7, "FAULTS": 2}, "thorough": {"DEPTH": 9, "FAULTS": 3}},
                budget={"quick": 60, "thorough": 600}),
           dict(name="idtable-e2", pkg="internal/upstream/transport", run="TestVerifC05E2", go="go", engines=E2ENGINES,
                files={"harness/transport/zz_verif_c05e2_test.go": "internal/upstream/transport/zz_verif_c05e2_test.go"},
                generate=rewrite_imports("internal/upstream/transport/pipeline_conn.go", {"sync": ("sync", "vsync")}),
                params={"quick": {"PREEMPTIONS": 2}, "thorough": {"PREEMPTIONS": 4}}, budget={"quick": 60, "thorough": 600}),
           dict(name="udp-fallback", pkg="internal/upstream", run="TestVerifC16", go="go1.26", env=E3ENV, gomaxprocs=1, engines=E3ENGINES, shards=4,
                files=dict(UPSTREAM_COMMON, **{"harness/upstream/zz_verif_c16_test.go": "internal/upstream/zz_verif_c16_test.go"}),
                budget={"quick": 60, "thorough": 300}),
           dict(name="udp-source", pkg="internal/upstream", run="TestVerifC05UDPSource", go="go", engines=("report", "refdns", "env", "sched", "choice"), shards=1, gomaxprocs=4,
                files={"harness/upstream/zz_verif_c05src_test.go": "internal/upstream/zz_verif_c05src_test.go"}, budget={"quick": 60, "thorough": 60})],
)

SPECS["C06"] = dict(
    level="model_checking",
    engine="E3 evx",
    state_based=True,
    technique="exhaustive exploration of environment-event orders (stateless DFS, fault-bounded) on the real ReuseConnTransport in a virtual-time bubble",
    claim="For 3 exchanges on the real one-at-a-time transport, every order of replies (whole / split / aborted), cancellations at any point (before the write "
          "commits, after the write, mid-reply), stalled writes, server closes and idle/I-O/caller time-outs up to the bounds: a connection never carries a second query "
          "before the previous reply was completely delivered, a closed or aborted connection is never reused, and every returned message is the reply to the caller's own query.",
    trusted="scripted in-memory connections replace the kernel; goroutine order inside one reaction is the Go runtime's (GOMAXPROCS=1).",
    rule="see evidence rule written by the harness",
    assumptions=["server sends one reply per query (as the property states)"],
    parts=[dict(name="reuse", pkg="internal/upstream/transport", run="TestVerifC06", go="go1.26", env=E3ENV, gomaxprocs=1, engines=E3ENGINES,
                files=dict(TRANSPORT_COMMON, **{"harness/transport/zz_verif_c06_test.go": "internal/upstream/transport/zz_verif_c06_test.go"}),
                params={"quick": {"DEPTH": 6, "FAULTS": 2}, "thorough": {"DEPTH": 9, "FAULTS": 3}},
                budget={"quick": 60, "thorough": 600}),
           dict(name="udp-fallback", pkg="internal/upstream", run="TestVerifC16", go="go1.26", env=E3ENV, gomaxprocs=1, engines=E3ENGINES, shards=4,
                files=dict(UPSTREAM_COMMON, **{"harness/upstream/zz_verif_c16_test.go": "internal/upstream/zz_verif_c16_test.go"}),
                budget={"quick": 60, "thorough": 300}),
           dict(name="real-fallback", pkg="internal/upstream", run="TestVerifC06Real", go="go", engines=("report", "refdns", "env", "sched", "choice"), shards=1, gomaxprocs=4,
                files={"harness/upstream/zz_verif_c06real_test.go": "internal/upstream/zz_verif_c06real_test.go"}, budget={"quick": 60, "thorough": 60})],
)

SPECS["C14"] = dict(
    level="model_checking",
    engine="E3 evx",
    state_based=True,
    technique="exhaustive enumeration of fault placements (<=k faults) on the real transports under an exact virtual clock",
    claim="For every placement of up to 2 (quick) / 3 (thorough) faults from {dial refused, dial never completes, silent server, half length prefix, half body, garbage, FIN, "
          "abort, stalled write} relative to dial, write, reply and idle periods, on the pipelined TCP/UDP and one-at-a-time TCP transports (DoH/DoQ over scripted "
          "RoundTripper / quic connection): every exchange returns by its deadline on the exact virtual clock, stale pooled connections are survived in zero virtual time "
          "when a healthy server is reachable, waiters are released the instant their connection dies, redials are bounded and no call returns (nil, nil).",
    trusted="scripted in-memory connections / RoundTripper / quic connection replace kernel, net/http and quic-go; DoT is the same transport code over a TLS conn.",
    rule="see evidence rule written by the harness",
    assumptions=["<=2 warm pooled connections", "'scheduling slack' is zero on the virtual clock"],
    parts=[dict(name="stream", pkg="internal/upstream/transport", run="TestVerifC14", go="go1.26", env=E3ENV, gomaxprocs=1, engines=E3ENGINES,
                files=dict(TRANSPORT_COMMON, **{"harness/transport/zz_verif_c14_test.go": "internal/upstream/transport/zz_verif_c14_test.go"}),
                params={"quick": {"FAULTS": 2}, "thorough": {"FAULTS": 4}},
                budget={"quick": 60, "thorough": 600}),
           dict(name="doq-doh", pkg="internal/upstream/transport", run="TestVerifC14Q", go="go1.26", env=E3ENV, gomaxprocs=1, engines=E3ENGINES,
                files=dict(TRANSPORT_COMMON, **{"harness/transport/zz_verif_c14q_test.go": "internal/upstream/transport/zz_verif_c14q_test.go"}),
                params={"quick": {"DEPTH": 6, "FAULTS": 2}, "thorough": {"DEPTH": 7, "FAULTS": 3}},
                budget={"quick": 60, "thorough": 600}),
           dict(name="pipeline-e2", pkg="internal/upstream/transport", run="TestVerifC14E2", go="go", engines=E2ENGINES, shards=8,
                files={"harness/transport/zz_verif_c05e2_test.go": "internal/upstream/transport/zz_verif_c05e2_test.go",
                       "harness/transport/zz_verif_c14e2_test.go": "internal/upstream/transport/zz_verif_c14e2_test.go"},
                generate=rewrite_imports("internal/upstream/transport/pipeline_conn.go", {"sync": ("sync", "vsync")}),
                params={"quick": {"PREEMPTIONS": 2}, "thorough": {"PREEMPTIONS": 3}}, budget={"quick": 60, "thorough": 600}),
           dict(name="udp-fallback", pkg="internal/upstream", run="TestVerifC16", go="go1.26", env=E3ENV, gomaxprocs=1, engines=E3ENGINES, shards=4,
                files=dict(UPSTREAM_COMMON, **{"harness/upstream/zz_verif_c16_test.go": "internal/upstream/zz_verif_c16_test.go"}),
                budget={"quick": 60, "thorough": 300}),
           dict(name="real-age", pkg="internal/upstream", run="TestVerifC14Age", go="go", engines=("report", "refdns", "env", "sched", "choice"), shards=1, gomaxprocs=4,
                files={"harness/upstream/zz_verif_c14age_test.go": "internal/upstream/zz_verif_c14age_test.go"}, budget={"quick": 60, "thorough": 60})],
)


SPECS["C16"] = dict(
    level="model_checking",
    engine="E3 evx",
    state_based=True,
    technique="exhaustive enumeration of (query, UDP reply, TCP-leg behaviour, history) combinations on the real UDP-with-TCP-fallback upstream in a virtual-time bubble",
    claim="For every combination of query shape, UDP reply kind (answer, NXDOMAIN, TC with/without records, TC+SERVFAIL, silence), TCP leg behaviour (answers, answers with TC again, "
          "dial refused, abort after write, garbage, silence) and first/second exchange: TC leads to exactly one byte-identical TCP query and the caller receives the TCP outcome, never the "
          "truncated UDP message; without TC the UDP message is returned as received and no TCP attempt is made. The real constructor's wiring (both legs dial the same host:port) is checked in C17.",
    trusted="scripted in-memory connections replace the kernel sockets.",
    rule="see evidence rule written by the harness",
    assumptions=["one outstanding exchange at a time in this scenario (concurrency is C05/C06)"],
    parts=[dict(name="fallback", pkg="internal/upstream", run="TestVerifC16", go="go1.26", env=E3ENV, gomaxprocs=1, engines=E3ENGINES, shards=4,
                files=dict(UPSTREAM_COMMON, **{"harness/upstream/zz_verif_c16_test.go": "internal/upstream/zz_verif_c16_test.go"}),
                budget={"quick": 60, "thorough": 300}),
           dict(name="wiring", pkg="internal/upstream", run="TestVerifC17Addr", go="go1.26", env=E3ENV, engines=E3ENGINES,
                files=dict(UPSTREAM_COMMON, **{"harness/upstream/zz_verif_c17_test.go": "internal/upstream/zz_verif_c17_test.go"}),
                params={"quick": {"SCHEMES": ",udp"}, "thorough": {"SCHEMES": ",udp"}}, budget={"quick": 60, "thorough": 60}),
           dict(name="real-udp", pkg="internal/upstream", run="TestVerifC16Real", go="go", engines=("report", "refdns", "env", "sched", "choice"), shards=1, gomaxprocs=4,
                files={"harness/upstream/zz_verif_c16real_test.go": "internal/upstream/zz_verif_c16real_test.go"}, budget={"quick": 120, "thorough": 120}),
           dict(name="real-history", pkg="internal/upstream", run="TestVerifC16History", go="go", engines=("report", "refdns", "env", "sched", "choice"), shards=1, gomaxprocs=4,
                files={"harness/upstream/zz_verif_c16hist_test.go": "internal/upstream/zz_verif_c16hist_test.go"},
                params={"quick": {"LATER": 9000, "DIALFAILS": 300}, "thorough": {"LATER": 140000, "DIALFAILS": 3000}}, budget={"quick": 200, "thorough": 600})],
)


SPECS["C03"] = dict(
    level="model_checking",
    engine="E3 evx",
    state_based=True,
    technique="exhaustive enumeration of (listener, query, rule outcome, upstream outcome) on the real router in a virtual-time bubble, compared with a reference decision table",
    claim="For every query of the alphabet on every listener seam, under every rule outcome and every upstream outcome (answer, NXDOMAIN, SERVFAIL, malformed, error, silence, "
          "answer at 5.9 s), the client receives exactly one response by 6 s on the exact virtual clock and nothing more until 20 s, with id/opcode/RD copied, QR=RA=1, at most the first "
          "question echoed, and the rcode the reference decision table prescribes (NOTIMP / REFUSED / reject rcode / relayed rcode / SERVFAIL).",
    trusted="listener code is entered at handleConn/handleMsg/OnTraffic/ServeHTTP/HandleFastHTTP/handleStream with scripted in-memory peers; kernel sockets, gnet, net/http, quic-go are not run.",
    rule="see evidence rule written by the harness",
    assumptions=["upstream replies echo the question they were asked", "rate limiting off (C15 covers refusals)"],
    parts=[dict(name="router", pkg="app/router", run="TestVerifC03", go="go1.26", env=E3ENV, gomaxprocs=1, engines=E3ENGINES,
                files=dict(ROUTER_COMMON, **{"harness/router/zz_verif_c03_test.go": "app/router/zz_verif_c03_test.go"}),
                budget={"quick": 90, "thorough": 600})],
)



SPECS["C12"] = dict(
    level="model_checking",
    engine="E3 evx",
    state_based=True,
    technique="exhaustive enumeration of (ECS setting, client address, rule, client OPT, upstream OPT) x cache path on the real router in a virtual-time bubble, plus bit-exhaustive ECS encoding",
    claim="For every combination of ECS on/off, client address kind, rule outcome, client OPT shape and upstream OPT shape, on the miss, hit, refresh and post-refresh paths: a response carries "
          "exactly one option-less OPT advertising the proxy's size iff the query had one; every upstream query (including background refreshes) carries exactly one OPT, with a Client "
          "Subnet option only when enabled and the address is known, truncated to /24 or /56 with scope 0 and no host bits; checked for every single-bit and all-ones address.",
    trusted="scripted upstream at the Upstream interface; tcp listener seam.",
    rule="see evidence rule written by the harness",
    assumptions=["at most one OPT per message (RFC 6891)", "limiter off (refusals are built without OPT by design, C15)"],
    parts=[router_part("edns", "TestVerifC12", ["zz_verif_c12_test.go", "zz_verif_c03_test.go"])],
)

SPECS["C10"] = dict(
    level="model_checking",
    engine="E3 evx + subprocess",
    state_based=True,
    technique="exhaustive enumeration of rule lists x queries on the real router (loaded through run()) against a reference interpreter; configuration errors enumerated against the real binary",
    claim="For every rule list up to the length bound over the complete rule alphabet (domain none/A/B, reverse, reject, forward; sets sharing entries; cache on/off) and 8 queries, "
          "the client's rcode, the set of upstreams contacted and the forwarded question equal the first-match reference interpreter; and the real binary rejects every generated "
          "configuration with an unknown key (at each nesting level), unknown or duplicate tags with a non-zero exit and no panic, while the matching good configuration starts.",
    trusted="scripted upstreams at the Upstream interface; tcp listener seam; YAML decoding is exercised only in the subprocess part.",
    rule="see evidence rule written by the harness",
    assumptions=["'reverse' on a rule without a domain condition has no effect (the condition 'always holds')", "a rule with both reject and forward is a reject rule"],
    parts=[router_part("rules", "TestVerifC10", ["zz_verif_c10_test.go"], params={"quick": {"MAXLEN": 2}, "thorough": {"MAXLEN": 3}}),
           dict(name="config", pkg="app/router", run="TestVerifC10Config", go="go", engines=("choice", "report"), shards=1,
                files={"harness/router/zz_verif_c10cfg_test.go": "app/router/zz_verif_c10cfg_test.go"}, budget={"quick": 120, "thorough": 120}),
           router_part("concurrent-queries", "TestVerifC04", ["zz_verif_c04_test.go", "zz_verif_c03_test.go", "zz_verif_c19_test.go", "zz_verif_c07_test.go", "zz_verif_c08_test.go"],
                       params={"quick": {"DEPTH": 4, "LONGSTEPS": 0}, "thorough": {"DEPTH": 5, "LONGSTEPS": 0}}),
           dict(name="domain-condition-concurrent", pkg="internal/domain_matcher", run="TestVerifC11Concurrent", race=True, shards=1, gomaxprocs=4,
                files={"harness/C11/zz_verif_c11_test.go": "internal/domain_matcher/zz_verif_c11_test.go"},
                params={"quick": {"ROUNDS": 200}, "thorough": {"ROUNDS": 2000}}),
           dict(name="domain-condition", pkg="internal/domain_matcher", run="TestVerifC11",
                files={"harness/C11/zz_verif_c11_test.go": "internal/domain_matcher/zz_verif_c11_test.go"},
                params={"quick": {"MAXLEN": 2, "VARIANTS": 2}, "thorough": {"MAXLEN": 3, "VARIANTS": 2}})],
)

SPECS["C08"] = dict(
    level="model_checking",
    engine="E3 evx",
    state_based=True,
    technique="exhaustive enumeration of timed histories (TTL vector x rcode x TC x max ttl x probe instant) on the real router + otter cache under an exact virtual clock",
    claim="For every upstream reply shape (rcode, TC, record TTLs from the alphabet incl. 0 and 2^32-1, configured maximum) and every probe instant around the second boundaries and the "
          "end of the lifetime: a response served without a new upstream exchange carries aged TTLs within [1, upstream - floor(elapsed)], is never served at or after lifetime + 2 s, "
          "TC replies and failed exchanges are never cached, and a negative or failed refresh never displaces a live positive entry.",
    trusted="memory backend only (the redis backend needs a server); otter and its 1 s clock are exercised as-is inside the bubble.",
    rule="see evidence rule written by the harness",
    assumptions=["the cache clock granularity allowance is 2 s as the property states"],
    parts=[router_part("ttl", "TestVerifC08", ["zz_verif_c08_test.go", "zz_verif_c03_test.go"])],
)

SPECS["C07"] = dict(
    level="model_checking",
    engine="E3 evx + E1 enum (+E2 sched for the memory cache)",
    state_based=True,
    technique="exhaustive enumeration of single-component query variants, upstream response shapes, range files and timed repeat queries on the real router+cache; controlled-scheduler exploration of the memory cache",
    claim="Queries that differ in exactly one of name (beyond case), class, type or client group never share a cache entry and queries that differ only in case or in the address within a "
          "group always do, independently of the contents of recycled buffers; a cached response equals the relayed one except id and TTLs; the group label equals a linear scan for every "
          "range file over the address universe; a repeat with more than 1 s of lifetime left is a hit.",
    trusted="scripted upstream; tcp seam; memory backend only.",
    rule="see evidence rule written by the harness",
    assumptions=["ample cache capacity for the hit guarantee"],
    parts=[router_part("cache", "TestVerifC07", ["zz_verif_c07_test.go", "zz_verif_c08_test.go", "zz_verif_c03_test.go"],
                       params={"quick": {"MAXREC": 2, "MAXRANGES": 2}, "thorough": {"MAXREC": 3, "MAXRANGES": 3}}),
           router_part("with-refresh", "TestVerifC19", ["zz_verif_c19_test.go", "zz_verif_c07_test.go", "zz_verif_c08_test.go", "zz_verif_c03_test.go"],
                       params={"quick": {"DEPTH": 4, "FAULTS": 1, "SHARDDEPTH": 3}, "thorough": {"DEPTH": 5, "FAULTS": 2}}),
           dict(name="mem-e2", pkg="internal/cache", run="TestVerifC07Mem", go="go", engines=E2ENGINES,
                files={"harness/cache/zz_verif_c07mem_test.go": "internal/cache/zz_verif_c07mem_test.go"},
                generate=rewrite_imports("internal/cache/mem.go", {"sync": ("sync", "vsync"), "github.com/maypok86/otter": ("otter", "votter")}),
                params={"quick": {"PREEMPTIONS": 2}, "thorough": {"PREEMPTIONS": 4}}, budget={"quick": 90, "thorough": 900})],
)

SPECS["C19"] = dict(
    level="model_checking",
    engine="E3 evx (+E2 sched for prefetchCtl)",
    state_based=True,
    technique="exhaustive exploration of event orders (hits from 3 clients in 2 groups, refresh outcomes, clock ticks) on the real router+cache in a virtual-time bubble",
    claim="For every sequence up to the depth bound of hits from clients in the same or different groups, refresh completions (renewed TTL, SERVFAIL, failure) and 1 s clock steps inside "
          "the refresh window: every hit on a live entry is answered in the same reaction without waiting for the upstream, at most one refresh per (question, group) is ever in flight, "
          "a successful refresh renews what later hits see, and a failed one leaves the old entry in service.",
    trusted="scripted upstream; tcp seam; hits within one reaction are sequential at event granularity (lock-level interleavings of reserve/done are the E2 part).",
    rule="see evidence rule written by the harness",
    assumptions=[],
    parts=[router_part("prefetch", "TestVerifC19", ["zz_verif_c19_test.go", "zz_verif_c07_test.go", "zz_verif_c08_test.go", "zz_verif_c03_test.go"],
                       params={"quick": {"DEPTH": 4, "FAULTS": 1, "MANYKEYS": 300, "SHARDDEPTH": 3}, "thorough": {"DEPTH": 6, "FAULTS": 2, "MANYKEYS": 400}},
                       budget={"quick": 90, "thorough": 1500}),
           dict(name="ctl-e2", pkg="app/router", run="TestVerifC19E2", go="go", engines=E2ENGINES,
                files={"harness/router/zz_verif_c19e2_test.go": "app/router/zz_verif_c19e2_test.go"},
                generate=rewrite_imports("app/router/cache.go", {"sync": ("sync", "vsync")}),
                params={"quick": {"PREEMPTIONS": 4}, "thorough": {"PREEMPTIONS": 8}}, budget={"quick": 60, "thorough": 600})],
)

SPECS["C13"] = dict(
    level="model_checking",
    engine="E3 evx",
    state_based=True,
    technique="exhaustive enumeration of segmentations x pipelining x completion orders x write-completion orders on the real TCP and gnet handlers, differential against a reference framer",
    claim="For every enumerated segmentation of a stream of up to 2 (quick) / 3 (thorough) pipelined queries (cuts inside the prefix, inside bodies, several frames per segment; all 2^(n-1) "
          "segmentations for one frame in the thorough tier), every completion order of the concurrent handlers, parked response writes released out of order, and connection limits 1/2/100: "
          "both stream listeners decode each frame exactly once, emit one contiguous well-formed frame per query and answer the surplus over the limit with REFUSED.",
    trusted="fake gnet.Conn modelled on gnet v2.3.6 (Next/InboundBuffered/AsyncWrite semantics) driven by a fake single-goroutine event loop; DoT is the TCP handler over crypto/tls (covered by C03's tls seam with whole-frame writes).",
    rule="see evidence rule written by the harness",
    assumptions=["gnet delivers each TCP segment as one OnTraffic call and keeps unconsumed bytes buffered"],
    parts=[router_part("framing", "TestVerifC13", ["zz_verif_c13_test.go", "zz_verif_c03_test.go"],
                       params={"quick": {"MAXK": 2, "COARSEK": 3, "FULLSEG": 0, "SHARDDEPTH": 4}, "thorough": {"MAXK": 2, "COARSEK": 4, "FULLSEG": 1, "SHARDDEPTH": 4}}),
           router_part("long-lived", "TestVerifC03", ["zz_verif_c03_test.go"], shards=2, params={"quick": {"SHARDDEPTH": 1}, "thorough": {"SHARDDEPTH": 1}}),
           router_part("response-size", "TestVerifC09Listeners", ["zz_verif_c09_test.go", "zz_verif_c03_test.go"], shards=4, params={"quick": {"SHARDDEPTH": 2}, "thorough": {"SHARDDEPTH": 2}})],
)

SPECS["C15"] = dict(
    level="model_checking",
    engine="E3 evx",
    state_based=False,
    technique="exhaustive enumeration of timed arrival sequences x limiter configurations on the real limiter under a virtual clock (real gc ticker), and of admission decisions at every listener seam",
    claim="For every limiter configuration in the alphabet (including omitted masks/burst) and every arrival sequence up to the length bound over addresses in the same/different subnets, "
          "delays {0, 1/rate, 1 s, 61 s, 121 s} and costs {1,3,15}: the cost admitted per subnet in any window never exceeds burst + rate x window and a request within its own subnet's "
          "budget is never refused; at the UDP/TCP/gnet/HTTP seams a refused query gets REFUSED (503) and is not forwarded.",
    trusted="golang.org/x/time/rate is exercised as-is; decisions are compared with the property's inequalities (1e-6 slack), not with a bit-exact model.",
    rule="see evidence rule written by the harness",
    assumptions=["global limit off (it is shared by design)"],
    parts=[dict(name="limiter", pkg="internal/limiter", run="TestVerifC15", go="go1.26", env=E3ENV, gomaxprocs=1, engines=E3ENGINES,
                files={"harness/limiter/zz_verif_c15_test.go": "internal/limiter/zz_verif_c15_test.go"},
                params={"quick": {"MAXLEN": 3}, "thorough": {"MAXLEN": 4}}, budget={"quick": 90, "thorough": 600}),
           router_part("seams", "TestVerifC15Seams", ["zz_verif_c15_test.go", "zz_verif_c03_test.go"],
                       params={"quick": {"DEPTH": 4}, "thorough": {"DEPTH": 6}}),
           dict(name="concurrent-e2", pkg="internal/limiter", run="TestVerifC15E2", go="go", engines=E2ENGINES,
                files={"harness/limiter/zz_verif_c15e2_test.go": "internal/limiter/zz_verif_c15e2_test.go"},
                generate=rewrite_imports("internal/limiter/client_limiter.go", {"sync": ("sync", "vsync"), "github.com/puzpuzpuz/xsync/v3": ("xsync", "vxsync")}),
                params={"quick": {"PREEMPTIONS": 3}, "thorough": {"PREEMPTIONS": 6}}, budget={"quick": 60, "thorough": 600}),
           router_part("quic", "TestVerifC15Quic", ["zz_verif_c15quic_test.go", "zz_verif_c03_test.go"], shards=1),
           dict(name="udp-multi-route", pkg="app/router", run="TestVerifC15MultiRoute", go="go", engines=("report", "refdns", "env", "sched", "choice"), shards=1, gomaxprocs=4,
                files={"harness/router/zz_verif_c15mr_test.go": "app/router/zz_verif_c15mr_test.go"}, budget={"quick": 120, "thorough": 120})],
)

SPECS["C17"] = dict(
    level="model_checking",
    engine="E1 enum",
    state_based=False,
    technique="exhaustive enumeration of the finite configuration matrix (address forms x dial_addr forms; peer certificates x TLS options x listener/upstream kinds) on the real constructors with intercepted dials and real crypto/tls handshakes",
    claim="For every combination of scheme, URL host form (IPv4, bracketed IPv6 of several textual shapes incl. zone, name), port presence and dial_addr form the dialled (network, host, port) equals the "
          "reference; for every peer certificate kind x TLS option the exchange succeeds iff the chain verifies for the URL host or verification is disabled, SNI/Host derive from the URL host, "
          "and a listener configured to verify client certificates serves no query to a client without an acceptable certificate.",
    trusted="crypto/tls, net/http and the OS resolver for 'localhost'; quic/h3 destinations are only observed on loopback.",
    rule="see evidence rule written by the harness",
    assumptions=["dial_addr spellings outside the documented 'IP or domain, port optional, @name' forms are not in the alphabet"],
    parts=[dict(name="addr", pkg="internal/upstream", run="TestVerifC17Addr", go="go1.26", env=E3ENV, engines=E3ENGINES,
                files=dict(UPSTREAM_COMMON, **{"harness/upstream/zz_verif_c17_test.go": "internal/upstream/zz_verif_c17_test.go"}), budget={"quick": 120, "thorough": 120}),
           dict(name="tls", pkg="app/router", run="TestVerifC17TLS", go="go", engines=("report", "refdns", "env", "sched", "choice"), shards=1, gomaxprocs=4,
                files={"harness/router/zz_verif_c17_test.go": "app/router/zz_verif_c17_test.go"}, budget={"quick": 300, "thorough": 300}),
           dict(name="quic-addr", pkg="internal/upstream", run="TestVerifC17Quic", go="go1.26", env=E3ENV, engines=E3ENGINES, shards=1, gomaxprocs=4,
                files=dict(UPSTREAM_COMMON, **{"harness/upstream/zz_verif_c17q_test.go": "internal/upstream/zz_verif_c17q_test.go"}), budget={"quick": 120, "thorough": 120})],
)

SPECS["C18"] = dict(
    level="model_checking",
    engine="E3 evx + real sockets for start-up",
    state_based=True,
    technique="exhaustive exploration of event orders with Close inserted at every position on the real transports (virtual time), and enumeration of failing-listener positions against the real run()",
    claim="For every upstream kind and every sequence up to the bound of exchange starts, late-completing dials, replies, Close (once or twice) and clock steps: Close returns, is idempotent, never panics; "
          "in-flight exchanges return by their deadline and later ones fail at once; every connection ever produced - including one whose dial completes after Close - is closed; and for every position of a "
          "failing listener (port in use, missing certificate, unknown protocol, bad address) in a 3-server configuration run() returns an error without panic and releases the ports it had bound.",
    trusted="scripted dialer / RoundTripper / quic connection; the start-up part uses real loopback sockets and wall-clock waits without timing oracles.",
    rule="see evidence rule written by the harness",
    assumptions=[],
    parts=[dict(name="transports", pkg="internal/upstream/transport", run="TestVerifC18", go="go1.26", env=E3ENV, gomaxprocs=1, engines=E3ENGINES,
                files=dict(TRANSPORT_COMMON, **{"harness/transport/zz_verif_c18_test.go": "internal/upstream/transport/zz_verif_c18_test.go",
                                                 "harness/transport/zz_verif_c14_test.go": "internal/upstream/transport/zz_verif_c14_test.go"}),
                params={"quick": {"DEPTH": 5, "FAULTS": 2}, "thorough": {"DEPTH": 7, "FAULTS": 3}}, budget={"quick": 90, "thorough": 600}),
           router_part("startup", "TestVerifC18Startup", ["zz_verif_c18_test.go"], shards=1, gomaxprocs=4),
           dict(name="sockets", pkg="internal/upstream", run="TestVerifC18Sockets", go="go1.26", env=E3ENV, gomaxprocs=4, engines=E3ENGINES, shards=1,
                files=dict(UPSTREAM_COMMON, **{"harness/upstream/zz_verif_c18sock_test.go": "internal/upstream/zz_verif_c18sock_test.go"}), budget={"quick": 200, "thorough": 200})],
)

SPECS["C20"] = dict(
    level="model_checking",
    engine="E3 evx (race build + ownership hook) + E2 sched",
    state_based=True,
    technique="the exhaustive event-order explorations of C03/C05/C06/C13/C14/C18/C19 re-run as -race builds (vector-clock check on every explored order) with the buffer-ownership hook (double/foreign release, write-after-release audit, poison/uninit patterns in outputs)",
    claim="On every event order explored for the transports, the listeners' framing, the cache/prefetch path and shutdown, the Go race detector reports no data race and the ownership hook sees no "
          "double or foreign release, no write after release and no released or uninitialised pool memory in any wire output or client-visible response.",
    trusted="race detection is per explored event order (hand-offs between harness and implementation goroutines go through synctest.Wait, which the detector understands); objects recycled via sync.Pool are covered by the race build, not by poisoning.",
    rule="see evidence rule written by the harnesses (same spaces as the owning properties, one depth less in the quick tier)",
    assumptions=[],
    parts=[],  # filled below from the owning properties' parts
)


SPECS["C04"] = dict(
    level="model_checking",
    engine="E3 evx (+ race build in C20)",
    state_based=True,
    technique="exhaustive exploration of arrival/reply-delivery orders for concurrent queries on the real router with real upstream transports and cache, checked against a keyed answer function",
    claim="For every upstream transport kind, cache mode, listener pair and question triple of the alphabet (repeated questions, same name with other class/type/case) and every order of "
          "query arrivals and upstream reply deliveries up to the depth bound, each client-visible response carries its own question and exactly the answer the upstream produced for that "
          "(name, class, type), whether relayed or served from cache, and every query gets exactly one response.",
    trusted="scripted dialer/peer below the real transports; listener seams as in C03; lock-level interleavings of the cache are the E2 part of C07.",
    rule="see evidence rule written by the harness",
    assumptions=["upstream answers are a keyed function of the question plus a serial, so any mix-up is observable"],
    parts=[router_part("mixups", "TestVerifC04", ["zz_verif_c04_test.go", "zz_verif_c03_test.go", "zz_verif_c19_test.go", "zz_verif_c07_test.go", "zz_verif_c08_test.go"],
                       params={"quick": {"DEPTH": 5, "SHARDDEPTH": 4, "LONGSTEPS": 1}, "thorough": {"DEPTH": 7, "SHARDDEPTH": 4, "LONGSTEPS": 2}})],
)


def _c20_parts():
    import copy
    out = []
    plan = [("C05", "pipeline", {"DEPTH": 6, "FAULTS": 2}, {"DEPTH": 8, "FAULTS": 3}),
            ("C06", "reuse", {"DEPTH": 6, "FAULTS": 2}, {"DEPTH": 8, "FAULTS": 3}),
            ("C14", "stream", {"FAULTS": 2}, {"FAULTS": 4}),
            ("C14", "doq-doh", {"DEPTH": 5, "FAULTS": 2}, {"DEPTH": 6, "FAULTS": 3}),
            ("C16", "fallback", {}, {}),
            ("C18", "transports", {"DEPTH": 4, "FAULTS": 2}, {"DEPTH": 6, "FAULTS": 3}),
            ("C13", "framing", {"MAXK": 2, "COARSEK": 2, "FULLSEG": 0, "SHARDDEPTH": 4}, {"MAXK": 2, "COARSEK": 3, "FULLSEG": 0, "SHARDDEPTH": 4}),
            ("C19", "prefetch", {"DEPTH": 4, "FAULTS": 2}, {"DEPTH": 6, "FAULTS": 3}),
            ("C03", "router", {}, {}),
            ("C15", "seams", {}, {}),
            ("C04", "mixups", {"DEPTH": 4, "SHARDDEPTH": 4}, {"DEPTH": 6, "SHARDDEPTH": 4})]
    for pid, pname, q, t in plan:
        for p in SPECS[pid]["parts"]:
            if p["name"] == pname:
                d = copy.deepcopy(p)
                d["name"] = pid.lower() + "-" + pname
                d["race_only"] = True
                if pname in ("seams", "transports"):
                    # the admission paths release buffers on their own refusal branches, the transports on their big-reply and
                    # error paths: the plain build (full ownership bookkeeping: double / foreign release) runs as well as the race build
                    d["race_only"], d["race"] = False, True
                d["env"] = dict(d.get("env", {}), VERIF_ONLY_OWNERSHIP="1")
                d["params"] = {"quick": dict(d.get("params", {}).get("quick", {}), **q), "thorough": dict(d.get("params", {}).get("thorough", {}), **t)}
                d["budget"] = {"quick": 100, "thorough": 900}
                out.append(d)
    return out


def _mem_e2(pid):
    import copy
    for p in SPECS["C07"]["parts"]:
        if p["name"] == "mem-e2":
            d = copy.deepcopy(p)
            d["name"] = "mem-e2"
            return d


def _decoder_own():
    import copy
    for p in SPECS["C01"]["parts"]:
        if p["name"] == "decoder":
            d = copy.deepcopy(p)
            d["name"] = "decoder-ownership"
            d["engines"] = ("choice", "report", "refdns", "env", "sched")
            d["params"] = {"quick": {"CLASSLEN": 4, "PAIRS": 0}, "thorough": {"CLASSLEN": 5, "PAIRS": 0}}
            return d


SPECS["C20"]["parts"] = _c20_parts() + [_mem_e2("C20"), _decoder_own()]
# a header left in a pooled message by an input that failed to decode (TC, AA ... of the junk) ends up in the next locally made response:
# "TC is not added when the message fits" needs the decoder to leave the pool clean
SPECS["C09"]["parts"].append(dict(_decoder_own(), name="decoder-pool-hygiene"))
SPECS["C04"]["parts"].append(_mem_e2("C04"))
# a name buffer released twice by the decoder makes two live messages share name storage (one request's name in another's answer)
SPECS["C04"]["parts"].append(_decoder_own())
# the multiplexed upstream transport: a reply reaches only the exchange that asked (C05's exploration decides this half of C04 too)
SPECS["C04"]["parts"].append([dict(p, budget={"quick": 60, "thorough": 300}) for p in SPECS["C05"]["parts"] if p["name"] == "pipeline"][0])
SPECS["C04"]["parts"].append(dict(name="upstream-replies", pkg="internal/upstream/transport", run="TestVerifC01Upstream", go="go1.26", env=E3ENV, gomaxprocs=1, engines=E3ENGINES,
                                  files=dict(TRANSPORT_COMMON, **{"harness/transport/zz_verif_c14_test.go": "internal/upstream/transport/zz_verif_c14_test.go",
                                                                  "harness/transport/zz_verif_c01up_test.go": "internal/upstream/transport/zz_verif_c01up_test.go"}),
                                  params={"quick": {"PROGLEN": 2}, "thorough": {"PROGLEN": 3}}, budget={"quick": 60, "thorough": 900}))
SPECS["C05"]["parts"].append(dict(SPECS["C04"]["parts"][-1]))
SPECS["C12"]["parts"].append(dict(name="real-clients", pkg="app/router", run="TestVerifC12Real", go="go", engines=("report", "refdns", "env", "sched", "choice"), shards=1, gomaxprocs=4,
                                  files={"harness/router/zz_verif_c12real_test.go": "app/router/zz_verif_c12real_test.go"}, budget={"quick": 120, "thorough": 120}))
SPECS["C14"]["parts"].append(dict(name="real-refused", pkg="internal/upstream", run="TestVerifC14Refused", go="go", engines=("report", "refdns", "env", "sched", "choice"), shards=1, gomaxprocs=4,
                                  files={"harness/upstream/zz_verif_c14refused_test.go": "internal/upstream/zz_verif_c14refused_test.go"}, budget={"quick": 120, "thorough": 120}))
SPECS["C06"]["parts"].append(dict(name="real-kinds", pkg="internal/upstream", run="TestVerifC06Kinds", go="go", engines=("report", "refdns", "env", "sched", "choice"), shards=1, gomaxprocs=4,
                                  files={"harness/upstream/zz_verif_c06kinds_test.go": "internal/upstream/zz_verif_c06kinds_test.go"}, budget={"quick": 120, "thorough": 120}))
SPECS["C08"]["parts"].append(_mem_e2("C08"))
SPECS["C19"]["parts"].append(dict(name="redis-slow", pkg="app/router", run="TestVerifC19Redis", go="go", engines=("report", "refdns", "env", "sched", "choice"), shards=1, gomaxprocs=4,
                                  files={"harness/router/zz_verif_redis_test.go": "app/router/zz_verif_redis_test.go", "harness/router/zz_verif_c19redis_test.go": "app/router/zz_verif_c19redis_test.go"},
                                  budget={"quick": 120, "thorough": 120}))
SPECS["C03"]["parts"].append(dict(name="real-stream", pkg="app/router", run="TestVerifC03RealStream", go="go", engines=("report", "refdns", "env", "sched", "choice"), shards=1, gomaxprocs=4,
                                  files={"harness/router/zz_verif_realstream_test.go": "app/router/zz_verif_realstream_test.go"}, budget={"quick": 120, "thorough": 120}))
for _pid in ("C01", "C03"):
    SPECS[_pid]["parts"].append(dict(name="real-udp", pkg="app/router", run="TestVerifRealUDP", go="go", engines=("report", "refdns", "env", "sched", "choice"), shards=1, gomaxprocs=4,
                                     files={"harness/router/zz_verif_realudp_test.go": "app/router/zz_verif_realudp_test.go"},
                                     params={"quick": {"BURSTS": 150}, "thorough": {"BURSTS": 2000}}, budget={"quick": 120, "thorough": 600}))
for _pid in ("C07", "C08"):
    SPECS[_pid]["parts"].append(dict(name="redis", pkg="app/router", run="TestVerifRedis", go="go", engines=("report", "refdns", "env", "sched", "choice"), shards=1, gomaxprocs=4,
                                     files={"harness/router/zz_verif_redis_test.go": "app/router/zz_verif_redis_test.go"}, budget={"quick": 120, "thorough": 120}))
SPECS["C08"]["parts"].append(dict(name="mem-lifetime", pkg="internal/cache", run="TestVerifC08Mem", go="go1.26", env=E3ENV, gomaxprocs=1, engines=("choice", "report"), shards=8,
                                  files={"harness/cache/zz_verif_c08mem_test.go": "internal/cache/zz_verif_c08mem_test.go"},
                                  params={"quick": {"DEPTH": 3}, "thorough": {"DEPTH": 5}}, budget={"quick": 60, "thorough": 900}))

# ---- E4 pause-point parts (DESIGN 9.13): the E3 explorations again, on overlay copies of the implementation files that carry a
# pause point before every statement; one goroutine may stand still between two statements while further events happen.
TRANSPORT_SRC = ["internal/upstream/transport/" + f for f in ("reuse_transport.go", "pipeline_conn.go", "pipeline_transport.go", "quic_transport.go", "doh_transport.go", "utils.go")]


def _preempt(name, run, files, params, budget=None, **kw):
    d = dict(name=name, pkg="internal/upstream/transport", run=run, go="go1.26", env=E3ENV, gomaxprocs=1, engines=E4ENGINES,
             files=dict(TRANSPORT_COMMON, **{"harness/transport/" + f: "internal/upstream/transport/" + f for f in files}),
             generate=instrument(TRANSPORT_SRC), params=params, budget=budget or {"quick": 60, "thorough": 600})
    d.update(kw)
    return d


SPECS["C06"]["parts"].append(_preempt("reuse-preempt", "TestVerifC06", ["zz_verif_c06_test.go"],
                                      {"quick": {"PAUSE": 1, "DEPTH": 4, "FAULTS": 1, "CALLS": 2}, "thorough": {"PAUSE": 1, "PAUSEHITS": 2, "DEPTH": 6, "FAULTS": 2, "CALLS": 3}}))

# the one-at-a-time transport's exploration (with callers whose deadline has already passed) decides C14's deadline clause as well
SPECS["C14"]["parts"].append(_preempt("reuse-preempt", "TestVerifC06", ["zz_verif_c06_test.go"],
                                      {"quick": {"PAUSE": 1, "DEPTH": 4, "FAULTS": 1, "CALLS": 2}, "thorough": {"PAUSE": 1, "PAUSEHITS": 2, "DEPTH": 6, "FAULTS": 2, "CALLS": 3}}))

SPECS["C05"]["parts"].append(_preempt("pipeline-preempt", "TestVerifC05", ["zz_verif_c05_test.go"],
                                      {"quick": {"PAUSE": 1, "DEPTH": 5, "FAULTS": 1, "CALLS": 3}, "thorough": {"PAUSE": 1, "PAUSEHITS": 2, "DEPTH": 6, "FAULTS": 2, "CALLS": 3}}))

SPECS["C18"]["parts"].append(_preempt("transports-preempt", "TestVerifC18", ["zz_verif_c18_test.go", "zz_verif_c14_test.go"],
                                      {"quick": {"PAUSE": 1, "DEPTH": 4, "FAULTS": 1}, "thorough": {"PAUSE": 1, "PAUSEHITS": 2, "DEPTH": 5, "FAULTS": 2}}))

SPECS["C14"]["parts"].append(_preempt("doq-preempt", "TestVerifC14Q", ["zz_verif_c14q_test.go"],
                                      {"quick": {"PAUSE": 1, "DEPTH": 4, "FAULTS": 1}, "thorough": {"PAUSE": 1, "PAUSEHITS": 2, "DEPTH": 6, "FAULTS": 2}}))

# replies of a DoQ / DoH upstream (garbage, half frames, a reflected query ...): no panic, no (nil, nil)
SPECS["C01"]["parts"].append(dict([dict(p) for p in SPECS["C14"]["parts"] if p["name"] == "doq-doh"][0], name="doq-doh-replies"))
SPECS["C01"]["parts"].append(_preempt("pipeline-preempt", "TestVerifC05", ["zz_verif_c05_test.go"],
                                      {"quick": {"PAUSE": 1, "DEPTH": 4, "FAULTS": 1, "CALLS": 2}, "thorough": {"PAUSE": 1, "PAUSEHITS": 2, "DEPTH": 6, "FAULTS": 2, "CALLS": 3}}))

UPSTREAM_SRC = TRANSPORT_SRC + ["internal/upstream/upstream.go"]


def _constructed(pause):
    params = ({"quick": {"PAUSE": 1, "DEPTH": 4, "FAULTS": 1, "SHARDDEPTH": 4}, "thorough": {"PAUSE": 1, "PAUSEHITS": 2, "DEPTH": 6, "FAULTS": 2, "SHARDDEPTH": 4}} if pause else
              {"quick": {"DEPTH": 6, "FAULTS": 2, "SHARDDEPTH": 4}, "thorough": {"DEPTH": 8, "FAULTS": 3, "SHARDDEPTH": 4}})
    return dict(name="constructed-preempt" if pause else "constructed", pkg="internal/upstream", run="TestVerifC16P", go="go1.26", env=E3ENV, gomaxprocs=1, engines=E4ENGINES,
                files=dict(UPSTREAM_COMMON, **{"harness/upstream/zz_verif_c16p_test.go": "internal/upstream/zz_verif_c16p_test.go"}),
                generate=instrument(UPSTREAM_SRC, swap={"internal/upstream/upstream.go": "net=vnet"}), params=params, budget={"quick": 60, "thorough": 600})


for _pid in ("C16", "C18", "C06", "C20"):
    SPECS[_pid]["parts"].append(_constructed(True))
SPECS["C16"]["parts"].append(_constructed(False))
SPECS["C14"]["parts"].append(_constructed(False))

ROUTER_SRC = ["app/router/" + f for f in ("router.go", "cache.go", "context.go", "server_tcp.go", "server_utils.go", "ecs.go", "router_middleware.go")]


def _request_path(pause):
    params = ({"quick": {"PAUSE": 1, "DEPTH": 3, "FAULTS": 0, "SHARDDEPTH": 4, "PAUSEWINDOWS": 5}, "thorough": {"PAUSE": 1, "PAUSEHITS": 2, "DEPTH": 5, "FAULTS": 2, "SHARDDEPTH": 4}} if pause else
              {"quick": {"DEPTH": 4, "FAULTS": 1, "SHARDDEPTH": 4}, "thorough": {"DEPTH": 7, "FAULTS": 2, "SHARDDEPTH": 4}})
    return router_part("request-path-preempt" if pause else "request-path", "TestVerifRP", ["zz_verif_rp_test.go", "zz_verif_c19_test.go", "zz_verif_c03_test.go", "zz_verif_c07_test.go", "zz_verif_c08_test.go"],
                       engines=E4ENGINES, generate=instrument(ROUTER_SRC), params=params, budget={"quick": 60, "thorough": 600})


for _pid in ("C04", "C12", "C20", "C19"):
    SPECS[_pid]["parts"].append(_request_path(True))

# real clients against every listener kind in a child process (C01's part): "later valid queries are still answered" is C03's clause too
SPECS["C03"]["parts"].append(dict([dict(p) for p in SPECS["C01"]["parts"] if p["name"] == "listeners"][0], name="real-listeners"))

# the DoQ listener's accept loop and stream handlers under pause points: overlapping streams of one connection
SPECS["C03"]["parts"].append(router_part("doq-overlap-preempt", "TestVerifC03QuicOverlap", ["zz_verif_c03_test.go"], engines=E4ENGINES,
                                         generate=instrument(["app/router/server_quic.go", "app/router/router.go", "app/router/context.go", "app/router/server_utils.go"]),
                                         params={"quick": {"PAUSE": 1, "PAUSEWINDOWS": 1, "SHARDDEPTH": 4}, "thorough": {"PAUSE": 1, "PAUSEHITS": 3, "PAUSEWINDOWS": 1, "SHARDDEPTH": 4}},
                                         budget={"quick": 60, "thorough": 600}))
SPECS["C04"]["parts"].append(_request_path(False))

# owned selects (DESIGN 9.17) also in the plain E3 explorations of the scenarios that install the select hook: overlay copies that carry
# no pause points, only the rewritten selects
for _pid, _spec in SPECS.items():
    for _part in _spec.get("parts", []):
        if _part.get("run") in ("TestVerifC05", "TestVerifC06", "TestVerifC18") and "generate" not in _part and _part.get("pkg") == "internal/upstream/transport" and "pause" in _part.get("engines", ()):
            _part["generate"] = instrument(TRANSPORT_SRC, selonly=True)

for _pid in ("C18", "C07"):
    SPECS[_pid]["parts"].append(dict(name="redis-api", pkg="internal/cache", run="TestVerifRedisAPI", go="go", engines=("report", "choice"), gomaxprocs=2,
                                     files={"harness/cache/zz_verif_redisapi_test.go": "internal/cache/zz_verif_redisapi_test.go"},
                                     params={"quick": {"MAXLEN": 4}, "thorough": {"MAXLEN": 6}}, budget={"quick": 120, "thorough": 600}))

# the router's own loading of domain-set files (app/router/domain_set.go, rule.go) sits between the files and the matcher
SPECS["C11"]["parts"].append(dict([dict(p) for p in SPECS["C10"]["parts"] if p["name"] == "rules"][0], name="router-sets",
                                  params={"quick": {"MAXLEN": 1}, "thorough": {"MAXLEN": 2}}, budget={"quick": 60, "thorough": 300}))

SPECS["C15"]["parts"].append(router_part("http-accept", "TestVerifC15HTTPAccept", ["zz_verif_c15http_test.go", "zz_verif_c03_test.go"], shards=1, gomaxprocs=4, budget={"quick": 120, "thorough": 120}))
# the regexp matcher is shared by every request goroutine: its free-running race pass also decides C20 for that object
SPECS["C20"]["parts"].append([dict(p) for p in SPECS["C11"]["parts"] if p["name"] == "concurrent-match"][0])

# the router's own handling of upstream entries (initUpstream) in front of NewUpstream: where does each configured upstream dial?
SPECS["C17"]["parts"].append(dict(name="router-dial", pkg="app/router", run="TestVerifC17RouterDial", go="go1.26", engines=("report", "refdns", "env", "sched", "choice", "pause", "psync", "vnet"), shards=4, gomaxprocs=4,
                                  files={"harness/router/zz_verif_c17dial_test.go": "app/router/zz_verif_c17dial_test.go", "harness/router/zz_verif_c17_test.go": "app/router/zz_verif_c17_test.go"},
                                  generate=instrument(["internal/upstream/upstream.go"], swap={"internal/upstream/upstream.go": "net=vnet"}, selonly=True),
                                  budget={"quick": 120, "thorough": 120}))
SPECS["C17"]["parts"].append(router_part("unix", "TestVerifC17Unix", ["zz_verif_c17unix_test.go", "zz_verif_c03_test.go"], shards=1, gomaxprocs=4, budget={"quick": 120, "thorough": 120}))

for _pid in ("C15", "C20"):
    SPECS[_pid]["parts"].append(dict(name="limiter-race", pkg="internal/limiter", run="TestVerifC15Race", race=True, shards=1, gomaxprocs=4, engines=("choice", "report"),
                                     files={"harness/limiter/zz_verif_c15race_test.go": "internal/limiter/zz_verif_c15race_test.go"},
                                     params={"quick": {"ROUNDS": 2000}, "thorough": {"ROUNDS": 50000}}))

# "a response within the request deadline, from the address the query went to" leans on two things other properties explore: the upstream
# transports honouring the exchange deadline (C14's fault enumeration) and the UDP listener's reply source (C15's multi-route part)
SPECS["C03"]["parts"].append([dict(p) for p in SPECS["C14"]["parts"] if p["name"] == "stream"][0])
SPECS["C03"]["parts"].append([dict(p) for p in SPECS["C15"]["parts"] if p["name"] == "udp-multi-route"][0])

SPECS["C03"]["parts"].append(router_part("query-sizes", "TestVerifC03Sizes", ["zz_verif_c03sizes_test.go", "zz_verif_c03_test.go"],
                                         params={"quick": {"SIZELO": 1000, "SIZEHI": 1040}, "thorough": {"SIZELO": 12, "SIZEHI": 4200}}, budget={"quick": 60, "thorough": 600}))

# what one DoH reply leaves behind in pooled buffers must not become (part of) the next exchange's answer
SPECS["C04"]["parts"].append([dict(p) for p in SPECS["C01"]["parts"] if p["name"] == "doh-replies"][0])

# a query that a stream listener refuses for a wrong reason (a per-connection in-flight count that never comes back) gets REFUSED where
# C03 promises an answer: C13's framing exploration (limits, second batch on the same connection) decides that clause
SPECS["C03"]["parts"].append([dict(p) for p in SPECS["C13"]["parts"] if p["name"] == "framing"][0])
# ... and a query refused although its subnet's bucket is full (admission seams, recovery history)
SPECS["C03"]["parts"].append([dict(p) for p in SPECS["C15"]["parts"] if p["name"] == "seams"][0])

# C01 ("no input crashes the proxy") also covers inputs that are valid DNS but hit a size / depth boundary of the code behind the
# decoder: the frame-size sweep of C03 and the label-depth / octet sweeps of C11 (a panic there kills the process all the same)
SPECS["C01"]["parts"].append([dict(p) for p in SPECS["C03"]["parts"] if p["name"] == "query-sizes"][0])
SPECS["C01"]["parts"].append([dict(p) for p in SPECS["C11"]["parts"] if p["name"] == "matcher"][0])
# ... and valid but unusual queries (root name, 255-octet names, odd octets, every opcode / flag) through every listener seam
SPECS["C01"]["parts"].append([dict(p) for p in SPECS["C03"]["parts"] if p["name"] == "router"][0])
# ... and ordinary queries over the UDP listener variants whose reply path builds control messages (multi_routes, dual-stack wildcard)
SPECS["C01"]["parts"].append([dict(p) for p in SPECS["C15"]["parts"] if p["name"] == "udp-multi-route"][0])

SPECS["C03"]["parts"].append(dict(name="redis-hung", pkg="app/router", run="TestVerifC03RedisHung", go="go", engines=("report", "refdns", "env", "sched", "choice"), shards=1, gomaxprocs=4,
                                  files={"harness/router/zz_verif_redis_test.go": "app/router/zz_verif_redis_test.go", "harness/router/zz_verif_c03redis_test.go": "app/router/zz_verif_c03redis_test.go"},
                                  budget={"quick": 120, "thorough": 120}))

SPECS["C03"]["parts"].append(dict(name="many-in-flight", pkg="app/router", run="TestVerifC03ManyInFlight", go="go1.26", env=E3ENV, engines=E3ENGINES, shards=1, gomaxprocs=8,
                                  files=dict(ROUTER_COMMON, **{"harness/router/zz_verif_c03many_test.go": "app/router/zz_verif_c03many_test.go"}),
                                  params={"quick": {"INFLIGHT": 4600}, "thorough": {"INFLIGHT": 12000}}, budget={"quick": 120, "thorough": 120}))

for _pid in ("C01", "C04", "C05", "C06", "C12", "C16", "C18", "C20"):
    if "E4" not in SPECS[_pid].get("technique", ""):
        SPECS[_pid]["technique"] = SPECS[_pid].get("technique", "") + " + E4: the same exploration on overlay copies whose every statement boundary is a pause point (one goroutine held between two statements while further events are applied; preemption bound 1) and whose blocking selects with several ready cases are choice points too (first ready case by default, any other as one deviation per execution)"
        SPECS[_pid]["engine"] = SPECS[_pid].get("engine", "") + " + E4 pause points"

# --------------------------------------------------------------------------------------------
# Properties not (yet) claimed. Kept current: every property without a SPECS entry must be here.
NOT_APPLICABLE = {
}

TITLES = {}


def manifest():
    import json, os
    here = os.path.dirname(os.path.abspath(__file__))
    props = [json.loads(l) for l in open(os.path.join(here, "properties.jsonl"))]
    checks = []
    na = []
    for p in props:
        pid = p["id"]
        if pid in SPECS:
            s = SPECS[pid]
            checks.append({
                "property_id": pid,
                "quick_cmd": "./check %s --tier quick" % pid,
                "thorough_cmd": "./check %s --tier thorough" % pid,
                "evidence_file": "/verif/evidence/%s.json" % pid,
                "replay_cmd_template": "./check %s --replay {path}" % pid,
                "engine": s.get("engine", "E1 enum"),
                "level_claimed": {"category": s.get("level", "model_checking"), "text": s["claim"], "design_ref": "DESIGN.md §3 " + pid},
                "level_note": s["trusted"],
                "technique": s["technique"],
            })
        else:
            na.append({"property_id": pid, "reason": NOT_APPLICABLE.get(pid, "check not built yet in this session; no claim is made")})
    return {
        "version": 1,
        "setup_cmd": "./setup.sh",
        "hooks": {
            "guard": "verif",
            "enable": "go test -c -tags verif -overlay <generated overlay.json> (harness sources are injected as virtual files; /repo is never written)",
            "baseline_off_cmd": "cd /repo && GOFLAGS=-mod=mod GOPROXY=off GOSUMDB=off go test -json -vet=off -count=1 -timeout 25m ./...",
            "source_commits": ["edb61b3"],
            "add_only": True,
        },
        "engines": [
            {"name": "E1 enum", "path": "engine/choice, engine/report, harness/*", "kind_free_text": "sequential small-scope exhaustive enumeration of inputs / configurations / operation sequences against reference models"},
            {"name": "E2 sched", "path": "engine/sched", "kind_free_text": "controlled cooperative scheduler: all interleavings at lock/pool/timer operations up to a preemption bound"},
            {"name": "E3 evx", "path": "engine/env", "kind_free_text": "environment-event explorer in a testing/synctest bubble (virtual time): all orders of client/peer/fault/time events up to depth and fault bounds"},
            {"name": "E4 pause points + owned selects", "path": "tools_instr, engine/pause, engine/psync, engine/vnet", "kind_free_text": "inside E3: overlay copies of the implementation files with a pause point before every statement (one goroutine held between two statements while further events are applied, preemption bound 1) and with every blocking multi-case receive select turned into a choice point over its ready cases"},
        ],
        "checks": checks,
        "not_applicable": na,
        "notes": "All checks are bounded exhaustive explorations of the real implementation (no hand model). See DESIGN.md.",
    }


if __name__ == "__main__":
    import json
    print(json.dumps(manifest(), indent=1))
