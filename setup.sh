#!/bin/sh
# Warm the Go build caches (normal and -race, both toolchains) by building every harness once.
cd "$(dirname "$0")" && exec python3 ./check --build-only all
