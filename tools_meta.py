#!/usr/bin/env python3
"""usage: tools_meta.py <seed-name> "<caught by text>"  -- records that a check was strengthened for this seed"""
import json, sys
p = "/verif/seeded/%s/meta.json" % sys.argv[1]
m = json.load(open(p))
m["caught_by"] = [sys.argv[2]]
m["caught"] = True
m["check_strengthened_for_this_seed"] = True
json.dump(m, open(p, "w"), indent=1)
print("ok", sys.argv[1])
