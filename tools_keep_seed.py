#!/usr/bin/env python3
"""Verify a seeded change in its scratch worktree and keep it under /verif/seeded/<name>/.

usage: tools_keep_seed.py <name> <prop> <worktree> <seeddir> <demo_src>:<demo_dst_rel>[,...] <go test args for the demo...>
Checks: patch applies; go build ./...; full test suite passes with the patch (flaky Test_ReuseConnTransport ignored);
demo fails with the patch and passes without.  Writes patch.diff, demo files, meta.json.
"""
import json, os, shutil, subprocess, sys
name, prop, wt, seed, demos = sys.argv[1:6]
demo_args = sys.argv[6:]
env = dict(os.environ, GOPROXY="off", GOSUMDB="off", GOFLAGS="-mod=mod", GOTOOLCHAIN="local")
def run(cmd, **kw):
    r = subprocess.run(cmd, cwd=wt, env=env, capture_output=True, text=True, timeout=1200, **kw)
    return r.returncode, (r.stdout + r.stderr)[-3000:]
def clean():
    run(["git", "checkout", "--", "."])
    for d in placed:
        try: os.remove(d)
        except FileNotFoundError: pass
placed = []
patch = os.path.join(seed, "patch.diff")
clean()
rc, out = run(["git", "apply", "--check", patch]); assert rc == 0, "patch does not apply: " + out
pairs = [p.split(":") for p in demos.split(",")]
def place():
    for src, dst in pairs:
        d = os.path.join(wt, dst); shutil.copy(os.path.join(seed, src), d); placed.append(d)
res = {}
# with the change
run(["git", "apply", patch])
rc, out = run(["go", "build", "./..."]); res["build_with_change"] = rc
rc, out = run(["go", "test", "-vet=off", "-count=1", "./..."])
fails = [l for l in out.splitlines() if l.startswith("--- FAIL")]
res["suite_with_change"] = "pass" if rc == 0 or all("Test_ReuseConnTransport" in f for f in fails) and fails else ("FAIL: " + out[-800:])
if rc != 0 and not fails: res["suite_with_change"] = "FAIL: " + out[-800:]
place()
rc, out = run(["go", "test", "-vet=off", "-count=1"] + demo_args); res["demo_with_change"] = "fails" if rc != 0 else "PASSES (bad)"
res["demo_with_change_tail"] = out[-600:]
clean(); placed.clear()
place()
rc, out = run(["go", "test", "-vet=off", "-count=1"] + demo_args); res["demo_without_change"] = "passes" if rc == 0 else "FAILS (bad): " + out[-600:]
clean()
print(json.dumps(res, indent=1))
ok = res["build_with_change"] == 0 and res["suite_with_change"] == "pass" and res["demo_with_change"] == "fails" and res["demo_without_change"] == "passes"
if not ok:
    print("NOT KEPT"); sys.exit(1)
dst = os.path.join("/verif/seeded", name); os.makedirs(dst, exist_ok=True)
shutil.copy(patch, os.path.join(dst, "patch.diff"))
for src, d in pairs:
    shutil.copy(os.path.join(seed, src), os.path.join(dst, os.path.basename(d) + ".demo"))
if os.path.exists(os.path.join(seed, "README.md")):
    shutil.copy(os.path.join(seed, "README.md"), os.path.join(dst, "README.agent.md"))
meta = {"property": prop, "name": name, "demo_placement": {os.path.basename(d) + ".demo": d for _, d in pairs},
        "demo_command": "go test -vet=off -count=1 " + " ".join(demo_args),
        "verified": res, "needs_to_manifest": "", "caught_by": [], "source": "independent sub-agent given only the property text and a scratch worktree"}
json.dump(meta, open(os.path.join(dst, "meta.json"), "w"), indent=1)
print("KEPT", dst)
